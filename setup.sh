#!/bin/sh
# Run once after a fresh restore, offline: builds the Coq development, the extracted model driver and
# the C++ drivers from files on disk only.  Every check re-validates these against /repo's current tree.
cd "$(dirname "$0")" || exit 1
ulimit -s unlimited 2>/dev/null
python3 tools/translate.py >/dev/null || echo "translate failed (checks will report it)"
tools/mkcoqproject.sh
( cd coq && timeout 3000 make -k -j16 >/dev/null 2>&1 )
python3 - <<'PY'
import sys
sys.path.insert(0, "tools")
import vlib
print("model:", vlib.build_model())
for name in ("puredrv", "lugdrv"):
    import os
    if os.path.exists(os.path.join("cpp", name + ".cpp")):
        print(name, vlib.build_cpp(name))
PY
exit 0
