// Implementation side of the correspondence for grammars: builds lug grammars at run time from
// s-expressions (through lug's real operators, see DESIGN.md 2.2), dumps the linked program, runs
// inputs under several source kinds with a per-instruction hook (step budget + trace hash), and
// prints one canonical line per case/run.  Built from /repo's working tree with
//   g++ -std=c++17 -DLUG_VERIF -fno-access-control
#include <lug/lug.hpp>
#include <lug/iostream.hpp>
#include <cstdio>
#include <deque>
#include <iostream>
#include <map>
#include <sstream>
#include <variant>
#include <list>
#include <thread>
#include <mutex>
#include <unistd.h>
#include <sys/wait.h>

using namespace lug;
using namespace lug::language;

struct dyn_expr : terminal_encoder_expression_interface<dyn_expr> {
	std::shared_ptr<std::function<void(encoder&)>> f;
	template <class M> auto evaluate(encoder& d, M const& m) const -> M const& { (*f)(d); return m; }
};
template <class E> static dyn_expr mk(E e) { dyn_expr r; r.f = std::make_shared<std::function<void(encoder&)>>([e](encoder& d) { (void)e.evaluate(d, encoder_metadata{}); }); return r; }
using dir_expr = directive_expression<dyn_expr>;
using node = std::variant<dyn_expr, dir_expr>;
template <class F> static node un(node const& a, F f) { return std::visit([&](auto const& x) -> node { auto r = f(x); if constexpr (std::is_same_v<decltype(r), dir_expr>) return r; else return mk(r); }, a); }
template <class F> static node bin(node const& a, node const& b, F f) { return std::visit([&](auto const& x, auto const& y) -> node { return mk(f(x, y)); }, a, b); }

struct sx { std::string atom; std::vector<sx> kids; bool is_atom() const { return kids.empty() && !atom.empty(); } };
static sx parse_sx(std::istream& in)
{
	sx r; int c;
	while ((c = in.get()) != EOF && isspace(c)) {}
	if (c == '(') {
		for (;;) {
			while ((c = in.peek()) != EOF && isspace(c)) in.get();
			if (c == ')') { in.get(); break; }
			if (c == EOF) break;
			r.kids.push_back(parse_sx(in));
		}
		if (r.kids.empty()) r.atom = "()";
		return r;
	}
	std::string a; a.push_back(static_cast<char>(c));
	while ((c = in.peek()) != EOF && !isspace(c) && c != '(' && c != ')') a.push_back(static_cast<char>(in.get()));
	r.atom = a;
	return r;
}
static std::string unhex(std::string const& h) { std::string s; if (h == "-") return s; for (size_t i = 0; i + 1 < h.size(); i += 2) s.push_back(static_cast<char>(std::stoi(h.substr(i, 2), nullptr, 16))); return s; }
static std::string hex(std::string_view s) { static char const* d = "0123456789abcdef"; std::string r; if (s.empty()) return "-"; for (unsigned char c : s) { r.push_back(d[c >> 4]); r.push_back(d[c & 15]); } return r; }

// callbacks log into the current thread's log; an exception can be injected at the k-th callback invocation
static thread_local std::vector<std::string>* g_log = nullptr;
static thread_local long g_throw_at = -1;          // >= 0: throw when this many callbacks have run
static thread_local long g_callbacks = 0;
static thread_local std::function<void()>* g_nested = nullptr;   // called from the first action (re-entrancy probe)
struct injected_error : std::runtime_error { injected_error() : std::runtime_error("injected") {} };
static void on_callback()
{
	if (g_nested != nullptr && g_callbacks == 0) { ++g_callbacks; (*g_nested)(); return; }
	if (g_throw_at >= 0 && g_callbacks == g_throw_at) { ++g_callbacks; throw injected_error{}; }
	++g_callbacks;
}

struct builder {
	std::map<std::string, rule> rules;   // stable addresses
	std::deque<std::string> strings;     // storage for string_views
	std::vector<std::string>* log;
	std::string_view keep(std::string s) { strings.push_back(std::move(s)); return std::string_view{strings.back()}; }
	node build(sx const& s)
	{
		auto const& op = s.kids.at(0).atom;
		auto arg = [&](size_t i) -> sx const& { return s.kids.at(i); };
		if (op == "chr" || op == "str") { std::string t = unhex(arg(1).atom); if (op == "chr" && t.size() == 1) return mk(chr(t[0])); return mk(str(keep(t))); }
		if (op == "bre") return mk(bre(keep(unhex(arg(1).atom))));
		if (op == "any") return mk(any);
		if (op == "eps") return mk(eps);
		if (op == "nop") return mk(nop);
		if (op == "eoi") return mk(eoi);
		if (op == "eol") return mk(eol);
		if (op == "cut") return mk(cut);
		if (op == "accept") return mk(accept);
		if (op == "cls") { // (cls any|all|none c|p|g MASK)
			auto const& k = arg(1).atom; auto const& e = arg(2).atom; unsigned long long m = std::stoull(arg(3).atom);
			auto pick = [&](auto prop) -> node { if (k == "any") return mk(any(prop)); if (k == "all") return mk(all(prop)); return mk(none(prop)); };
			if (e == "c") return pick(static_cast<ctype>(m));
			if (e == "p") return pick(static_cast<ptype>(m));
			return pick(static_cast<gctype>(m));
		}
		if (op == "rng") return mk(chr(static_cast<char32_t>(std::stoul(arg(1).atom)), static_cast<char32_t>(std::stoul(arg(2).atom))));
		if (op == "ref") return mk(make_expression(rules[arg(1).atom]));
		if (op == "prec") return mk(rules[arg(1).atom][static_cast<std::uint_least16_t>(std::stoul(arg(2).atom))]);
		if (op == "seq") return bin(build(arg(1)), build(arg(2)), [](auto const& x, auto const& y) { return x > y; });
		if (op == "alt") return bin(build(arg(1)), build(arg(2)), [](auto const& x, auto const& y) { return x | y; });
		if (op == "list") return bin(build(arg(1)), build(arg(2)), [](auto const& x, auto const& y) { return x >> y; });
		if (op == "star") return un(build(arg(1)), [](auto const& x) { return *x; });
		if (op == "plus") return un(build(arg(1)), [](auto const& x) { return +x; });
		if (op == "opt") return un(build(arg(1)), [](auto const& x) { return ~x; });
		if (op == "not") return un(build(arg(1)), [](auto const& x) { return !x; });
		if (op == "and") return un(build(arg(1)), [](auto const& x) { return &x; });
		if (op == "lexeme") return un(build(arg(1)), [](auto const& x) { return lexeme[x]; });
		if (op == "noskip") return un(build(arg(1)), [](auto const& x) { return noskip[x]; });
		if (op == "skip") return un(build(arg(1)), [](auto const& x) { return skip[x]; });
		if (op == "caseless") return un(build(arg(1)), [](auto const& x) { return caseless[x]; });
		if (op == "cased") return un(build(arg(1)), [](auto const& x) { return cased[x]; });
		if (op == "cutb") return un(build(arg(1)), [](auto const& x) { return --x; });
		if (op == "cuta") return un(build(arg(1)), [](auto const& x) { return x--; });
		if (op == "rep") { unsigned n = static_cast<unsigned>(std::stoul(arg(1).atom)), m = static_cast<unsigned>(std::stoul(arg(2).atom)); return un(build(arg(3)), [n, m](auto const& x) { return repeat(n, m)[x]; }); }
		if (op == "act") { std::string id = arg(1).atom; return un(build(arg(2)), [id](auto const& x) { return x < [id](environment& e) { g_log->push_back("A" + id + "@" + std::to_string(e.call_depth())); on_callback(); }; }); }
		if (op == "cap") { std::string id = arg(1).atom; return un(build(arg(2)), [id](auto const& x) { return x < [id](environment& e, syntax const& sx) { g_log->push_back("C" + id + "@" + std::to_string(e.call_depth()) + "(" + std::to_string(sx.index()) + "," + hex(sx.str()) + ")"); on_callback(); }; }); }
		if (op == "sym") { auto nm = keep(arg(1).atom); return un(build(arg(2)), [nm](auto const& x) { return symbol(nm)[x]; }); }
		if (op == "block") return un(build(arg(1)), [](auto const& x) { return block[x]; });
		if (op == "local") return un(build(arg(1)), [](auto const& x) { return local[x]; });
		if (op == "localto") { auto nm = keep(arg(1).atom); return un(build(arg(2)), [nm](auto const& x) { return local(nm)[x]; }); }
		if (op == "on") { auto nm = keep(arg(1).atom); return un(build(arg(2)), [nm](auto const& x) { return on(nm)[x]; }); }
		if (op == "off") { auto nm = keep(arg(1).atom); return un(build(arg(2)), [nm](auto const& x) { return off(nm)[x]; }); }
		if (op == "when") return mk(when(keep(arg(1).atom)));
		if (op == "unless") return mk(unless(keep(arg(1).atom)));
		if (op == "exists") return mk(exists(keep(arg(1).atom)));
		if (op == "missing") return mk(missing(keep(arg(1).atom)));
		if (op == "match") return mk(match(keep(arg(1).atom)));
		if (op == "match_all") return mk(match_all(keep(arg(1).atom)));
		if (op == "match_any") return mk(match_any(keep(arg(1).atom)));
		if (op == "match_front") return mk(match_front(keep(arg(1).atom), std::stoul(arg(2).atom)));
		if (op == "match_back") return mk(match_back(keep(arg(1).atom), std::stoul(arg(2).atom)));
		if (op == "expect" || op == "raise" || op == "recwith") {
			// (expect e LABEL [rec]) (raise LABEL [rec]) (recwith rec e); rec = (ref R) -> rule recovery, otherwise expression recovery
			std::string_view lab = keep(op == "expect" ? arg(2).atom : (op == "raise" ? arg(1).atom : std::string{}));
			size_t ri = (op == "expect") ? 3 : (op == "raise" ? 2 : 1);
			bool has_rec = (op == "recwith") || (s.kids.size() > ri);
			if (op == "raise") {
				if (!has_rec) return mk(lug::language::raise(lab));
				if (arg(ri).kids.at(0).atom == "ref") return mk(lug::language::raise(lab, rules[arg(ri).kids.at(1).atom]));
				return std::visit([&](auto const& r) -> node { return mk(lug::language::raise(lab, r)); }, build(arg(ri)));
			}
			if (op == "expect") {
				node e = build(arg(1));
				if (!has_rec) return un(e, [lab](auto const& x) { return x[failure{lab}]; });
				if (arg(ri).kids.at(0).atom == "ref") { rule& rr = rules[arg(ri).kids.at(1).atom]; return un(e, [lab, &rr](auto const& x) { return x[failure{lab, rr}]; }); }
				node r = build(arg(ri));
				return std::visit([&](auto const& x, auto const& rx) -> node { return mk(x[failure{lab, rx}]); }, e, r);
			}
			node e = build(arg(2));
			if (arg(1).kids.at(0).atom == "ref") { rule& rr = rules[arg(1).kids.at(1).atom]; return un(e, [&rr](auto const& x) { return x[recover_with{rr}]; }); }
			node r = build(arg(1));
			return std::visit([&](auto const& x, auto const& rx) -> node { return mk(x[recover_with{rx}]); }, e, r);
		}
		if (op == "report") { // (report ID RESP e): handler logs and returns RESP (0..4); RESP 9 = void handler
			std::string id = arg(1).atom; int resp = std::stoi(arg(2).atom);
			return un(build(arg(3)), [id, resp](auto const& x) { return x ^= [id, resp](error_context& c) -> error_response {
				g_log->push_back("H" + id + "." + std::to_string(resp) + "(" + hex(c.label()) + "," + std::to_string(c.syntax().index()) + "," + std::to_string(c.syntax().size()) + "," + std::to_string(static_cast<int>(c.recovery_response())) + ")");
				on_callback();
				return resp == 9 ? c.recovery_response() : static_cast<error_response>(resp); }; });
		}
		if (op == "respond") { int resp = std::stoi(arg(1).atom); return un(build(arg(2)), [resp](auto const& x) { return x ^ static_cast<error_response>(resp); }); }
		if (op == "pred") { // (pred ID k): true iff (|match| + k) even; logs
			std::string id = arg(1).atom; int k = std::stoi(arg(2).atom);
			return mk(make_expression([id, k](environment& e) -> bool { g_log->push_back("P" + id + "." + std::to_string(k) + "@" + std::to_string(e.match().size())); on_callback(); return ((e.match().size() + static_cast<size_t>(k)) % 2) == 0; }));
		}
		throw std::runtime_error("unknown op " + op);
	}
};

static void dump_program(program const& p)
{
	for (auto const& i : p.instructions) {
		long off = static_cast<long>(i.offset32);
		if (i.op == opcode::symbol_push && i.immediate8 != 1) off = 0;   // canonicalised: see Lang/Lower.v
		std::printf("%d.%d.%d.%ld ", static_cast<int>(i.op), static_cast<int>(i.immediate8), static_cast<int>(i.immediate16), off);
	}
	std::printf("| data=%s uni=", hex(std::string_view{p.data.data(), p.data.size()}).c_str());
	for (auto u : p.uniforms) std::printf("%llu,", static_cast<unsigned long long>(u));
	std::printf(" rs=");
	for (auto const& rs : p.runesets) {
		for (int w = 0; w < 4; ++w) { unsigned long v = 0; for (int b = 0; b < 32; ++b) if (rs.ascii[static_cast<std::size_t>(w * 32 + b)]) v |= (1UL << b); std::printf("%08lx", v); }
		std::printf(":");
		for (auto const& iv : rs.intervals) std::printf("%u-%u,", static_cast<unsigned>(iv.first), static_cast<unsigned>(iv.second));
		std::printf(";");
	}
	std::printf(" nh=%zu np=%zu na=%zu nc=%zu", p.handlers.size(), p.predicates.size(), p.actions.size(), p.captures.size());
}

// ---- per-instruction hook: step budget + trace hash
struct budget_exceeded {};
static thread_local std::size_t g_steps = 0;
static thread_local std::size_t g_budget = 0;
static thread_local unsigned long long g_hash = 0;
static thread_local bool g_trace = false;
static thread_local bool g_in_run = false;
static thread_local std::string g_raises;   // one letter per executed raise instruction: R = outside predicates, I = inhibited (inside & or !)   // the hook also fires while lug parses a bre pattern at grammar construction: not counted
static void step_hook(parser_base& p, std::size_t instr_index)
{
	if (!g_in_run) return;
	if (g_steps >= g_budget) throw budget_exceeded{};
	++g_steps;
	auto const& r = p.registers_;
	if (p.program_->instructions[instr_index].op == opcode::raise)
		g_raises.push_back((r.ri & registers::inhibited_flag) != 0 ? 'I' : 'R');
	unsigned long long const vals[8] = { instr_index, r.sr, r.mr, r.rc, r.cd, r.ci & registers::count_mask, p.stack_frames_.size(), p.responses_.size() };
	for (auto v : vals) g_hash = ((g_hash * 33ULL) ^ (v & 0xffffffffULL)) & 0x3fffffffffffffULL;
	if (g_trace) std::printf("  step %zu pc=%zu sr=%zu mr=%zu rc=%zu cd=%zu ci=%zu fr=%zu resp=%zu\n", g_steps, instr_index, r.sr, r.mr, r.rc, r.cd, r.ci & registers::count_mask, p.stack_frames_.size(), p.responses_.size());
}

template <class Parser>
static void finish_run(int caseno, std::string const& tag, std::string const& inhex, char const* res, Parser& p, environment& e, std::vector<std::string> const& log)
{
	std::printf("case %d run %s %s res=%s sr=%zu mr=%zu steps=%zu trace=%llx log=", caseno, tag.c_str(), inhex.c_str(), res, p.subject_index(), p.max_subject_index(), g_steps, g_hash);
	for (auto const& l : log) std::printf("%s ", l.c_str());
	std::vector<std::string> cs; for (auto const& c : e.conditions_) cs.emplace_back(c);
	std::sort(cs.begin(), cs.end());
	std::printf("conds=");
	for (auto const& c : cs) std::printf("%s,", c.c_str());
	std::vector<std::string> ss;
	for (auto const& kv : e.symbols_) { std::string t{kv.first}; t += "="; for (auto const& v : kv.second) { t += hex(v); t += "/"; } ss.push_back(t); }
	std::sort(ss.begin(), ss.end());
	std::printf(" syms=");
	for (auto const& t : ss) std::printf("%s,", t.c_str());
	std::printf(" raises=%s\n", g_raises.c_str());
}

// context for the terminate handler (a noexcept function threw: the process would be aborted)
static int g_caseno = 0;
static std::string g_tag, g_inhex;
static bool g_in_child = false;
static void on_terminate()
{
	std::printf("case %d run %s %s res=terminate steps=%zu\n", g_caseno, g_tag.c_str(), g_inhex.c_str(), g_steps);
	std::fflush(stdout);
	_exit(g_in_child ? 0 : 3);
}

template <class Parser, class Feed>
static void run_one_inproc(int caseno, std::string const& tag, std::string const& inhex, grammar const& gr, std::vector<std::string>& log, Feed feed);

static bool g_fork = true;
// every run happens in a forked child so that a crash (std::terminate, sanitizer abort) costs one line, not the batch
template <class Parser, class Feed>
static void run_one(int caseno, std::string const& tag, std::string const& inhex, grammar const& gr, std::vector<std::string>& log, Feed feed)
{
	g_caseno = caseno; g_tag = tag; g_inhex = inhex;
	if (!g_fork) { run_one_inproc<Parser>(caseno, tag, inhex, gr, log, feed); return; }
	std::fflush(stdout);
	pid_t const pid = fork();
	if (pid == 0) {
		g_in_child = true;
		run_one_inproc<Parser>(caseno, tag, inhex, gr, log, feed);
		std::fflush(stdout);
		_exit(0);
	}
	int st = 0;
	waitpid(pid, &st, 0);
	if (WIFSIGNALED(st) || (WIFEXITED(st) && WEXITSTATUS(st) != 0)) {
		std::printf("case %d run %s %s res=crashed status=%d\n", caseno, tag.c_str(), inhex.c_str(), WIFSIGNALED(st) ? 1000 + WTERMSIG(st) : WEXITSTATUS(st));
		std::fflush(stdout);
	}
}

template <class Parser, class Feed>
static void run_one_inproc(int caseno, std::string const& tag, std::string const& inhex, grammar const& gr, std::vector<std::string>& log, Feed feed)
{
	log.clear();
	g_log = &log; g_callbacks = 0;
	environment e;
	Parser p{gr, e};
	g_steps = 0; g_hash = 0; g_raises.clear();
	char const* res = "?";
	std::string resbuf;
	try {
		feed(p);
		g_in_run = true;
		res = p.parse() ? "1" : "0";
		g_in_run = false;
	} catch (budget_exceeded const&) {
		g_in_run = false;
		res = "diverged";
	} catch (lug_error const& ex) {
		g_in_run = false;
		resbuf = std::string("throw:") + ex.what(); for (auto& c : resbuf) if (c == ' ') c = '_'; res = resbuf.c_str();
	} catch (std::exception const& ex) {
		g_in_run = false;
		resbuf = std::string("throw:std:") + typeid(ex).name(); res = resbuf.c_str();
	}
	finish_run(caseno, tag, inhex, res, p, e, log);
}


// ---- one parse on an existing parser/environment (histories, interactive lines)
template <class Parser>
static std::string parse_once(Parser& p)
{
	g_steps = 0; g_hash = 0; g_raises.clear();
	std::string res;
	try {
		g_in_run = true;
		res = p.parse() ? "1" : "0";
		g_in_run = false;
	} catch (budget_exceeded const&) { g_in_run = false; res = "diverged";
	} catch (injected_error const&) { g_in_run = false; res = "throw:injected";
	} catch (lug_error const& ex) { g_in_run = false; res = std::string("throw:") + ex.what(); for (auto& c : res) if (c == ' ') c = '_';
	} catch (std::exception const& ex) { g_in_run = false; res = std::string("throw:std:") + typeid(ex).name(); }
	return res;
}

static void copy_user_state(environment const& from, environment& to)
{
	to.conditions_ = from.conditions_;
	to.symbols_ = from.symbols_;
	to.origin_ = from.origin_;
	to.tab_width_ = from.tab_width_;
	to.tab_alignment_ = from.tab_alignment_;
}

// (history (p HEX) (px HEX K) (pn HEX) ...): parses on ONE parser and environment; after each step the same
// input (unread leftover + newly enqueued bytes) is parsed by a fresh parser and environment that were given
// the user-managed state (conditions, symbols, origin, tab settings) the reused environment had before the step.
static void run_history(int caseno, grammar const& gr, sx const& h, std::vector<std::string>& log)
{
	std::fflush(stdout);
	pid_t const pid = fork();
	if (pid != 0) { int st = 0; waitpid(pid, &st, 0); if (WIFSIGNALED(st) || (WIFEXITED(st) && WEXITSTATUS(st) != 0)) { std::printf("case %d run hist crashed status=%d\n", caseno, WIFSIGNALED(st) ? 1000 + WTERMSIG(st) : WEXITSTATUS(st)); std::fflush(stdout); } return; }
	g_in_child = true; g_caseno = caseno; g_tag = "hist"; g_inhex = "-";
	g_log = &log;
	environment e;
	parser p{gr, e};
	for (size_t k = 1; k < h.kids.size(); ++k) {
		auto const& step = h.kids[k];
		std::string const kind = step.kids.at(0).atom;
		std::string const inhex = step.kids.size() > 1 ? step.kids[1].atom : "-";
		std::string const inp = unhex(inhex);
		// what a fresh parser would be given
		std::string leftover{p.input_source_.buffer().substr((std::min)(p.registers_.sr, p.input_source_.buffer().size()))};
		environment fe; copy_user_state(e, fe);
		log.clear(); g_callbacks = 0; g_throw_at = -1; g_nested = nullptr;
		std::function<void()> nested = [&p]() { try { (void)p.parse(); g_log->push_back("NESTED:returned"); } catch (lug_error const& ex) { std::string w = ex.what(); for (auto& c : w) if (c == ' ') c = '_'; g_log->push_back("NESTED:" + w); } };
		if (kind == "px") g_throw_at = std::stol(step.kids.at(2).atom);
		if (kind == "pn") g_nested = &nested;
		std::string tag = "h" + std::to_string(k) + kind;
		g_tag = tag; g_inhex = inhex;
		p.enqueue(inp.begin(), inp.end());
		std::string res = parse_once(p);
		g_throw_at = -1; g_nested = nullptr;
		finish_run(caseno, tag, inhex, res.c_str(), p, e, log);
		// reference: fresh parser + fresh environment, same input, same user-managed state
		std::vector<std::string> flog; g_log = &flog; g_callbacks = 0;
		if (kind == "px") g_throw_at = std::stol(step.kids.at(2).atom);
		parser fp{gr, fe};
		std::string all = leftover + inp;
		fp.enqueue(all.begin(), all.end());
		std::string fres = (kind == "pn") ? std::string("skipped") : parse_once(fp);
		g_throw_at = -1;
		finish_run(caseno, "f" + std::to_string(k) + kind, inhex, fres.c_str(), fp, fe, flog);
		g_log = &log;
	}
	std::fflush(stdout);
	_exit(0);
}

// (lines HEX HEX ...): an interactive source delivering one line per call; parse() is called until the source is dry
static void run_lines(int caseno, grammar const& gr, sx const& h, std::vector<std::string>& log)
{
	std::fflush(stdout);
	pid_t const pid = fork();
	if (pid != 0) { int st = 0; waitpid(pid, &st, 0); if (WIFSIGNALED(st) || (WIFEXITED(st) && WEXITSTATUS(st) != 0)) { std::printf("case %d run lines crashed status=%d\n", caseno, WIFSIGNALED(st) ? 1000 + WTERMSIG(st) : WEXITSTATUS(st)); std::fflush(stdout); } return; }
	g_in_child = true; g_caseno = caseno; g_tag = "lines"; g_inhex = "-";
	g_log = &log;
	std::vector<std::string> pieces;
	for (size_t j = 1; j < h.kids.size(); ++j) pieces.push_back(unhex(h.kids[j].atom));
	auto idx = std::make_shared<size_t>(0);
	environment e;
	parser p{gr, e};
	p.push_source([pieces, idx](auto out) -> bool {
		g_log->push_back("POLL");
		if (*idx >= pieces.size()) return false;
		for (char c : pieces[*idx]) *out++ = c;
		++*idx;
		return true;
	}, source_options::interactive);
	for (size_t k = 1; k <= pieces.size() + 1; ++k) {
		log.clear(); g_callbacks = 0;
		std::string tag = "i" + std::to_string(k);
		g_tag = tag; g_inhex = (k <= pieces.size() ? h.kids[k].atom : std::string("-"));
		std::string res = parse_once(p);
		finish_run(caseno, tag, k <= pieces.size() ? h.kids[k].atom : std::string("-"), res.c_str(), p, e, log);
		if (res != "1" && *idx >= pieces.size()) break;
	}
	std::fflush(stdout);
	_exit(0);
}

// (threads N): every (input ..) of the case is parsed from N threads at once, all sharing one const grammar;
// each thread's lines must equal the single-threaded ones
static std::string run_to_string(grammar const& gr, std::string const& inp)
{
	std::vector<std::string> log; g_log = &log; g_callbacks = 0;
	environment e;
	basic_parser<string_view_input_source> p{gr, e};
	p.enqueue(inp.begin(), inp.end());
	lug_verif_step = &step_hook;
	std::string res = parse_once(p);
	std::string out = "res=" + res + " sr=" + std::to_string(p.subject_index()) + " mr=" + std::to_string(p.max_subject_index()) + " steps=" + std::to_string(g_steps) + " log=";
	for (auto const& l : log) out += l + " ";
	return out;
}

static void run_threads(int caseno, grammar const& gr, std::vector<std::string> const& inputs, unsigned nthreads)
{
	std::vector<std::string> expected;
	for (auto const& i : inputs) expected.push_back(run_to_string(gr, i));
	std::vector<std::vector<std::string>> got(nthreads);
	std::vector<std::thread> ts;
	std::size_t const budget = g_budget;
	for (unsigned t = 0; t < nthreads; ++t)
		ts.emplace_back([&, t]() { g_budget = budget; for (int rep = 0; rep < 3; ++rep) for (size_t k = 0; k < inputs.size(); ++k) { auto r = run_to_string(gr, inputs[(k + t) % inputs.size()]); if (rep == 0) got[t].resize(inputs.size()); got[t][(k + t) % inputs.size()] = r; } });
	for (auto& t : ts) t.join();
	size_t bad = 0; std::string first;
	for (unsigned t = 0; t < nthreads; ++t) for (size_t k = 0; k < inputs.size(); ++k) if (got[t][k] != expected[k]) { if (!bad) first = "thread " + std::to_string(t) + " input " + std::to_string(k) + ": " + got[t][k] + " != " + expected[k]; ++bad; }
	std::printf("case %d threads n=%u inputs=%zu mismatches=%zu %s\n", caseno, nthreads, inputs.size(), bad, first.c_str());
}

static std::string program_string(program const& p)
{
	std::ostringstream os;
	for (auto const& i : p.instructions) os << static_cast<int>(i.op) << '.' << static_cast<int>(i.immediate8) << '.' << static_cast<int>(i.immediate16) << '.' << ((i.op == opcode::symbol_push && i.immediate8 != 1) ? 0L : static_cast<long>(i.offset32)) << ' ';
	os << "| data=" << hex(std::string_view{p.data.data(), p.data.size()});
	return os.str();
}

// builds the grammar of a case under a forced implicit whitespace rule (variant 0: the default, 1: nop, 2: *chr(' '))
static std::string build_variant(sx const& g, int variant)
{
	std::vector<std::string> log;
	builder b; b.log = &log;
	std::optional<implicit_space_rule> sp;
	if (variant == 1) sp.emplace(nop);
	else if (variant == 2) sp.emplace(*chr(' '));
	std::string start_name;
	for (size_t i = 1; i < g.kids.size(); ++i) { auto const& t = g.kids[i].kids.at(0).atom; if (t == "rule" || t == "rulecopy") (void)b.rules[g.kids[i].kids.at(1).atom]; }
	for (size_t i = 1; i < g.kids.size(); ++i) {
		auto const& k = g.kids[i]; auto const& tag = k.kids.at(0).atom;
		if (tag == "rule") { node n = b.build(k.kids.at(2)); b.rules[k.kids.at(1).atom] = std::visit([](auto const& x) { return rule{x}; }, n); }
		else if (tag == "rulecopy") { b.rules[k.kids.at(1).atom] = b.rules[k.kids.at(2).atom]; }
		else if (tag == "start") start_name = k.kids.at(1).atom;
	}
	try { grammar gr = start(b.rules[start_name]); return program_string(gr.program()); }
	catch (std::exception const& ex) { return std::string("error ") + ex.what(); }
}

// (buildthreads N): the grammar is constructed concurrently on N threads, thread t under whitespace variant t % 3;
// every thread must obtain the program a sequential construction under its variant gives
static void run_buildthreads(int caseno, sx const& g, unsigned nthreads)
{
	std::string expected[3];
	for (int v = 0; v < 3; ++v) expected[v] = build_variant(g, v);
	std::vector<std::string> got(nthreads);
	std::vector<std::thread> ts;
	for (unsigned t = 0; t < nthreads; ++t)
		ts.emplace_back([&, t]() { for (int rep = 0; rep < 2; ++rep) got[t] = build_variant(g, static_cast<int>(t % 3)); });
	for (auto& t : ts) t.join();
	size_t bad = 0;
	for (unsigned t = 0; t < nthreads; ++t) if (got[t] != expected[t % 3]) ++bad;
	std::printf("case %d buildthreads n=%u mismatches=%zu distinct_programs=%d\n", caseno, nthreads, bad,
		1 + (expected[1] != expected[0]) + (expected[2] != expected[0] && expected[2] != expected[1]));
}

int main(int argc, char** argv)
{
	std::size_t budget = 200000;
	bool more_sources = false;
	for (int i = 1; i < argc; ++i) { std::string a = argv[i]; if (a == "--trace") g_trace = true; else if (a == "--sources") more_sources = true; else if (a.rfind("--budget=", 0) == 0) budget = std::stoul(a.substr(9)); }
	for (int i = 1; i < argc; ++i) if (std::string(argv[i]) == "--nofork") g_fork = false;
	std::set_terminate(&on_terminate);
	lug_verif_step = &step_hook;
	g_budget = budget;
	std::string line; int caseno = 0;
	while (std::getline(std::cin, line)) {
		if (line.empty() || line[0] == '#') continue;
		++caseno;
		try {
			std::istringstream in(line);
			sx g = parse_sx(in);   // (grammar (space default|expr) (rule NAME expr)... (start NAME) (input HEX)... )
			std::vector<std::string> log;
			builder b; b.log = &log;
			std::optional<implicit_space_rule> sp;
			std::string start_name;
			for (size_t i = 1; i < g.kids.size(); ++i) { auto const& t = g.kids[i].kids.at(0).atom; if (t == "rule" || t == "rulecopy") (void)b.rules[g.kids[i].kids.at(1).atom]; }
			for (size_t i = 1; i < g.kids.size(); ++i) {
				auto const& k = g.kids[i]; auto const& tag = k.kids.at(0).atom;
				if (tag == "space") { if (!(k.kids.at(1).is_atom() && k.kids.at(1).atom == "default")) { node n = b.build(k.kids.at(1)); std::visit([&](auto const& x) { sp.emplace(x); }, n); } }
				else if (tag == "rule") { node n = b.build(k.kids.at(2)); b.rules[k.kids.at(1).atom] = std::visit([](auto const& x) { return rule{x}; }, n); }
				else if (tag == "rulecopy") { b.rules[k.kids.at(1).atom] = b.rules[k.kids.at(2).atom]; }
				else if (tag == "start") start_name = k.kids.at(1).atom;
			}
			grammar gr = start(b.rules[start_name]);
			// the grammar must be self-contained: every rule it was built from, the whitespace rule and all the strings
			// the DSL was given are destroyed before anything is parsed (C10; dangling references show up under ASan)
			b.rules.clear();
			sp.reset();
			for (auto& str : b.strings) std::fill(str.begin(), str.end(), '#');
			b.strings.clear();
			std::printf("case %d prog ", caseno); dump_program(gr.program()); std::printf("\n");
			for (size_t i = 1; i < g.kids.size(); ++i) {
				auto const& k = g.kids[i]; auto const& tag = k.kids.at(0).atom;
				if (tag == "input") {
					std::string inhex = k.kids.size() > 1 ? k.kids[1].atom : "-";
					std::string inp = unhex(inhex);
					run_one<basic_parser<string_view_input_source>>(caseno, "sv", inhex, gr, log, [&](auto& p) { p.enqueue(inp.begin(), inp.end()); });
					if (more_sources) {
						// a copied std::string behind a non-contiguous (forward) iterator range, and a std::istream
						std::list<char> lst(inp.begin(), inp.end());
						run_one<basic_parser<string_input_source>>(caseno, "str", inhex, gr, log, [&](auto& p) { p.enqueue(lst.begin(), lst.end()); });
						auto iss = std::make_shared<std::istringstream>(inp);
						run_one<parser>(caseno, "ist", inhex, gr, log, [&](auto& p) {
							p.push_source([iss](auto out, source_options opt) -> bool { return static_cast<bool>(lug::readsource(*iss, out, '\n', opt)); });
						});
					}
				} else if (tag == "history") {
					run_history(caseno, gr, k, log);
				} else if (tag == "lines") {
					run_lines(caseno, gr, k, log);
				} else if (tag == "buildthreads") {
					run_buildthreads(caseno, g, static_cast<unsigned>(std::stoul(k.kids.at(1).atom)));
				} else if (tag == "threads") {
					std::vector<std::string> inputs;
					for (size_t j = 1; j < g.kids.size(); ++j) if (g.kids[j].kids.at(0).atom == "input") inputs.push_back(unhex(g.kids[j].kids.size() > 1 ? g.kids[j].kids[1].atom : "-"));
					run_threads(caseno, gr, inputs, static_cast<unsigned>(std::stoul(k.kids.at(1).atom)));
				} else if (tag == "chunks") { // (chunks HEX HEX ...): push_source delivering the pieces one call at a time
					std::vector<std::string> pieces; std::string all;
					for (size_t j = 1; j < k.kids.size(); ++j) { pieces.push_back(unhex(k.kids[j].atom)); all += (j > 1 ? "|" : "") + k.kids[j].atom; }
					auto idx = std::make_shared<size_t>(0);
					run_one<parser>(caseno, "ch", all.empty() ? "-" : all, gr, log, [&](auto& p) {
						p.push_source([pieces, idx](auto out) -> bool { if (*idx >= pieces.size()) return false; for (char c : pieces[*idx]) *out++ = c; ++*idx; return true; });
					});
				}
			}
		} catch (budget_exceeded const&) {
			std::printf("case %d error diverged-in-build\n", caseno);
		} catch (lug_error const& ex) {
			std::string w = ex.what(); for (auto& c : w) if (c == ' ') c = '_';
			std::printf("case %d error %s\n", caseno, w.c_str());
		} catch (std::exception const& ex) {
			std::printf("case %d error std:%s\n", caseno, ex.what());
		}
		std::fflush(stdout);
	}
	return 0;
}
