// Implementation side of the C11 correspondence: replays operations on a real lug::environment and
// prints its line/column answers.  Reads one command per line on stdin, prints one canonical line per
// command on stdout (same format as ocaml/pos_driver.ml).  Built on every run from /repo's working
// tree with -fno-access-control (reset, drain and set_match_and_subject are private members).
//
//   pos   <tabw> <taba> <op>...          one environment, the operations in order; prints the answers of the q ops
//                                        (tabw = taba = "-": keep the defaults of a default-constructed environment)
//   fresh <tabw> <taba> <hex> <off>...   for every offset a fresh environment holding the text as one segment, one query
//   w <codepoint>                        unicode::cwidth
//   ops:  t:<hex> append bytes to the segment (set_match_and_subject with the longer match)
//         q:<offset> position_at   d drain   r reset   f:<0|1> should_reset_on_parse
#include <lug/lug.hpp>
#include <cstdio>
#include <cstdlib>
#include <iostream>
#include <sstream>
#include <string>
#include <vector>

static std::string unhex(std::string const& h)
{
	std::string s;
	if (h == "-")
		return s;
	for (std::size_t i = 0; i + 1 < h.size(); i += 2)
		s.push_back(static_cast<char>(std::stoi(h.substr(i, 2), nullptr, 16)));
	return s;
}

static void show(std::string& out, lug::syntax_position const& p)
{
	if (!out.empty())
		out.push_back(' ');
	out += std::to_string(p.line);
	out.push_back('.');
	out += std::to_string(p.column);
}

static void none(std::string& out)
{
	if (!out.empty())
		out.push_back(' ');
	out += "none";
}

int main()
{
	std::ios::sync_with_stdio(false);
	std::string line;
	while (std::getline(std::cin, line)) {
		if (line.empty() || line[0] == '#')
			continue;
		std::istringstream is(line);
		std::string cmd;
		is >> cmd;
		std::string out;
		try {
			if (cmd == "w") {
				unsigned long cp = 0;
				is >> cp;
				out = std::to_string(lug::unicode::cwidth(static_cast<char32_t>(cp)));
			} else if (cmd == "pos") {
				std::string stw, sta;
				is >> stw >> sta;
				lug::environment e;
				if (stw != "-") { // "-": keep the defaults of a default-constructed environment
					e.tab_width(static_cast<std::uint_least32_t>(std::stoul(stw)));
					e.tab_alignment(static_cast<std::uint_least32_t>(std::stoul(sta)));
				}
				std::string seg; // backing store of match_ for the current segment
				std::string op;
				bool stop = false;
				while (!stop && (is >> op)) {
					if (op == "d") {
						e.drain(std::string_view{});
						seg.clear();
					} else if (op == "r") {
						bool const will = e.should_reset_on_parse();
						e.reset(std::string_view{});
						if (will)
							seg.clear();
					} else if (op.size() >= 2 && op[1] == ':') {
						std::string const arg = op.substr(2);
						if (op[0] == 't') {
							seg += unhex(arg);
							e.set_match_and_subject(std::string_view(seg), std::string_view{});
						} else if (op[0] == 'q') {
							std::size_t const off = std::stoul(arg);
							if (off > seg.size()) { none(out); stop = true; } // would be undefined behaviour
							else show(out, e.position_at(off));
						} else if (op[0] == 'f') {
							e.should_reset_on_parse(arg == "1");
						} else {
							throw std::runtime_error("bad op " + op);
						}
					} else {
						throw std::runtime_error("bad op " + op);
					}
				}
			} else if (cmd == "fresh") {
				unsigned long tw = 0, ta = 0;
				std::string h;
				is >> tw >> ta >> h;
				std::string const text = unhex(h);
				std::size_t off = 0;
				while (is >> off) {
					lug::environment e;
					e.tab_width(static_cast<std::uint_least32_t>(tw));
					e.tab_alignment(static_cast<std::uint_least32_t>(ta));
					e.set_match_and_subject(std::string_view(text), std::string_view{});
					if (off > text.size()) none(out);
					else show(out, e.position_at(off));
				}
			} else {
				out = "error unknown-command";
			}
		} catch (std::exception const& ex) {
			out = std::string("error ") + ex.what();
		}
		std::fputs(out.c_str(), stdout);
		std::fputc('\n', stdout);
	}
	return 0;
}
