// Implementation side of the C07 correspondence ("attribute variables behave like locals of each rule
// invocation").  ONE translation unit with four attribute grammars written in lug's real DSL (attribute
// frames are compile-time tuples, so these grammars have to be static C++).  Every user action logs
// (action id, size of the attribute result stack, size of the attribute frame stack) at the moment the user
// callable starts; private members of lug::environment are readable because the driver is compiled with
// -fno-access-control.
//
// stdin:  one case per line:  <shape> <hex of the input text>
// stdout: one canonical line per case, the same format as ocaml/attr_driver.ml:
//   ok res=<value> rdepth=<n> fdepth=<n> marks=<n> vars=<v0>;<v1>;... obs=<id>:<rdepth>:<fdepth>,...
//   fail                      (parse returned false)
//   throw:<what>              (an exception left lug::parse)
// <value>: integer | [v,v,...] (containers, synthesized nodes) | none (empty result stack)
//
// The shapes (the response sequences they compile to are spelled out in coq/Attr/AttrSpec.v):
//   calc   README/samples-calc style calculator: Expr/Term/Factor mutually recursive, shared variables n e l r
//   list   right-recursive sequence + collect<std::vector<long>>, shared variables x xs k (xs is a container)
//   mirror binary trees rebuilt mirrored with synthesize, variables a b bound on both sides of the recursion
//   chain  right-recursive fold whose combining action is attached to the rule reference itself (R < action)
#include <lug/lug.hpp>
#include <cstdio>
#include <cstdlib>
#include <iostream>
#include <sstream>
#include <string>
#include <vector>

using namespace lug::language;

static constexpr long M = 1000003;
static lug::environment* ENV = nullptr;
static std::string OBS;

static void LOG(int id)
{
	if (!OBS.empty())
		OBS.push_back(',');
	OBS += std::to_string(id);
	OBS.push_back(':');
	OBS += std::to_string(ENV->attribute_result_stack_.size());
	OBS.push_back(':');
	OBS += std::to_string(ENV->attribute_frame_stack_.size());
}

static long modM(long x) { return ((x % M) + M) % M; }
static long number_of(syntax const& s) { return std::stol(std::string{s.str()}); }

// ------------------------------------------------------------------------------------------------ calc
static long c_n = 0, c_e = 0, c_l = 0, c_r = 0;

static lug::grammar make_calc()
{
	rule Expr;
	rule Number = lexeme[+digit]               <[](syntax s) -> long { LOG(0); return number_of(s); };
	rule Factor = c_n%Number                   <[]() -> long { LOG(1); return c_n; }
	            | '(' > c_e%Expr > ')'         <[]() -> long { LOG(2); return c_e; };
	rule Term   = c_l%Factor > *(
	                  '*' > c_r%Factor         <[]{ LOG(3); c_l = modM(c_l * c_r); }
	            )                              <[]() -> long { LOG(4); return c_l; };
	Expr        = c_l%Term > *(
	                  '+' > c_r%Term           <[]{ LOG(5); c_l = modM(c_l + c_r); }
	                | '-' > c_r%Term           <[]{ LOG(6); c_l = modM(c_l - c_r); }
	            )                              <[]() -> long { LOG(7); return c_l; };
	return start(Expr > eoi);
}

// ------------------------------------------------------------------------------------------------ list
static long l_x = 0, l_k = 0;
static std::vector<long> l_xs;

static long foldM(std::vector<long> const& v)
{
	long a = 7;
	for (long x : v)
		a = modM(a * 31 + x);
	return a;
}

static lug::grammar make_list()
{
	rule Item, Seq;
	rule Number = lexeme[+digit]               <[](syntax s) -> long { LOG(0); return number_of(s); };
	rule Nested = '[' > l_xs%collect<std::vector<long>>[Seq] > ']' > '*' > l_k%Item
	                                           <[]() -> long { LOG(2); return modM(foldM(l_xs) * l_k); };
	Item        = Number | Nested;
	Seq         = l_x%Item > ~(',' > Seq)      <[]() -> long { LOG(1); return l_x; };
	return start(Item > eoi);
}

// ------------------------------------------------------------------------------------------------ mirror
struct Node
{
	bool leaf{true};
	long v{0};
	std::vector<Node> kids;
	Node() = default;
	Node(long x) : leaf{true}, v{x} {} // NOLINT
	Node(Node a, Node b) : leaf{false} { kids.push_back(std::move(a)); kids.push_back(std::move(b)); }
};

static Node m_a, m_b;

static lug::grammar make_mirror()
{
	rule Tree;
	rule Number = lexeme[+digit]               <[](syntax s) -> long { LOG(0); return number_of(s); };
	Tree        = synthesize<Node, long>[Number]
	            | '(' > synthesize<Node, Node, Node>[ m_a%Tree > ',' > m_b%Tree
	                                           <[]() -> Node { LOG(1); return m_b; }
	                                           <[]() -> Node { LOG(2); return m_a; } ] > ')';
	return start(Tree > eoi);
}

// ------------------------------------------------------------------------------------------------ chain
static long k_c = 0, k_acc = 0;

static lug::grammar make_chain()
{
	rule Chain;
	rule Number = lexeme[+digit]               <[](syntax s) -> long { LOG(0); return number_of(s); };
	Chain       = k_c%Number > ( ':' > (Chain  <[]{ LOG(1); k_acc = modM(k_acc * 10 + k_c); })
	                           | eps           <[]{ LOG(2); k_acc = k_c; } );
	rule Top    = Chain                        <[]() -> long { LOG(3); return k_acc; };
	return start(Top > eoi);
}

// ------------------------------------------------------------------------------------------------ driver
static std::string unhex(std::string const& h)
{
	std::string s;
	if (h == "-")
		return s;
	for (std::size_t i = 0; i + 1 < h.size(); i += 2)
		s.push_back(static_cast<char>(std::stoi(h.substr(i, 2), nullptr, 16)));
	return s;
}

static void show(std::string& out, long v) { out += std::to_string(v); }
static void show(std::string& out, std::vector<long> const& v)
{
	out.push_back('[');
	for (std::size_t i = 0; i < v.size(); ++i) { if (i != 0) out.push_back(','); show(out, v[i]); }
	out.push_back(']');
}
static void show(std::string& out, Node const& n)
{
	out.push_back('[');
	if (n.leaf) {
		show(out, n.v);
	} else {
		for (std::size_t i = 0; i < n.kids.size(); ++i) { if (i != 0) out.push_back(','); show(out, n.kids[i]); }
	}
	out.push_back(']');
}

template <class T, class ShowVars>
static void run_case(lug::grammar const& g, std::string const& text, ShowVars&& show_vars)
{
	lug::environment env;
	ENV = &env;
	OBS.clear();
	std::string line;
	try {
		if (!lug::parse(text, g, env)) {
			line = "fail";
		} else {
			std::size_t const rdepth = env.attribute_result_stack_.size();
			std::size_t const fdepth = env.attribute_frame_stack_.size();
			std::size_t const marks = env.attribute_collection_stack_.size();
			line = "ok res=";
			if (rdepth == 0)
				line += "none";
			else
				show(line, env.pop_attribute<T>());
			line += " rdepth=" + std::to_string(rdepth) + " fdepth=" + std::to_string(fdepth) + " marks=" + std::to_string(marks) + " vars=";
			show_vars(line);
			line += " obs=" + OBS;
		}
	} catch (std::exception const& e) {
		line = std::string{"throw:"} + e.what();
	} catch (...) {
		line = "throw:unknown";
	}
	std::puts(line.c_str());
	ENV = nullptr;
}

int main()
{
	lug::grammar const calc = make_calc();
	lug::grammar const list = make_list();
	lug::grammar const mirror = make_mirror();
	lug::grammar const chain = make_chain();
	std::string ln;
	while (std::getline(std::cin, ln)) {
		std::istringstream is{ln};
		std::string shape, hex;
		is >> shape >> hex;
		std::string const text = unhex(hex);
		if (shape == "calc") {
			c_n = c_e = c_l = c_r = 0;
			run_case<long>(calc, text, [](std::string& o) { show(o, c_n); o.push_back(';'); show(o, c_e); o.push_back(';'); show(o, c_l); o.push_back(';'); show(o, c_r); });
		} else if (shape == "list") {
			l_x = l_k = 0; l_xs.clear();
			run_case<long>(list, text, [](std::string& o) { show(o, l_x); o.push_back(';'); show(o, l_xs); o.push_back(';'); show(o, l_k); });
		} else if (shape == "mirror") {
			m_a = Node{}; m_b = Node{};
			run_case<Node>(mirror, text, [](std::string& o) { show(o, m_a); o.push_back(';'); show(o, m_b); });
		} else if (shape == "chain") {
			k_c = k_acc = 0;
			run_case<long>(chain, text, [](std::string& o) { show(o, k_c); o.push_back(';'); show(o, k_acc); });
		} else {
			std::puts("bad-shape");
		}
	}
	return 0;
}
