// Implementation side of the correspondence for the pure functions of lug (utf8, unicode tables,
// rune_set, positions).  Reads one command per line on stdin and prints one canonical line per
// command on stdout.  Built on every run from /repo's working tree with -fno-access-control (to read
// private members; no source change needed).
#include <lug/lug.hpp>
#include <cstdio>
#include <cstdlib>
#include <iostream>
#include <sstream>
#include <string>
#include <vector>

using namespace lug;

static std::string unhex(std::string const& h)
{
	std::string s;
	if (h == "-")
		return s;
	for (std::size_t i = 0; i + 1 < h.size(); i += 2)
		s.push_back(static_cast<char>(std::stoi(h.substr(i, 2), nullptr, 16)));
	return s;
}

static std::string hex(std::string_view s)
{
	static char const* d = "0123456789abcdef";
	std::string r;
	if (s.empty())
		return "-";
	for (unsigned char c : s) { r.push_back(d[c >> 4]); r.push_back(d[c & 15]); }
	return r;
}

static void dump_ucd()
{
	auto const table = unicode::record::decompress_table();
	std::printf("stage1");
	for (auto v : table->stage1) std::printf(" %u", static_cast<unsigned>(v));
	std::printf("\nstage2");
	for (auto v : table->stage2) std::printf(" %u", static_cast<unsigned>(v));
	std::printf("\n");
	for (std::size_t i = 0; i < table->records.size(); ++i) {
		auto const& r = table->records[i];
		std::printf("rec %zu %llu %u %u %u %u %u %u %u %u\n", i, static_cast<unsigned long long>(r.pflags), static_cast<unsigned>(r.cflags),
			static_cast<unsigned>(r.abfields), static_cast<unsigned>(r.gcindex), static_cast<unsigned>(r.scindex), static_cast<unsigned>(r.wfields),
			static_cast<unsigned>(r.cfindex), static_cast<unsigned>(r.clindex), static_cast<unsigned>(r.cuindex));
	}
}

static void print_runeset(unicode::rune_set const& rs)
{
	std::printf("ascii=");
	for (int w = 0; w < 4; ++w) {
		unsigned long v = 0;
		for (int b = 0; b < 32; ++b) if (rs.ascii[static_cast<std::size_t>(w * 32 + b)]) v |= (1UL << b);
		std::printf("%08lx", v);
	}
	std::printf(" iv=");
	for (auto const& p : rs.intervals) std::printf("%u-%u,", static_cast<unsigned>(p.first), static_cast<unsigned>(p.second));
}

int main()
{
	std::string line;
	while (std::getline(std::cin, line)) {
		if (line.empty() || line[0] == '#')
			continue;
		std::istringstream in(line);
		std::string cmd;
		in >> cmd;
		try {
			if (cmd == "dec") {
				std::string h; in >> h; std::string s = unhex(h);
				auto r = utf8::decode_rune(s.begin(), s.end());
				std::printf("%zu %u\n", static_cast<std::size_t>(r.first - s.begin()), static_cast<unsigned>(r.second));
			} else if (cmd == "cnt") {
				std::string h; in >> h; std::string s = unhex(h);
				std::printf("%zu\n", utf8::count_runes(s.begin(), s.end()));
			} else if (cmd == "enc") {
				unsigned long cp; in >> cp;
				std::string out;
				auto r = utf8::encode_rune(std::back_inserter(out), static_cast<char32_t>(cp));
				std::printf("%s %d\n", hex(out).c_str(), r.second ? 1 : 0);
			} else if (cmd == "ucddump") {
				dump_ucd();
			} else if (cmd == "q") { // q lo hi : per code point record index and derived values
				unsigned long lo, hi; in >> lo >> hi;
				auto const table = unicode::record::decompress_table();
				for (unsigned long cp = lo; cp < hi; ++cp) {
					auto rec = unicode::query(static_cast<char32_t>(cp));
					std::printf("%lu %zu %u %u %u %d %u\n", cp, static_cast<std::size_t>(rec.raw_ - table->records.data()) * 0 + static_cast<std::size_t>(0),
						static_cast<unsigned>(unicode::tocasefold(static_cast<char32_t>(cp))), static_cast<unsigned>(unicode::tolower(static_cast<char32_t>(cp))),
						static_cast<unsigned>(unicode::toupper(static_cast<char32_t>(cp))), unicode::cwidth(static_cast<char32_t>(cp)), unicode::ucwidth(static_cast<char32_t>(cp)));
				}
			} else if (cmd == "qidx") { // record contents reached through query(), to tie stage lookup: prints a fingerprint of the record
				unsigned long lo, hi; in >> lo >> hi;
				for (unsigned long cp = lo; cp < hi; ++cp) {
					auto rec = unicode::query(static_cast<char32_t>(cp));
					auto const& r = *rec.raw_;
					std::printf("%lu %llu %u %u %u %u %u %u %u %u\n", cp, static_cast<unsigned long long>(r.pflags), static_cast<unsigned>(r.cflags),
						static_cast<unsigned>(r.abfields), static_cast<unsigned>(r.gcindex), static_cast<unsigned>(r.scindex), static_cast<unsigned>(r.wfields),
						static_cast<unsigned>(r.cfindex), static_cast<unsigned>(r.clindex), static_cast<unsigned>(r.cuindex));
				}
			} else if (cmd == "rs") {
				// rs <op>... ; ops: r:a:b push_range, c:a:b push_casefolded_range, u:x push_rune, so sort_and_optimize, neg negate, ?:x contains
				unicode::rune_set rs;
				std::string op;
				std::string answers;
				while (in >> op) {
					if (op == "so") rs = unicode::sort_and_optimize(std::move(rs));
					else if (op == "neg") rs = unicode::negate(rs);
					else {
						char k = op[0];
						unsigned long a = 0, b = 0;
						std::size_t p1 = op.find(':'), p2 = op.find(':', p1 + 1);
						a = std::stoul(op.substr(p1 + 1, p2 == std::string::npos ? std::string::npos : p2 - p1 - 1));
						if (p2 != std::string::npos) b = std::stoul(op.substr(p2 + 1));
						if (k == 'r') rs.push_range(static_cast<char32_t>(a), static_cast<char32_t>(b));
						else if (k == 'c') rs.push_casefolded_range(static_cast<char32_t>(a), static_cast<char32_t>(b));
						else if (k == 'u') rs.push_rune(static_cast<char32_t>(a));
						else if (k == '?') answers.push_back(rs.contains(static_cast<char32_t>(a)) ? '1' : '0');
					}
				}
				print_runeset(rs);
				std::printf(" q=%s\n", answers.c_str());
			} else {
				std::printf("error unknown-command\n");
			}
		} catch (lug::lug_error const& e) {
			std::printf("throw %s\n", e.what());
		} catch (std::exception const& e) {
			std::printf("throw std:%s\n", e.what());
		}
	}
	return 0;
}
