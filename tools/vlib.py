"""Shared machinery of the checks: translate -> prove -> build both sides -> correspond/search -> verdict."""
import fcntl, glob, hashlib, json, os, re, shutil, subprocess, sys, time, random

VERIF = os.path.dirname(os.path.dirname(os.path.abspath(__file__)))
REPO = os.environ.get("LUG_REPO", "/repo")
COQ = os.path.join(VERIF, "coq")
BUILD = os.path.join(VERIF, "_build")
GUARD = "LUG_VERIF"
NPROC = int(os.environ.get("VERIF_JOBS", "16"))

ALLOWED_AXIOMS = {
    # axioms declared by Coq's standard library that this development may depend on (see DESIGN.md section 7)
    "FunctionalExtensionality.functional_extensionality_dep",
    "Coq.Logic.FunctionalExtensionality.functional_extensionality_dep",
    "Eqdep.Eq_rect_eq.eq_rect_eq", "Coq.Logic.Eqdep.Eq_rect_eq.eq_rect_eq",
    "JMeq.JMeq_eq", "Coq.Logic.JMeq.JMeq_eq",
    "ProofIrrelevance.proof_irrelevance", "Classical_Prop.classic",
}


def sh(cmd, timeout=None, cwd=None, env=None, input=None):
    """run a shell command, return (rc, stdout+stderr)"""
    e = dict(os.environ)
    if env:
        e.update(env)
    try:
        p = subprocess.run(cmd, shell=True, cwd=cwd, env=e, input=input, stdout=subprocess.PIPE, stderr=subprocess.STDOUT,
                           timeout=timeout, text=True, errors="replace")
        return p.returncode, p.stdout
    except subprocess.TimeoutExpired as ex:
        out = ex.stdout if isinstance(ex.stdout, str) else (ex.stdout or b"").decode(errors="replace")
        return 124, (out or "") + "\n[timeout after %ss]" % timeout


class Lock:
    def __init__(self, name):
        os.makedirs(BUILD, exist_ok=True)
        self.path = os.path.join(BUILD, "." + name + ".lock")

    def __enter__(self):
        self.f = open(self.path, "w")
        fcntl.flock(self.f, fcntl.LOCK_EX)
        return self

    def __exit__(self, *a):
        fcntl.flock(self.f, fcntl.LOCK_UN)
        self.f.close()


def file_hash(paths, extra=""):
    h = hashlib.sha256(extra.encode())
    for p in sorted(paths):
        h.update(p.encode())
        try:
            with open(p, "rb") as f:
                h.update(f.read())
        except OSError:
            h.update(b"<missing>")
    return h.hexdigest()[:20]


def repo_sources():
    return sorted(glob.glob(os.path.join(REPO, "include", "lug", "*.hpp")))


# ---------------------------------------------------------------- translate + prove

def translate():
    rc, out = sh("python3 %s" % os.path.join(VERIF, "tools", "translate.py"), timeout=120)
    try:
        info = json.loads(out.strip().splitlines()[-1])
    except Exception:
        info = dict(ok=False, error=out[-2000:])
    return info


def coq_make(targets, timeout=1800):
    """make -k the given .vo targets (paths relative to coq/); returns (ok_by_target, log)"""
    with Lock("coq"):
        sh(os.path.join(VERIF, "tools", "mkcoqproject.sh"), timeout=120)
        rc, out = sh("ulimit -s unlimited 2>/dev/null; timeout %d make -k -j%d %s" % (timeout, NPROC, " ".join(targets)), cwd=COQ, timeout=timeout + 30)
    res = {}
    for t in targets:
        # up to date with respect to ALL its dependencies? (`make -q`: 0 = nothing to do; a target whose dependency failed
        # to build keeps its old .vo and must not be mistaken for a fresh one)
        rc_q, _ = sh("make -q %s" % t, cwd=COQ, timeout=300)
        res[t] = (rc_q == 0) and os.path.exists(os.path.join(COQ, t))
    return res, out


FORBIDDEN = re.compile(r"\b(Admitted|admit|Axiom|Axioms|Parameter|Parameters|Conjecture|Hypothesis|Variable)\b|Unset\s+Guard|bypass_check|Admit\s+Obligations|-type-in-type|-impredicative-set")


def scan_forbidden():
    """grep the hand-written development for anything that would declare an axiom or switch off a check.
    `Variable`/`Hypothesis` are allowed inside Sections only (checked structurally: we simply forbid them
    outside files that open a Section, and the files that do are listed in DESIGN.md)."""
    bad = []
    for path in glob.glob(os.path.join(COQ, "**", "*.v"), recursive=True):
        rel = os.path.relpath(path, COQ)
        if rel.startswith(("Gen/", "scratch/")):
            continue
        with open(path, encoding="utf-8", errors="replace") as f:
            text = f.read()
        text_nc = re.sub(r"\(\*.*?\*\)", "", text, flags=re.S)
        has_section = re.search(r"(?m)^\s*Section\s+\w+", text_nc) is not None
        for m in FORBIDDEN.finditer(text_nc):
            w = m.group(0)
            if w in ("Variable", "Hypothesis") and has_section:
                continue
            line = text_nc.count("\n", 0, m.start()) + 1
            bad.append("%s:%d:%s" % (rel, line, w))
    return bad


def prove(pid, extra_targets=()):
    """Builds Props/Properties_<pid>.vo (and everything it depends on), then re-runs coqc on the
    properties file alone to capture `Print Assumptions`.  Returns a dict describing the obligations."""
    props_rel = "Props/Properties_%s.v" % pid
    props = os.path.join(COQ, props_rel)
    with open(props) as f:
        text = f.read()
    text_nc = re.sub(r"\(\*.*?\*\)", "", text, flags=re.S)
    names = re.findall(r"(?m)^\s*Theorem\s+(\w+)", text_nc)
    t0 = time.time()
    res, log = coq_make([props_rel + "o"] + list(extra_targets))
    ok_file = res.get(props_rel + "o", False)
    obligations = []
    out = ""
    if ok_file:
        with Lock("coq"):
            rc, out = sh("ulimit -s unlimited 2>/dev/null; timeout 900 coqc -Q . Lug %s" % props_rel, cwd=COQ, timeout=930)
        ok_file = (rc == 0)
    # parse Print Assumptions blocks: after each theorem's `Print Assumptions name.` coqc prints either
    # "Closed under the global context" or "Axioms:" followed by indented lines.
    blocks = re.split(r"(?m)^(?=Closed under the global context|Axioms:)", out) if out else []
    blocks = [b for b in blocks if b.startswith(("Closed under", "Axioms:"))]
    for i, n in enumerate(names):
        if not ok_file or i >= len(blocks):
            obligations.append(dict(name=n, discharged=False, axioms=None))
            continue
        b = blocks[i]
        if b.startswith("Closed"):
            axioms = []
        else:
            axioms = [re.split(r"\s*:", l.strip())[0] for l in b.splitlines()[1:] if l and not l.startswith(" " * 4) and l.strip() and not l.strip().startswith(":")]
            axioms = [a for a in axioms if a and re.match(r"^[\w.']+$", a)]
        bad = [a for a in axioms if a not in ALLOWED_AXIOMS and a.split(".")[-1] not in {x.split(".")[-1] for x in ALLOWED_AXIOMS}]
        obligations.append(dict(name=n, discharged=not bad, axioms=axioms, bad_axioms=bad))
    forbidden = scan_forbidden()
    errors = []
    if not ok_file:
        # collect the first coqc error for the replay file
        m = re.search(r"(?s)(File \"[^\"]+\", line \d+.*?Error:.*?)(?:\nmake|\Z)", log + "\n" + out)
        errors.append(m.group(1)[:1500] if m else (log + out)[-1500:])
    return dict(file=props_rel, obligations=obligations, ok=ok_file and all(o["discharged"] for o in obligations) and not forbidden,
                forbidden=forbidden, errors=errors, wall_s=round(time.time() - t0, 2),
                checker_cmd="make -k -j%d %so && coqc -Q . Lug %s (Coq 8.16.1, full .vo build)" % (NPROC, props_rel, props_rel))


# ---------------------------------------------------------------- building the two executable sides

def build_model(unit="model"):
    """Extracts the Coq model to OCaml and builds a model driver; cached on the hash of its inputs.
    unit="model": coq/Extract/Extract.v -> model.ml + ocaml/driver.ml -> modeldrv (the main unit).
    unit="xyz":   coq/Extract/Extract_xyz.v (must `Extraction "xyz_model.ml" ...`) + ocaml/xyz_driver.ml -> xyzdrv."""
    out_dir = os.path.join(BUILD, "ocaml" if unit == "model" else "ocaml_" + unit)
    os.makedirs(out_dir, exist_ok=True)
    if unit == "model":
        ext_v, ml, drv, exe_name = "Extract/Extract.v", "model", "driver.ml", "modeldrv"
    else:
        ext_v, ml, drv, exe_name = "Extract/Extract_%s.v" % unit, unit + "_model", unit + "_driver.ml", unit + "drv"
    exe = os.path.join(out_dir, exe_name)
    with Lock("ocaml-" + unit):
        # the extraction needs the model .vo files
        res, log = coq_make([ext_v + "o"])
        srcs = [p for p in glob.glob(os.path.join(COQ, "**", "*.v"), recursive=True) if "/scratch/" not in p and "/Props/" not in p and "/Proofs/" not in p and not p.endswith("Proofs.v")]
        srcs += [os.path.join(VERIF, "ocaml", drv)]
        h = file_hash(srcs)
        stamp = os.path.join(out_dir, "stamp")
        if os.path.exists(exe) and os.path.exists(stamp) and open(stamp).read() == h:
            return exe, None
        if not res.get(ext_v + "o"):
            return None, "extraction failed:\n" + log[-3000:]
        rc, out = sh("coqc -Q %s Lug %s/%s" % (COQ, COQ, ext_v), cwd=out_dir, timeout=600)
        if rc != 0:
            return None, "extraction failed:\n" + out[-3000:]
        shutil.copy(os.path.join(VERIF, "ocaml", drv), os.path.join(out_dir, drv))
        rc, out = sh("ocamlfind ocamlopt -unsafe -inline 100 -w -a %s.mli %s.ml %s -o %s" % (ml, ml, drv, exe_name), cwd=out_dir, timeout=600)
        if rc != 0 or not os.path.exists(exe):
            return None, "ocaml build failed:\n" + out[-3000:]
        with open(stamp, "w") as f:
            f.write(h)
    return exe, None


def build_cpp(name, flags="-O1", hooks=True, sanitize=False):
    """Builds cpp/<name>.cpp against the *current* working tree of the repository.  The binary is cached
    under a key made of every header's content, the driver source and the flags, so an edited header
    always triggers a rebuild."""
    out_dir = os.path.join(BUILD, "cpp")
    os.makedirs(out_dir, exist_ok=True)
    src = os.path.join(VERIF, "cpp", name + ".cpp")
    allflags = "-std=c++17 -fno-access-control %s %s %s" % (flags, "-D" + GUARD if hooks else "", ("-g -fsanitize=thread" if sanitize == "thread" else "-g -fsanitize=address,undefined -fno-sanitize-recover=all") if sanitize else "")
    h = file_hash(repo_sources() + [src] + glob.glob(os.path.join(VERIF, "cpp", "*.hpp")), allflags)
    exe = os.path.join(out_dir, "%s-%s" % (name, h))
    with Lock("cpp-" + name + ("-tsan" if sanitize == "thread" else "-san" if sanitize else "")):
        if os.path.exists(exe):
            return exe, None
        for old in glob.glob(os.path.join(out_dir, name + "-*")):
            if ("san" in old) == sanitize or True:
                # keep at most a few stale binaries
                pass
        rc, out = sh("g++ %s -I%s/include -I%s/cpp %s -o %s.tmp -lpthread && mv %s.tmp %s" % (allflags, REPO, VERIF, src, exe, exe, exe), timeout=900)
        if rc != 0:
            return None, out[-4000:]
        # garbage-collect old binaries of the same driver (keep the 3 newest)
        olds = sorted(glob.glob(os.path.join(out_dir, name + "-*")), key=os.path.getmtime)
        for o in olds[:-4]:
            try:
                os.remove(o)
            except OSError:
                pass
    return exe, None


def run_driver(exe, case_text, timeout=1800, env=None):
    e = dict(os.environ)
    e["ASAN_OPTIONS"] = "detect_leaks=0:abort_on_error=0"
    if env:
        e.update(env)
    p = subprocess.run("ulimit -s unlimited 2>/dev/null; exec " + exe, shell=True, input=case_text, stdout=subprocess.PIPE, stderr=subprocess.PIPE, timeout=timeout, text=True, errors="replace", env=e)
    return p.returncode, p.stdout, p.stderr


def compare_lines(cases, out_impl, out_model):
    """cases: list of command lines; out_*: driver outputs.  Returns list of (index, case, impl, model)."""
    a = out_impl.split("\n")
    b = out_model.split("\n")
    if a and a[-1] == "":
        a.pop()
    if b and b[-1] == "":
        b.pop()
    mism = []
    n = len(cases)
    if len(a) != n or len(b) != n:
        mism.append((-1, "<line count>", "impl=%d lines" % len(a), "model=%d lines (cases=%d)" % (len(b), n)))
    for i in range(min(n, len(a), len(b))):
        if a[i] != b[i]:
            mism.append((i, cases[i], a[i], b[i]))
            if len(mism) > 200:
                break
    return mism


# ---------------------------------------------------------------- findings, evidence, verdict

def load_findings(pid):
    path = os.path.join(VERIF, "known_findings.json")
    if not os.path.exists(path):
        return []
    with open(path) as f:
        data = json.load(f)
    return [e for e in data.get("findings", []) if e.get("property") == pid]


class Check:
    """Collects the parts of one check run and forms the verdict."""

    def __init__(self, pid, tier, seed):
        self.pid, self.tier, self.seed = pid, tier, seed
        self.t0 = time.time()
        self.violations = []      # dicts: kind, signature, detail (replay content)
        self.broken = []          # names of theorems / correspondence streams that no longer check
        self.known_hits = []      # findings that still reproduce
        self.coverage = {}
        self.assumptions = []
        self.samples = []
        self.evaluations = 0
        self.distinct = set()
        self.findings = load_findings(pid)
        self.level = "proof"

    def note_case(self, canon, nontrivial=True):
        self.evaluations += 1
        if nontrivial:
            self.distinct.add(hashlib.md5(canon.encode() if isinstance(canon, str) else canon).digest()[:8])

    def open_signatures(self):
        return {e["signature"]: e for e in self.findings if e.get("status") == "open"}

    def report(self, signature, what, detail):
        """a concrete counterexample to the property (implementation vs spec).  Known (open) findings are
        listed, anything else is a violation."""
        sigs = self.open_signatures()
        if signature in sigs:
            if signature not in [k[0] for k in self.known_hits]:
                self.known_hits.append((signature, sigs[signature].get("what", what)))
            return False
        self.violations.append(dict(signature=signature, what=what, detail=detail))
        return True

    def finish(self, proof=None, explanation=""):
        os.makedirs(os.path.join(VERIF, "evidence"), exist_ok=True)
        os.makedirs(os.path.join(VERIF, "replays"), exist_ok=True)
        cov = dict(self.coverage)
        if proof is not None:
            obl = proof["obligations"]
            cov.update(obligations=max(1, len(obl)), discharged=sum(1 for o in obl if o["discharged"]),
                       checker_cmd=proof["checker_cmd"],
                       trusted_base=sorted({"Coq 8.16.1 kernel + vm_compute"} | {a for o in obl for a in (o.get("axioms") or [])}) + self.assumptions[:0],
                       theorems=[dict(name=o["name"], discharged=o["discharged"], axioms=o.get("axioms")) for o in obl],
                       proof_wall_s=proof["wall_s"])
            if proof.get("forbidden"):
                cov["forbidden_vernacular"] = proof["forbidden"]
        cov.update(evaluations=max(self.evaluations, 0), distinct_nontrivial=len(self.distinct),
                   samples=self.samples[:12] or ["(no cases)"], explanation=explanation or cov.get("explanation", ""))
        if "rule" not in cov:
            cov["rule"] = "see explanation"
        rc = 0
        lines = []
        for sig, what in self.known_hits:
            lines.append("KNOWN-FINDING: property=%s %s" % (self.pid, what))
        replay = None
        if self.violations or self.broken:
            rc = 1
            key = hashlib.sha256(json.dumps([self.violations, self.broken], sort_keys=True, default=str).encode()).hexdigest()[:12]
            replay = os.path.join(VERIF, "replays", "%s-%s.json" % (self.pid, key))
            with open(replay, "w") as f:
                json.dump(dict(property=self.pid, tier=self.tier, seed=self.seed, violations=self.violations, broken=self.broken), f, indent=1, default=str)
            suffix = "" if self.violations else " no-failing-input-found"
            lines.append("VIOLATION property=%s replay=%s%s" % (self.pid, replay, suffix))
        ev = dict(property_id=self.pid, tier=self.tier, seed=self.seed, level=self.level, coverage=cov,
                  assumptions=self.assumptions, wall_s=round(time.time() - self.t0, 2),
                  violations=len(self.violations) + (1 if self.broken and not self.violations else 0))
        ev["coverage"]["known_findings_reproduced"] = [s for s, _ in self.known_hits]
        with open(os.path.join(VERIF, "evidence", "%s.json" % self.pid), "w") as f:
            json.dump(ev, f, indent=1, default=str)
        for l in lines:
            print(l)
        sys.stdout.flush()
        return rc


def rng_for(seed, stream):
    return random.Random("%d/%s" % (seed, stream))
