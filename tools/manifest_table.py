# property table for MANIFEST.json (edited by hand, consumed by tools/mkmanifest.py)
CLAIMED = {}
NOT_APPLICABLE = {("C%02d" % i): "check not built yet (work in progress; see DESIGN.md section 8 for the order of work)" for i in range(1, 21)}
