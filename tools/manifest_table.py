# property table for MANIFEST.json (edited by hand, consumed by tools/mkmanifest.py)
TB = "Trusted: Coq 8.16.1 kernel + vm_compute (no native_compute, no axioms declared; library axioms per theorem listed in the evidence); tools/translate.py; extraction (ExtrOcamlBasic) + OCaml 4.13.1; the C++ drivers and g++ 12.2. "
CLAIMED = {
 "C13": dict(category="proof",
   text="All clauses of C13 are theorems over the model of utf8.hpp (decode_rune/encode_rune/count_runes against Table 3-7 of the Unicode Standard, every byte sequence and every code point, no bounds). The DFA tables and constants are regenerated from the header on every run, so the theorems are re-checked against the current text; the hand-modelled loops are tied by an exhaustive (<=2 bytes; thorough: <=3 bytes) plus structured/random correspondence with the compiled library, and the Table 3-7 oracle is evaluated on the implementation's answers on every run.",
   design_ref="DESIGN.md 5.13",
   level_note=TB + "Modelled rather than verified: the control flow of decode_rune/encode_rune/count_runes (Utf8Model.v), tied by differential testing.",
   technique="Coq proof (finite DFA sweeps lifted by lemmas + arithmetic), model regenerated/tied by translation and exhaustive correspondence"),
}
NOT_APPLICABLE = {("C%02d" % i): "check not built yet (work in progress; see DESIGN.md section 8 for the order of work)" for i in range(1, 21) if ("C%02d" % i) not in CLAIMED}
