#!/bin/sh
# regenerates coq/_CoqProject file list and the Makefile
cd "$(dirname "$0")/../coq" || exit 1
{ printf '%s\n' '-Q . Lug' '-arg -w -arg -notation-overridden,-deprecated-hint-without-locality,-deprecated-instance-without-locality'; find . -name '*.v' ! -path './scratch/*' | sed 's|^\./||' | sort; } > _CoqProject.new
if ! cmp -s _CoqProject.new _CoqProject; then mv _CoqProject.new _CoqProject; coq_makefile -f _CoqProject -o Makefile >/dev/null; else rm _CoqProject.new; [ -f Makefile ] || coq_makefile -f _CoqProject -o Makefile >/dev/null; fi
