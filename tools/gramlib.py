"""Shared machinery for the grammar-level checks: sharded parallel runs of the implementation driver
(cpp/lugdrv.cpp) and the extracted model (ocaml/driver.ml), parsing of their canonical lines, the
model-vs-implementation correspondence and the reference-semantics-vs-implementation comparison."""
import concurrent.futures, os, re, subprocess, tempfile
import vlib

BUDGET = 3000


def _run(exe, args, text):
    p = subprocess.run("ulimit -s unlimited 2>/dev/null; exec %s %s" % (exe, args), shell=True, input=text, stdout=subprocess.PIPE,
                       stderr=subprocess.PIPE, text=True, errors="replace", timeout=900)
    return p.returncode, p.stdout, p.stderr


def run_sharded(exe, args, cases, shards=None):
    """runs [exe] on the case lines, split over processes; returns per case the list of its output lines
    (with the 'case N ' prefix removed)"""
    n = len(cases)
    shards = shards or min(vlib.NPROC, max(1, n // 20))
    bounds = [(k * n // shards, (k + 1) * n // shards) for k in range(shards)]
    out = [[] for _ in range(n)]
    errs = []

    def work(b):
        lo, hi = b
        rc, so, se = _run(exe, args, "\n".join(cases[lo:hi]) + "\n")
        return lo, rc, so, se

    with concurrent.futures.ThreadPoolExecutor(max_workers=shards) as ex:
        for lo, rc, so, se in ex.map(work, bounds):
            if rc != 0:
                errs.append("shard at %d: rc=%d %s" % (lo, rc, se[-500:]))
            for line in so.split("\n"):
                m = re.match(r"case (\d+) (.*)$", line)
                if m:
                    idx = lo + int(m.group(1)) - 1
                    if 0 <= idx < n:
                        out[idx].append(m.group(2))
                elif line.strip():
                    errs.append("unparsed output line: " + line[:200])
    return out, errs


def build_sides(chk, sanitize=False):
    impl, err = vlib.build_cpp("lugdrv", sanitize=sanitize)
    model, err2 = vlib.build_model()
    if impl is None or model is None:
        chk.broken.append(dict(kind="build", detail=(err or "") + (err2 or "")))
        return None, None
    return impl, model


def fields(line):
    """'run sv 6162 res=1 sr=2 ... log=A1@0 C2@1(0,61) conds=.. syms=..' -> dict"""
    d = {}
    m = re.match(r"(run|spec) (\S+) (\S+)?\s*(.*)$", line)
    d["kind"] = line.split(" ", 1)[0]
    for key in ("res", "sr", "mr", "steps", "trace"):
        mm = re.search(r"\b%s=(\S+)" % key, line)
        if mm:
            d[key] = mm.group(1)
    mm = re.search(r"\blog=(.*?)(?: ?conds=| ?syms=|$)", line)
    d["log"] = mm.group(1).strip() if mm else ""
    mm = re.search(r"\bconds=(\S*)", line)
    d["conds"] = mm.group(1) if mm else ""
    mm = re.search(r"\bsyms=(\S*)", line)
    d["syms"] = mm.group(1) if mm else ""
    return d


def strip_depth(log):
    return re.sub(r"@\d+", "", log)


SIZE_MAX = "18446744073709551615"


def _canon(lines):
    """Once the subject register has been loaded with SIZE_MAX from a tombstoned frame (a recorded defect, reported by
    C08/C12/C17) the library's sentinel encoding (a live frame saved at sr = SIZE_MAX looks dead) and the model's
    option-valued frames go different ways: such runs are compared on result and log only."""
    out = []
    for l in lines:
        if ("sr=" + SIZE_MAX) in l:
            l = re.sub(r" steps=\d+ trace=[0-9a-f]+", "", l)
            l = re.sub(r" mr=\d+", "", l)
        out.append(l)
    return out


def correspondence(chk, cases, impl_out, model_out, stream):
    """model vs implementation, line by line (programs, results, step counts, trace hashes, logs)"""
    mism = []
    for i, c in enumerate(cases):
        a = _canon(impl_out[i])
        b = _canon([l for l in model_out[i] if not l.startswith("spec ")])
        if a != b:
            k = next((j for j in range(min(len(a), len(b))) if a[j] != b[j]), min(len(a), len(b)))
            mism.append(dict(case=c, implementation=a[k] if k < len(a) else "<missing>", model=b[k] if k < len(b) else "<missing>"))
    if mism:
        chk.broken.append(dict(kind="correspondence", stream=stream, count=len(mism), first=mism[:5]))
    return mism


def spec_vs_impl(cases, impl_out, model_out):
    """yields (case, input, impl_fields, spec_fields) for every run for which the reference semantics gave a verdict"""
    for i, c in enumerate(cases):
        runs = {}
        for l in impl_out[i]:
            if l.startswith("run sv "):
                runs[l.split()[2]] = l
        for l in model_out[i]:
            if l.startswith("spec "):
                t = l.split()
                inhex = t[1]
                if len(t) > 2 and t[2] in ("n/a", "diverged"):
                    yield c, inhex, fields(runs[inhex]) if inhex in runs else None, dict(res=t[2])
                elif inhex in runs:
                    yield c, inhex, fields(runs[inhex]), fields(l)


def standard_prelude(chk, pid):
    tr = vlib.translate()
    if not tr.get("ok"):
        chk.broken.append(dict(kind="translator", detail=tr.get("error")))
    proof = vlib.prove(pid)
    if not proof["ok"]:
        for o in proof["obligations"]:
            if not o["discharged"]:
                chk.broken.append(dict(kind="theorem", name=o["name"], detail=(proof["errors"] or [""])[0]))
        if proof["forbidden"]:
            chk.broken.append(dict(kind="forbidden-vernacular", detail=proof["forbidden"]))
    return tr, proof
