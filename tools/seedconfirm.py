#!/usr/bin/env python3
"""Confirms a seeded change independently of the agent that proposed it: in a scratch worktree of /repo's HEAD
(outside /repo and /verif, removed afterwards) the patch must apply, the unedited test suite must build and pass
with it, and the demonstration must print OK / exit 0 on the pristine headers and VIOLATED / exit 1 on the patched
ones.  Writes seeded/<name>/confirmed.json.   usage: tools/seedconfirm.py name [name ...] [--jobs N]"""
import json, os, subprocess, sys, shutil
V = os.path.dirname(os.path.dirname(os.path.abspath(__file__)))
REPO = "/repo"


def sh(cmd, **kw):
    return subprocess.run(cmd, shell=True, stdout=subprocess.PIPE, stderr=subprocess.STDOUT, text=True, **kw)


def confirm(name, jobs):
    d = os.path.join(V, "seeded", name)
    wt = "/tmp/seedconfirm-" + name
    out = dict(name=name)
    sh("git -C %s worktree remove --force %s" % (REPO, wt))
    r = sh("git -C %s worktree add -q --detach %s HEAD" % (REPO, wt))
    try:
        shutil.rmtree(os.path.join(wt, "_build"), ignore_errors=True)
        out["head"] = sh("git -C %s rev-parse --short HEAD" % wt).stdout.strip()
        # demo on pristine headers
        r = sh("g++ -std=c++17 -O1 -I%s/include %s/demo.cpp -o %s/demo_pristine && %s/demo_pristine" % (wt, d, wt, wt), timeout=1800)
        out["demo_pristine_rc"] = r.returncode
        out["demo_pristine_out"] = r.stdout[-400:]
        r = sh("git -C %s apply %s/patch.diff" % (wt, d))
        out["applies"] = r.returncode == 0
        if not out["applies"]:
            out["apply_error"] = r.stdout[-400:]
            return out
        r = sh("g++ -std=c++17 -O1 -I%s/include %s/demo.cpp -o %s/demo_patched && %s/demo_patched" % (wt, d, wt, wt), timeout=1800)
        out["demo_patched_rc"] = r.returncode
        out["demo_patched_out"] = r.stdout[-400:]
        r = sh("cd %s && cmake -G Ninja -S . -B _build -DCMAKE_BUILD_TYPE=RelWithDebInfo -DCMAKE_CXX_FLAGS=-Wno-error >/dev/null && cmake --build _build -j%d 2>&1 | tail -2 && ctest --test-dir _build -j%d --timeout 900 2>&1 | tail -4" % (wt, jobs, jobs), timeout=7200)
        out["tests_tail"] = r.stdout[-400:]
        out["tests_pass"] = "100% tests passed" in r.stdout
        out["confirmed"] = bool(out["demo_pristine_rc"] == 0 and out["demo_patched_rc"] != 0 and out["tests_pass"])
        return out
    finally:
        sh("git -C %s worktree remove --force %s" % (REPO, wt))
        shutil.rmtree(wt, ignore_errors=True)


def main():
    jobs = 4
    names = []
    a = sys.argv[1:]
    while a:
        x = a.pop(0)
        if x == "--jobs":
            jobs = int(a.pop(0))
        else:
            names.append(x)
    for n in names:
        o = confirm(n, jobs)
        json.dump(o, open(os.path.join(V, "seeded", n, "confirmed.json"), "w"), indent=1)
        print(n, "confirmed" if o.get("confirmed") else "NOT CONFIRMED", {k: o.get(k) for k in ("applies", "demo_pristine_rc", "demo_patched_rc", "tests_pass")}, flush=True)


main()
