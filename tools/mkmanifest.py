#!/usr/bin/env python3
"""Writes /verif/MANIFEST.json from the table below (kept in one place so that it stays valid)."""
import json, os
V = os.path.dirname(os.path.dirname(os.path.abspath(__file__)))

CLAIMED = {
    # pid: (category, text, design_ref, level_note, technique)
}
PENDING = {}
ALL = ["C%02d" % i for i in range(1, 21)]

def load():
    g = {}
    exec(open(os.path.join(V, "tools", "manifest_table.py")).read(), g)
    return g["CLAIMED"], g["NOT_APPLICABLE"]

def main():
    claimed, na = load()
    checks = []
    for pid in ALL:
        if pid in claimed:
            c = claimed[pid]
            checks.append(dict(property_id=pid, quick_cmd="./check %s --tier quick" % pid, thorough_cmd="./check %s --tier thorough" % pid,
                               evidence_file="/verif/evidence/%s.json" % pid, replay_cmd_template="./check %s --replay {path}" % pid,
                               engine="coq-model", level_claimed=dict(category=c["category"], text=c["text"], design_ref=c["design_ref"]),
                               level_note=c["level_note"], technique=c["technique"]))
    m = dict(version=1,
             setup_cmd="./setup.sh",
             hooks=dict(guard="LUG_VERIF", enable="checks compile cpp/*.cpp against /repo/include with -DLUG_VERIF -fno-access-control",
                        baseline_off_cmd="cmake --build /repo/_build && ctest --test-dir /repo/_build -j8 --timeout 900",
                        source_commits=["54e8d2edd0b63841acfa91740e742f05c1dc3d76"], add_only=True),
             engines=[dict(name="coq-model", path="/verif/coq", serves_properties=sorted(claimed),
                           kind_free_text="Coq 8.16.1 development (model, spec, theorems) + translator regenerating tables/constants from the headers + extraction to OCaml + C++ drivers for the correspondence check")],
             checks=checks,
             notes="See DESIGN.md. Every check: translate headers -> rebuild proofs -> rebuild both executable sides from /repo's working tree -> correspondence + conformance search -> verdict/evidence.",
             not_applicable=[dict(property_id=p, reason=na[p]) for p in ALL if p not in claimed])
    with open(os.path.join(V, "MANIFEST.json"), "w") as f:
        json.dump(m, f, indent=1)
    print("claimed:", sorted(claimed), "not applicable:", [p for p in ALL if p not in claimed])

main()
