#!/usr/bin/env python3
"""prints the markdown table of DESIGN.md 10.7 from seeded/RESULTS.json"""
import json, os
V = os.path.dirname(os.path.dirname(os.path.abspath(__file__)))
R = json.load(open(os.path.join(V, "seeded", "RESULTS.json")))
print("| seeded change | what it changes | checks run -> fired | how it was reported |")
print("|---|---|---|---|")
for name in sorted(R):
    r = R[name]
    if "error" in r:
        print("| %s | - | - | %s |" % (name, r["error"][:80]))
        continue
    try:
        meta = json.load(open(os.path.join(V, "seeded", name, "meta.json")))
    except Exception:
        meta = {}
    summ = (meta.get("summary") or r.get("summary") or "").replace("|", "/").replace("\n", " ")[:170]
    fired = ", ".join("%s:%s" % (k, "FIRED" if v["rc"] != 0 else "quiet") for k, v in sorted(r["checks"].items()))
    how = []
    for k, v in sorted(r["checks"].items()):
        if v["rc"] != 0:
            sig = v.get("signatures") or []
            how.append("%s: %s" % (k, (", ".join(sig[:2]) if sig else "; ".join(v.get("broken", [])[:2]) or v.get("violation", "")[-40:])))
    print("| %s | %s | %s | %s |" % (name, summ, fired, "; ".join(how)[:220] or "not caught"))
