"""C08 -- cut and accept commit work done so far without reordering or losing it."""
import json, re
import vlib, gramlib
from gen_grammar import Gen, ser

PID = "C08"
MAXSZ = "18446744073709551615"


def erase(t):
    """the grammar with every cut/accept removed"""
    if not isinstance(t, tuple):
        return t
    if t[0] in ('cut', 'accept'):
        return ('nop',)
    if t[0] in ('cutb', 'cuta'):
        return erase(t[1])
    return tuple(erase(x) for x in t)


def has_cut(t):
    if not isinstance(t, tuple):
        return False
    return t[0] in ('cut', 'accept', 'cutb', 'cuta') or any(has_cut(x) for x in t)


def gen_cases(tier, seed):
    rnd = vlib.rng_for(seed, "C08")
    n = 700 if tier == "quick" else 12000
    pairs = []
    for feats, wf in ((('dir', 'act', 'cut'), True), (('dir', 'act', 'cut', 'env', 'prec'), False)):
        g = Gen(rnd, features=feats, wellformed=wf, max_rules=4, max_depth=5, ninputs=6, maxlen=10)
        for _ in range(n // 2):
            parts, G, start = g.grammar()
            if not any(has_cut(p) for p in parts):
                continue
            inputs = []
            for _ in range(g.ninputs):
                s = g.mutate(g.sample(G[start], G))[:16] if rnd.random() < 0.75 else bytes(rnd.choice(g.alphabet) for _ in range(rnd.randint(0, 8)))
                inputs.append(('input', s.hex()) if s else ('input',))
            with_cut = ser(('grammar',) + tuple(parts) + tuple(inputs))
            without = ser(('grammar',) + tuple(erase(p) for p in parts) + tuple(inputs))
            pairs.append((with_cut, without))
    return pairs


def callbacks(log):
    """order, multiplicity and captured text of the callbacks; offsets (relative after a drain) and depths dropped"""
    return re.sub(r"@\d+", "", re.sub(r"\((\d+),", "(", log))


def run(chk):
    tr, proof = gramlib.standard_prelude(chk, PID)
    impl, model = gramlib.build_sides(chk)
    if impl is None:
        return chk.finish(proof, "build failed")
    pairs = gen_cases(chk.tier, chk.seed)
    cases = [c for p in pairs for c in p]
    impl_out, e1 = gramlib.run_sharded(impl, "--budget=%d" % gramlib.BUDGET, cases)
    model_out, e2 = gramlib.run_sharded(model, "--budget=%d" % gramlib.BUDGET, cases)
    if e1 or e2:
        chk.broken.append(dict(kind="driver", detail=(e1 + e2)[:5]))
    mism = gramlib.correspondence(chk, cases, impl_out, model_out, "grammars with cut/accept and their cut-free erasures")
    nruns = nboth = ndis = nterm = 0
    for k, (gc, ge) in enumerate(pairs):
        a = [l for l in impl_out[2 * k] if l.startswith("run sv ")]
        b = [l for l in impl_out[2 * k + 1] if l.startswith("run sv ")]
        for la, lb in zip(a, b):
            fa, fb = gramlib.fields(la), gramlib.fields(lb)
            nruns += 1
            res = fa.get("res", "") or la
            if "terminate" in la or "crashed" in la:
                nterm += 1
                chk.report("C08:stale-backtrack-frame-after-cut:process-terminated", "a cut leaves a backtrack frame with a stale offset; resuming it makes the noexcept subject() throw: std::terminate",
                           dict(grammar=gc, run=la))
                continue
            if fa.get("sr") == MAXSZ or fa.get("mr") == MAXSZ:
                ndis += 1
                chk.report("C08:cut-inside-positive-predicate", "a cut inside &e drains at once and tombstones the predicate's own frame: sr = SIZE_MAX", dict(grammar=gc, run=la))
                continue
            if res.startswith("throw:std:St12out_of_range"):
                ndis += 1
                chk.report("C08:capture-range-stale-after-cut", "a response scheduled before a cut refers to released text: std::out_of_range at accept", dict(grammar=gc, run=la))
                continue
            if fa.get("res") == "1" and fb.get("res") == "1":
                nboth += 1
                if callbacks(fa.get("log", "")) != callbacks(fb.get("log", "")):
                    ndis += 1
                    if ndis <= 40:
                        sig = "C08:callbacks-differ-from-cut-free-grammar"
                        if "(and " in gc or "(not " in gc:
                            sig += ":cut-under-predicate"
                        elif "(star " in gc or "(plus " in gc or "(list " in gc or "(rep " in gc or "(alt " in gc:
                            sig += ":cut-at-live-choice-point"
                        chk.report(sig, "a parse that succeeds with and without the cuts runs different callbacks", dict(grammar=gc, with_cuts=la, without_cuts=lb))
        chk.note_case(gc, nontrivial=bool(a))
    chk.samples = [pairs[0][0][:500], pairs[0][1][:300]]
    chk.coverage.update(rule="random grammars with cut / accept / --e / e-- at arbitrary positions (inside captures, repetitions, choices, predicates, left-recursive calls, recovery expressions) x 6 sampled+mutated inputs, each compared with the same grammar with every cut/accept erased: when both parses succeed the callbacks must agree in order, multiplicity and captured text; process termination, SIZE_MAX registers and exceptions are violations; non-trivial = the pair compiled and ran",
                        pairs=len(pairs), runs=nruns, both_succeed=nboth, disagreements=ndis, terminated=nterm, correspondence_mismatches=len(mism), translator=tr)
    chk.assumptions = ["accept/cut/drain hand-modelled (Machine.v), tied by differential testing incl. the process-terminating case (model outcome Terminate)",
                       "line/column positions under cut are C11's subject (drain/reset histories)"]
    return chk.finish(proof, "theorems re-checked; %d grammar pairs (with cuts / cuts erased), %d runs, %d with both parses succeeding" % (len(pairs), nruns, nboth))


def replay(path):
    from props import pegcommon
    return pegcommon.replay(path)
