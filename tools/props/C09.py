"""C09 -- the outcome of a parse does not depend on how the input bytes are delivered."""
import itertools, json, re
import vlib, gramlib
from gen_grammar import Gen, ser

PID = "C09"


def compositions(s, rnd, k):
    """k random ways of cutting s into pieces"""
    out = []
    for _ in range(k):
        pieces, i = [], 0
        while i < len(s):
            n = rnd.choice([1, 1, 2, 3, 5])
            pieces.append(s[i:i + n])
            i += n
        out.append(pieces)
    return out


def all_compositions(s):
    n = len(s)
    for mask in range(1 << max(0, n - 1)):
        pieces, start = [], 0
        for i in range(1, n):
            if mask >> (i - 1) & 1:
                pieces.append(s[start:i]); start = i
        pieces.append(s[start:])
        yield pieces


def gen_cases(tier, seed):
    rnd = vlib.rng_for(seed, "C09")
    n = 500 if tier == "quick" else 6000
    alpha = b"aab \n\r" + "é€".encode()
    cases = []
    # third stream: ill-formed UTF-8 (runs of continuation bytes, invalid and truncated leads): how much of such a run one
    # `any` / set / class consumes must not depend on how much of it has been delivered
    bad = b"a\x80\x80\xbf\xe9\xf8\xc3\xf0"
    for feats, wf, alpha in ((('dir', 'act', 'class', 'utf8'), True, alpha), (('dir', 'act', 'class', 'utf8', 'cut', 'env'), False, alpha),
                             (('act', 'class', 'utf8'), False, bad)):
        g = Gen(rnd, features=feats, wellformed=wf, max_rules=3, max_depth=4, ninputs=4, maxlen=8, alphabet=alpha)
        for _ in range(n if alpha is not bad else n // 2):
            parts, G, start = g.grammar()
            for _ in range(g.ninputs):
                s = g.mutate(g.sample(G[start], G))[:14] if rnd.random() < 0.6 else bytes(rnd.choice(alpha) for _ in range(rnd.randint(0, 8)))
                if rnd.random() < 0.3:
                    s += rnd.choice([b"\r\n", "é".encode(), b"\r\nx", "€a".encode()])
                parts.append(('input', s.hex()) if s else ('input',))
                if s:
                    comps = list(all_compositions(s)) if (tier == "thorough" and len(s) <= 7) else compositions(s, rnd, 3)
                    for pieces in comps:
                        parts.append(('chunks',) + tuple(p.hex() for p in pieces))
            cases.append(ser(('grammar',) + tuple(parts)))
    return cases


def boundary_kind(pieces):
    data = b"".join(pieces)
    pos, kinds = 0, set()
    for p in pieces[:-1]:
        pos += len(p)
        if pos < len(data) and 0x80 <= data[pos] <= 0xBF:
            kinds.add("inside-multibyte-character")
        elif pos < len(data) and data[pos] == 0x0A and data[pos - 1] == 0x0D:
            kinds.add("between-cr-and-lf")
    return kinds


def run(chk):
    tr, proof = gramlib.standard_prelude(chk, PID)
    impl, model = gramlib.build_sides(chk)
    if impl is None:
        return chk.finish(proof, "build failed")
    cases = gen_cases(chk.tier, chk.seed)
    impl_out, e1 = gramlib.run_sharded(impl, "--budget=%d --sources" % gramlib.BUDGET, cases)
    model_out, e2 = gramlib.run_sharded(model, "--budget=%d --sources" % gramlib.BUDGET, cases)
    if e1 or e2:
        chk.broken.append(dict(kind="driver", detail=(e1 + e2)[:5]))
    mism = gramlib.correspondence(chk, cases, impl_out, model_out, "grammars x inputs x source kinds x deliveries")
    ngroups = ndis = ndeliveries = 0
    for i, c in enumerate(cases):
        ref = {}
        for l in impl_out[i]:
            if not l.startswith("run "):
                continue
            t = l.split()
            tag, inh = t[1], t[2]
            f = gramlib.fields(l)
            key = (f.get("res"), f.get("sr") if f.get("res") == "1" else None, f.get("log"))
            if tag == "sv":
                ref[inh] = (key, l)
                ngroups += 1
            else:
                whole = inh.replace("|", "") or "-"
                ndeliveries += 1
                if whole in ref and ref[whole][0] != key and "diverged" not in (key[0], ref[whole][0][0]):
                    ndis += 1
                    if tag == "ch":
                        kinds = boundary_kind([bytes.fromhex(x) for x in inh.split("|")])
                        sig = "C09:delivery-boundary:" + ("+".join(sorted(kinds)) if kinds else "elsewhere")
                    else:
                        sig = "C09:source-kind:" + tag
                    if ndis <= 60:
                        chk.report(sig, "outcome differs between a contiguous string_view and %s delivery %s" % (tag, inh),
                                   dict(grammar=c, delivery=inh, whole=ref[whole][1], delivered=l))
        chk.note_case(c, nontrivial=len(impl_out[i]) > 2)
    chk.samples = [cases[0][:500], cases[-1][:500]]
    chk.coverage.update(rule="random grammars (with multi-byte literals/ranges/classes, eol, cut) x inputs containing multi-byte characters and CR LF x {string_view, copied string behind a forward-iterator range, std::istream via readsource, push_source callbacks delivering "
                             + ("every composition of inputs up to 7 bytes" if chk.tier == "thorough" else "3 random compositions") + "}; non-trivial = compiled and run with at least two deliveries",
                        grammars=len(cases), inputs=ngroups, deliveries=ndeliveries, correspondence_mismatches=len(mism), delivery_disagreements=ndis, translator=tr)
    chk.assumptions = ["input sources (available/fill_buffer/poll) hand-modelled in Machine.v, tied by differential testing on every delivery",
                       "std::istream behaviour below readsource is not modelled: the istream runs are compared implementation against implementation and against the one-chunk model"]
    return chk.finish(proof, "theorems re-checked; %d grammars; %d inputs under %d alternative deliveries/source kinds compared with the contiguous parse" % (len(cases), ngroups, ndeliveries))


def replay(path):
    from props import pegcommon
    return pegcommon.replay(path)
