"""C16 -- character sets and bracket expressions denote exactly their set of characters."""
import json, re
import vlib, gramlib

PID = "C16"
MAXR = 0xFFFFFFFF


# ---------------------------------------------------------------- interval-set oracle (exact on every code point)
def norm(ivs):
    ivs = sorted((a, b) for a, b in ivs if a <= b)
    out = []
    for a, b in ivs:
        if out and a <= out[-1][1] + 1:
            out[-1] = (out[-1][0], max(out[-1][1], b))
        else:
            out.append((a, b))
    return out


def complement(ivs):
    out, lo = [], 0
    for a, b in norm(ivs):
        if a > lo:
            out.append((lo, a - 1))
        lo = b + 1
    if lo <= MAXR:
        out.append((lo, MAXR))
    return out


def parse_rs_line(line):
    m = re.match(r"ascii=([0-9a-f]{32}) iv=(\S*) q=(\S*)$", line)
    if not m:
        return None
    words = [int(m.group(1)[8 * w:8 * w + 8], 16) for w in range(4)]
    ivs = []
    for w in range(4):
        for b in range(32):
            if words[w] >> b & 1:
                ivs.append((w * 32 + b, w * 32 + b))
    for part in m.group(2).split(","):
        if part:
            a, b = part.split("-")
            ivs.append((int(a), int(b)))
    return norm(ivs), m.group(3)


def gen_rs_cases(tier, seed):
    rnd = vlib.rng_for(seed, "C16-rs")
    n = 3000 if tier == "quick" else 40000
    pts = [0, 1, 64, 65, 90, 126, 127, 128, 129, 255, 256, 0x7FF, 0x800, 0xD7FF, 0xE000, 0xFFFF, 0x10000, 0x10FFFF, 0x110000, MAXR - 1, MAXR]
    cases = []
    for _ in range(n):
        ops = []
        k = rnd.randint(0, 6)
        for _ in range(k):
            if rnd.random() < 0.25:
                ops.append("u:%d" % rnd.choice(pts + [rnd.randrange(0, 0x3000)]))
            else:
                a = rnd.choice(pts + [rnd.randrange(0, 0x3000)])
                b = min(a + rnd.choice([0, 0, 1, 2, 5, 40, 200, 5000, rnd.randrange(0, 0x20000)]), MAXR)
                if rnd.random() < 0.05 and b < MAXR:
                    a, b = b + 1, a
                ops.append("r:%d:%d" % (a, b))
        ops.append("so")
        # negate() is only ever applied to an optimised set and its result is never re-sorted (sort_heap needs a heap)
        if rnd.random() < 0.5:
            ops.append("neg")
        for _ in range(6):
            ops.append("?:%d" % rnd.choice(pts + [rnd.randrange(0, 0x3000), rnd.randrange(0, 0x110000)]))
        cases.append("rs " + " ".join(ops))
    return cases


def rs_expected(case):
    """denotation of the op sequence; returns (intervals | 'throw', answers)"""
    cur, ans = [], ""
    for op in case.split()[1:]:
        if op == "so":
            continue
        if op == "neg":
            cur = complement(cur)
            continue
        t = op.split(":")
        if t[0] == "r":
            a, b = int(t[1]), int(t[2])
            if a > b:
                return "throw", ans
            cur = norm(cur + [(a, b)])
        elif t[0] == "u":
            cur = norm(cur + [(int(t[1]), int(t[1]))])
        elif t[0] == "?":
            x = int(t[1])
            ans += "1" if any(a <= x <= b for a, b in cur) else "0"
    return norm(cur), ans


# ---------------------------------------------------------------- bracket expressions
CLASSES = {"alpha": 1, "lower": 2, "upper": 4, "punct": 8, "digit": 16, "xdigit": 32, "alnum": 64, "space": 128, "blank": 256,
           "cntrl": 512, "graph": 1024, "print": 2048, "word": 4096}
PROBES = [ord(c) for c in "aAbzZ09_-]^[. :\n"] + [0xE9, 0xFC, 0x416, 0x20AC, 0x1F600]


def gen_bracket(rnd):
    items, spec = [], []
    n = rnd.randint(1, 4)
    r0 = rnd.random()
    if r0 < 0.08:                      # ']' is a member only when it comes first
        items.append("]"); spec.append(("char", ord("]")))
    elif r0 < 0.14:                    # '-' first is a member
        items.append("-"); spec.append(("char", ord("-")))
    elif r0 < 0.18:                    # a range that starts with '-'
        items.append("--a"); spec.append(("range", ord("-"), ord("a")))
    for _ in range(n):
        r = rnd.random()
        if r < 0.25:
            nm = rnd.choice(list(CLASSES))
            items.append("[:%s:]" % nm)
            spec.append(("class", nm))
        elif r < 0.6:
            a = rnd.choice("aAm0z") if rnd.random() < 0.8 else rnd.choice("é€")
            b = chr(min(ord(a) + rnd.randint(0, 30), 0x10FFFF))
            if rnd.random() < 0.06:
                a, b = b, a
            if b in "]-":
                b = "^"
            items.append("%s-%s" % (a, b))
            spec.append(("range", ord(a), ord(b)))
        else:
            c = rnd.choice("abcXYZ019_.$*é€")
            items.append(c)
            spec.append(("char", ord(c)))
    if rnd.random() < 0.08:            # '-' last is a member
        items.append("-"); spec.append(("char", ord("-")))
    neg = rnd.random() < 0.35
    return "[" + ("^" if neg else "") + "".join(items) + "]", ("bracket", neg, spec, items)


def gen_bre_cases(tier, seed):
    rnd = vlib.rng_for(seed, "C16-bre")
    n = 500 if tier == "quick" else 8000
    cases, metas = [], []
    for _ in range(n):
        elems, pat = [], ""
        k = rnd.choice([1, 1, 1, 2, 3])
        for _ in range(k):
            r = rnd.random()
            if r < 0.7:
                s, e = gen_bracket(rnd)
            elif r < 0.8:
                s, e = ".", ("dot",)
            else:
                c = rnd.choice("abxyz09é")
                s, e = c, ("lit", ord(c))
            pat += s
            elems.append(e)
        if rnd.random() < 0.05:
            pat = pat[:-1] if pat.endswith("]") else pat + "["      # malformed
            elems = None
        inputs = []
        for _ in range(14):
            m = rnd.randint(max(0, k - 1), k + 1) if rnd.random() < 0.2 else k
            inputs.append("".join(chr(rnd.choice(PROBES)) for _ in range(m)))
        caseless = rnd.random() < 0.0
        body = "(bre %s)" % pat.encode().hex()
        cases.append("(grammar (space default) (rule R0 (seq (noskip %s) (eoi))) (start R0) %s)" % (body, " ".join("(input %s)" % (s.encode().hex()) for s in inputs)))
        metas.append((pat, elems, inputs))
    return cases, metas


def member(e, cp, cflags):
    if e[0] == "dot":
        return True
    if e[0] == "lit":
        return cp == e[1]
    _, neg, spec, _ = e
    inside = False
    for it in spec:
        if it[0] == "char" and cp == it[1]:
            inside = True
        elif it[0] == "range" and it[1] <= cp <= it[2]:
            inside = True
        elif it[0] == "class" and (cflags.get(cp, 0) & CLASSES[it[1]]):
            inside = True
    return inside != neg


def bre_expected(elems, inp, cflags):
    """None = pattern must be rejected when the grammar is built"""
    if elems is None:
        return None
    for e in elems:
        if e[0] == "bracket" and any(it[0] == "range" and it[1] > it[2] for it in e[2]):
            return None
    cps = [ord(c) for c in inp]
    return len(cps) == len(elems) and all(member(e, cp, cflags) for e, cp in zip(elems, cps))


def classify_bre(pat, elems):
    if elems:
        for e in elems:
            if e[0] == "bracket":
                kinds = {it[0] for it in e[2]}
                if "class" in kinds and (kinds - {"class"}):
                    return "C16:bracket-class-plus-chars"
                if e[3] and e[3][0].startswith("--"):
                    return "C16:bracket-range-starting-with-dash"
                if any(x.startswith("--") for x in e[3]):
                    return "C16:bracket-range-starting-with-dash"
    return "C16:other:" + pat[:20]


def run(chk):
    tr, proof = gramlib.standard_prelude(chk, PID)
    pimpl, err = vlib.build_cpp("puredrv")
    model, err2 = vlib.build_model()
    gimpl, err3 = vlib.build_cpp("lugdrv")
    if pimpl is None or model is None or gimpl is None:
        chk.broken.append(dict(kind="build", detail=(err or "") + (err2 or "") + (err3 or "")))
        return chk.finish(proof, "build failed")
    # ---- stream 1: rune_set operation sequences
    cases = gen_rs_cases(chk.tier, chk.seed)
    text = "\n".join(cases) + "\n"
    rc1, o1, _ = vlib.run_driver(pimpl, text)
    rc2, o2, _ = vlib.run_driver(model, text)
    mism = vlib.compare_lines(cases, o1, o2)
    if mism:
        chk.broken.append(dict(kind="correspondence", stream="rune_set operations", count=len(mism), first=[dict(case=m[1], implementation=m[2], model=m[3]) for m in mism[:5]]))
    lines = o1.split("\n")
    nbad = 0
    for i, c in enumerate(cases):
        exp, ans = rs_expected(c)
        got = lines[i] if i < len(lines) else ""
        if exp == "throw":
            ok = got.startswith("throw character range is reversed")
        else:
            pr = parse_rs_line(got)
            ok = pr is not None and pr[0] == exp and pr[1] == ans
        if not ok:
            nbad += 1
            if nbad <= 20:
                chk.report("C16:set-algebra", "rune_set operations do not denote the expected set: " + c[:200], dict(case=c, implementation=got, expected=str(exp)[:500], answers=ans))
        chk.note_case(c, nontrivial=("r:" in c))
    # ---- stream 2: bre patterns through the whole pipeline
    gcases, metas = gen_bre_cases(chk.tier, chk.seed)
    impl_out, e1 = gramlib.run_sharded(gimpl, "--budget=%d" % gramlib.BUDGET, gcases)
    model_out, e2 = gramlib.run_sharded(model, "--budget=%d" % gramlib.BUDGET, gcases)
    gm = gramlib.correspondence(chk, gcases, impl_out, model_out, "bre patterns")
    # the library's own POSIX classification of the probe characters (C14's business; used as given)
    rcq, oq, _ = vlib.run_driver(pimpl, "".join("qidx %d %d\n" % (cp, cp + 1) for cp in PROBES))
    cflags = {}
    for l in oq.split("\n"):
        t = l.split()
        if len(t) == 10:
            cflags[int(t[0])] = int(t[2])
    nb = 0
    nchecked = 0
    for i, (pat, elems, inputs) in enumerate(metas):
        out = impl_out[i]
        built = bool(out) and out[0].startswith("prog ")
        want_error = bre_expected(elems, "", cflags) is None
        if want_error or not built:
            nchecked += 1
            if want_error != (not built):
                nb += 1
                chk.report(classify_bre(pat, elems) if built else "C16:rejects-valid-pattern:" + classify_bre(pat, elems),
                           "bre(%r): %s" % (pat, "accepted a malformed pattern" if built else "rejected a well-formed pattern: " + (out[0] if out else "")),
                           dict(pattern=pat, grammar=gcases[i], implementation=out[:1]))
            continue
        runs = [l for l in out if l.startswith("run sv ")]
        for inp, l in zip(inputs, runs):
            f = gramlib.fields(l)
            exp = bre_expected(elems, inp, cflags)
            nchecked += 1
            if (f.get("res") == "1") != exp:
                nb += 1
                if nb <= 60:
                    chk.report(classify_bre(pat, elems), "bre(%r) on %r: library says %s, the denotation says %s" % (pat, inp, f.get("res"), exp),
                               dict(pattern=pat, input=inp, grammar=gcases[i], implementation=l))
        chk.note_case(gcases[i], nontrivial=True)
    chk.samples = [cases[0], cases[len(cases) // 2], metas[0][0], metas[len(metas) // 2][0]]
    chk.coverage.update(rule="(1) random rune_set operation sequences (push_range/push_rune, sort_and_optimize, negate, contains) whose resulting ASCII bitmap and interval list are compared with the exact denotation over all 2^32 values by interval arithmetic; (2) random bre patterns (1-3 elements: bracket expressions with chars, ranges, [:class:] items, leading ^, ']' and '-' in odd places, '.', literals; 5% malformed) compiled and run on 14 inputs each; non-trivial = contains a range / every bre case",
                        rs_cases=len(cases), rs_mismatches=len(mism), rs_oracle_failures=nbad, bre_patterns=len(gcases), bre_mismatches=len(gm),
                        bre_oracle_checks=nchecked, bre_oracle_failures=nb, translator=tr)
    chk.assumptions = ["rune_set (push_heap/sort_heap modelled by their specification) and the bre compiler are hand-modelled (Ucd/RuneSet.v, Lang/Bre.v), tied by differential testing",
                       "the POSIX class of a character is taken from the library's own tables (C14 decides those)"]
    return chk.finish(proof, "set-algebra theorems re-checked; %d rune_set op sequences and %d bre patterns compared model vs library and against the denotational oracle" % (len(cases), len(gcases)))


def replay(path):
    print(open(path).read()[:4000])
    return 0
