"""C10 -- naming a sub-expression as a rule, or copying a rule, never changes behaviour."""
import json, re
import vlib, gramlib
from gen_grammar import Gen, ser

PID = "C10"
UNARY = {'star', 'plus', 'opt', 'not', 'and', 'block', 'local'}


def subterms(t, path=()):
    """paths of sub-expressions that can be hoisted (not the root)"""
    out = []
    if not isinstance(t, tuple):
        return out
    op = t[0]
    kids = []
    if op in ('seq', 'alt', 'list'):
        kids = [1, 2]
    elif op in UNARY:
        kids = [1]
    elif op in ('act', 'cap', 'sym', 'localto', 'on', 'off'):
        kids = [2]
    elif op == 'rep':
        kids = [3]
    for k in kids:
        out.append(path + (k,))
        out += subterms(t[k], path + (k,))
    return out


def get(t, path):
    for k in path:
        t = t[k]
    return t


def put(t, path, new):
    if not path:
        return new
    l = list(t)
    l[path[0]] = put(t[path[0]], path[1:], new)
    return tuple(l)


def variants(parts, rnd, k):
    """k refactorings of the grammar given as the list of s-expression parts"""
    rules = [(i, p) for i, p in enumerate(parts) if p[0] == 'rule']
    out = []
    for v in range(k):
        kind = rnd.choice(['hoist', 'hoist', 'hoist-late', 'copy', 'double-hoist'])
        new = list(parts)
        try:
            if kind in ('hoist', 'hoist-late', 'double-hoist'):
                for rep in range(2 if kind == 'double-hoist' else 1):
                    rules_now = [(i, p) for i, p in enumerate(new) if p[0] == 'rule']
                    i, r = rnd.choice(rules_now)
                    paths = subterms(r[2])
                    if not paths:
                        raise ValueError
                    path = rnd.choice(paths)
                    name = 'H%d%d' % (v, rep)
                    sub = get(r[2], path)
                    new[i] = ('rule', r[1], put(r[2], path, ('ref', name)))
                    # definition before first use, or after it (forward-declared rule assigned late)
                    pos = i if kind != 'hoist-late' else i + 1
                    new.insert(pos, ('rule', name, sub))
            else:
                i, r = rnd.choice(rules)
                name = 'K%d' % v
                # a copy of the rule; one reference somewhere goes through the copy
                users = [(j, p) for j, p in enumerate(new) if p[0] == 'rule' and ("(ref %s)" % r[1]) in ser(p[2])]
                if not users:
                    raise ValueError
                j, u = rnd.choice(users)
                body = ser(u[2]).replace("(ref %s)" % r[1], "(ref %s)" % name, 1)
                new[j] = ('rule', u[1], RawSx(body))
                new.insert(max(i, j) + 1 if j < i else j, ('rulecopy', name, r[1])) if False else None
                # the copy must be made after the original is defined and before the user is defined: only when i < j
                if i >= j:
                    raise ValueError
                new.insert(j, ('rulecopy', name, r[1]))
            out.append((kind, new))
        except ValueError:
            continue
    return out


class RawSx(tuple):
    def __new__(cls, text):
        o = super().__new__(cls, ())
        o.text = text
        return o


def ser2(t):
    if isinstance(t, RawSx):
        return t.text
    if isinstance(t, tuple):
        return '(' + ' '.join(ser2(x) for x in t) + ')'
    return str(t)


def gen_cases(tier, seed):
    rnd = vlib.rng_for(seed, "C10")
    n = 350 if tier == "quick" else 5000
    nvar = 5 if tier == "quick" else 10
    groups = []
    g = Gen(rnd, features=('act', 'class', 'env'), wellformed=True, max_rules=4, max_depth=5, ninputs=5, maxlen=10)
    for _ in range(n):
        parts, G, start = g.grammar()
        inputs = []
        for _ in range(g.ninputs):
            s = g.mutate(g.sample(G[start], G))[:14] if rnd.random() < 0.7 else bytes(rnd.choice(g.alphabet) for _ in range(rnd.randint(0, 8)))
            inputs.append(('input', s.hex()) if s else ('input',))
        base = [p for p in parts]
        vs = [('original', base)] + variants(base, rnd, nvar)
        groups.append([(kind, ser2(('grammar',) + tuple(v) + tuple(inputs))) for kind, v in vs])
    return groups


def run(chk):
    tr, proof = gramlib.standard_prelude(chk, PID)
    impl, model = gramlib.build_sides(chk)
    if impl is None:
        return chk.finish(proof, "build failed")
    groups = gen_cases(chk.tier, chk.seed)
    cases = [c for g in groups for _, c in g]
    impl_out, e1 = gramlib.run_sharded(impl, "--budget=%d" % gramlib.BUDGET, cases)
    model_out, e2 = gramlib.run_sharded(model, "--budget=%d" % gramlib.BUDGET, cases)
    if e1 or e2:
        chk.broken.append(dict(kind="driver", detail=(e1 + e2)[:5]))
    mism = gramlib.correspondence(chk, cases, impl_out, model_out, "grammars and their refactorings")
    idx = 0
    nvar = ndepth = nother = 0
    for g in groups:
        base_runs = [gramlib.fields(l) for l in impl_out[idx] if l.startswith("run sv ")]
        base_case = g[0][1]
        for j, (kind, c) in enumerate(g):
            out = impl_out[idx + j]
            if j == 0:
                continue
            nvar += 1
            runs = [gramlib.fields(l) for l in out if l.startswith("run sv ")]
            if len(runs) != len(base_runs):
                nother += 1
                chk.report("C10:variant-does-not-build", "a refactoring (%s) does not compile or run like the original" % kind, dict(original=base_case, variant=c, output=out[:2]))
                continue
            for a, b in zip(base_runs, runs):
                if "diverged" in (a.get("res"), b.get("res")):
                    continue
                core_same = all(a.get(x) == b.get(x) for x in ("res", "sr", "mr", "conds", "syms")) and gramlib.strip_depth(a.get("log", "")) == gramlib.strip_depth(b.get("log", ""))
                if not core_same:
                    nother += 1
                    if nother <= 30:
                        chk.report("C10:behaviour-changes:" + kind, "a refactoring (%s) changes what the grammar does" % kind, dict(original=base_case, variant=c, original_run=a, variant_run=b))
                elif a.get("log") != b.get("log"):
                    ndepth += 1
                    if ndepth <= 5:
                        chk.report("C10:call-depth-depends-on-factoring", "the call depth callbacks observe depends on how the grammar is factored into rules (%s)" % kind,
                                   dict(original=base_case, variant=c, original_log=a.get("log"), variant_log=b.get("log")))
                    else:
                        chk.report("C10:call-depth-depends-on-factoring", "", {})
        for _, c in g:
            chk.note_case(c, nontrivial=True)
        idx += len(g)
    chk.samples = [groups[0][0][1][:400], groups[0][1][1][:400] if len(groups[0]) > 1 else ""]
    chk.coverage.update(rule="random grammars x up to %d refactorings each (a random sub-expression hoisted into a new rule defined before or after its use, two nested hoists, a reference routed through a copy of the rule) x 5 sampled+mutated inputs; every variant must give the same result, consumed length, farthest failure, callbacks with the same captured text and call depth, conditions and symbols; rules, whitespace rule and strings are destroyed before parsing" % (5 if chk.tier == "quick" else 10),
                        grammars=len(groups), variants=nvar, correspondence_mismatches=len(mism), call_depth_differences=ndepth, other_differences=nother, translator=tr)
    chk.assumptions = ["encoder (inlining decision, concatenate, start) hand-modelled, tied by program equality on every variant",
                       "hoisting is only applied in grammars without directives (a rule starts in the default mode by design, so hoisting out of lexeme[]/noskip[]/caseless[] is not behaviour preserving)"]
    return chk.finish(proof, "theorems re-checked; %d grammars with %d refactorings compared" % (len(groups), nvar))


def replay(path):
    from props import pegcommon
    return pegcommon.replay(path)
