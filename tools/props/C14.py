"""C14 -- character property lookups: structure, derivations and standard constants for every code point."""
import hashlib, json, os, re
import vlib

PID = "C14"


def digest(items):
    s = ",".join(str(x) for x in items)
    return "%d:%s" % (len(items), hashlib.sha256(s.encode()).hexdigest()[:16])


def decode_lengths():
    """RLE decode lengths computed from the header text directly (independent re-implementation of run_length_decode)"""
    import translate
    src = translate.strip_comments(translate.read("include/lug/unicode.hpp"))
    arrs = translate.parse_arrays(src)
    out = {}
    for name in translate.UCD_ARRAYS_RLE:
        a = arrs[name]; w = a["width"]; v = a["values"]
        il = (1 << w) - 1; mask = 3 << (w - 2)
        n = 0; i = 0
        while i < len(v):
            lead = v[i]; i += 1
            if lead == il:
                count, head, tail = v[i], v[i + 1], v[i + 2]; i += 3
                n += count * (((head & ~mask) + 1) if (head & mask) == mask else 2)
            elif (lead & mask) == mask:
                n += (lead & ~mask) + 1; i += 1
            else:
                n += 1
        out[name] = n
    return out


def run(chk):
    import gramlib
    tr, proof = gramlib.standard_prelude(chk, PID)
    impl, err = vlib.build_cpp("puredrv")
    model, err2 = vlib.build_model()
    if impl is None or model is None:
        chk.broken.append(dict(kind="build", detail=(err or "") + (err2 or "")))
        return chk.finish(proof, "build failed")
    # exhaustive correspondence: decoded tables, then every code point through query() and the case/width functions
    text = "ucddump\nqidx 0 1114200\nq 0 1114200\nq 4294967200 4294967296\n"
    rc1, o1, e1 = vlib.run_driver(impl, text)
    rc2, o2, e2 = vlib.run_driver(model, text)
    a, b = o1.split("\n"), o2.split("\n")
    mism = [i for i in range(min(len(a), len(b))) if a[i] != b[i]]
    if len(a) != len(b) or mism or rc1 != 0 or rc2 != 0:
        chk.broken.append(dict(kind="correspondence", stream="ucd tables, all code points", count=len(mism) + abs(len(a) - len(b)),
                               first=[dict(implementation=a[i][:200], model=b[i][:200]) for i in mism[:5]], stderr=(e1 + e2)[-500:]))
    # the statements of Ucd/UcdSpec.v evaluated on the implementation's own answers
    en = json.load(open(os.path.join(vlib.COQ, "Gen", "enums.json")))
    P, G, C, B, S, E = (dict(en[k]) for k in ("ptype", "gctype", "ctype", "blktype", "sctype", "eawtype"))
    recs, maps = {}, {}
    nstage = 2 + 1985
    lines = a
    idx = 0
    for l in lines:
        if l.startswith(("stage", "rec ")):
            continue
        t = l.split()
        if len(t) == 10:
            recs[int(t[0])] = tuple(int(x) for x in t[1:])
        elif len(t) == 7:
            maps[int(t[0])] = tuple(int(x) for x in t[2:])
    LIMIT = 0x110000
    has = lambda f, bit: (f & bit) != 0
    gcin = lambda r, *names: any((1 << r[3]) & G[n] for n in names)

    def annexC(cp, r):
        pf = r[0]
        alpha = has(pf, P['Alphabetic']); lower = has(pf, P['Lowercase']); upper = has(pf, P['Uppercase'])
        punct = gcin(r, 'P'); digit = gcin(r, 'Nd'); xdigit = digit or has(pf, P['Hex_Digit']); alnum = alpha or digit
        space = has(pf, P['White_Space']); blank = gcin(r, 'Zs') or cp == 9; cntrl = gcin(r, 'Cc')
        graph = not space and not gcin(r, 'Cc', 'Cs', 'Cn'); prnt = (graph or blank) and not cntrl
        word = alpha or gcin(r, 'M') or digit or gcin(r, 'Pc') or has(pf, P['Join_Control'])
        c = 0
        for nm, v in (('alpha', alpha), ('lower', lower), ('upper', upper), ('punct', punct), ('digit', digit), ('xdigit', xdigit), ('alnum', alnum),
                      ('space', space), ('blank', blank), ('cntrl', cntrl), ('graph', graph), ('print', prnt), ('word', word)):
            if v:
                c |= C[nm]
        return c
    p = lambda r, n: has(r[0], P[n])
    rules = {
        'annexC': lambda cp, r: annexC(cp, r) == r[1],
        'Lowercase': lambda cp, r: p(r, 'Lowercase') == (gcin(r, 'Ll') or p(r, 'Other_Lowercase')),
        'Uppercase': lambda cp, r: p(r, 'Uppercase') == (gcin(r, 'Lu') or p(r, 'Other_Uppercase')),
        'Cased': lambda cp, r: p(r, 'Cased') == (p(r, 'Lowercase') or p(r, 'Uppercase') or gcin(r, 'Lt')),
        'Alphabetic': lambda cp, r: p(r, 'Alphabetic') == (p(r, 'Lowercase') or p(r, 'Uppercase') or gcin(r, 'Lt', 'Lm', 'Lo', 'Nl') or p(r, 'Other_Alphabetic')),
        'Math': lambda cp, r: p(r, 'Math') == (gcin(r, 'Sm') or p(r, 'Other_Math')),
        'ID_Start': lambda cp, r: p(r, 'ID_Start') == ((gcin(r, 'L', 'Nl') or p(r, 'Other_ID_Start')) and not p(r, 'Pattern_Syntax') and not p(r, 'Pattern_White_Space')),
        'ID_Continue': lambda cp, r: p(r, 'ID_Continue') == ((p(r, 'ID_Start') or gcin(r, 'Mn', 'Mc', 'Nd', 'Pc') or p(r, 'Other_ID_Continue')) and not p(r, 'Pattern_Syntax') and not p(r, 'Pattern_White_Space')),
        'Grapheme_Extend': lambda cp, r: p(r, 'Grapheme_Extend') == (gcin(r, 'Me', 'Mn') or p(r, 'Other_Grapheme_Extend')),
        'Grapheme_Base': lambda cp, r: p(r, 'Grapheme_Base') == (not gcin(r, 'Cc', 'Cf', 'Cs', 'Co', 'Cn', 'Zl', 'Zp') and not p(r, 'Grapheme_Extend')),
        'Default_Ignorable': lambda cp, r: p(r, 'Default_Ignorable_Code_Point') == ((p(r, 'Other_Default_Ignorable_Code_Point') or gcin(r, 'Cf') or p(r, 'Variation_Selector')) and not p(r, 'White_Space') and not (0xFFF9 <= cp <= 0xFFFB) and not (0x13430 <= cp <= 0x13440) and not p(r, 'Prepended_Concatenation_Mark')),
        'Assigned': lambda cp, r: p(r, 'Assigned') == (not gcin(r, 'Cn')),
        'Any': lambda cp, r: p(r, 'Any'),
        'Ascii': lambda cp, r: p(r, 'Ascii') == (cp < 0x80),
        'Noncharacter': lambda cp, r: p(r, 'Noncharacter_Code_Point') == ((0xFDD0 <= cp <= 0xFDEF) or (cp & 0xFFFE) == 0xFFFE),
        'Line_Ending': lambda cp, r: p(r, 'Line_Ending') == (cp in (0xA, 0xB, 0xC, 0xD, 0x85, 0x2028, 0x2029)),
        'Surrogates': lambda cp, r: gcin(r, 'Cs') == (0xD800 <= cp <= 0xDFFF),
        'Private_Use': lambda cp, r: gcin(r, 'Co') == ((0xE000 <= cp <= 0xF8FF) or (0xF0000 <= cp <= 0xFFFFD) or (0x100000 <= cp <= 0x10FFFD)),
        'Block_aligned': lambda cp, r: (r[2] & 1023) == (recs[cp - cp % 16][2] & 1023),
    }
    nbad_total = 0
    if len(recs) >= LIMIT and len(maps) >= LIMIT:
        for name, f in rules.items():
            bad = [cp for cp in range(LIMIT) if not f(cp, recs[cp])]
            if bad:
                nbad_total += len(bad)
                chk.report("C14:%s:%s" % (name, digest(bad)), "rule %s violated by %d code points (first U+%04X)" % (name, len(bad), bad[0]),
                           dict(rule=name, count=len(bad), first=["U+%04X" % x for x in bad[:20]]))
        m = lambda cp, k: maps[cp][k] if cp < LIMIT else cp
        consistency = {
            'casefold_idempotent': [cp for cp in range(LIMIT) if m(m(cp, 0), 0) != m(cp, 0)],
            'fold_lower': [cp for cp in range(LIMIT) if m(m(cp, 1), 0) != m(cp, 0)],
            'fold_upper': [cp for cp in range(LIMIT) if m(m(cp, 2), 0) != m(cp, 0)],
            'maps_in_range': [cp for cp in range(LIMIT) if m(cp, 0) >= LIMIT or m(cp, 1) >= LIMIT or m(cp, 2) >= LIMIT],
        }
        for name, bad in consistency.items():
            if bad:
                chk.report("C14:%s:%s" % (name, digest(bad)), "case mappings inconsistent (%s): %d code points, first U+%04X" % (name, len(bad), bad[0]),
                           dict(rule=name, count=len(bad), first=["U+%04X" % x for x in bad[:20]], example=dict(cp=bad[0], fold_lower_upper=maps[bad[0]][:3])))
        spot = []
        if (recs[0x41][2] & 1023) != B['Basic_Latin']:
            spot.append("U+0041 block=%d (Basic_Latin=%d)" % (recs[0x41][2] & 1023, B['Basic_Latin']))
        if recs[0x4E00][4] != S['Han']:
            spot.append("U+4E00 script=%d (Han=%d)" % (recs[0x4E00][4], S['Han']))
        if (recs[0x4E00][5] & 15) != E['W'] or maps[0x4E00][3] != 2:
            spot.append("U+4E00 eaw=%d cwidth=%d (W=%d, 2)" % (recs[0x4E00][5] & 15, maps[0x4E00][3], E['W']))
        if maps[0x212A][0] != 0x6B:
            spot.append("U+212A folds to U+%04X (k expected)" % maps[0x212A][0])
        if spot:
            chk.report("C14:spot:" + hashlib.sha256(";".join(spot).encode()).hexdigest()[:16], "facts fixed by the standard are wrong: " + "; ".join(spot), dict(spot=spot))
    else:
        chk.broken.append(dict(kind="oracle", detail="could not parse the implementation's table dump (%d records, %d maps)" % (len(recs), len(maps))))
    lens = decode_lengths()
    short = {k: v for k, v in lens.items() if v != (8704 if k == "rlestage1" else 41344 if k == "rlestage2" else 1985)}
    if short:
        chk.report("C14:decode-lengths:" + ",".join("%s=%d" % kv for kv in sorted(short.items())),
                   "RLE arrays decode to the wrong number of entries: %s" % short, dict(lengths=lens))
    chk.evaluations = 2 * LIMIT + 1985 + 8704 + 41344
    chk.distinct = set(range(len({recs[cp] for cp in range(LIMIT)}) if len(recs) >= LIMIT else 2))
    chk.samples = ["qidx U+0041 -> " + a[2 + 1985 + 0x41][:120] if len(a) > 2100 else "", "q U+212A -> " + (" ".join(str(x) for x in maps.get(0x212A, ())))]
    chk.coverage.update(rule="exhaustive: both decoded stage tables, all 1985 records, query()/tocasefold/tolower/toupper/cwidth/ucwidth for every code point 0..0x10FFFF and a window above; distinct_nontrivial = number of distinct records reached through query()",
                        exhaustive=True, correspondence_lines=len(a), correspondence_mismatches=len(mism), rules_checked=len(rules) + 5,
                        rule_violations=nbad_total, decode_lengths=lens, translator=tr)
    chk.assumptions = ["The Unicode 16.0 data files are not available offline: equality with the UCD itself is NOT decided; what is decided is internal consistency, the standard's derivation rules and fixed constants, for every code point",
                       "tools/translate.py parses the arrays of unicode.hpp correctly (validated by the exhaustive comparison of the decoded tables with the library's own decompress_table())",
                       "run_length_decode / query / record accessors are hand-modelled (Ucd/Rle.v, Ucd/Lookup.v), tied by the exhaustive correspondence"]
    return chk.finish(proof, "theorems (exhaustive sweeps inside Coq over the regenerated tables) re-checked; model vs library compared on every code point; every statement also evaluated on the library's own answers")


def replay(path):
    print(open(path).read()[:3000])
    return 0
