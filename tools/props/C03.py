"""C03 -- left-recursive rules parse by bounded left recursion with precedence climbing."""
import json, re
import vlib, gramlib
from gen_grammar import Gen, ser

PID = "C03"
OPS = "+-*/^%&|<>"


def make_table(rnd):
    nlev = rnd.randint(1, 4)
    ops = rnd.sample(OPS, rnd.randint(nlev, min(len(OPS), nlev + 2)))
    table = []          # (op char, level 1.., assoc); one associativity per level, as in any operator table
    assoc = {l: rnd.choice("LLR") for l in range(1, nlev + 1)}
    for k, op in enumerate(ops):
        lvl = (k % nlev) + 1
        table.append((op, lvl, assoc[lvl]))
    return table, nlev


def grammar_for(table, space):
    alts = []
    for op, lvl, assoc in table:
        # Medeiros et al.: left associative E[k] op E[k+1]; right associative E[k] op E[k]
        l, r = (lvl, lvl + 1) if assoc == "L" else (lvl, lvl)
        alts.append(('act', ord(op), ('seq', ('prec', 'E', l), ('seq', ('chr', '%02x' % ord(op)), ('prec', 'E', r)))))
    alts.append(('cap', 1, ('lexeme', ('plus', ('cls', 'any', 'c', 16)))))
    alts.append(('seq', ('chr', '28'), ('seq', ('ref', 'E'), ('chr', '29'))))
    body = alts[-1]
    for a in reversed(alts[:-1]):
        body = ('alt', a, body)
    return [('space', space), ('rule', 'E', body), ('rule', 'S', ('seq', ('ref', 'E'), ('eoi',))), ('start', 'S')]


def gen_expr(rnd, table, d, spaces):
    sp = lambda: " " * rnd.choice([0, 0, 1]) if spaces else ""
    if d <= 0 or rnd.random() < 0.3:
        return str(rnd.randint(0, 99))
    if rnd.random() < 0.15:
        return "(" + sp() + gen_expr(rnd, table, d - 1, spaces) + sp() + ")"
    op = rnd.choice(table)[0]
    return gen_expr(rnd, table, d - 1, spaces) + sp() + op + sp() + gen_expr(rnd, table, d - 1, spaces)


def reference(table, text, spaces):
    """precedence climbing over the operator table: (ok, postorder list) for the whole text"""
    prec = {op: (lvl, assoc) for op, lvl, assoc in table}
    pos = [0]
    out = []

    def ws():
        while spaces and pos[0] < len(text) and text[pos[0]] in " \t\n":
            pos[0] += 1

    def atom():
        ws()
        i = pos[0]
        if i < len(text) and text[i].isdigit():
            j = i
            while j < len(text) and text[j].isdigit():
                j += 1
            pos[0] = j
            out.append("C1(%s)" % text[i:j].encode().hex())
            return True
        if i < len(text) and text[i] == "(":
            pos[0] = i + 1
            if not expr(1):
                return False
            ws()
            if pos[0] < len(text) and text[pos[0]] == ")":
                pos[0] += 1
                return True
            return False
        return False

    def expr(minlvl):
        if not atom():
            return False
        while True:
            save = pos[0], len(out)
            ws()
            i = pos[0]
            if i < len(text) and text[i] in prec and prec[text[i]][0] >= minlvl:
                lvl, assoc = prec[text[i]]
                pos[0] = i + 1
                if not expr(lvl + 1 if assoc == "L" else lvl):
                    pos[0] = save[0]; del out[save[1]:]
                    return True
                out.append("A%d" % ord(text[i]))
            else:
                pos[0] = save[0]
                return True

    ok = expr(1)
    # eoi is not a token: no whitespace is skipped in front of it
    return (ok and pos[0] == len(text)), out


FIXED = [
    # (grammar parts, inputs with expected result) -- shapes of left recursion other than operator tables
    ("direct", "(rule R (alt (seq (ref R) (chr 61)) (chr 62))) (rule S (seq (ref R) (eoi)))", {"62": True, "6261": True, "62616161": True, "61": False, "": False, "6262": False}),
    ("indirect", "(rule A (alt (seq (ref B) (chr 78)) (chr 79))) (rule B (alt (seq (ref A) (chr 7a)) (chr 77))) (rule S (seq (ref A) (eoi)))",
     {"79": True, "7778": True, "797a78": True, "777a78": False, "797a787a78": True, "7a": False}),
    ("second-alternative", "(rule R (alt (chr 61) (seq (ref R) (chr 62)))) (rule S (seq (ref R) (eoi)))", {"61": True, "6162": True, "616262": True, "62": False}),
    ("start-rule", "(rule S (alt (seq (ref S) (chr 2b)) (chr 31)))", {"31": True, "312b2b": True}),
]


def gen_cases(tier, seed):
    rnd = vlib.rng_for(seed, "C03")
    n = 300 if tier == "quick" else 5000
    cases, metas = [], []
    for _ in range(n):
        table, nlev = make_table(rnd)
        spaces = rnd.random() < 0.5
        parts = grammar_for(table, "default" if spaces else ('nop',))
        inputs = []
        for _ in range(8):
            t = gen_expr(rnd, table, rnd.randint(1, 5), spaces)
            if rnd.random() < 0.2:
                t = t[:rnd.randint(0, len(t))] if rnd.random() < 0.5 else t + rnd.choice("+)(x")
            if len(t) <= 60:
                inputs.append(t)
        cases.append(ser(('grammar',) + tuple(parts) + tuple(('input', t.encode().hex()) if t else ('input',) for t in inputs)))
        metas.append(("table", table, spaces, inputs))
    for name, rules, exp in FIXED:
        start = "S"
        cases.append("(grammar (space (nop)) %s (start %s) %s)" % (rules, start, " ".join("(input %s)" % h if h else "(input)" for h in exp)))
        metas.append(("fixed", name, exp, None))
    # random grammars with precedence annotations everywhere: correspondence only
    g = Gen(rnd, features=('act', 'prec', 'dir'), wellformed=False, max_rules=4, max_depth=4)
    extra = [g.case() for _ in range(n)]
    return cases, metas, extra


def run(chk):
    tr, proof = gramlib.standard_prelude(chk, PID)
    impl, model = gramlib.build_sides(chk)
    if impl is None:
        return chk.finish(proof, "build failed")
    cases, metas, extra = gen_cases(chk.tier, chk.seed)
    allc = cases + extra
    impl_out, e1 = gramlib.run_sharded(impl, "--budget=%d" % (4 * gramlib.BUDGET), allc)
    model_out, e2 = gramlib.run_sharded(model, "--budget=%d" % (4 * gramlib.BUDGET), allc)
    if e1 or e2:
        chk.broken.append(dict(kind="driver", detail=(e1 + e2)[:5]))
    mism = gramlib.correspondence(chk, allc, impl_out, model_out, "left-recursive grammars")
    nchk = ndis = nacc = 0
    for i, meta in enumerate(metas):
        runs = {}
        for l in impl_out[i]:
            if l.startswith("run sv "):
                runs.setdefault(l.split()[2], gramlib.fields(l))
        if meta[0] == "table":
            _, table, spaces, inputs = meta
            for t in inputs:
                f = runs.get(t.encode().hex() or "-")
                if f is None:
                    continue
                ok, post = reference(table, t, spaces)
                nchk += 1
                nacc += ok
                got = re.sub(r"@\d+", "", re.sub(r"\((\d+),", "(", f.get("log", ""))).split()
                if f.get("res") == "diverged":
                    ndis += 1
                    chk.report("C03:operator-grammar-diverges", "an operator grammar does not terminate on %r" % t, dict(grammar=cases[i], input=t, run=f))
                elif (f.get("res") == "1") != ok or (ok and got != post):
                    ndis += 1
                    if ndis <= 30:
                        chk.report("C03:operator-grammar-wrong-tree", "operator grammar parses %r differently from precedence climbing over its table" % t,
                                   dict(grammar=cases[i], table=table, input=t, library=f, expected=dict(ok=ok, postorder=post)))
        else:
            _, name, exp, _ = meta
            for h, want in exp.items():
                f = runs.get(h or "-")
                if f is None:
                    continue
                nchk += 1
                if f.get("res") == "diverged":
                    ndis += 1
                    chk.report("C03:left-recursion-not-detected:" + name, "a left-recursive rule (%s) recurses without bound" % name, dict(grammar=cases[i], input=h, run=f))
                elif (f.get("res") == "1") != want:
                    ndis += 1
                    chk.report("C03:wrong-result:" + name, "left-recursive grammar (%s) gives the wrong result on %s" % (name, h), dict(grammar=cases[i], input=h, run=f, expected=want))
        chk.note_case(cases[i], True)
    for c in extra:
        chk.note_case(c, True)
    chk.samples = [cases[0][:500], cases[-2][:300]]
    chk.coverage.update(rule="random operator tables (1-4 levels, 1-6 operators, left/right associative, parentheses, with or without implicit whitespace) compiled to E = E[l] op E[r] | ... | number | (E) x random well-formed and malformed expressions, compared with precedence climbing over the table (acceptance and post-order of actions/captures); fixed direct / indirect / second-alternative / start-rule left recursion shapes; random grammars with R[k] everywhere (correspondence only); step budget turns non-termination into a verdict",
                        operator_grammars=len(cases) - len(FIXED), inputs_checked=nchk, accepted=nacc, disagreements=ndis, random_prec_grammars=len(extra), correspondence_mismatches=len(mism), translator=tr)
    chk.assumptions = ["the reference for operator grammars is textbook precedence climbing over the operator table (an independent Python implementation)",
                       "call_into / return_from_lrmemo_call / start()'s left-recursion detection hand-modelled, tied by differential testing (programs incl. precedence immediates, traces)"]
    return chk.finish(proof, "theorems re-checked; %d grammars on both sides; %d inputs compared with precedence climbing / expected results" % (len(allc), nchk))


def replay(path):
    from props import pegcommon
    return pegcommon.replay(path)
