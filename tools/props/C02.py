"""C02 -- see tools/props/pegcommon.py"""
from props import pegcommon
PID = "C02"
def run(chk):
    return pegcommon.run(chk, PID)
def replay(path):
    return pegcommon.replay(path)
