"""Shared by C01 (recognition), C02 (callbacks) and C12 (farthest failure): the PEG-fragment stream.
Model vs implementation on every case; reference semantics (Spec/PegEval.v, extracted) vs implementation
on every run for which the grammar lies in the fragment the theorems cover."""
import json, re
import vlib, gramlib
from gen_grammar import Gen, ser


def gen_cases(tier, seed, stream):
    rnd = vlib.rng_for(seed, stream)
    n = 1200 if tier == "quick" else 20000
    cases = []
    # well-formed PEG grammars with actions/captures, several whitespace rules, sizes around the inlining thresholds
    g1 = Gen(rnd, features=('dir', 'act', 'class'), wellformed=True, max_rules=5, max_depth=4, ninputs=6, maxlen=10,
             alphabet=b"aaabbc  \n1")
    cases += [g1.case() for _ in range(n)]
    g2 = Gen(rnd, features=('dir', 'act', 'class', 'utf8'), wellformed=True, max_rules=4, max_depth=5, ninputs=6, maxlen=12,
             alphabet=b"aabc \n" + "é€".encode())
    cases += [g2.case() for _ in range(n // 3)]
    # anything goes (ill-formed grammars included): correspondence only
    g3 = Gen(rnd, features=('dir', 'act', 'class'), wellformed=False)
    cases += [g3.case() for _ in range(n // 3)]
    # one-byte terminals with the high bit set
    g4 = Gen(rnd, features=('dir', 'act', 'hibyte'), wellformed=True, max_rules=3, max_depth=3, ninputs=6, maxlen=8,
             alphabet=b"ab\xe9\xff\x80\xc3 ")
    cases += [g4.case() for _ in range(n // 6)]
    # short rules that refer to themselves in their own definition after a short prefix (the inlining decision sees a
    # rule that is still being encoded)
    lv = [('chr', '61'), ('chr', '62'), ('chr', '28'), ('chr', '29'), ('str', '6162'), ('any',)]
    for _ in range(n // 6):
        x, y, z = rnd.choice(lv), rnd.choice(lv), rnd.choice(lv)
        shape = rnd.randrange(4)
        if shape == 0:
            body = ('alt', ('seq', x, ('ref', 'R0')), y)
        elif shape == 1:
            body = ('alt', ('seq', x, ('seq', ('ref', 'R0'), y)), ('eps',))
        elif shape == 2:
            body = ('seq', x, ('opt', ('ref', 'R0')))
        else:
            body = ('alt', ('seq', x, ('seq', ('ref', 'R0'), ('ref', 'R0'))), z)
        sp = rnd.choice(["default", ('nop',)])
        inputs = []
        for _ in range(6):
            inputs.append(bytes(rnd.choice(b"ab()ab") for _ in range(rnd.randint(0, 6))))
        parts = [('space', sp), ('rule', 'R0', body), ('rule', 'R1', ('seq', ('ref', 'R0'), ('eoi',))), ('start', rnd.choice(['R0', 'R1']))]
        parts += [('input', i.hex()) if i else ('input',) for i in inputs]
        cases.append(ser(('grammar',) + tuple(parts)))
    return cases


def classify(case, impl, spec):
    """signature of a disagreement between the reference semantics and the implementation"""
    has_and = "(and " in case
    has_cap = "(cap " in case
    if impl.get("res", "").startswith("throw:std:St12out_of_range") and spec.get("res") == "1" and has_and and has_cap:
        return "C02", "C02:capture-in-lookahead-out-of-range"
    if impl.get("res") != spec.get("res"):
        return "C01", "C01:result(impl=%s,spec=%s)" % (impl.get("res"), spec.get("res"))
    if spec.get("res") == "1" and impl.get("sr") != spec.get("sr"):
        return "C01", "C01:consumed"
    il, sl = gramlib.strip_depth(impl.get("log", "")), spec.get("log", "")
    if il != sl:
        # same callbacks, a capture text clipped to the consumed prefix?
        ia, sa = il.split(), sl.split()
        if len(ia) == len(sa) and has_and and all(x == y or (x.startswith("C") and y.startswith(x[:-1].rstrip(")"))) or x.split(",")[0] == y.split(",")[0] for x, y in zip(ia, sa)):
            return "C02", "C02:capture-in-lookahead-clipped"
        return "C02", "C02:callbacks"
    if impl.get("mr") != spec.get("mr"):
        return "C12", "C12:farthest-failure"
    return None, None


def run(chk, pid):
    tr, proof = gramlib.standard_prelude(chk, pid)
    impl, model = gramlib.build_sides(chk)
    if impl is None:
        return chk.finish(proof, "build failed")
    cases = gen_cases(chk.tier, chk.seed, "peg")
    impl_out, e1 = gramlib.run_sharded(impl, "--budget=%d" % gramlib.BUDGET, cases)
    model_out, e2 = gramlib.run_sharded(model, "--budget=%d --spec" % gramlib.BUDGET, cases)
    if e1 or e2:
        chk.broken.append(dict(kind="driver", detail=(e1 + e2)[:5]))
    mism = gramlib.correspondence(chk, cases, impl_out, model_out, "PEG-fragment grammars")
    nspec = ndis = nna = 0
    verdicts = {"1": 0, "0": 0}
    for case, inhex, fi, fs in gramlib.spec_vs_impl(cases, impl_out, model_out):
        if fs.get("res") in ("n/a", "diverged") or fi is None:
            nna += 1
            continue
        nspec += 1
        verdicts[fs["res"]] = verdicts.get(fs["res"], 0) + 1
        prop, sig = classify(case, fi, fs)
        if sig and prop == pid:
            ndis += 1
            if ndis <= 40:
                chk.report(sig, "reference semantics and implementation disagree on input %s" % inhex,
                           dict(grammar=case, input=inhex, implementation=fi, reference=fs))
    for i, c in enumerate(cases):
        chk.note_case(c, nontrivial=len(impl_out[i]) > 1)
    chk.samples = [cases[0][:400], cases[len(cases) // 2][:400], cases[-1][:400]]
    chk.coverage.update(
        rule="random grammars (well-formed PEG fragment with actions/captures and directives, 1-5 rules in shuffled definition order, sizes around the inlining thresholds; plus an unconstrained stream) x 6 inputs sampled from the grammar and mutated; non-trivial = the grammar compiled and was run; distinct = distinct case lines",
        grammars=len(cases), runs=sum(max(0, len(o) - 1) for o in impl_out), correspondence_mismatches=len(mism),
        reference_verdicts=nspec, reference_accepts=verdicts.get("1", 0), reference_rejects=verdicts.get("0", 0),
        reference_not_applicable=nna, disagreements_with_reference=ndis, translator=tr)
    chk.assumptions = ["the encoder (Elab/Codegen/Link/Lower) and the machine (Machine.v) are hand-written models tied to lug.hpp by differential testing: compiled programs compared instruction by instruction, runs compared by result, registers, step count and a per-instruction trace hash (LUG_VERIF hook)",
                       "tools/translate.py (opcode numbering, directive bits, inlining thresholds, Unicode tables)",
                       "extraction (ExtrOcamlBasic) + OCaml 4.13.1; g++ 12.2; the runtime grammar builder of cpp/lugdrv.cpp"]
    return chk.finish(proof, "theorems re-checked; %d grammars compiled and run on both sides (%d mismatches); reference semantics compared with the implementation on %d runs" % (len(cases), len(mism), nspec))


def replay(path):
    with open(path) as f:
        data = json.load(f)
    impl, err = vlib.build_cpp("lugdrv")
    for v in data.get("violations", []):
        g = v["detail"].get("grammar")
        if g:
            rc, out, _ = vlib.run_driver(impl + " --budget=%d" % gramlib.BUDGET, g + "\n")
            print(out)
    return 0
