"""C20 -- interactive sources are consumed one statement at a time, never read ahead."""
import json, re
import vlib, gramlib
from gen_grammar import Gen, ser

PID = "C20"

# statement grammars: every statement ends at a terminator, so a line holds a whole number of statements
STATEMENTS = [
    "(rule S (seq (act 1 (cap 2 (plus (cls any c 1)))) (seq (chr 3b) (seq (eol) (cut)))))",                       # ident ; eol
    "(rule S (seq (cap 1 (plus (cls any c 16))) (seq (star (seq (chr 2b) (cap 2 (plus (cls any c 16))))) (seq (eol) (cut)))))",   # n(+n)* eol
    "(rule S (seq (alt (seq (str 6c6574) (seq (cap 3 (plus (cls any c 1))) (chr 3b))) (seq (act 4 (plus (cls any c 16))) (chr 3b))) (eol)))",  # (let x; | 12;) eol
    "(rule S (seq (act 5 (list (plus (cls any c 1)) (chr 2c))) (seq (chr 2e) (seq (eol) (accept)))))",             # a,b,c. eol
]


def gen_cases(tier, seed):
    rnd = vlib.rng_for(seed, "C20")
    n = 400 if tier == "quick" else 6000
    cases = []
    for _ in range(n):
        k = rnd.randrange(len(STATEMENTS))
        lines = []
        for _ in range(rnd.randint(1, 5)):
            w = lambda: "".join(rnd.choice("abcxyz") for _ in range(rnd.randint(1, 3)))
            d = lambda: "".join(rnd.choice("0123456789") for _ in range(rnd.randint(1, 3)))
            if k == 0:
                t = w() + rnd.choice(["", " "]) + ";"
            elif k == 1:
                t = d() + "".join("+" + d() for _ in range(rnd.randint(0, 2)))
            elif k == 2:
                t = rnd.choice(["let " + w() + ";", d() + ";"])
            else:
                t = ",".join(w() for _ in range(rnd.randint(1, 3))) + "."
            if rnd.random() < 0.12:
                t = t[:-1] + rnd.choice(["?", ""])           # a malformed statement
            lines.append((t + "\n").encode().hex())
        # blanks only: with the default rule the line terminator itself is implicit whitespace and the parser rightly asks for more
        gram = "(grammar (space (star (chr 20))) %s (start S) (lines %s) %s)" % (STATEMENTS[k], " ".join(lines), " ".join("(input %s)" % l for l in lines))
        cases.append(gram)
    return cases


def run(chk):
    tr, proof = gramlib.standard_prelude(chk, PID)
    impl, model = gramlib.build_sides(chk)
    if impl is None:
        return chk.finish(proof, "build failed")
    cases = gen_cases(chk.tier, chk.seed)
    impl_out, e1 = gramlib.run_sharded(impl, "--budget=%d" % gramlib.BUDGET, cases)
    model_out, e2 = gramlib.run_sharded(model, "--budget=%d" % gramlib.BUDGET, cases)
    if e1 or e2:
        chk.broken.append(dict(kind="driver", detail=(e1 + e2)[:5]))
    mism = gramlib.correspondence(chk, cases, impl_out, model_out, "interactive line sources")
    nst = ndis = 0
    for i, c in enumerate(cases):
        solo = {}
        inter = []
        for l in impl_out[i]:
            t = l.split()
            if l.startswith("run sv "):
                solo.setdefault(t[2], gramlib.fields(l))
            elif re.match(r"run i\d+ ", l):
                inter.append((t[2], gramlib.fields(l), l))
        ok_so_far = True
        for (inh, f, l) in inter:
            if inh == "-" or not ok_so_far:
                break
            nst += 1
            s = solo.get(inh)
            if s is None:
                continue
            log = f.get("log", "")
            polls = log.split().count("POLL")
            callbacks = " ".join(x for x in log.split() if x != "POLL")
            if s.get("res") == "1":
                # the line holds one complete statement: accepted after exactly one poll, callbacks as when parsed alone
                exp_log = re.sub(r"\((\d+),", "(", s.get("log", ""))
                got_log = re.sub(r"\((\d+),", "(", callbacks)           # offsets shift with what earlier statements left unread
                if f.get("res") != "1" or polls != 1 or got_log != exp_log or not log.startswith("POLL"):
                    ndis += 1
                    if ndis <= 30:
                        chk.report("C20:statement-differs" if polls == 1 else "C20:polls=%d" % polls,
                                   "interactive parse of line %s differs from parsing the line alone" % inh, dict(grammar=c, interactive=l, alone=s))
            else:
                ok_so_far = False          # after a malformed statement the leftover shifts everything: stop comparing
        chk.note_case(c, nontrivial=len(inter) > 1)
    chk.samples = [cases[0][:500], cases[1][:500]]
    chk.coverage.update(rule="4 statement grammars (terminated statements, with cut/accept, actions and captures) x sequences of 1-5 delivered lines (12% malformed) through an interactive push_source; each statement's parse is compared with the parse of its line alone: result, callbacks, and that the source was polled exactly once and before the statement's callbacks; non-trivial = at least two statements",
                        sequences=len(cases), statements=nst, correspondence_mismatches=len(mism), disagreements=ndis, translator=tr)
    chk.assumptions = ["the interactive short-circuits of available()/match_any are hand-modelled (Machine.v), tied by differential testing including the position of every poll in the callback log",
                       "the line reader of iostream.hpp (readsource) is exercised by C09's istream runs, not here"]
    return chk.finish(proof, "theorems re-checked; %d line sequences, %d statements compared with their solo parse" % (len(cases), nst))


def replay(path):
    from props import pegcommon
    return pegcommon.replay(path)
