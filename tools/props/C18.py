"""C18 -- a parser and environment can be reused: each parse depends only on its own input."""
import json, re
import vlib, gramlib
from gen_grammar import Gen, ser

PID = "C18"


def gen_cases(tier, seed):
    rnd = vlib.rng_for(seed, "C18")
    n = 600 if tier == "quick" else 8000
    cases = []
    g = Gen(rnd, features=('dir', 'act', 'env', 'cut', 'err', 'class'), wellformed=False, max_rules=3, max_depth=4, maxlen=8)
    g2 = Gen(rnd, features=('dir', 'act', 'cut'), wellformed=True, max_rules=3, max_depth=4, maxlen=8)
    for k in range(n):
        gen = g if k % 2 else g2
        parts, G, start = gen.grammar()
        steps = []
        inject = rnd.random() < 0.6
        for j in range(rnd.randint(2, 7)):
            s = gen.mutate(gen.sample(G[start], G))[:12] if rnd.random() < 0.7 else bytes(rnd.choice(gen.alphabet) for _ in range(rnd.randint(0, 6)))
            h = s.hex() or "-"
            r = rnd.random()
            if inject and r < 0.25:
                steps.append(('px', h, rnd.randint(0, 4)))
            elif inject and r < 0.32:
                steps.append(('pn', h))
            else:
                steps.append(('p', h))
        parts.append(('history',) + tuple(steps))
        cases.append(ser(('grammar',) + tuple(parts)))
    # caseless literals of different lengths tried at one offset: the per-offset fold cache of one parse must not be
    # seen by the next one (also when the earlier parse consumed nothing)
    words = [b"ab", b"abc", b"abd", b"a", b"xy", "aé".encode(), "aéz".encode()]
    for k in range(n // 6):
        l1, l2 = rnd.choice(words), rnd.choice(words)
        body = ('seq', ('caseless', ('alt', ('str', l1.hex()), ('str', l2.hex()))), ('eoi',))
        if rnd.random() < 0.5:
            body = ('seq', ('opt', ('chr', '21')), body)
        steps = []
        for j in range(rnd.randint(2, 6)):
            w = rnd.choice(words + [l1, l2])
            w = bytes(rnd.choice([c, c ^ 0x20]) if (65 <= c <= 90 or 97 <= c <= 122) else c for c in w)
            if rnd.random() < 0.3:
                w = w + rnd.choice([b"x", b"c", b"d"])
            if rnd.random() < 0.2:
                w = b"!" + w
            steps.append(('p', w.hex() or "-"))
        parts = [('space', ('nop',)), ('rule', 'R0', body), ('start', 'R0'), ('history',) + tuple(steps)]
        cases.append(ser(('grammar',) + tuple(parts)))
    return cases


def run(chk):
    tr, proof = gramlib.standard_prelude(chk, PID)
    impl, model = gramlib.build_sides(chk)
    if impl is None:
        return chk.finish(proof, "build failed")
    cases = gen_cases(chk.tier, chk.seed)
    impl_out, e1 = gramlib.run_sharded(impl, "--budget=%d" % gramlib.BUDGET, cases)
    model_out, e2 = gramlib.run_sharded(model, "--budget=%d" % gramlib.BUDGET, cases)
    if e1 or e2:
        chk.broken.append(dict(kind="driver", detail=(e1 + e2)[:5]))
    # correspondence: the model follows a history up to the first injected exception / nested parse (it has no exceptions)
    mism = []
    nmodel = 0
    for i, c in enumerate(cases):
        a, b = impl_out[i], model_out[i]
        nmodel += max(0, len(b) - 1)
        if a[:len(b)] != b:
            k = next((j for j in range(min(len(a), len(b))) if a[j] != b[j]), min(len(a), len(b)))
            mism.append(dict(case=c, implementation=a[k] if k < len(a) else "<missing>", model=b[k] if k < len(b) else "<missing>"))
    if mism:
        chk.broken.append(dict(kind="correspondence", stream="parse histories on one parser (reset_state chain)", count=len(mism), first=mism[:5]))
    # the property itself, on the implementation: n-th parse on the reused parser/environment == fresh ones
    nsteps = ndis = nthrow = nnested = 0
    for i, c in enumerate(cases):
        runs = {}
        for l in impl_out[i]:
            m = re.match(r"run ([hf])(\d+)(p|px|pn) ", l)
            if m:
                runs[(m.group(1), int(m.group(2)))] = (m.group(3), gramlib.fields(l), l)
        for (hf, k), (kind, f, l) in sorted(runs.items()):
            if hf != "h":
                continue
            nsteps += 1
            if kind == "pn":
                nnested += 1
                if "NESTED:parsing_is_non-reenterant" not in l and "NESTED" in l:
                    ndis += 1
                    chk.report("C18:nested-parse-not-refused", "a nested parse() was not refused with reenterant_parse_error", dict(grammar=c, line=l))
                continue
            if kind == "px":
                nthrow += 1
            fr = runs.get(("f", k))
            if fr is None:
                continue
            ff = fr[1]
            same = all(f.get(x) == ff.get(x) for x in ("res", "sr", "mr", "log", "conds", "syms"))
            if not same and "diverged" not in (f.get("res"), ff.get("res")):
                ndis += 1
                if ndis <= 40:
                    prior = [runs[("h", j)][0] for j in range(1, k) if ("h", j) in runs]
                    sig = "C18:depends-on-history:after-" + ("exception" if "px" in prior else "nested" if "pn" in prior else "normal-parses")
                    chk.report(sig, "parse %d on the reused parser differs from the same parse on a fresh parser and environment" % k,
                               dict(grammar=c, reused=l, fresh=fr[2]))
        chk.note_case(c, nontrivial=len(impl_out[i]) > 3)
    chk.samples = [cases[0][:500], cases[1][:500]]
    chk.coverage.update(rule="random grammars (actions, captures, symbols/conditions, cut, labelled failures) x histories of 2-7 parses on ONE parser and environment; 60% of the histories inject an exception at the k-th callback invocation (action, capture, predicate or handler) or attempt a nested parse(); after every step the same input is parsed by a fresh parser/environment given the same user-managed state; non-trivial = at least two parses ran",
                        histories=len(cases), parses=nsteps, with_injected_exception=nthrow, nested_attempts=nnested, model_lines_compared=nmodel,
                        correspondence_mismatches=len(mism), history_dependence=ndis, translator=tr)
    chk.assumptions = ["exceptions are not modelled: histories are compared with the model (reset_state) up to the first injected exception; beyond it the property is checked on the implementation alone (reused vs fresh)",
                       "exceptions thrown by input sources are not injected"]
    return chk.finish(proof, "theorems re-checked; %d histories (%d parses, %d with injected exceptions, %d nested attempts)" % (len(cases), nsteps, nthrow, nnested))


def replay(path):
    from props import pegcommon
    return pegcommon.replay(path)
