"""C11 -- line and column reports are a pure function of the text seen so far.

Three executable sides are compared on the same generated histories of an environment
(text appended to the segment, position queries, drains, resets, tab settings):
  implementation  cpp/posdrv.cpp        a real lug::environment built from the repository's working tree
  model           ocaml/pos_driver.ml   the extracted Coq model Pos/PosModel.v ("pos"/"fresh" commands)
  specification   ocaml/pos_driver.ml   the extracted Pos/PosSpec.v spec_pos ("spec" commands)
model vs implementation = correspondence (ties the Coq theorems to the code); specification vs
implementation = conformance search (finds the inputs on which the property fails)."""
import concurrent.futures, itertools, json, os, subprocess
import vlib

PID = "C11"
LINE_ENDINGS = {10, 11, 12, 13, 0x85, 0x2028, 0x2029}
TABW = (1, 2, 4, 8)
TABA = (1, 3, 8)
WIDE_CANDIDATES = [0x1100, 0x4E00, 0x3042, 0xAC00, 0xFF21, 0x1F600, 0x20000, 0x2E80, 0x3000]
ZERO_CANDIDATES = [0x0300, 0x200B, 0x0301, 0x00AD, 0x0483, 0x0240, 0x023F, 0x0591]


def enc(cps):
    return "".join(chr(c) for c in cps).encode("utf-8")


def hexs(b):
    return b.hex() or "-"


def boundaries(cps):
    offs = [0]
    for c in cps:
        offs.append(offs[-1] + len(enc([c])))
    return offs


# ---------------------------------------------------------------- running the drivers

def run_sharded(exe, lines, shards=None):
    """runs the driver on the command lines split over several processes; returns (output lines, errors)"""
    n = len(lines)
    shards = shards or max(1, min(vlib.NPROC, n // 2000))
    bounds = [(k * n // shards, (k + 1) * n // shards) for k in range(shards)]

    def work(b):
        lo, hi = b
        if lo == hi:
            return lo, hi, 0, "", ""
        rc, so, se = vlib.run_driver(exe, "\n".join(lines[lo:hi]) + "\n")
        return lo, hi, rc, so, se

    out, errs = [], []
    with concurrent.futures.ThreadPoolExecutor(max_workers=shards) as ex:
        for lo, hi, rc, so, se in ex.map(work, bounds):
            got = so.split("\n")
            if got and got[-1] == "":
                got.pop()
            if rc != 0:
                errs.append(dict(first_case=lines[lo + min(len(got), hi - lo - 1)] if hi > lo else None, rc=rc, stderr=se[-800:]))
            if len(got) != hi - lo:
                # keep the lines aligned with their cases: a crashed shard answers nothing from the crash on
                got = got[:hi - lo] + ["<no output>"] * (hi - lo - len(got))
            out.extend(got)
    return out, errs


def pick_alphabet(impl):
    """asks the library which candidate code points it considers wide / zero-width (its width table is the
    one the property refers to); falls back to a multi-byte character of whatever width"""
    cands = WIDE_CANDIDATES + ZERO_CANDIDATES + [0x61, 10, 0x1F600]
    rc, out, _ = vlib.run_driver(impl, "".join("w %d\n" % c for c in cands))
    ws = {}
    for c, w in zip(cands, out.split()):
        try:
            ws[c] = int(w)
        except ValueError:
            pass
    wide = next((c for c in WIDE_CANDIDATES if abs(ws.get(c, 1)) == 2), WIDE_CANDIDATES[0])
    zero = next((c for c in ZERO_CANDIDATES if ws.get(c, 1) == 0), ZERO_CANDIDATES[0])
    return [0x61, 9, 13, 10, 11, 0x85, 0x2028, 0x2029, wide, zero, 0x1F600], dict(wide=wide, zero=zero, widths=ws)


# ---------------------------------------------------------------- case generation

def fresh_line(tw, ta, cps):
    return "fresh %d %d %s %s" % (tw, ta, hexs(enc(cps)), " ".join(map(str, boundaries(cps))))


def random_history(rnd, alphabet, weights, maxlen):
    n = rnd.randint(0, maxlen)
    cps = rnd.choices(alphabet, weights=weights, k=n)
    tw, ta = rnd.choice(TABW), rnd.choice(TABA)
    npieces = rnd.randint(1, 4)
    cuts = sorted(rnd.randint(0, n) for _ in range(npieces - 1))
    pieces = [cps[a:b] for a, b in zip([0] + cuts, cuts + [n])]
    ops, seg, flag, nq = [], [], True, 0
    want = rnd.randint(1, 4)
    for k, piece in enumerate(pieces):
        ops.append("t:" + hexs(enc(piece)))
        seg = seg + piece
        offs = boundaries(seg)
        for _ in range(rnd.randint(0, 2) if k + 1 < len(pieces) else max(1, want - nq)):
            # queries cluster around line endings as often as anywhere else
            j = rnd.randint(0, len(seg))
            ops.append("q:%d" % offs[j])
            nq += 1
        r = rnd.random()
        if r < 0.04:
            flag = rnd.random() < 0.5
            ops.append("f:%d" % flag)
        r = rnd.random()
        if r < 0.25:
            ops.append("d")
            seg = []
        elif r < 0.45:
            ops.append("r")
            if flag:
                seg = []
        if (r < 0.45) and rnd.random() < 0.5:
            ops.append("q:%d" % boundaries(seg)[-1])
            nq += 1
    return "pos %d %d %s" % (tw, ta, " ".join(ops))


def gen_cases(tier, seed, alphabet):
    rnd = vlib.rng_for(seed, "C11")
    cases = []
    # the witnesses of the two findings repaired by 7850d1f (C11:crlf-column, C11:crlf-history) and the drain
    # variant; a default-constructed environment
    cases += ["fresh 8 8 610d0a62 0 1 2 3 4", "pos 8 8 t:610d0a62 q:4", "pos 8 8 t:610d0a62 q:2 q:4", "pos 8 8 t:610d d t:0a62 q:2",
              "pos 8 8 t:610d r t:0a62 q:2", "pos 8 8 f:0 t:610d r t:0a62 q:4", "pos - - t:6109620a0962 q:0 q:2 q:3 q:4 q:6",
              "pos - - t:0909 q:2 q:1 d t:09 q:1"]
    # corner cases of the repaired code: drains/resets of an empty segment between a CR and its LF (origin_follows_cr_
    # must survive them), a CR at the end of one parse and the LF at the start of the next with should_reset_on_parse
    # toggled, a CR LF pair split twice, the example of Props/Properties_C11.v (C11_example)
    cases += ["pos 8 8 t:610d d d t:0a62 q:0 q:1 q:2", "pos 8 8 d t:0a62 q:1 q:2", "pos 8 8 t:610d d t:- d t:0a62 q:1 q:2",
              "pos 8 8 t:610d r r t:0a62 q:1 q:2", "pos 8 8 f:0 t:610d r t:0a62 q:2 q:3 q:4",
              "pos 8 8 t:610d f:0 r t:0a62 q:2 q:3 q:4 f:1 r t:0a q:0 q:1", "pos 8 8 t:610d d t:62 d t:0a q:1",
              "pos 8 8 t:0d d t:0a d t:0a q:1", "pos 8 8 t:0d q:1 d q:0 t:0a q:1 q:0", "pos 8 8 t:0d0a0d0a q:1 q:3 q:2 q:4",
              "pos 8 8 t:0d0a0d0a q:4 q:3 q:2 q:1", "pos 8 8 t:610d q:2 d t:0a620d0a63 q:4 q:3 q:5 q:1"]
    exh = 4 if tier == "quick" else 6
    for n in range(0, exh + 1):
        for t in itertools.product(alphabet, repeat=n):
            cases.append(fresh_line(8, 8, t))
    # every tab setting on every short text that contains a tab
    for n in range(1, (3 if tier == "quick" else 4) + 1):
        for t in itertools.product(alphabet, repeat=n):
            if 9 in t:
                for tw in TABW:
                    for ta in TABA:
                        if (tw, ta) != (8, 8):
                            cases.append(fresh_line(tw, ta, t))
    # all ordered pairs of queries (including the same offset twice) on short texts
    short = [t for n in range(0, (2 if tier == "quick" else 3) + 1) for t in itertools.product(alphabet, repeat=n)]
    nsample = 3000 if tier == "quick" else 20000
    short += [tuple(rnd.choices(alphabet, k=rnd.randint(3, 4) if tier == "quick" else rnd.randint(4, 5))) for _ in range(nsample)]
    short.append((0x61, 13, 10, 0x62))
    for t in short:
        offs = boundaries(t)
        tw, ta = (8, 8) if 9 not in t else (rnd.choice(TABW), rnd.choice(TABA))
        h = hexs(enc(t))
        for a in offs:
            for b in offs:
                cases.append("pos %d %d t:%s q:%d q:%d" % (tw, ta, h, a, b))
    # random histories: text split over several appends, queries in random order, drains, resets
    nrand = 40000 if tier == "quick" else 300000
    w_mixed = [6, 2, 2, 2, 1, 1, 1, 1, 2, 1, 1]
    w_nocr = [6, 2, 0, 3, 1, 1, 1, 1, 2, 1, 1]
    w_crlf = [3, 1, 4, 4, 0, 0, 0, 0, 1, 0, 0]
    for i in range(nrand):
        w = (w_mixed, w_nocr, w_crlf)[i % 3]
        cases.append(random_history(rnd, alphabet, w, 40 if i % 5 else 12))
    return cases


ILLFORMED_BYTES = [0x61, 0x0d, 0x0a, 0x09, 0xc2, 0x85, 0xe2, 0x80, 0xa8, 0xf0, 0x9f, 0xff]


def gen_byte_cases(tier, seed):
    """correspondence only (model vs implementation): histories over arbitrary BYTES (ill-formed UTF-8 around CR
    and LF included) with queries at arbitrary offsets (character boundaries or not); the property says nothing
    about them, but the look-behind byte and the cache must behave alike in the model and in the library"""
    rnd = vlib.rng_for(seed, "C11-bytes")
    cases = ["pos 8 8 t:c20d0a61 q:1 q:2 q:3 q:4", "pos 8 8 t:c20d q:2 d t:0a61 q:1 q:2", "pos 8 8 t:e2800d0a61 q:2 q:3 q:4 q:5",
             "pos 8 8 t:0dc2 q:1 q:2 d t:0a q:1", "pos 8 8 t:610dc2 d t:0a62 q:1 q:2", "pos 8 8 t:e2 q:1 t:80 q:2 t:a8 q:3 t:0a q:4",
             "pos 8 8 t:e280a80a q:1 q:4", "pos 8 8 t:0de2 q:2 t:80a8 q:4", "pos 8 8 t:0de280a8 q:1 q:2 q:3 q:4"]
    for _ in range(4000 if tier == "quick" else 40000):
        ops, seglen, flag = [], 0, True
        for _ in range(rnd.randint(1, 4)):
            bs = bytes(rnd.choices(ILLFORMED_BYTES, weights=[4, 4, 4, 1, 1, 1, 1, 1, 1, 1, 1, 1], k=rnd.randint(0, 6)))
            ops.append("t:" + hexs(bs))
            seglen += len(bs)
            for _ in range(rnd.randint(0, 3)):
                ops.append("q:%d" % rnd.randint(0, seglen))
            r = rnd.random()
            if r < 0.05:
                flag = rnd.random() < 0.5
                ops.append("f:%d" % flag)
            if r < 0.3:
                ops.append("d")
                seglen = 0
            elif r < 0.5:
                ops.append("r")
                if flag:
                    seglen = 0
        ops.append("q:%d" % rnd.randint(0, seglen))
        cases.append("pos %d %d %s" % (rnd.choice(TABW), rnd.choice(TABA), " ".join(ops)))
    return cases


def spec_line(case):
    t = case.split()
    if t[0] == "pos":
        return "spec " + " ".join(t[1:])
    if t[0] == "fresh":
        return "spec %s %s t:%s %s" % (t[1], t[2], t[3], " ".join("q:" + o for o in t[4:]))
    return case


# ---------------------------------------------------------------- explaining a disagreement

def parse_history(case, defaults=(8, 8)):
    """-> (tw, ta, list of queries); each query = dict(cps = code points seen so far, at = number of characters
    before the queried offset, restarts = character indices of every earlier query and release point, fresh)"""
    t = case.split()
    tw, ta = (defaults if t[1] == "-" else (int(t[1]), int(t[2])))
    qs = []
    if t[0] == "fresh":
        text = bytes.fromhex(t[3]) if t[3] != "-" else b""
        for o in t[4:]:
            qs.append(dict(cps=[ord(c) for c in text.decode("utf-8")], at=len(text[:int(o)].decode("utf-8")), restarts=set(), op="q:" + o))
        return tw, ta, qs
    allb, base, flag, restarts = b"", 0, True, set()
    for op in t[3:]:
        if op.startswith("t:"):
            allb += bytes.fromhex(op[2:]) if op[2:] != "-" else b""
        elif op.startswith("q:"):
            at = len(allb[:base + int(op[2:])].decode("utf-8"))
            qs.append(dict(cps=[ord(c) for c in allb.decode("utf-8")], at=at, restarts=set(restarts), op=op))
            restarts.add(at)
        elif op == "d" or (op == "r" and flag):
            base = len(allb)
            restarts.add(len(allb.decode("utf-8")))
        elif op.startswith("f:"):
            flag = op[2:] == "1"
    return tw, ta, qs


def py_position(cps, tw, ta, widths, split=None, lf_is_column=False):
    """Independent oracle written from the property text (split=None, lf_is_column=False).  With
    lf_is_column=True it describes the two defects repaired by 7850d1f instead (kept to recognise them should
    they return): the LF of a CR LF pair occupies a column of the new line, except for the pairs in `split`
    (index of the CR) which count as two line endings."""
    line, col = 1, 1
    for k, r in enumerate(cps):
        if r in LINE_ENDINGS:
            if lf_is_column and r == 10 and k > 0 and cps[k - 1] == 13:
                if (k - 1) in split:
                    line, col = line + 1, 1
                else:
                    col += abs(widths[10])
            elif not lf_is_column and r == 13 and k + 1 < len(cps) and cps[k + 1] == 10:
                col = 1          # the pair counts once, at its LF
            else:
                line, col = line + 1, 1
        elif r == 9:
            n = col + tw
            col = max(col, n - (n - 1) % ta)
        else:
            col += abs(widths[r])
    return "%d.%d" % (line, col)


def classify(q, tw, ta, widths, impl_ans, spec_ans):
    """signature of a disagreement between the implementation and the specification on one query"""
    cps, at = q["cps"][:q["at"]], q["at"]
    try:
        pairs = [i for i in range(at - 1) if cps[i] == 13 and cps[i + 1] == 10]
        splittable = [i for i in pairs if (i + 1) in q["restarts"]]
        for k in range(0, min(len(splittable), 6) + 1):
            for s in itertools.combinations(splittable, k):
                if pairs and py_position(cps, tw, ta, widths, split=set(s), lf_is_column=True) == impl_ans:
                    return "C11:crlf-history" if s else "C11:crlf-column"
    except KeyError:
        pass
    try:
        il, ic = impl_ans.split(".")
        sl, sc = spec_ans.split(".")
        kind = ("line-and-column" if il != sl and ic != sc else "line" if il != sl else "column")
    except ValueError:
        kind = "no-answer"
    return "C11:other:wrong-%s%s" % (kind, "" if q["restarts"] else "-on-first-query")


def nontrivial_case(case):
    """the text has a line ending, a tab or a non-ASCII character, and something is asked"""
    t = case.split()
    if t[0] == "fresh":
        hs, asked = [t[3]], len(t) > 4
    else:
        hs, asked = [o[2:] for o in t[3:] if o.startswith("t:")], any(o.startswith("q:") for o in t[3:])
    return asked and any(b in (9, 10, 11, 12, 13) or b >= 0x80 for h in hs if h != "-" for b in bytes.fromhex(h))


def header_defaults():
    """default tab settings as translated from the header (coq/Gen/Consts.v)"""
    import re
    try:
        with open(os.path.join(vlib.COQ, "Gen", "Consts.v")) as f:
            src = f.read()
        return (int(re.search(r"default_tab_width : N := (\d+)", src).group(1)), int(re.search(r"default_tab_alignment : N := (\d+)", src).group(1)))
    except Exception:
        return (8, 8)


# ---------------------------------------------------------------- the check

def run(chk):
    tr = vlib.translate()
    if not tr.get("ok"):
        chk.broken.append(dict(kind="translator", detail=tr.get("error")))
    proof = vlib.prove(PID)
    if not proof["ok"]:
        for o in proof["obligations"]:
            if not o["discharged"]:
                chk.broken.append(dict(kind="theorem", name=o["name"], detail=(proof["errors"] or [""])[0]))
        if proof["forbidden"]:
            chk.broken.append(dict(kind="forbidden-vernacular", detail=proof["forbidden"]))
    impl, err = vlib.build_cpp("posdrv")
    model, err2 = vlib.build_model("pos")
    if impl is None or model is None:
        chk.broken.append(dict(kind="build", detail=(err or "") + (err2 or "")))
        return chk.finish(proof, "build failed")
    alphabet, alpha_info = pick_alphabet(impl)
    # the widths the oracle of the explanations uses are the library's own (checked against the model below)
    wq = ["w %d" % c for c in sorted(set(alphabet) | {0x61, 0x62})]
    w_impl, _ = run_sharded(impl, wq, 1)
    w_model, _ = run_sharded(model, wq, 1)
    widths = {}
    for l, a in zip(wq, w_impl):
        try:
            widths[int(l.split()[1])] = int(a)
        except ValueError:
            pass
    cases = gen_cases(chk.tier, chk.seed, alphabet)
    defaults = header_defaults()
    byte_cases = gen_byte_cases(chk.tier, chk.seed)
    all_cases = wq + cases + byte_cases
    out_impl, err_impl = run_sharded(impl, cases)
    out_model, err_model = run_sharded(model, cases)
    outb_impl, errb_impl = run_sharded(impl, byte_cases)
    outb_model, errb_model = run_sharded(model, byte_cases)
    err_impl, err_model = err_impl + errb_impl, err_model + errb_model
    out_spec, err_spec = run_sharded(model, [spec_line(c) for c in cases])
    for e in err_impl:
        chk.report("C11:other:implementation-crash", "the implementation driver crashed", e)
    if err_model or err_spec:
        chk.broken.append(dict(kind="model-driver", detail=(err_model + err_spec)[:3]))
    # correspondence: model vs implementation, line by line
    mism = vlib.compare_lines(all_cases, "\n".join(w_impl + out_impl + outb_impl) + "\n", "\n".join(w_model + out_model + outb_model) + "\n")
    if mism:
        chk.broken.append(dict(kind="correspondence", stream="environment positions", count=len(mism),
                               first=[dict(case=m[1], implementation=m[2], model=m[3]) for m in mism[:5]]))
    # conformance: specification vs implementation, answer by answer
    nq = nbad = noracle = 0
    by_sig = {}
    oracle_bad = []
    for i, c in enumerate(cases):
        a, s = out_impl[i].split(), out_spec[i].split()
        nq += len(s)
        sample_oracle = (i % 37 == 0)
        if a == s and not sample_oracle:
            continue
        tw, ta, qs = parse_history(c, defaults=defaults)
        if len(s) != len(qs) or len(a) != len(qs):
            if a != s:
                nbad += 1
                chk.report("C11:other:answers-missing", "the implementation gave %d answers to %d queries" % (len(a), len(qs)),
                           dict(case=c, implementation=out_impl[i], specification=out_spec[i]))
            continue
        for k, q in enumerate(qs):
            if sample_oracle or a[k] != s[k]:
                # the Python oracle (written from the property text) must agree with the extracted Coq specification
                noracle += 1
                try:
                    o = py_position(q["cps"][:q["at"]], tw, ta, widths)
                except KeyError:
                    o = s[k]
                if o != s[k] and len(oracle_bad) < 5:
                    oracle_bad.append(dict(case=c, query=q["op"], coq_spec=s[k], python_oracle=o))
            if a[k] != s[k]:
                nbad += 1
                sig = classify(q, tw, ta, widths, a[k], s[k])
                by_sig[sig] = by_sig.get(sig, 0) + 1
                if by_sig[sig] <= 20:
                    chk.report(sig, "position_at answered %s where the property demands %s" % (a[k], s[k]),
                               dict(case=c, query_index=k, query=q["op"], implementation=a[k], specification=s[k],
                                    model=(out_model[i].split() + ["?"] * len(qs))[k], text=[hex(x) for x in q["cps"]],
                                    characters_before_offset=q["at"], tab_width=tw, tab_alignment=ta))
    if oracle_bad:
        chk.broken.append(dict(kind="oracle", detail="the Python oracle and the extracted PosSpec.spec_pos disagree", first=oracle_bad))
    for c in cases:
        chk.note_case(c, nontrivial_case(c))
    chk.samples = [cases[1], cases[2], cases[3], cases[len(cases) // 3], cases[-1], spec_line(cases[-1])]
    exh = 4 if chk.tier == "quick" else 6
    chk.coverage.update(
        rule="alphabet {a, TAB, CR, LF, VT, NEL, LS, PS, U+%04X (wide candidate), U+%04X (zero-width per the library), U+1F600}; "
             "(1) every text of length <= %d, one query per character boundary, each in a fresh environment; (2) every short text with a tab under "
             "all 12 tab settings {1,2,4,8}x{1,3,8}; (3) all ordered pairs of queries on every text of length <= %d and on sampled longer texts; "
             "(4) random histories: text of up to 40 characters split over 1-4 appends, queries at random boundaries in random order, drains, "
             "resets, should_reset_on_parse toggles, random tab settings (one third of them without CR, one third dense in CR/LF); "
             "(5) correspondence only: %d histories over arbitrary bytes (ill-formed UTF-8 around CR/LF) with queries at arbitrary offsets. "
             "Non-trivial = the text has a line ending, tab or non-ASCII character and at least one query; distinct = distinct command lines."
             % (alpha_info["wide"], alpha_info["zero"], exh, 2 if chk.tier == "quick" else 3, len(byte_cases)),
        correspondence_cases=len(all_cases), correspondence_mismatches=len(mism), queries_checked_against_spec=nq, spec_disagreements=nbad,
        disagreements_by_signature=by_sig, oracle_cross_checks=noracle, alphabet=[hex(c) for c in alphabet], widths_per_library=alpha_info["widths"],
        exhaustive=False, translator=tr)
    chk.assumptions = [
        "Pos/PosModel.v is a hand-written model of class environment (position_at, set_match_and_subject, drain, reset); it is tied to the "
        "working tree by the line-by-line correspondence with a real lug::environment on every case of every run",
        "std::lower_bound is modelled by a linear scan (equal on a sorted vector: C11_cache_sorted); size_t arithmetic is modelled without "
        "wrap-around; tab_alignment >= 1 (0 divides by zero in the library); query offsets are character boundaries inside the current segment",
        "texts are lists of Unicode scalar values in UTF-8 (C13 theorems); the width of a character is the library's unicode::ucwidth "
        "(its table is the subject of C14, not of C11)",
        "the cpp driver calls the private members set_match_and_subject/drain/reset directly (-fno-access-control) instead of going through a parser",
        "extraction (ExtrOcamlBasic) and OCaml 4.13.1; g++ 12.2"]
    return chk.finish(proof, "Theorems of Props/Properties_C11.v re-checked (cache sorted, repeated query, history independence for every "
                             "text, CR LF pairs included, every tab setting and every history of appends, queries, drains, resets and toggles; "
                             "single query and query order as special cases; a worked example); model vs implementation compared on %d "
                             "histories; specification vs implementation on %d query answers (%d disagreements; each one is a VIOLATION: "
                             "the two CR LF findings are fixed by 7850d1f and would be reported under their old signatures if they returned)"
                             % (len(all_cases), nq, nbad))


def replay(path):
    with open(path) as f:
        data = json.load(f)
    impl, err = vlib.build_cpp("posdrv")
    model, err2 = vlib.build_model("pos")
    seen = set()
    for v in data.get("violations", []) + [dict(detail=d) for b in data.get("broken", []) for d in (b.get("first") or []) if isinstance(d, dict)]:
        c = (v.get("detail") or {}).get("case")
        if c and c not in seen and c.split()[0] in ("pos", "fresh"):
            seen.add(c)
            _, out, _ = vlib.run_driver(impl, c + "\n")
            _, outm, _ = vlib.run_driver(model, c + "\n")
            _, outs, _ = vlib.run_driver(model, spec_line(c) + "\n")
            try:
                print("%s\n  implementation: %s\n  model:          %s\n  specification:  %s" % (c, out.strip(), outm.strip(), outs.strip()), flush=True)
            except BrokenPipeError:
                return 0
    return 0
