"""C07 -- Attribute variables behave like locals of each rule invocation.

Proof part: Props/Properties_C07.v (frame locality, exactness of the result stack, four attribute grammars
compute the plain recursive evaluation of every parse tree; model Attr/AttrModel.v).
Correspondence: the action sequences `ops*` of Attr/AttrSpec.v and the interpreter `exec` are compared, action by
action (id of every user action + the depths of the result and frame stacks it observes), final values of all
variables, final stack depths and result, with the real encoder + VM on random trees: cpp/attrdrv.cpp (the
four grammars in lug's DSL, built from the working tree) vs ocaml/attr_driver.ml (extracted model).
Conformance search: the library's result is compared with an independent Python recursive evaluation of the tree
and the stacks must hold exactly the one value nobody consumed."""
import json, os, sys
import vlib

PID = "C07"
M = 1000003
SHAPES = ("calc", "list", "mirror", "chain")
sys.setrecursionlimit(200000)

WS = ["", "", "", "", "", " ", " ", "  ", "\t", "\n", " \n ", "\r\n"]


# ---------------------------------------------------------------- random trees
def number(rnd):
    r = rnd.random()
    if r < 0.7:
        return rnd.randint(0, 99)
    if r < 0.95:
        return rnd.randint(100, 9999)
    return rnd.randint(10000, 999999)


def gen_calc(rnd, depth, side=2):
    """expr = ('E', first_term, [(op, term), ...]); term = ('T', first_factor, [factor, ...]);
    factor = ('n', k) | ('p', expr).  `depth` = number of nested parentheses that MUST be reached."""
    def expr(d, rich):
        nt = rnd.choice((1, 1, 2, 2, 3, 4)) if rich else rnd.choice((1, 1, 2))
        spine = rnd.randrange(nt) if d > 0 else -1
        terms = [term(d if i == spine else 0, rich, i == spine) for i in range(nt)]
        return ("E", terms[0], [(rnd.choice("+-"), t) for t in terms[1:]])

    def term(d, rich, onspine):
        nf = rnd.choice((1, 1, 2, 3)) if rich else rnd.choice((1, 1, 2))
        spine = rnd.randrange(nf) if d > 0 else -1
        return ("T", [factor(d if i == spine else 0, i == spine) for i in range(nf)])

    def factor(d, onspine):
        if d > 0:
            return ("p", expr(d - 1, True))
        if rnd.random() < 0.12 * side:
            return ("p", expr(rnd.choice((0, 0, 1)), False))
        return ("n", number(rnd))

    return expr(depth, True)


def calc_nodes(e):
    """-> left-associative binary form used by the model: expr ::= ('t',T)|('+',E,T)|('-',E,T) ..."""
    _, t0, rest = e
    acc = ("t", calc_term(t0))
    for op, t in rest:
        acc = (op, acc, calc_term(t))
    return acc


def calc_term(t):
    fs = t[1]
    acc = ("f", calc_fac(fs[0]))
    for f in fs[1:]:
        acc = ("*", acc, calc_fac(f))
    return acc


def calc_fac(f):
    return f if f[0] == "n" else ("p", calc_nodes(f[1]))


def ser_calc(n):
    out = []

    def E(x):
        if x[0] == "t":
            out.append("t"); T(x[1])
        else:
            out.append(x[0]); E(x[1]); T(x[2])

    def T(x):
        if x[0] == "f":
            out.append("f"); F(x[1])
        else:
            out.append("*"); T(x[1]); F(x[2])

    def F(x):
        if x[0] == "n":
            out.append("n %d" % x[1])
        else:
            out.append("p"); E(x[1])

    E(n)
    return " ".join(out)


def eval_calc(n):
    def E(x):
        if x[0] == "t":
            return T(x[1])
        a, b = E(x[1]), T(x[2])
        return (a + b) % M if x[0] == "+" else (a - b) % M

    def T(x):
        if x[0] == "f":
            return F(x[1])
        return (T(x[1]) * F(x[2])) % M

    def F(x):
        return x[1] if x[0] == "n" else E(x[1])

    return E(n)


def text_calc(rnd, n, ws):
    toks = []

    def E(x):
        if x[0] == "t":
            T(x[1])
        else:
            E(x[1]); toks.append(x[0]); T(x[2])

    def T(x):
        if x[0] == "f":
            F(x[1])
        else:
            T(x[1]); toks.append("*"); F(x[2])

    def F(x):
        if x[0] == "n":
            toks.append(numtext(rnd, x[1]))
        else:
            toks.append("("); E(x[1]); toks.append(")")

    E(n)
    return join(rnd, toks, ws)


def numtext(rnd, k):
    return ("0" * rnd.choice((1, 2)) if rnd.random() < 0.03 else "") + str(k)


def join(rnd, toks, ws):
    if not ws:
        return "".join(toks)
    out = [rnd.choice(WS)]
    for i, t in enumerate(toks):
        out.append(t)
        if i + 1 < len(toks):
            out.append(rnd.choice(WS))
    return "".join(out)


def gen_list(rnd, depth):
    """item = ('n', z) | ('l', [item, ...], item)"""
    def item(d):
        if d > 0:
            n = rnd.choice((1, 1, 2, 3, 4))
            where = rnd.randrange(n + 1)        # the spine goes through one of the elements or through the multiplier
            els = [item(d - 1) if i == where else small() for i in range(n)]
            k = item(d - 1) if where == n else small()
            return ("l", els, k)
        return small()

    def small():
        r = rnd.random()
        if r < 0.8:
            return ("n", number(rnd))
        n = rnd.choice((1, 2, 3))
        return ("l", [("n", number(rnd)) if rnd.random() < 0.85 else small() for _ in range(n)], ("n", number(rnd)) if rnd.random() < 0.85 else small())

    return item(depth)


def ser_list(t):
    out = []

    def I(x):
        if x[0] == "n":
            out.append("n %d" % x[1])
        else:
            out.append("l"); S(x[1], 0); I(x[2])

    def S(els, i):
        # iterative over the (possibly long) element list
        for j in range(i, len(els) - 1):
            out.append("c"); I(els[j])
        out.append("o"); I(els[-1])

    I(t)
    return " ".join(out)


def eval_list(t):
    if t[0] == "n":
        return t[1]
    vals = [eval_list(x) for x in t[1]]
    a = 7
    for v in reversed(vals):                     # `return x` runs after the recursive Seq: the tail is pushed first
        a = (a * 31 + v) % M
    return (a * eval_list(t[2])) % M


def text_list(rnd, t, ws):
    toks = []

    def I(x):
        if x[0] == "n":
            toks.append(numtext(rnd, x[1]))
        else:
            toks.append("[")
            for j, e in enumerate(x[1]):
                if j:
                    toks.append(",")
                I(e)
            toks.append("]"); toks.append("*"); I(x[2])

    I(t)
    return join(rnd, toks, ws)


def gen_mirror(rnd, depth):
    def tree(d):
        if d > 0:
            other = tree(rnd.choice((0, 0, 0, 1, 2))) if d > 3 else tree(rnd.choice((0, 0, 1)))
            sp = tree(d - 1)
            return ("b", sp, other) if rnd.random() < 0.5 else ("b", other, sp)
        return ("n", number(rnd))

    return tree(depth)


def ser_mirror(t):
    out = []

    def T(x):
        if x[0] == "n":
            out.append("n %d" % x[1])
        else:
            out.append("b"); T(x[1]); T(x[2])

    T(t)
    return " ".join(out)


def eval_mirror(t):
    if t[0] == "n":
        return "[%d]" % t[1]
    return "[%s,%s]" % (eval_mirror(t[2]), eval_mirror(t[1]))


def text_mirror(rnd, t, ws):
    toks = []

    def T(x):
        if x[0] == "n":
            toks.append(numtext(rnd, x[1]))
        else:
            toks.append("("); T(x[1]); toks.append(","); T(x[2]); toks.append(")")

    T(t)
    return join(rnd, toks, ws)


def gen_chain(rnd, depth):
    return [number(rnd) for _ in range(depth + 1)]


def ser_chain(c):
    return " ".join(["c %d" % z for z in c[:-1]] + ["o %d" % c[-1]])


def eval_chain(c):
    acc = c[-1]
    for z in reversed(c[:-1]):
        acc = (acc * 10 + z) % M
    return acc


def text_chain(rnd, c, ws):
    toks = []
    for i, z in enumerate(c):
        if i:
            toks.append(":")
        toks.append(numtext(rnd, z))
    return join(rnd, toks, ws)


GEN = dict(calc=(lambda r, d: calc_nodes(gen_calc(r, d)), ser_calc, eval_calc, text_calc),
           list=(gen_list, ser_list, eval_list, text_list),
           mirror=(gen_mirror, ser_mirror, eval_mirror, text_mirror),
           chain=(gen_chain, ser_chain, eval_chain, text_chain))


def depth_schedule(rnd, n, maxdepth):
    """most trees small/medium, a tail of deep ones, every depth 0..8 certainly present"""
    ds = list(range(0, 9))
    while len(ds) < n:
        r = rnd.random()
        if r < 0.55:
            ds.append(rnd.randint(0, 6))
        elif r < 0.85:
            ds.append(rnd.randint(5, max(6, maxdepth // 3)))
        else:
            ds.append(rnd.randint(maxdepth // 2, maxdepth))
    return ds[:n]


def gen_cases(tier, seed):
    """-> list of dicts(shape, tree (model command), text (library input), expected, depth)"""
    per_shape = 1500 if tier == "quick" else 8000
    maxdepth = 60 if tier == "quick" else 200
    cases = []
    for shape in SHAPES:
        rnd = vlib.rng_for(seed, "C07/" + shape)
        gen, ser, ev, text = GEN[shape]
        for d in depth_schedule(rnd, per_shape, maxdepth):
            t = gen(rnd, d)
            ws = rnd.random() < 0.6
            cases.append(dict(shape=shape, depth=d, tree="%s %s" % (shape, ser(t)), text=text(rnd, t, ws), expected=str(ev(t))))
    return cases


def hexs(s):
    return s.encode().hex() or "-"


def parse_line(line):
    """'ok res=.. rdepth=.. fdepth=.. marks=.. vars=.. obs=..' -> dict, or dict(status=fail/throw)"""
    if line.startswith("ok "):
        d = dict(status="ok")
        for part in line[3:].split(" "):
            k, _, v = part.partition("=")
            d[k] = v
        return d
    if line == "fail":
        return dict(status="fail")
    if line.startswith("throw:"):
        return dict(status="throw", what=line[6:])
    return dict(status="unparsable", raw=line[:200])


def conformance(chk, c, line):
    """what the property demands of the implementation on this case (independent of the Coq model)"""
    d = parse_line(line)
    shape = c["shape"]
    detail = dict(case=c["tree"], input=c["text"], implementation=line[:600], expected_result=c["expected"])
    if d["status"] == "fail":
        return chk.report("C07:rejected:%s" % shape, "a well-formed %s input was rejected" % shape, detail)
    if d["status"] == "throw":
        return chk.report("C07:throws:%s" % shape, "parsing a well-formed %s input threw: %s" % (shape, d.get("what")), detail)
    if d["status"] != "ok":
        return chk.report("C07:unparsable-output:%s" % shape, "driver output not understood", detail)
    bad = False
    if d.get("res") != c["expected"]:
        bad |= chk.report("C07:wrong-result:%s" % shape, "the attribute grammar computed %s, the recursive evaluation of the parse tree is %s" % (d.get("res"), c["expected"]), detail)
    if d.get("rdepth") != "1":
        bad |= chk.report("C07:stack-leftover:%s" % shape, "the attribute result stack holds %s values after the parse (exactly 1 was produced and not consumed)" % d.get("rdepth"), detail)
    if d.get("fdepth") != "0" or d.get("marks") != "0":
        bad |= chk.report("C07:frame-leftover:%s" % shape, "frame stack depth %s / collection marks %s after the parse" % (d.get("fdepth"), d.get("marks")), detail)
    return bad


def run(chk):
    tr = vlib.translate()
    if not tr.get("ok"):
        chk.broken.append(dict(kind="translator", detail=tr.get("error")))
    proof = vlib.prove(PID)
    if not proof["ok"]:
        for o in proof["obligations"]:
            if not o["discharged"]:
                chk.broken.append(dict(kind="theorem", name=o["name"], detail=(proof["errors"] or [""])[0]))
        if proof["forbidden"]:
            chk.broken.append(dict(kind="forbidden-vernacular", detail=proof["forbidden"]))
    impl, err = vlib.build_cpp("attrdrv")
    model, err2 = vlib.build_model("attr")
    if impl is None or model is None:
        chk.broken.append(dict(kind="build", detail=(err or "") + (err2 or "")))
        return chk.finish(proof, "build failed")
    cases = gen_cases(chk.tier, chk.seed)
    impl_in = "".join("%s %s\n" % (c["shape"], hexs(c["text"])) for c in cases)
    model_in = "".join(c["tree"] + "\n" for c in cases)
    rc1, out_impl, err_impl = vlib.run_driver(impl, impl_in)
    rc2, out_model, err_model = vlib.run_driver(model, model_in)
    if rc1 != 0:
        chk.report("C07:impl-crash", "implementation driver crashed", dict(rc=rc1, stderr=err_impl[-2000:]))
    if rc2 != 0:
        chk.broken.append(dict(kind="model-crash", detail=err_model[-2000:]))
    # (1) correspondence: model vs implementation, line by line (results, variables, depths, every user action)
    labels = ["%s | input %r" % (c["tree"], c["text"]) for c in cases]
    mism = vlib.compare_lines(labels, out_impl, out_model)
    # (2) conformance: implementation vs independent Python evaluation of the tree
    impl_lines = out_impl.split("\n")
    nbad = 0
    for i in sorted(range(len(cases)), key=lambda j: (len(cases[j]["text"]), j)):      # smallest witnesses first
        c = cases[i]
        line = impl_lines[i] if i < len(impl_lines) else "missing"
        if conformance(chk, c, line):
            nbad += 1
            if nbad > 40:
                break
    if mism:
        chk.broken.append(dict(kind="correspondence", stream="attribute actions: encoder+VM vs ops*/exec of Attr/AttrSpec.v", count=len(mism),
                               first=[dict(case=m[1][:1500], implementation=m[2][:1500], model=m[3][:1500]) for m in sorted(mism, key=lambda m: len(m[1]))[:5]]))
    # (3) the evaluation functions ev* used in the theorems vs the Python oracle
    rc3, out_eval, _ = vlib.run_driver(model, "".join("eval " + c["tree"] + "\n" for c in cases))
    ev_lines = out_eval.split("\n")
    ev_mism = [(c["tree"], ev_lines[i] if i < len(ev_lines) else "missing", c["expected"]) for i, c in enumerate(cases)
               if (ev_lines[i] if i < len(ev_lines) else "missing") != c["expected"]]
    if ev_mism:
        chk.broken.append(dict(kind="correspondence", stream="ev* of Attr/AttrSpec.v vs Python recursive evaluation", count=len(ev_mism),
                               first=[dict(case=m[0][:1500], coq=m[1][:300], python=m[2][:300]) for m in ev_mism[:5]]))
    nobs = 0
    for i, c in enumerate(cases):
        chk.note_case(c["tree"] + "|" + c["text"], nontrivial=c["depth"] > 0)
        if i < len(impl_lines):
            nobs += impl_lines[i].count(":") // 2
    by_shape = {s: sum(1 for c in cases if c["shape"] == s) for s in SHAPES}
    picks = [next(c for c in cases if c["shape"] == s and c["depth"] == 2) for s in SHAPES]
    chk.samples = [dict(shape=c["shape"], tree=c["tree"], input=c["text"], expected=c["expected"]) for c in picks]
    chk.coverage.update(rule="per grammar shape (calc, list, mirror, chain) random parse trees with a spine of forced nesting depth 0..%d (depths 0-8 always present, 15%% of the trees in the upper half), "
                             "random operand counts/order and numbers on both sides of every recursive reference, 60%% of the inputs with random white space between tokens; each tree is serialised "
                             "once for the model and once as input text for the library. Non-trivial = the tree contains at least one recursive rule invocation (depth > 0); distinct = distinct (tree, text)."
                             % (60 if chk.tier == "quick" else 200),
                        cases_per_shape=by_shape, correspondence_cases=len(cases), correspondence_mismatches=len(mism),
                        user_actions_compared=nobs, spec_checks=len(cases), spec_failures=nbad, eval_mismatches=len(ev_mism), translator=tr)
    chk.assumptions = ["the model covers the attribute actions of an accepted parse (the response list run by do_accept); matching, backtracking and the dropping of responses of failed alternatives are the subject of C01/C02/C05",
                       "ops* (the action sequence per parse tree) is read off the encoder by hand and tied to the library by the action-by-action correspondence on every run",
                       "attribute values are typed in C++; the model uses one universal value domain and does not model failing any_casts (impossible in a grammar the compiler accepted unless the stack discipline is broken, which shows as a mismatch)",
                       "cut/accept in the middle of an attribute grammar and error recovery actions are not exercised",
                       "extraction (ExtrOcamlBasic) and OCaml 4.13.1; g++ 12.2"]
    return chk.finish(proof, "Theorems of Props/Properties_C07.v re-checked; encoder+VM vs model compared on %d parse trees (%d user actions with stack depths); library result vs independent recursive evaluation on %d trees"
                      % (len(cases), nobs, len(cases)))


def replay(path):
    with open(path) as f:
        data = json.load(f)
    impl, err = vlib.build_cpp("attrdrv")
    if impl is None:
        print(err)
        return 2
    for v in data.get("violations", []):
        det = v.get("detail", {})
        if "case" in det and "input" in det:
            shape = det["case"].split(" ", 1)[0]
            rc, out, _ = vlib.run_driver(impl, "%s %s\n" % (shape, hexs(det["input"])))
            print("%s %r -> %s (recorded: %s; expected result %s)" % (shape, det["input"], out.strip()[:300], str(det.get("implementation"))[:300], det.get("expected_result")))
    for b in data.get("broken", []):
        print("broken:", json.dumps(b)[:600])
    return 0
