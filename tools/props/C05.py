"""C05 -- labelled failures reach the handler once, in place; responses are obeyed."""
import json, re
import vlib, gramlib
from gen_grammar import Gen, ser

PID = "C05"
HALT, RESUME, ACCEPT, BACKTRACK, RETHROW = 0, 1, 2, 3, 4


def erase(t):
    """the grammar with every labelled-failure annotation removed (expect/recover_with/report/respond; raise is kept)"""
    if not isinstance(t, tuple):
        return t
    op = t[0]
    if op == 'expect':
        return erase(t[1])
    if op == 'recwith':
        return erase(t[2])
    if op == 'report':
        return erase(t[3])
    if op == 'respond':
        return erase(t[2])
    return tuple(erase(x) for x in t)


def has_ann(t):
    if not isinstance(t, tuple):
        return False
    return t[0] in ('expect', 'recwith', 'report', 'respond') or any(has_ann(x) for x in t)


def gen_cases(tier, seed):
    rnd = vlib.rng_for(seed, "C05")
    n = 800 if tier == "quick" else 12000
    pairs = []
    g = Gen(rnd, features=('dir', 'act', 'err'), wellformed=True, max_rules=4, max_depth=5, ninputs=6, maxlen=10)
    g2 = Gen(rnd, features=('dir', 'act', 'err', 'cut', 'env'), wellformed=False, max_rules=3, max_depth=4, ninputs=6, maxlen=10)
    for k in range(n):
        gen = g if k % 3 else g2
        parts, G, start = gen.grammar()
        if rnd.random() < 0.6:
            # a handler around the whole start rule, so that most raised errors are seen by somebody
            parts = [(p if not (p[0] == 'rule' and p[1] == start) else ('rule', start, ('report', rnd.randint(0, 9), rnd.choice([0, 1, 2, 3, 4, 9]), p[2]))) for p in parts]
        if rnd.random() < 0.5:
            # an expected token at the end of the start rule: errors on truncated/mutated inputs
            parts = [(p if not (p[0] == 'rule' and p[1] == start) else ('rule', start, ('seq', p[2], ('expect', ('chr', '3b'), 'L%d' % rnd.randint(0, 3))))) for p in parts]
        if not any(has_ann(p) for p in parts) and "raise" not in ser(tuple(parts)):
            continue
        inputs = []
        for _ in range(gen.ninputs):
            s = gen.mutate(gen.sample(G[start], G))[:16] if rnd.random() < 0.7 else bytes(rnd.choice(gen.alphabet) for _ in range(rnd.randint(0, 8)))
            inputs.append(('input', s.hex()) if s else ('input',))
        a = ser(('grammar',) + tuple(parts) + tuple(inputs))
        b = ser(('grammar',) + tuple(erase(p) for p in parts) + tuple(inputs))
        pairs.append((a, b))
    return pairs


def nopred(log):
    """syntactic predicates are not actions: how often one is evaluated may change (a rule referenced as a recovery rule
    from inside itself is compiled as left-recursive and its body is tried twice)"""
    return " ".join(x for x in log.split() if not x.startswith("P"))


HRE = re.compile(r"H(\d+)\.(\d+)\(([0-9a-f-]*),(\d+),(\d+),(\d+)\)")


def run(chk):
    tr, proof = gramlib.standard_prelude(chk, PID)
    impl, model = gramlib.build_sides(chk)
    if impl is None:
        return chk.finish(proof, "build failed")
    pairs = gen_cases(chk.tier, chk.seed)
    cases = [c for p in pairs for c in p]
    impl_out, e1 = gramlib.run_sharded(impl, "--budget=%d" % gramlib.BUDGET, cases)
    model_out, e2 = gramlib.run_sharded(model, "--budget=%d" % gramlib.BUDGET, cases)
    if e1 or e2:
        chk.broken.append(dict(kind="driver", detail=(e1 + e2)[:5]))
    mism = gramlib.correspondence(chk, cases, impl_out, model_out, "grammars with labelled failures, recovery, handlers")
    nruns = nraise = nquiet = ndis = nhandled = 0
    resp_seen = {}
    for k, (ga, gb) in enumerate(pairs):
        a = [l for l in impl_out[2 * k] if l.startswith("run sv ")]
        b = [l for l in impl_out[2 * k + 1] if l.startswith("run sv ")]
        for la, lb in zip(a, b):
            nruns += 1
            fa, fb = gramlib.fields(la), gramlib.fields(lb)
            raises = re.search(r"raises=(\S*)", la)
            raises = raises.group(1) if raises else ""
            if "diverged" in (fa.get("res"), fb.get("res")) or fa.get("res", "").startswith("throw"):
                continue
            hs = [(int(m.group(1)), int(m.group(2)), m.group(3), int(m.group(4)), int(m.group(5)), int(m.group(6))) for m in HRE.finditer(fa.get("log", ""))]
            if "R" not in raises and "I" not in raises:
                # nothing was raised: the annotations must not change anything
                nquiet += 1
                # (call depths may differ: the annotated rule can be too large to inline -- C10's recorded finding)
                same = fa.get("res") == fb.get("res") and fa.get("sr") == fb.get("sr") and fa.get("mr") == fb.get("mr") and nopred(gramlib.strip_depth(fa.get("log", ""))) == nopred(gramlib.strip_depth(fb.get("log", "")))
                if hs or not same:
                    ndis += 1
                    chk.report("C05:annotations-change-a-parse-that-raises-nothing", "annotations change the result of a parse during which nothing was raised", dict(grammar=ga, annotated=la, erased=lb))
                continue
            nraise += 1
            if "R" not in raises and hs:
                ndis += 1
                chk.report("C05:handler-ran-for-a-raise-inside-a-predicate", "a handler ran although every raise happened inside a syntactic predicate", dict(grammar=ga, run=la))
            nhandled += len(hs)
            # responses are obeyed: the answer given to the last handler of an event decides
            answers = [(h[1] if h[1] != 9 else h[5]) for h in hs]
            for r in answers:
                resp_seen[r] = resp_seen.get(r, 0) + 1
            if any(r in (HALT, RESUME) for r in answers) and fa.get("res") == "1":
                ndis += 1
                chk.report("C05:parse-succeeds-after-halt-or-resume", "a handler answered halt/resume but parse() returned true", dict(grammar=ga, run=la))
            if answers and answers[-1] == HALT and "cut" not in ga:
                # nothing may run after the handler that halted
                tail = fa.get("log", "").split(")")[-1].strip()
                if tail:
                    ndis += 1
                    chk.report("C05:callbacks-after-halt", "callbacks ran after a handler answered halt", dict(grammar=ga, run=la))
            # C12's bounds clause on runs with errors: the final offset is never beyond max_subject_index
            try:
                if int(fa.get("mr")) < int(fa.get("sr")) and fa.get("sr") != gramlib.SIZE_MAX:
                    ndis += 1
                    chk.report("C12:max-subject-index-below-subject-index", "max_subject_index() < subject_index() after a parse with a resumed error", dict(grammar=ga, run=la))
            except (TypeError, ValueError):
                pass
        chk.note_case(ga, nontrivial=bool(a))
    chk.samples = [pairs[0][0][:500], pairs[1][0][:400]]
    chk.coverage.update(rule="random grammars annotated with expect e[failure(L)], raise(L), recover_with (rule and expression recoveries answering every response), nested report handlers (constant answers halt/resume/accept/backtrack/rethrow and void handlers) under choice, repetition, predicates, called rules, cut, symbols x 6 sampled+mutated inputs (0-4 errors per input); each is also run with the annotations erased; every executed raise instruction is recorded (inside/outside predicates); non-trivial = compiled and run",
                        pairs=len(pairs), runs=nruns, runs_raising=nraise, runs_raising_nothing=nquiet, handler_events=nhandled, responses_seen=resp_seen,
                        disagreements=ndis, correspondence_mismatches=len(mism), translator=tr)
    chk.assumptions = ["raise/recover/report frames, return_from_raise and the handler chain hand-modelled (Machine.v), tied by differential testing incl. handler logs with label, index, size and incoming response",
                       "handlers are drawn from a constant-answer family; exceptions thrown by handlers are C18's subject"]
    return chk.finish(proof, "theorems re-checked; %d annotated grammars and their erasures; %d runs (%d raising, %d quiet), %d handler events" % (len(pairs), nruns, nraise, nquiet, nhandled))


def replay(path):
    from props import pegcommon
    return pegcommon.replay(path)
