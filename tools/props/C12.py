"""C12 -- see tools/props/pegcommon.py"""
from props import pegcommon
PID = "C12"
def run(chk):
    return pegcommon.run(chk, PID)
def replay(path):
    return pegcommon.replay(path)
