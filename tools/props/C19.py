"""C19 -- a const grammar can be parsed from many threads at once."""
import json, os, re
import vlib, gramlib
from gen_grammar import Gen, ser

PID = "C19"


def gen_cases(tier, seed):
    rnd = vlib.rng_for(seed, "C19")
    n = 150 if tier == "quick" else 3000
    g = Gen(rnd, features=('dir', 'act', 'env', 'cut', 'err', 'class', 'case', 'utf8', 'prec'), wellformed=False, max_rules=4, max_depth=4, ninputs=6, maxlen=10,
            alphabet=b"aabc \nAB" + "é".encode())
    cases = []
    for _ in range(n):
        c = g.case()
        cases.append(c[:-1] + " (threads 8) (buildthreads 6))")
    return cases


def run(chk):
    tr, proof = gramlib.standard_prelude(chk, PID)
    impl, model = gramlib.build_sides(chk)
    if impl is None:
        return chk.finish(proof, "build failed")
    cases = gen_cases(chk.tier, chk.seed)
    # few shards: every case already uses 8 threads
    impl_out, e1 = gramlib.run_sharded(impl, "--budget=%d" % gramlib.BUDGET, cases, shards=8)
    model_out, e2 = gramlib.run_sharded(model, "--budget=%d" % gramlib.BUDGET, cases)
    if e1 or e2:
        chk.broken.append(dict(kind="driver", detail=(e1 + e2)[:5]))
    plain = [[l for l in o if not l.startswith(("threads ", "buildthreads "))] for o in impl_out]
    mism = gramlib.correspondence(chk, cases, plain, model_out, "grammars run single-threaded (reference for the threaded runs)")
    nthreads = nbad = nbuild = 0
    for i, c in enumerate(cases):
        for l in impl_out[i]:
            m = re.match(r"threads n=(\d+) inputs=(\d+) mismatches=(\d+)(.*)", l)
            if m:
                nthreads += int(m.group(1)) * int(m.group(2)) * 3
                if int(m.group(3)) != 0:
                    nbad += 1
                    chk.report("C19:thread-result-differs", "a thread parsing with the shared const grammar obtained a different result than alone", dict(grammar=c, line=l))
            m = re.match(r"buildthreads n=(\d+) mismatches=(\d+)", l)
            if m:
                nbuild += int(m.group(1)) * 2
                if int(m.group(2)) != 0:
                    nbad += 1
                    chk.report("C19:concurrent-construction-differs", "a grammar constructed concurrently (each thread under its own implicit whitespace rule) differs from its sequential construction", dict(grammar=c, line=l))
            if "crashed" in l:
                nbad += 1
                chk.report("C19:crash", "crash while parsing from several threads", dict(grammar=c, line=l))
        chk.note_case(c, nontrivial=True)
    # the same threaded runs under ThreadSanitizer: any report is a data race in the compiled library
    ntsan = 0
    timpl, terr = vlib.build_cpp("lugdrv", sanitize="thread")
    if timpl is None:
        chk.broken.append(dict(kind="build", detail="tsan build: " + (terr or "")))
    else:
        sub = cases[:40 if chk.tier == "quick" else 600]
        import subprocess
        step = max(1, len(sub) // 8)
        chunks = [sub[k:k + step] for k in range(0, len(sub), step)]
        import concurrent.futures
        def tsan_run(ch):
            p = subprocess.run("exec %s --budget=%d" % (timpl, gramlib.BUDGET), shell=True, input="\n".join(ch) + "\n", capture_output=True, text=True, errors="replace",
                               timeout=3600, env=dict(os.environ, TSAN_OPTIONS="halt_on_error=0 report_signal_unsafe=0"))
            return ch, p
        with concurrent.futures.ThreadPoolExecutor(max_workers=4) as ex:
            for ch, p in ex.map(tsan_run, chunks):
                ntsan += len(ch)
                if "ThreadSanitizer" in p.stderr:
                    nbad += 1
                    m = re.search(r"WARNING: ThreadSanitizer: ([^\n]*)(?:.*?)(#0 [^\n]*)", p.stderr, re.S)
                    where = re.findall(r"#\d+ (\S+) [^\n]*lug[^\n]*", p.stderr)[:6]
                    chk.report("C19:data-race:" + (where[0] if where else "unknown"), "ThreadSanitizer reports a data race while threads share one const grammar / construct grammars concurrently",
                               dict(report=p.stderr[:3000], grammars=[c[:300] for c in ch[:3]]))
    inv = json.load(open(os.path.join(vlib.COQ, "Gen", "inventory.json")))
    chk.samples = [cases[0][:500]]
    chk.coverage.update(rule="random grammars (all features) x 6 inputs, each input parsed 3 times from each of 8 threads sharing one const grammar (own parser and environment per thread) and compared with the single-threaded result (result, registers, step count, callback log); each grammar is also constructed twice concurrently on 6 threads, thread t under whitespace rule t mod 3, and compared with the sequential construction; the single-threaded runs are tied to the model",
                        grammars=len(cases), threaded_parses=nthreads, concurrent_constructions=nbuild, mismatches=nbad, correspondence_mismatches=len(mism), grammars_under_thread_sanitizer=ntsan,
                        statics_inventory=inv, translator=tr)
    chk.assumptions = ["absence of data races in the compiled C++ is a fact about the C++ memory model: observed (ThreadSanitizer on the threaded runs), not proved; what is proved: per-thread results under all interleavings of the model and the classification of every static/thread_local object of the headers",
                       "tools/translate.py finds every object with static or thread storage duration by scanning declarations (regex), see Gen/inventory.json in the evidence"]
    return chk.finish(proof, "theorems re-checked (interleaving of the model; classification of %d non-constexpr statics); %d threaded parses and %d concurrent constructions compared with sequential ones" % (len(inv), nthreads, nbuild))


def replay(path):
    from props import pegcommon
    return pegcommon.replay(path)
