"""C13 -- UTF-8 decoding and encoding are exact, total and always make progress."""
import itertools, json, os, sys
import vlib

PID = "C13"
REPS = [0x00, 0x41, 0x7F, 0x80, 0x8F, 0x90, 0x9F, 0xA0, 0xBF, 0xC0, 0xC1, 0xC2, 0xDF, 0xE0, 0xE1, 0xEC, 0xED, 0xEE, 0xEF,
        0xF0, 0xF1, 0xF3, 0xF4, 0xF5, 0xFF]


def enc_py(cp):
    if cp < 0x80:
        return bytes([cp])
    if cp < 0x800:
        return bytes([0xC0 | cp >> 6, 0x80 | cp & 63])
    if cp < 0x10000:
        return bytes([0xE0 | cp >> 12, 0x80 | (cp >> 6) & 63, 0x80 | cp & 63])
    return bytes([0xF0 | cp >> 18, 0x80 | (cp >> 12) & 63, 0x80 | (cp >> 6) & 63, 0x80 | cp & 63])


def gen_cases(tier, seed):
    rnd = vlib.rng_for(seed, "C13")
    dec = []
    dec.append(b"")
    for a in range(256):
        dec.append(bytes([a]))
    for a in range(256):
        for b in range(256):
            dec.append(bytes([a, b]))
    if tier == "thorough":
        # every 3-byte string whose first byte is not ASCII, followed by nothing / a continuation / a lead
        for a in range(0x80, 256):
            for b in range(256):
                for c in range(256):
                    dec.append(bytes([a, b, c]))
        for a in range(0xF0, 0xF5):
            for b in (0x80, 0x8F, 0x90, 0xA0, 0xBF, 0xC2, 0x41):
                for c in range(0x70, 0xD0):
                    for d in range(0x70, 0xD0):
                        dec.append(bytes([a, b, c, d]))
    for n in (3, 4):
        for t in itertools.product(REPS, repeat=n):
            dec.append(bytes(t))
    if tier == "thorough":
        for t in itertools.product(REPS[2:], repeat=5):
            if t[0] >= 0xC2:
                dec.append(bytes(t))
    # random: concatenations of valid characters with mutations
    nrand = 60000 if tier == "quick" else 600000
    pools = [(0, 0x7F), (0x80, 0x7FF), (0x800, 0xD7FF), (0xE000, 0xFFFF), (0x10000, 0x10FFFF)]
    for _ in range(nrand):
        k = rnd.randint(1, 3)
        s = bytearray()
        for _ in range(k):
            lo, hi = rnd.choice(pools)
            s += enc_py(rnd.randint(lo, hi))
        m = rnd.random()
        if m < 0.25 and len(s) > 1:
            del s[rnd.randrange(len(s))]
        elif m < 0.5:
            s[rnd.randrange(len(s))] = rnd.choice(REPS + [rnd.randrange(256)])
        elif m < 0.6:
            s.insert(rnd.randrange(len(s) + 1), rnd.choice(REPS))
        elif m < 0.7:
            s = s[:rnd.randint(1, len(s))]
        dec.append(bytes(s))
    enc = set()
    for lo, hi in ((0, 0x120), (0x7E0, 0x820), (0xD7E0, 0xE020), (0xFFE0, 0x10020), (0x10FFE0, 0x110020), (2 ** 32 - 32, 2 ** 32)):
        enc.update(range(lo, hi))
    if tier == "thorough":
        enc.update(range(0, 0x110000 + 65536))
    else:
        for _ in range(30000):
            enc.add(rnd.randrange(0, 0x110000))
        for _ in range(2000):
            enc.add(rnd.randrange(0x110000, 2 ** 32))
    cases = ["dec " + (s.hex() or "-") for s in dec]
    ncnt = 3000 if tier == "quick" else 30000
    cases += ["cnt " + (s.hex() or "-") for s in dec[-ncnt:]]
    cases += ["enc %d" % c for c in sorted(enc)]
    return cases


def classify(case, impl_line):
    """signature of a spec violation (as narrow as the root cause allows)"""
    toks = case.split()
    if toks[0] == "dec":
        s = bytes.fromhex(toks[1]) if toks[1] != "-" else b""
        try:
            n, r = [int(x) for x in impl_line.split()]
        except ValueError:
            return "dec:unparsable-output"
        if n < 1 and s:
            return "dec:no-progress"
        if n > len(s):
            return "dec:read-past-end"
        if r != 0xFFFD:
            return "dec:wrong-scalar-or-accepts-illformed"
        return "dec:illformed-length(lead=%02x,consumed=%d)" % (s[0] if s else 0, n)
    if toks[0] == "enc":
        return "enc:%s" % ("scalar" if int(toks[1]) < 0x110000 and not (0xD800 <= int(toks[1]) < 0xE000) else "nonscalar")
    return toks[0]


def run(chk):
    tr = vlib.translate()
    if not tr.get("ok"):
        chk.broken.append(dict(kind="translator", detail=tr.get("error")))
    proof = vlib.prove(PID)
    if not proof["ok"]:
        for o in proof["obligations"]:
            if not o["discharged"]:
                chk.broken.append(dict(kind="theorem", name=o["name"], detail=(proof["errors"] or [""])[0]))
        if proof["forbidden"]:
            chk.broken.append(dict(kind="forbidden-vernacular", detail=proof["forbidden"]))
    impl, err = vlib.build_cpp("puredrv")
    model, err2 = vlib.build_model()
    if impl is None or model is None:
        chk.broken.append(dict(kind="build", detail=(err or "") + (err2 or "")))
        return chk.finish(proof, "build failed")
    cases = gen_cases(chk.tier, chk.seed)
    text = "\n".join(cases) + "\n"
    rc1, out_impl, err_impl = vlib.run_driver(impl, text)
    rc2, out_model, err_model = vlib.run_driver(model, text)
    if rc1 != 0:
        chk.report("impl-crash", "implementation driver crashed", dict(rc=rc1, stderr=err_impl[-2000:]))
    mism = vlib.compare_lines(cases, out_impl, out_model)
    # Spec vs implementation on every case (runs on every run, not only after a break)
    impl_lines = out_impl.split("\n")
    chk_cases, idx = [], []
    for i, c in enumerate(cases):
        if i >= len(impl_lines):
            break
        t = c.split()
        if t[0] == "dec":
            chk_cases.append("chk_dec %s %s" % (t[1], impl_lines[i]))
            idx.append(i)
        elif t[0] == "enc":
            chk_cases.append("chk_enc %s %s" % (t[1], impl_lines[i]))
            idx.append(i)
    rc3, out_chk, _ = vlib.run_driver(model, "\n".join(chk_cases) + "\n")
    verdicts = out_chk.split("\n")
    nbad = 0
    for k, i in enumerate(idx):
        v = verdicts[k] if k < len(verdicts) else "missing"
        if v != "ok":
            nbad += 1
            if nbad <= 50:
                chk.report(classify(cases[i], impl_lines[i]), "spec violated on %s" % cases[i],
                           dict(case=cases[i], implementation=impl_lines[i], model=out_model.split("\n")[i] if i < len(out_model.split("\n")) else None,
                                expected="dec_conforms/enc_conforms (Utf8Spec.v) = true"))
    if mism:
        chk.broken.append(dict(kind="correspondence", stream="utf8 pure functions", first=[dict(case=m[1], implementation=m[2], model=m[3]) for m in mism[:5]], count=len(mism)))
    for c in cases:
        t = c.split()
        nontrivial = (t[0] == "enc") or any(ch in "89abcdef" for ch in t[1][0::2])
        chk.note_case(c, nontrivial)
    chk.samples = [cases[300], cases[70000 % len(cases)], cases[len(cases) // 2], cases[-1]]
    chk.coverage.update(rule="dec/cnt: every byte string of length <= 2, every string of length 3-4 over 25 class-representative bytes"
                             + (", every 3-byte string with a non-ASCII lead, 4/5-byte sweeps" if chk.tier == "thorough" else "")
                             + ", random concatenations of valid characters with deletions/replacements/insertions/truncations; enc: boundary windows + "
                             + ("all code points up to 0x110000+65536" if chk.tier == "thorough" else "32k random code points")
                             + ". Non-trivial = contains a non-ASCII byte (dec/cnt) or any enc case; distinct = distinct command lines.",
                        correspondence_cases=len(cases), correspondence_mismatches=len(mism), spec_checks=len(chk_cases), spec_failures=nbad,
                        translator=tr)
    chk.assumptions = ["tools/translate.py parses the DFA tables and constants of utf8.hpp correctly (validated by the exhaustive <=2-byte correspondence)",
                       "decode_rune/encode_rune control flow is hand-modelled in Utf8Model.v and tied by differential testing",
                       "extraction (ExtrOcamlBasic) and OCaml 4.13.1; g++ 12.2"]
    return chk.finish(proof, "Theorems of Props/Properties_C13.v re-checked against tables regenerated from utf8.hpp; model vs implementation compared on %d cases; Table 3-7 oracle vs implementation on %d cases" % (len(cases), len(chk_cases)))


def replay(path):
    with open(path) as f:
        data = json.load(f)
    impl, err = vlib.build_cpp("puredrv")
    for v in data.get("violations", []):
        c = v["detail"].get("case")
        if c:
            rc, out, _ = vlib.run_driver(impl, c + "\n")
            print("%s -> %s (recorded: %s)" % (c, out.strip(), v["detail"].get("implementation")))
    return 0
