"""C04 -- implicit whitespace is skipped between tokens and never inside lexeme/noskip."""
import json, re
import vlib, gramlib
from gen_grammar import Gen, ser

PID = "C04"
SEP = 1
ID = ('cap', 1, ('lexeme', ('plus', ('cls', 'any', 'c', 1))))          # identifier: lexeme[+alpha], captured
NUM = ('cap', 2, ('lexeme', ('plus', ('cls', 'any', 'c', 16))))        # number: lexeme[+digit], captured
PUNCT = [('chr', '28'), ('chr', '29'), ('chr', '2b'), ('chr', '2c'), ('chr', '3b'), ('chr', '3d')]
SPACES = {"default": " ", "spaces": " ", "optspace": " ", "comment": " "}
SPACE_EXPR = {"default": "default", "spaces": ('star', ('chr', '20')), "optspace": ('opt', ('chr', '20')),
              "comment": ('star', ('alt', ('chr', '20'), ('seq', ('chr', '23'), ('seq', ('star', ('seq', ('not', ('chr', '0a')), ('any',))), ('chr', '0a')))))}


class TokGen(Gen):
    """grammars over self-delimiting tokens; sample() marks token boundaries with SEP"""

    def __init__(self, rnd):
        super().__init__(rnd, features=('act',), wellformed=True, max_rules=4, max_depth=4, ninputs=4)
        self.ops = ['seq', 'seq', 'seq', 'seq', 'alt', 'star', 'plus', 'opt', 'rep', 'list', 'act', 'noskipgroup', 'capgroup']

    def leaf(self, rules, consuming, later):
        r = self.rnd
        pool = [x for x in later if self.rule_consuming.get(x)] if consuming else later
        if pool and r.random() < 0.3:
            return ('ref', r.choice(pool))
        x = r.random()
        if x < 0.3:
            return r.choice([ID, ID[2], ('cap', 3, ID[2])])
        if x < 0.5:
            return r.choice([NUM, NUM[2]])
        if x < 0.9:
            return r.choice(PUNCT)
        return ('str', '6c6574')                                      # keyword "let"

    def expr(self, d, rules, consuming=False, later=None, guarded=False):
        r = self.rnd
        if d > 0 and r.random() < 0.12:
            # a contiguous group: a.b matched without any whitespace inside
            return ('cap', 4, ('noskip', ('seq', ID[2][1], ('seq', ('chr', '2e'), ID[2][1]))))
        t = super().expr(d, rules, consuming, later, guarded)
        if t[0] in ('noskipgroup', 'capgroup'):
            return ('cap', 5, super().expr(max(d - 1, 0), rules, True, later, guarded))
        return t

    def sample(self, t, G, depth=0):
        r = self.rnd
        op = t[0]
        if depth > 10:
            return b''
        s = lambda x: self.sample(x, G, depth + 1)
        if t == ID[2] or (op == 'lexeme' and t[1][0] == 'plus' and t[1][1] == ('cls', 'any', 'c', 1)):
            return bytes(r.choice(b"abcxyz") for _ in range(r.randint(1, 3)))
        if op == 'lexeme':
            return bytes(r.choice(b"0123456789") for _ in range(r.randint(1, 3)))
        if op == 'plus' and t[1] == ('cls', 'any', 'c', 1):
            return bytes(r.choice(b"abcxyz") for _ in range(r.randint(1, 3)))
        if op == 'noskip':
            return s(t[1]).replace(bytes([SEP]), b'')
        if op == 'seq':
            a, b = s(t[1]), s(t[2])
            return a + (bytes([SEP]) if a and b else b'') + b
        if op in ('star', 'plus', 'rep', 'list'):
            n = r.randint(0, 2) if op == 'star' else r.randint(1, 3) if op in ('plus', 'list') else r.randint(t[1], t[2])
            body = t[1] if op != 'rep' else t[3]
            items = []
            for k in range(n):
                if op == 'list' and k > 0:
                    items.append(s(t[2]))
                items.append(s(body))
            return bytes([SEP]).join(x for x in items if x)
        return super().sample(t, G, depth)


def materialize(marked, rnd, extra):
    toks = [t for t in marked.split(bytes([SEP])) if t]
    out = bytearray()
    bounds = []
    for k, t in enumerate(toks):
        need = k > 0 and (chr(out[-1]).isalnum() and chr(t[0]).isalnum())
        bounds.append((len(out), need))
        if need:
            out += b' '
        out += t
    return toks, bytes(out), bounds


def gen_cases(tier, seed):
    rnd = vlib.rng_for(seed, "C04")
    n = 500 if tier == "quick" else 8000
    cases, metas = [], []
    g = TokGen(rnd)
    for _ in range(n):
        spname = rnd.choice(list(SPACE_EXPR))
        parts, G, start = g.grammar()
        parts[0] = ('space', SPACE_EXPR[spname])
        parts = [p for p in parts]
        # the start expression must be followed by eoi so that success means the whole input
        parts = [p if p[0] != 'start' else p for p in parts]
        top = ('rule', 'TOP', ('seq', ('ref', start), ('eoi',)))
        parts.insert(len(parts) - 1, top)
        parts[-1] = ('start', 'TOP')
        meta = []
        for _ in range(4):
            marked = g.sample(G[start], G)
            toks, base, bounds = materialize(marked, rnd, 0)
            if len(base) > 40:
                continue
            # variant: one run of whitespace inserted at 1-3 token boundaries (also in front of the first token)
            ins = sorted(rnd.sample(range(len(toks) + 1), min(len(toks) + 1, rnd.randint(1, 3))))
            out = bytearray()
            for k, t in enumerate(toks):
                need = k > 0 and (chr(out[-1]).isalnum() and chr(t[0]).isalnum())
                if need:
                    out += b' '
                if k in ins and not (need and spname == "optspace"):
                    out += b' '
                out += t
            if len(toks) in ins:
                pass
            var = bytes(out)
            meta.append((base.hex() or "-", var.hex() or "-"))
            parts.append(('input', base.hex()) if base else ('input',))
            parts.append(('input', var.hex()) if var else ('input',))
        cases.append(ser(('grammar',) + tuple(parts)))
        metas.append((spname, meta))
    # all directive placements on small skeletons: program equality only
    g2 = Gen(rnd, features=('dir', 'act', 'class', 'case'), wellformed=False, max_rules=3, max_depth=5,
             space_choices=("default", ("nop",), ("star", ("chr", "20")), ("opt", ("chr", "20"))))
    extra = [g2.case() for _ in range(n)]
    return cases, metas, extra


def textless(log):
    """callbacks with call depth and offsets removed; the text of a capture around a GROUP of tokens (id 5) legitimately
    contains the whitespace between its tokens and is dropped as well"""
    log = re.sub(r"@\d+", "", re.sub(r"\((\d+),", "(", log))
    return re.sub(r"C5\([0-9a-f-]*\)", "C5()", log)


def run(chk):
    tr, proof = gramlib.standard_prelude(chk, PID)
    impl, model = gramlib.build_sides(chk)
    if impl is None:
        return chk.finish(proof, "build failed")
    cases, metas, extra = gen_cases(chk.tier, chk.seed)
    allc = cases + extra
    impl_out, e1 = gramlib.run_sharded(impl, "--budget=%d" % gramlib.BUDGET, allc)
    model_out, e2 = gramlib.run_sharded(model, "--budget=%d" % gramlib.BUDGET, allc)
    if e1 or e2:
        chk.broken.append(dict(kind="driver", detail=(e1 + e2)[:5]))
    mism = gramlib.correspondence(chk, allc, impl_out, model_out, "directive placements and token grammars")
    npairs = nacc = ndis = 0
    for i, (spname, meta) in enumerate(metas):
        runs = {}
        for l in impl_out[i]:
            if l.startswith("run sv "):
                runs.setdefault(l.split()[2], gramlib.fields(l))
        case = cases[i]
        for base, var in meta:
            a, b = runs.get(base), runs.get(var)
            if a is None or b is None:
                continue
            npairs += 1
            # captured token texts never contain whitespace
            for f, which in ((a, base), (b, var)):
                for m in re.finditer(r"C\d+@\d+\(\d+,([0-9a-f-]*)\)", f.get("log", "")):
                    txt = bytes.fromhex(m.group(1)) if m.group(1) != "-" else b""
                    lead, trail = txt[:1] in (b" ", b"\n", b"#"), txt[-1:] == b" "
                    if lead or trail:
                        ndis += 1
                        sig = ("C04:capture-starts-with-skipped-whitespace" if lead else "C04:capture-ends-with-whitespace-skipped-after-repetition") + (":non-idempotent-whitespace-rule" if spname == "optspace" else "")
                        chk.report(sig, "a capture includes text matched by the implicit whitespace rule", dict(grammar=case, input=which, space_rule=spname, log=f.get("log")))
            if a.get("res") != "1":
                continue
            nacc += 1
            same = b.get("res") == "1" and textless(a.get("log", "")) == textless(b.get("log", ""))
            if not same:
                ndis += 1
                if ndis <= 60:
                    g = case
                    sig = "C04:insertion-changes-outcome"
                    if "(rep " in g:
                        sig += ":repeat"
                    elif "(lexeme " in g and spname != "optspace":
                        sig += ":inline-lexeme"
                    if spname == "optspace":
                        sig += ":non-idempotent-whitespace-rule"
                    chk.report(sig, "inserting whitespace in front of a token of an accepted input changes the outcome", dict(grammar=g, space_rule=spname, accepted=base, with_whitespace=var, before=a, after=b))
        chk.note_case(case, nontrivial=len(meta) > 0)
    for c in extra:
        chk.note_case(c, True)
    chk.samples = [cases[0][:500], extra[0][:400]]
    chk.coverage.update(rule="(1) token grammars (identifiers/numbers as captured lexemes, punctuation, keyword, contiguous noskip groups; sequence/choice/repetition/repeat/list; tokens inline or in rules) under four whitespace rules (default, *' ', ~' ', comments) x accepted inputs sampled token by token x the same input with whitespace inserted at 1-3 token boundaries: outcome, callbacks and captured token texts must not change and captures must not contain whitespace; (2) random grammars with every directive (lexeme/noskip/skip/caseless/cased nested) compared by program equality; non-trivial = has at least one input pair",
                        token_grammars=len(cases), directive_grammars=len(extra), correspondence_mismatches=len(mism), input_pairs=npairs, accepted_pairs=nacc, disagreements=ndis, translator=tr)
    chk.assumptions = ["the encoder's mode machine is hand-modelled (Lang/Core.v, Lang/Elab.v), tied by program equality on every grammar of both streams",
                       "tokens of the generated grammars are self-delimiting by construction (alphanumeric neighbours are separated by a blank in the base input)"]
    return chk.finish(proof, "theorems re-checked; %d grammars on both sides; %d accepted inputs re-parsed with inserted whitespace" % (len(allc), nacc))


def replay(path):
    from props import pegcommon
    return pegcommon.replay(path)
