"""C17 -- no grammar or input can drive the parsing machine into an unsafe state."""
import json, re
import vlib, gramlib
from gen_grammar import Gen, ser

PID = "C17"


def gen_cases(tier, seed):
    rnd = vlib.rng_for(seed, "C17")
    n = 500 if tier == "quick" else 8000
    # ill-formed UTF-8, embedded NULs, lone continuation bytes and truncated characters in the inputs
    alpha = bytes([0x61, 0x62, 0x20, 0x0A, 0x00, 0x80, 0xBF, 0xC0, 0xC3, 0xA9, 0xE2, 0x82, 0xED, 0xA0, 0xF0, 0x9F, 0xF5, 0xFF])
    cases = []
    for feats in (('dir', 'act', 'env', 'cut', 'err', 'class', 'prec', 'copy', 'case', 'utf8'), ('dir', 'act', 'class', 'utf8', 'case')):
        g = Gen(rnd, features=feats, wellformed=False, max_rules=4, max_depth=5, ninputs=5, maxlen=10, alphabet=alpha)
        for _ in range(n // 2):
            cases.append(g.case(chunked=rnd.random() < 0.3, sampled=rnd.random() < 0.5))
    # bre patterns with odd bytes
    for _ in range(n // 10):
        pat = bytes(rnd.choice(b"ab[]^-:.\\x00\xc3\xa9\xff") for _ in range(rnd.randint(0, 8)))
        cases.append("(grammar (space default) (rule R0 (seq (bre %s) (eoi))) (start R0) (input 6162) (input c3a9) (input 00) (input))" % (pat.hex() or "-"))
    # sizes on both sides of the encoding limits
    lim = []
    for ln in (65535, 65536):
        lit = "61" * ln
        lim.append("(grammar (space (nop)) (rule R0 (str %s)) (start R0) (input 6161))" % lit)
        lim.append("(grammar (space (nop)) (rule R0 (seq (chr 62) (expect (chr 63) %s))) (start R0) (input 6263))" % ("L" * ln))
        lim.append("(grammar (space (nop)) (rule R0 (sym %s (chr 61))) (start R0) (input 61))" % ("s" * ln))
    for k in (255, 256):
        lim.append("(grammar (space (nop)) (rule R0 (seq (sym s (chr 61)) (match_front s %d))) (start R0) (input 6161))" % k)
    if tier == "thorough":
        many = "(nop)"
        for i in range(65537):
            many = "(act 1 %s)" % many if i % 1000 else "(seq (act 1 (nop)) %s)" % many
        lim.append("(grammar (space (nop)) (rule R0 %s) (start R0) (input))" % many)
    return cases, lim


BAD_THROWS = ("throw:empty_or_invalid_parser_stack_error", "throw:invalid_opcode", "throw:std:St18bad_variant_access")


def run(chk):
    tr, proof = gramlib.standard_prelude(chk, PID)
    impl, err = vlib.build_cpp("lugdrv", sanitize=True)
    model, err2 = vlib.build_model()
    if impl is None or model is None:
        chk.broken.append(dict(kind="build", detail=(err or "") + (err2 or "")))
        return chk.finish(proof, "build failed")
    cases, lim = gen_cases(chk.tier, chk.seed)
    allc = cases + lim
    impl_out, e1 = gramlib.run_sharded(impl, "--budget=%d" % gramlib.BUDGET, allc)
    model_out, e2 = gramlib.run_sharded(model, "--budget=%d" % gramlib.BUDGET, allc)
    if e2:
        chk.broken.append(dict(kind="driver", detail=e2[:5]))
    for e in e1:
        chk.report("C17:sanitizer-or-crash:driver", "the sanitized driver died", dict(detail=e[:800]))
    mism = gramlib.correspondence(chk, allc, impl_out, model_out, "all features, hostile inputs, sizes around the encoding limits (ASan+UBSan build)")
    nruns = nbad = 0
    for i, c in enumerate(allc):
        for l in impl_out[i]:
            if l.startswith("run "):
                nruns += 1
            if "crashed" in l:
                nbad += 1
                chk.report("C17:sanitizer-or-crash", "a parse crashed or tripped AddressSanitizer/UBSan", dict(grammar=c[:3000], line=l))
            elif "res=terminate" in l:
                nbad += 1
                chk.report("C17:noexcept-throws:terminate", "a noexcept function threw: std::terminate", dict(grammar=c[:3000], line=l))
            elif any(t in l for t in BAD_THROWS):
                nbad += 1
                chk.report("C17:" + next(t for t in BAD_THROWS if t in l).split(":", 1)[1], "parse() threw bad_stack / bad_opcode / bad_variant_access", dict(grammar=c[:3000], line=l))
            elif ("sr=" + gramlib.SIZE_MAX) in l:
                nbad += 1
                chk.report("C17:subject-register-SIZE_MAX", "the subject register was loaded with SIZE_MAX (cut inside a positive predicate)", dict(grammar=c[:3000], line=l))
        chk.note_case(c[:2000], nontrivial=len(impl_out[i]) > 1)
    # limits: just below is accepted, just above is rejected with a *_limit_error when the grammar is built
    nlim = 0
    for j, c in enumerate(lim):
        out = impl_out[len(cases) + j]
        first = out[0] if out else ""
        over = ("61" * 65536 in c) or ("L" * 65536 in c) or ("s" * 65536 in c) or ("match_front s 256" in c) or c.count("(act 1") > 65536
        nlim += 1
        rejected = first.startswith("error") and "limit" in first
        if over != rejected:
            nbad += 1
            chk.report("C17:limit-not-enforced" if over else "C17:limit-too-strict", "an encoding limit is not enforced exactly", dict(case=c[:200] + "...", first_line=first[:200], over_limit=over))
    chk.samples = [cases[0][:400], lim[0][:80] + "..."]
    chk.coverage.update(rule="random grammars with every feature x inputs over an alphabet of ill-formed UTF-8 (lone continuation bytes, overlong/surrogate/out-of-range leads, truncated characters) and NUL, also delivered in chunks; bre patterns with odd bytes; literals, labels and symbol names of 65535 and 65536 bytes, match_front offsets 255/256"
                             + (", 65537 actions in one rule" if chk.tier == "thorough" else "") + "; the implementation is built with -fsanitize=address,undefined -fno-sanitize-recover=all and every parse runs in its own process",
                        grammars=len(cases), limit_cases=nlim, runs=nruns, unsafe_outcomes=nbad, correspondence_mismatches=len(mism), translator=tr)
    chk.assumptions = ["memory safety, signed overflow and other undefined behaviour of the C++ are OBSERVED under AddressSanitizer/UBSan on the generated cases, not proved: the Coq model cannot exhibit them",
                       "proved: control transfers and table references of every compiled program are in range, the machine is never stuck on the PEG fragment, table indices stay in range for every 32-bit argument"]
    return chk.finish(proof, "theorems re-checked; %d grammars (%d runs) under ASan+UBSan, %d limit cases" % (len(cases), nruns, nlim))


def replay(path):
    from props import pegcommon
    return pegcommon.replay(path)
