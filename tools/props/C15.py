"""C15 -- case-insensitive matching accepts exactly the case-fold-equal texts."""
import json, re
import vlib, gramlib

PID = "C15"
LIMIT = 0x110000


def enc(cp):
    if cp < 0x80:
        return bytes([cp])
    if cp < 0x800:
        return bytes([0xC0 | cp >> 6, 0x80 | cp & 63])
    if cp < 0x10000:
        return bytes([0xE0 | cp >> 12, 0x80 | (cp >> 6) & 63, 0x80 | cp & 63])
    return bytes([0xF0 | cp >> 18, 0x80 | (cp >> 12) & 63, 0x80 | (cp >> 6) & 63, 0x80 | cp & 63])


def scalar(cp):
    return 0 <= cp < LIMIT and not (0xD800 <= cp < 0xE000)


def load_maps(pimpl):
    rc, out, _ = vlib.run_driver(pimpl, "q 0 %d\n" % LIMIT)
    fold, low, up = {}, {}, {}
    for l in out.split("\n"):
        t = l.split()
        if len(t) == 7:
            cp = int(t[0]); fold[cp] = int(t[2]); low[cp] = int(t[3]); up[cp] = int(t[4])
    return fold, low, up


def gen(tier, seed, fold, low, up):
    rnd = vlib.rng_for(seed, "C15")
    n = 400 if tier == "quick" else 6000
    # code points with interesting case behaviour: every case-mapping delta class is represented
    interesting = [cp for cp in range(0x3000) if scalar(cp) and (fold[cp] != cp or low[cp] != cp or up[cp] != cp)]
    interesting = [cp for cp in interesting if all(scalar(x) for x in (fold[cp], low[cp], up[cp]))]
    pool = list(range(0x41, 0x5B)) + list(range(0x61, 0x7B)) + [0x30, 0x5F, 0x20, 0xDF, 0xE9, 0xC9, 0x17F, 0x212A, 0x3A3, 0x3C3, 0x3C2, 0x410, 0x430, 0x1E9E, 0x130, 0x131]
    pool = [c for c in pool if scalar(c)]
    cases, metas = [], []

    def variants(cps):
        outs = [cps, [low[c] for c in cps], [up[c] for c in cps], [fold[c] for c in cps]]
        outs.append([rnd.choice([low[c], up[c], c]) for c in cps])
        outs.append(cps[:-1] if cps else cps)
        outs.append(cps + [rnd.choice(pool)])
        outs.append([rnd.choice(pool) for _ in cps])
        outs.append([c + 1 if scalar(c + 1) else c for c in cps])
        return [o for o in outs if all(scalar(x) for x in o)]

    for _ in range(n):
        k = rnd.random()
        if k < 0.15:
            # alternatives of different byte lengths tried at the same offset (the per-offset fold cache is shared)
            base = [rnd.choice(pool) for _ in range(rnd.randint(1, 2))]
            alts = []
            for _ in range(rnd.randint(2, 3)):
                alts.append(base[:rnd.randint(0, len(base))] + [rnd.choice(pool + interesting[:300]) for _ in range(rnd.randint(1, 2))])
            pat = ("alt", alts)
        elif k < 0.35:
            pat = [rnd.choice(pool + interesting[:2000])]
        elif k < 0.75:
            pat = [rnd.choice(pool + interesting[:2000]) for _ in range(rnd.randint(2, 4))]
        else:
            a = rnd.choice(pool + interesting[:500])
            b = a + rnd.choice([0, 1, 5, 25, 57, 100])
            if not scalar(b):
                b = a
            pat = ("rng", a, b)
        if isinstance(pat, tuple) and pat[0] == "alt":
            lits = ["(str %s)" % b"".join(enc(c) for c in a).hex() for a in pat[1]]
            expr = lits[0]
            for l in lits[1:]:
                expr = "(alt %s %s)" % (expr, l)
            inputs = []
            for a in pat[1]:
                inputs += variants(a)[:5]
        elif isinstance(pat, tuple):
            _, a, b = pat
            expr = "(rng %d %d)" % (a, b)
            probes = [a, b, low.get(a, a), up.get(a, a), low.get(b, b), up.get(b, b), (a + b) // 2, up.get((a + b) // 2, a), low.get((a + b) // 2, a), a - 1, b + 1] + [rnd.choice(pool) for _ in range(4)]
            inputs = [[p] for p in probes if scalar(p)]
        else:
            expr = "(str %s)" % b"".join(enc(c) for c in pat).hex()
            inputs = variants(pat)
        hexes = []
        for cps in inputs:
            h = b"".join(enc(c) for c in cps).hex()
            hexes.append(h)
        mode = rnd.choice(["caseless", "caseless", "caseless", "cased-inside", "plain"])
        body = {"caseless": "(caseless %s)" % expr, "cased-inside": "(caseless (cased %s))" % expr, "plain": expr}[mode]
        cases.append("(grammar (space (nop)) (rule R0 (seq %s (eoi))) (start R0) %s)" % (body, " ".join("(input %s)" % h if h else "(input)" for h in hexes)))
        metas.append((pat, mode, inputs))
    return cases, metas


def expected(pat, mode, cps, fold):
    ci = (mode == "caseless")
    f = (lambda c: fold.get(c, c)) if ci else (lambda c: c)
    if isinstance(pat, tuple) and pat[0] == "alt":
        # ordered choice followed by end of input: the first alternative that matches a prefix decides
        for a in pat[1]:
            if len(cps) >= len(a) and all(f(x) == f(y) for x, y in zip(a, cps)):
                return len(cps) == len(a)
        return False
    if isinstance(pat, tuple):
        _, a, b = pat
        if len(cps) != 1:
            return False
        x = cps[0]
        if not ci:
            return a <= x <= b
        fx = f(x)
        return any(f(r) == fx for r in range(a, b + 1))
    return len(cps) == len(pat) and all(f(a) == f(b) for a, b in zip(pat, cps))


def classify(pat, mode, cps, fold, low, up, got):
    if mode != "caseless":
        return "C15:cased-matching-wrong"
    if isinstance(pat, tuple) and pat[0] == "alt":
        allc = [c for a in pat[1] for c in a] + list(cps)
        if any(len(enc(fold.get(c, c))) != len(enc(c)) for c in allc):
            return "C15:fold-changes-utf8-length"
        return "C15:caseless-alternatives"
    if isinstance(pat, tuple):
        _, a, b = pat
        x = cps[0]
        images = set()
        for r in range(a, b + 1):
            images.update((r, fold.get(r, r), low.get(r, r), up.get(r, r)))
        if not got and x not in images:
            return "C15:caseless-range-inverse-fold"          # fold x = fold r but x is no case mapping image of r
        if got and x in images:
            return "C15:case-tables-inconsistent(C14)"        # x = lower/upper r but fold x <> fold r
        return "C15:caseless-range"
    if len(pat) == 1 and pat[0] < 0x80:
        return "C15:caseless-single-ascii-letter"
    if any(len(enc(fold.get(c, c))) != len(enc(c)) for c in list(pat) + list(cps)):
        return "C15:fold-changes-utf8-length"
    return "C15:caseless-literal"


def run(chk):
    tr, proof = gramlib.standard_prelude(chk, PID)
    pimpl, err = vlib.build_cpp("puredrv")
    gimpl, err3 = vlib.build_cpp("lugdrv")
    model, err2 = vlib.build_model()
    if pimpl is None or model is None or gimpl is None:
        chk.broken.append(dict(kind="build", detail=(err or "") + (err2 or "") + (err3 or "")))
        return chk.finish(proof, "build failed")
    fold, low, up = load_maps(pimpl)
    cases, metas = gen(chk.tier, chk.seed, fold, low, up)
    impl_out, e1 = gramlib.run_sharded(gimpl, "--budget=%d" % gramlib.BUDGET, cases)
    model_out, e2 = gramlib.run_sharded(model, "--budget=%d" % gramlib.BUDGET, cases)
    if e1 or e2:
        chk.broken.append(dict(kind="driver", detail=(e1 + e2)[:5]))
    mism = gramlib.correspondence(chk, cases, impl_out, model_out, "caseless literals, characters and ranges")
    nchk = ndis = 0
    for i, (pat, mode, inputs) in enumerate(metas):
        runs = [l for l in impl_out[i] if l.startswith("run sv ")]
        built = bool(impl_out[i]) and impl_out[i][0].startswith("prog ")
        if not built:
            ndis += 1
            chk.report("C15:pattern-rejected:" + ("range" if isinstance(pat, tuple) and pat[0] == "rng" else "literal"), "a caseless pattern is rejected when the grammar is built: " + (impl_out[i][0] if impl_out[i] else ""),
                       dict(grammar=cases[i][:400], pattern=str(pat)))
            continue
        for cps, l in zip(inputs, runs):
            f = gramlib.fields(l)
            exp = expected(pat, mode, cps, fold)
            nchk += 1
            if (f.get("res") == "1") != exp:
                ndis += 1
                if ndis <= 80:
                    sig = classify(pat, mode, cps, fold, low, up, f.get("res") == "1")
                    chk.report(sig, "pattern %s (%s) on %s: library says %s, fold-equality says %s" % (pat, mode, ["U+%04X" % c for c in cps], f.get("res"), exp),
                               dict(grammar=cases[i][:600], pattern=str(pat), mode=mode, input=cps, run=l))
        chk.note_case(cases[i], True)
    chk.samples = [cases[0][:400], cases[1][:400]]
    chk.coverage.update(rule="caseless[...] around single characters, 2-4 character literals and character ranges (end points over the letters, digits and ~2000 code points with a case mapping, incl. sharp s, long s, Kelvin sign, final sigma, dotted/dotless i), also cased[] inside caseless[] and no directive; inputs: the pattern itself, its lower/upper/folded forms, mixed case, one character shorter/longer, unrelated text; expected outcome = pairwise equality under the library's own simple case folding",
                        patterns=len(cases), checks=nchk, disagreements=ndis, correspondence_mismatches=len(mism), translator=tr)
    chk.assumptions = ["the fold function is the library's own tocasefold (C14 decides what that table is worth)",
                       "caseless literal/range compilation and match_cf (casefold_compare with its cache) hand-modelled, tied by program equality and run equality"]
    return chk.finish(proof, "theorems re-checked; %d caseless patterns, %d pattern/input pairs compared with fold-equality" % (len(cases), nchk))


def replay(path):
    from props import pegcommon
    return pegcommon.replay(path)
