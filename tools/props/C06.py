"""C06 -- symbol tables and conditions are scoped and restored on every exit path."""
import json
import vlib, gramlib
from gen_grammar import Gen

PID = "C06"


def gen_cases(tier, seed):
    rnd = vlib.rng_for(seed, "C06")
    n = 1500 if tier == "quick" else 25000
    g = Gen(rnd, features=('dir', 'act', 'env'), wellformed=True, max_rules=4, max_depth=5, ninputs=6, maxlen=10, alphabet=b"aaabbc  \n")
    cases = [g.case() for _ in range(n)]
    g2 = Gen(rnd, features=('dir', 'act', 'env', 'class'), wellformed=False, max_rules=3, max_depth=4)
    cases += [g2.case() for _ in range(n // 4)]
    return cases


def notext(log):
    """capture texts are C02's business (clipping inside positive predicates): compare callbacks and offsets only"""
    import re
    return re.sub(r"\((\d+),[0-9a-f-]*\)", r"(\1)", log)


def classify(case, fi, fp):
    """implementation vs the semantics the property demands"""
    if fi.get("res") != fp.get("res") or (fp.get("res") == "1" and fi.get("sr") != fp.get("sr")) \
            or notext(gramlib.strip_depth(fi.get("log", ""))) != notext(fp.get("log", "")) or fi.get("syms", "") != fp.get("syms", ""):
        if "(sym " in case:
            return "C06:symbol-definition-survives-failure"
        return "C06:other"
    return None


def run(chk):
    tr, proof = gramlib.standard_prelude(chk, PID)
    impl, model = gramlib.build_sides(chk)
    if impl is None:
        return chk.finish(proof, "build failed")
    cases = gen_cases(chk.tier, chk.seed)
    impl_out, e1 = gramlib.run_sharded(impl, "--budget=%d" % gramlib.BUDGET, cases)
    model_out, e2 = gramlib.run_sharded(model, "--budget=%d --spec-env" % gramlib.BUDGET, cases)
    if e1 or e2:
        chk.broken.append(dict(kind="driver", detail=(e1 + e2)[:5]))
    model_runs = [[l for l in o if not l.startswith(("specE ", "specP "))] for o in model_out]
    mism = gramlib.correspondence(chk, cases, impl_out, model_runs, "grammars with symbols, scopes and conditions")
    nE = nP = badE = badP = 0
    for i, c in enumerate(cases):
        runs = {l.split()[2]: gramlib.fields(l) for l in impl_out[i] if l.startswith("run sv ")}
        for l in model_out[i]:
            if not l.startswith(("specE ", "specP ")):
                continue
            t = l.split()
            if len(t) < 3 or t[2] in ("n/a", "diverged") or t[1] not in runs:
                continue
            fi, fs = runs[t[1]], gramlib.fields(l)
            if fi.get("res") == "diverged":
                continue                      # step budget exhausted on the library side: no verdict to compare
            if t[0] == "specE":
                nE += 1
                same = (fi.get("res") == fs.get("res") and (fs.get("res") != "1" or fi.get("sr") == fs.get("sr")) and fi.get("mr") == fs.get("mr")
                        and notext(gramlib.strip_depth(fi.get("log", ""))) == notext(fs.get("log", "")) and fi.get("syms", "") == fs.get("syms", ""))
                if not same:
                    badE += 1
                    if badE <= 5:
                        chk.broken.append(dict(kind="correspondence", stream="environment semantics (Spec/PegEnv.v) vs implementation", case=c, input=t[1], implementation=fi, reference=fs))
            else:
                nP += 1
                sig = classify(c, fi, fs)
                if sig:
                    badP += 1
                    if badP <= 40:
                        chk.report(sig, "the library and the scoping the property demands disagree on input %s" % t[1], dict(grammar=c, input=t[1], implementation=fi, property_semantics=fs))
        chk.note_case(c, nontrivial=len(impl_out[i]) > 1)
    chk.samples = [cases[0][:400], cases[len(cases) // 2][:400]]
    chk.coverage.update(rule="random grammars combining symbol definitions, exists/missing, match/match_all/match_any/match_front/match_back, block/local/local(S) scopes, on/off blocks and when/unless with choice, repetition and predicates x 6 sampled+mutated inputs; the final symbol table and condition set are compared after successful AND failed parses; non-trivial = compiled and run",
                        grammars=len(cases), correspondence_mismatches=len(mism), env_semantics_checks=nE, env_semantics_mismatches=badE,
                        property_semantics_checks=nP, property_semantics_disagreements=badP, translator=tr)
    chk.assumptions = ["encoder and VM hand-modelled, tied by differential testing (programs, per-instruction trace hash, final conditions and symbol tables)",
                       "Spec/PegProp.v (the scoping the property demands) is the reading of the property text: a failing expression leaves the symbol table as it found it"]
    return chk.finish(proof, "theorems re-checked; %d grammars on both sides; environment semantics vs library on %d runs; property semantics vs library on %d runs" % (len(cases), nE, nP))


def replay(path):
    from props import pegcommon
    return pegcommon.replay(path)
