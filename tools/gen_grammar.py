#!/usr/bin/env python3
"""Random grammar generator shared by the grammar-level checks.  All randomness comes from one PRNG
seeded by the caller.  Produces s-expression lines understood by cpp/lugdrv.cpp and ocaml/driver.ml."""
import random

class Gen:
    def __init__(self, rnd, features=(), alphabet=b"aaabbc  \n", max_rules=4, max_depth=4, ninputs=6, maxlen=8,
                 wellformed=False, space_choices=("default", "default", "(nop)", "(star (chr 20))")):
        self.rnd = rnd
        self.f = set(features)
        self.alphabet = alphabet
        self.max_rules, self.max_depth, self.ninputs, self.maxlen = max_rules, max_depth, ninputs, maxlen
        self.wellformed = wellformed
        self.space_choices = space_choices
        self.leaves = ['(chr 61)', '(chr 62)', '(chr 63)', '(str 6162)', '(any)']
        self.leaves2 = ['(eps)', '(eoi)', '(eol)', '(nop)']
        if 'cut' in self.f:
            self.leaves2 += ['(cut)', '(accept)']
        if 'env' in self.f:
            self.leaves2 += ['(when c)', '(unless c)', '(match s)', '(exists s)', '(missing s)', '(match_all s)', '(match_any s)', '(match_front s 0)', '(match_back s 1)']
        if 'class' in self.f:
            self.leaves += ['(cls any c 1)', '(cls any c 16)', '(cls any c 128)', '(cls none c 128)', '(cls all c 65)', '(rng 97 98)', '(rng 48 122)', '(cls any p 8)', '(cls any g 2)']
        if 'utf8' in self.f:
            self.leaves += ['(str c3a9)', '(str e282ac)', '(rng 128 2047)', '(rng 233 8364)', '(str f09f9880)']
        ops = ['seq', 'seq', 'seq', 'alt', 'alt', 'star', 'plus', 'opt', 'not', 'and', 'rep', 'list']
        if 'dir' in self.f:
            ops += ['lexeme', 'noskip', 'skip']
        if 'case' in self.f:
            ops += ['caseless', 'cased']
        if 'act' in self.f:
            ops += ['act', 'cap', 'act', 'cap']
        if 'env' in self.f:
            ops += ['sym', 'block', 'on', 'off', 'local', 'localto']
        if 'cut' in self.f:
            ops += ['cutb', 'cuta']
        if 'err' in self.f:
            ops += ['expect', 'expect', 'raise', 'recwith', 'report', 'report', 'respond', 'pred']
        self.ops = ops

    def leaf(self, rules, consuming=False):
        r = self.rnd
        if rules and r.random() < 0.35:
            if 'prec' in self.f and r.random() < 0.3:
                return '(prec %s %d)' % (r.choice(rules), r.randint(0, 3))
            return '(ref %s)' % r.choice(rules)
        if consuming or r.random() < 0.6:
            return r.choice(self.leaves)
        return r.choice(self.leaves + self.leaves2)

    def expr(self, d, rules):
        r = self.rnd
        if d <= 0 or r.random() < 0.22:
            return self.leaf(rules)
        op = r.choice(self.ops)
        e = lambda dd=d - 1: self.expr(dd, rules)
        if op in ('seq', 'alt', 'list'):
            return '(%s %s %s)' % (op, e(), e())
        if op == 'rep':
            a = r.randint(0, 3); b = a + r.randint(0, 2)
            return '(rep %d %d %s)' % (a, b, e())
        if op in ('act', 'cap'):
            return '(%s %d %s)' % (op, r.randint(0, 9), e())
        if op in ('sym', 'localto'):
            return '(%s s %s)' % (op, e())
        if op in ('on', 'off'):
            return '(%s c %s)' % (op, e())
        def rec():
            if rules and r.random() < 0.4:
                return '(ref %s)' % r.choice(rules)
            return '(respond %d %s)' % (r.randint(0, 4), self.expr(min(d - 1, 2), rules))
        if op == 'expect':
            return '(expect %s L%d%s)' % (e(), r.randint(0, 3), (' ' + rec()) if r.random() < 0.5 else '')
        if op == 'raise':
            return '(raise L%d%s)' % (r.randint(0, 3), (' ' + rec()) if r.random() < 0.5 else '')
        if op == 'recwith':
            return '(recwith %s %s)' % (rec(), e())
        if op == 'report':
            return '(report %d %d %s)' % (r.randint(0, 9), r.choice([0, 1, 2, 3, 4, 9]), e())
        if op == 'respond':
            return '(respond %d %s)' % (r.randint(0, 4), e())
        if op == 'pred':
            return '(pred %d %d)' % (r.randint(0, 9), r.randint(0, 1))
        return '(%s %s)' % (op, e())

    def inputs(self):
        r = self.rnd
        out = []
        for _ in range(self.ninputs):
            ln = r.randint(0, self.maxlen)
            out.append(bytes(r.choice(self.alphabet) for _ in range(ln)))
        return out

    def grammar(self):
        r = self.rnd
        k = r.randint(1, self.max_rules)
        names = ['R%d' % j for j in range(k)]
        parts = ['(space %s)' % r.choice(self.space_choices)]
        order = names[:]
        r.shuffle(order)
        for nm in order:
            if 'copy' in self.f and k > 1 and r.random() < 0.1:
                parts.append('(rulecopy %s %s)' % (nm, r.choice([n for n in names if n != nm])))
            else:
                parts.append('(rule %s %s)' % (nm, self.expr(r.randint(1, self.max_depth), names)))
        parts.append('(start %s)' % r.choice(names))
        return parts

    def case(self, chunked=False):
        parts = self.grammar()
        for s in self.inputs():
            parts.append('(input %s)' % s.hex())
            if chunked and s:
                pieces, i = [], 0
                while i < len(s):
                    n = self.rnd.randint(1, 3)
                    pieces.append(s[i:i + n].hex())
                    i += n
                parts.append('(chunks %s)' % ' '.join(pieces))
        return '(grammar %s)' % ' '.join(parts)
