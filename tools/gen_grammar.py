#!/usr/bin/env python3
"""Random grammar generator shared by the grammar-level checks.  All randomness comes from one PRNG
given by the caller.  Grammars are nested tuples serialised to the s-expression lines understood by
cpp/lugdrv.cpp and ocaml/driver.ml.  Inputs are sampled from the grammar (so that most parses go deep)
and then mutated."""
import random

CONSUMING_LEAVES = [('chr', '61'), ('chr', '62'), ('chr', '63'), ('str', '6162'), ('any',)]


def ser(t):
    if isinstance(t, tuple):
        return '(' + ' '.join(ser(x) for x in t) + ')'
    return str(t)


class Gen:
    def __init__(self, rnd, features=(), alphabet=b"aaabbc  \n", max_rules=4, max_depth=4, ninputs=6, maxlen=8,
                 wellformed=False, space_choices=("default", "default", ("nop",), ("star", ("chr", "20")))):
        self.rnd = rnd
        self.f = set(features)
        self.alphabet = alphabet
        self.max_rules, self.max_depth, self.ninputs, self.maxlen = max_rules, max_depth, ninputs, maxlen
        self.wellformed = wellformed
        self.space_choices = space_choices
        self.leaves = list(CONSUMING_LEAVES)
        self.leaves2 = [('eps',), ('eoi',), ('eol',), ('nop',)]
        if 'cut' in self.f:
            self.leaves2 += [('cut',), ('accept',)]
        if 'env' in self.f:
            self.leaves2 += [('when', 'c'), ('unless', 'c'), ('match', 's'), ('exists', 's'), ('missing', 's'), ('match_all', 's'),
                             ('match_any', 's'), ('match_front', 's', 0), ('match_back', 's', 1)]
        if 'class' in self.f:
            self.leaves += [('cls', 'any', 'c', 1), ('cls', 'any', 'c', 16), ('cls', 'any', 'c', 128), ('cls', 'none', 'c', 128),
                            ('cls', 'all', 'c', 65), ('rng', 97, 98), ('rng', 48, 122), ('cls', 'any', 'p', 8), ('cls', 'any', 'g', 2)]
        if 'hibyte' in self.f:
            # single bytes >= 0x80 as one-byte terminals (signedness of char) next to multi-byte literals
            self.leaves += [('chr', 'e9'), ('chr', 'ff'), ('chr', '80'), ('str', 'ffe9'), ('chr', 'c3')]
        if 'utf8' in self.f:
            self.leaves += [('str', 'c3a9'), ('str', 'e282ac'), ('rng', 128, 2047), ('rng', 233, 8364), ('str', 'f09f9880')]
        ops = ['seq', 'seq', 'seq', 'alt', 'alt', 'star', 'plus', 'opt', 'not', 'and', 'rep', 'list']
        if 'dir' in self.f:
            ops += ['lexeme', 'noskip', 'skip']
        if 'case' in self.f:
            ops += ['caseless', 'cased']
        if 'act' in self.f:
            ops += ['act', 'cap', 'act', 'cap']
        if 'env' in self.f:
            ops += ['sym', 'block', 'on', 'off', 'local', 'localto']
        if 'cut' in self.f:
            ops += ['cutb', 'cuta']
        if 'err' in self.f:
            ops += ['expect', 'expect', 'raise', 'recwith', 'report', 'report', 'respond', 'pred']
        self.ops = ops
        self.rule_consuming = {}

    # ---- expressions
    def leaf(self, rules, consuming, later):
        r = self.rnd
        pool = later if (self.wellformed and not consuming) else rules
        if self.wellformed and consuming:
            pool = [x for x in later if self.rule_consuming.get(x)]
        if pool and r.random() < 0.35:
            if 'prec' in self.f and r.random() < 0.3:
                return ('prec', r.choice(pool), r.randint(0, 3))
            return ('ref', r.choice(pool))
        if consuming or r.random() < 0.6:
            return r.choice(self.leaves)
        return r.choice(self.leaves + self.leaves2)

    def expr(self, d, rules, consuming=False, later=None, guarded=False):
        """later: rules that may be referenced without guard (well-formed mode); guarded: a consuming
        prefix has been matched in this sequence, any rule may be referenced"""
        r = self.rnd
        if later is None:
            later = rules
        avail = rules if (guarded or not self.wellformed) else later
        if d <= 0 or r.random() < 0.22:
            return self.leaf(rules, consuming, avail)
        op = r.choice(self.ops)
        wf = self.wellformed
        e = lambda c=False, g=guarded: self.expr(d - 1, rules, c, later, g)
        if op == 'seq':
            if consuming and wf:
                if r.random() < 0.5:
                    a = e(True)
                    return ('seq', a, e(False, True))
                return ('seq', e(False), e(True))
            a = e(False)
            return ('seq', a, e(False, guarded))
        if op == 'alt':
            return ('alt', e(consuming), e(consuming))
        if op == 'list':
            return ('list', e(True if wf else consuming), e(False))
        if op in ('star', 'plus'):
            if consuming and op == 'star' and wf:
                op = 'plus'
            return (op, e(True if wf else False))
        if op == 'opt':
            if consuming and wf:
                return e(True)
            return ('opt', e())
        if op in ('not', 'and'):
            if consuming and wf:
                return ('seq', (op, e()), e(True))
            return (op, e())
        if op == 'rep':
            a = r.randint(0, 3); b = a + r.randint(0, 2)
            if consuming and wf:
                a = max(a, 1); b = max(b, a)
            return ('rep', a, b, e(True if wf else False))
        if op in ('act', 'cap'):
            return (op, r.randint(0, 9), e(consuming))
        if op in ('sym', 'localto'):
            return (op, 's', e(consuming))
        if op in ('on', 'off'):
            return (op, 'c', e(consuming))

        def rec():
            if rules and r.random() < 0.4:
                return ('ref', r.choice(rules))
            return ('respond', r.randint(0, 4), self.expr(min(d - 1, 2), rules))
        if op == 'expect':
            t = ('expect', e(), 'L%d' % r.randint(0, 3))
            return t + ((rec(),) if r.random() < 0.5 else ())
        if op == 'raise':
            t = ('raise', 'L%d' % r.randint(0, 3))
            return t + ((rec(),) if r.random() < 0.5 else ())
        if op == 'recwith':
            return ('recwith', rec(), e())
        if op == 'report':
            return ('report', r.randint(0, 9), r.choice([0, 1, 2, 3, 4, 9]), e())
        if op == 'respond':
            return ('respond', r.randint(0, 4), e())
        if op == 'pred':
            return ('pred', r.randint(0, 9), r.randint(0, 1))
        return (op, e(consuming))

    # ---- sampling an input from an expression
    def sample(self, t, G, depth=0):
        r = self.rnd
        op = t[0]
        if depth > 12:
            return b''
        s = lambda x: self.sample(x, G, depth + 1)
        if op in ('chr', 'str'):
            return bytes.fromhex(t[1])
        if op == 'any':
            return bytes([r.choice(self.alphabet)])
        if op == 'cls':
            return bytes([r.choice(b"a1 A_")])
        if op == 'rng':
            return bytes([r.choice(b"ab9z")]) if t[1] < 128 else "é".encode()
        if op == 'eol':
            return r.choice([b"\n", b"\r\n", b"\r"])
        if op in ('ref', 'prec'):
            return s(G[t[1]]) if t[1] in G else b''
        if op == 'seq':
            sp = b' ' * r.choice([0, 0, 1, 2]) if self.spacey else b''
            return s(t[1]) + sp + s(t[2])
        if op == 'alt':
            return s(t[r.choice([1, 2])])
        if op == 'list':
            out = s(t[1])
            for _ in range(r.randint(0, 2)):
                out += s(t[2]) + s(t[1])
            return out
        if op == 'star':
            return b''.join(s(t[1]) for _ in range(r.randint(0, 3)))
        if op == 'plus':
            return b''.join(s(t[1]) for _ in range(r.randint(1, 3)))
        if op == 'opt':
            return s(t[1]) if r.random() < 0.5 else b''
        if op in ('not', 'and'):
            return b''
        if op == 'rep':
            return b''.join(s(t[3]) for _ in range(r.randint(t[1], t[2])))
        if op in ('act', 'cap', 'sym', 'localto', 'on', 'off'):
            return s(t[2])
        if op in ('lexeme', 'noskip', 'skip', 'caseless', 'cased', 'block', 'local', 'cutb', 'cuta'):
            return s(t[1])
        if op == 'expect':
            return s(t[1])
        if op == 'recwith':
            return s(t[2])
        if op == 'report':
            return s(t[3])
        if op == 'respond':
            return s(t[2])
        return b''

    def mutate(self, s):
        r = self.rnd
        s = bytearray(s)
        m = r.random()
        if m < 0.45:
            return bytes(s)
        if m < 0.6 and s:
            del s[r.randrange(len(s))]
        elif m < 0.75:
            s.insert(r.randrange(len(s) + 1), r.choice(self.alphabet))
        elif m < 0.9 and s:
            s[r.randrange(len(s))] = r.choice(self.alphabet)
        else:
            s = s[:r.randint(0, len(s))]
        return bytes(s)

    def grammar(self):
        r = self.rnd
        k = r.randint(1, self.max_rules)
        names = ['R%d' % j for j in range(k)]
        self.rule_consuming = {nm: (r.random() < 0.6) for nm in names}
        space = r.choice(self.space_choices)
        self.spacey = (space == "default" or (isinstance(space, tuple) and space[0] == 'star'))
        parts = [('space', space)]
        order = names[:]
        r.shuffle(order)
        G = {}
        for nm in order:
            if 'copy' in self.f and k > 1 and r.random() < 0.1:
                src = r.choice([n for n in names if n != nm])
                parts.append(('rulecopy', nm, src))
                G[nm] = ('ref', src)
            else:
                later = [n for n in names if n > nm]
                body = self.expr(r.randint(1, self.max_depth), names, consuming=self.rule_consuming[nm] and self.wellformed, later=later)
                parts.append(('rule', nm, body))
                G[nm] = body
        start = r.choice(names) if not self.wellformed else names[0]
        parts.append(('start', start))
        return parts, G, start

    def case(self, chunked=False, sampled=True):
        parts, G, start = self.grammar()
        inputs = []
        for _ in range(self.ninputs):
            if sampled and self.rnd.random() < 0.7:
                s = self.mutate(self.sample(G[start], G))[:self.maxlen * 3]
            else:
                s = bytes(self.rnd.choice(self.alphabet) for _ in range(self.rnd.randint(0, self.maxlen)))
            inputs.append(s)
        for s in inputs:
            parts.append(('input', s.hex()) if s else ('input',))
            if chunked and s:
                pieces, i = [], 0
                while i < len(s):
                    n = self.rnd.randint(1, 3)
                    pieces.append(s[i:i + n].hex())
                    i += n
                parts.append(('chunks',) + tuple(pieces))
        return ser(('grammar',) + tuple(parts))
