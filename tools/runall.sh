#!/bin/bash
# runs every claimed check (tier $1, default quick) on the current tree; prints one line per property
cd "$(dirname "$0")/.."
tier=${1:-quick}
for id in $(python3 -c "import json;print(' '.join(c['property_id'] for c in json.load(open('MANIFEST.json'))['checks']))"); do
  s=$(date +%s)
  out=$(./check $id --tier $tier 2>&1); rc=$?
  e=$(( $(date +%s) - s ))
  echo "$id rc=$rc ${e}s known=$(echo "$out" | grep -c '^KNOWN-FINDING') $(echo "$out" | grep '^VIOLATION' | head -1)"
done
