#!/usr/bin/env python3
"""Applies every seeded change under /verif/seeded/<name>/patch.diff to /repo's working tree (never committed),
runs the listed checks, undoes the change and records which checks fired.
usage: tools/seedrun.py [name ...] [--all-checks] [--tier quick]"""
import json, os, subprocess, sys, time
V = os.path.dirname(os.path.dirname(os.path.abspath(__file__)))
REPO = os.environ.get("LUG_REPO", "/repo")


def sh(cmd, **kw):
    return subprocess.run(cmd, shell=True, stdout=subprocess.PIPE, stderr=subprocess.STDOUT, text=True, **kw)


def main():
    args = [a for a in sys.argv[1:] if not a.startswith("--")]
    allchecks = "--all-checks" in sys.argv
    names = args or sorted(os.listdir(os.path.join(V, "seeded")))
    results = {}
    resfile = os.path.join(V, "seeded", "RESULTS.json")
    if os.path.exists(resfile):
        results = json.load(open(resfile))
    ids = [c["property_id"] for c in json.load(open(os.path.join(V, "MANIFEST.json")))["checks"]]
    for name in names:
        d = os.path.join(V, "seeded", name)
        patch = os.path.join(d, "patch.diff")
        if not os.path.exists(patch):
            continue
        meta = json.load(open(os.path.join(d, "meta.json")))
        assert sh("git -C %s diff --quiet -- include" % REPO).returncode == 0, "repo headers not clean"
        r = sh("git -C %s apply %s" % (REPO, patch))
        if r.returncode != 0:
            results[name] = dict(error="patch does not apply: " + r.stdout[-300:])
            continue
        try:
            fired = {}
            todo = ids if allchecks else [meta["property"]] + [p for p in meta.get("also_run", [])]
            for pid in todo:
                t = time.time()
                c = sh("./check %s --tier quick" % pid, cwd=V, env=dict(os.environ, VERIF_SEED=os.environ.get("VERIF_SEED", "1")))
                line = [l for l in c.stdout.split("\n") if l.startswith("VIOLATION")]
                fired[pid] = dict(rc=c.returncode, violation=line[0] if line else "", seconds=round(time.time() - t))
                if line and "replay=" in line[0]:
                    rp = line[0].split("replay=")[1].split()[0]
                    try:
                        rj = json.load(open(rp))
                        fired[pid]["signatures"] = sorted({v["signature"] for v in rj.get("violations", [])})[:8]
                        fired[pid]["broken"] = [b.get("kind") + ":" + str(b.get("name") or b.get("stream") or "") for b in rj.get("broken", [])][:6]
                    except Exception as e:
                        fired[pid]["replay_error"] = str(e)
            results[name] = dict(property=meta["property"], summary=meta.get("summary", "")[:300], checks=fired,
                                 caught=any(v["rc"] != 0 for v in fired.values()), caught_by_own=fired.get(meta["property"], {}).get("rc", 0) != 0)
        finally:
            sh("git -C %s checkout -- include" % REPO)
        print(name, {k: (v["rc"], v.get("signatures", v.get("broken", ""))) for k, v in results[name]["checks"].items()}, flush=True)
        json.dump(results, open(resfile, "w"), indent=1)


main()
