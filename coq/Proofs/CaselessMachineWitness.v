(* Point evaluations on the shipped tables for C15 (literals): the refuting witnesses and a concrete
   instance of the hypotheses of stmt_C15_literal_partial. *)
From Coq Require Import NArith ZArith List Bool Lia ZifyBool ZifyN.
From Lug Require Import Gen.UcdTables Utf8.Utf8Model Utf8.Utf8Spec Ucd.Lookup Ucd.RuneSet Ucd.UcdSpec Ucd.UcdProofs
  Lang.Core VM.Machine Ucd.CaselessSpec Proofs.CaselessMachine.
Import ListNotations.
Local Open Scope N_scope.

Strategy opaque [decompress_table].

Lemma with_table_use : forall f t, decompress_table = Some t -> with_table f = true -> f t = true.
Proof. intros f t Ht H. exact (eq_trans (eq_sym (with_table_spec f t Ht)) H). Qed.

(* ---------------------------------------------------------------- deciders *)

Definition opt_eqb (a b : option N) : bool := match a, b with Some x, Some y => x =? y | _, _ => false end.

Lemma opt_eqb_fold_eq : forall t x r, opt_eqb (tocasefold t x) (tocasefold t r) = true -> fold_eq t x r.
Proof.
  intros t x r H. unfold opt_eqb in H.
  destruct (tocasefold t x) as [f |] eqn:Hx; [| discriminate H].
  destruct (tocasefold t r) as [g |] eqn:Hr; [| discriminate H].
  apply N.eqb_eq in H. subst g. exists f. split; [exact Hx | exact Hr].
Qed.

Definition entry_sound_b (ucd : ucd_table) (s : mstate) (e : N * (N * list N)) : bool :=
  let '(i, (n, v)) := e in
  (i + n <=? lenN (buf s)) &&
  match utf8_tocasefold ucd (firstnN n (subject_from i s)) with Some w => list_eqb w v | None => false end.
Definition cache_sound_b (ucd : ucd_table) (s : mstate) : bool := forallb (entry_sound_b ucd s) (foldcache s).

Lemma cache_get_In : forall c i e, cache_get c i = Some e -> In (i, e) c.
Proof.
  induction c as [| [k w] c IH]; intros i e H.
  - discriminate H.
  - cbn [cache_get] in H. destruct (N.eqb_spec k i) as [-> | Hne].
    + injection H as <-. left. reflexivity.
    + right. exact (IH i e H).
Qed.

Lemma cache_sound_b_spec : forall ucd s, cache_sound_b ucd s = true -> cache_sound ucd s.
Proof.
  intros ucd s H i n v Hget. unfold cache_sound_b in H. rewrite forallb_forall in H.
  pose proof (H _ (cache_get_In _ _ _ Hget)) as He. unfold entry_sound_b in He.
  apply andb_true_iff in He. destruct He as [He1 He2].
  split; [lia |].
  destruct (utf8_tocasefold ucd (firstnN n (subject_from i s))) as [w |]; [| discriminate He2].
  apply list_eqb_eq in He2. subst w. reflexivity.
Qed.

Definition rejects_b (ucd : ucd_table) (str : list N) (s : mstate) : bool :=
  match m_seq ucd true str s with
  | inr (true, s') => (sr s' =? sr s) && list_eqb (buf s') (buf s) && cache_sound_b ucd s'
  | _ => false
  end.
Definition accepts_b (ucd : ucd_table) (str : list N) (s : mstate) (n : N) : bool :=
  match m_seq ucd true str s with
  | inr (false, s') => (sr s' =? sr s + n) && list_eqb (buf s') (buf s) && cache_sound_b ucd s'
  | _ => false
  end.

Lemma rejects_b_spec : forall ucd str s, rejects_b ucd str s = true -> lit_rejects ucd str s.
Proof.
  intros ucd str s H. unfold rejects_b in H.
  destruct (m_seq ucd true str s) as [r | [[|] s']] eqn:Hm; [discriminate H | | discriminate H].
  apply andb_true_iff in H. destruct H as [H H3]. apply andb_true_iff in H. destruct H as [H1 H2].
  exists s'. split; [exact Hm |]. split; [apply N.eqb_eq; exact H1 |].
  split; [apply list_eqb_eq; exact H2 | apply cache_sound_b_spec; exact H3].
Qed.

Lemma accepts_b_spec : forall ucd str s n, accepts_b ucd str s n = true -> lit_accepts ucd str s n.
Proof.
  intros ucd str s n H. unfold accepts_b in H.
  destruct (m_seq ucd true str s) as [r | [[|] s']] eqn:Hm; [discriminate H | discriminate H |].
  apply andb_true_iff in H. destruct H as [H H3]. apply andb_true_iff in H. destruct H as [H1 H2].
  exists s'. split; [exact Hm |]. split; [apply N.eqb_eq; exact H1 |].
  split; [apply list_eqb_eq; exact H2 | apply cache_sound_b_spec; exact H3].
Qed.

Definition bytes_ok_b (l : list N) : bool := forallb (fun b => b <? 256) l.
Lemma bytes_ok_b_spec : forall l, bytes_ok_b l = true -> bytes_ok l.
Proof.
  intros l H. unfold bytes_ok_b in H. rewrite forallb_forall in H.
  apply Forall_forall. intros x Hx. pose proof (H x Hx) as Hlt. lia.
Qed.

(* the setting for a fresh parser whose whole input is the text rs' followed by [tail] *)
Definition fresh (rs' tail : list N) : mstate := init_state (encode_all rs' ++ tail) [] false [] [].

Lemma fresh_setting : forall ucd rs rs' tail str, rs <> [] ->
  utf8_tocasefold ucd (encode_all rs) = Some str -> bytes_ok_b (encode_all rs' ++ tail) = true ->
  literal_setting ucd rs rs' str (fresh rs' tail).
Proof.
  intros ucd rs rs' tail str Hne Hstr Hb.
  split; [exact Hne |]. split; [exact Hstr |].
  split; [exists tail; reflexivity |].
  split; [exact (bytes_ok_b_spec _ Hb) | apply C15_cache_sound_init_proof].
Qed.

Lemma fresh_nil : forall rs', init_state (encode_all rs') [] false [] [] = fresh rs' [].
Proof. intro rs'. unfold fresh. rewrite app_nil_r. reflexivity. Qed.

(* ---------------------------------------------------------------- (a) "as" against "a" U+017F *)

Definition w_lit_a (t : ucd_table) : bool :=
  match utf8_tocasefold t (encode_all [97; 115]) with
  | Some str => opt_eqb (tocasefold t 97) (tocasefold t 97) && opt_eqb (tocasefold t 115) (tocasefold t 383) &&
                rejects_b t str (fresh [97; 383] [])
  | None => false
  end.
Lemma w_lit_a_ok : with_table w_lit_a = true.
Proof. vm_compute. reflexivity. Qed.

Definition w_lit_b (t : ucd_table) : bool :=
  match utf8_tocasefold t (encode_all [383]) with
  | Some str => opt_eqb (tocasefold t 383) (tocasefold t 383) && rejects_b t str (fresh [383] [])
  | None => false
  end.
Lemma w_lit_b_ok : with_table w_lit_b = true.
Proof. vm_compute. reflexivity. Qed.

Lemma lit_a : forall t, w_lit_a t = true ->
  exists str, literal_setting t [97; 115] [97; 383] str (fresh [97; 383] []) /\
              Forall2 (fold_eq t) [97; 115] [97; 383] /\ lit_rejects t str (fresh [97; 383] []).
Proof.
  intros t W. unfold w_lit_a in W.
  destruct (utf8_tocasefold t (encode_all [97; 115])) as [str |] eqn:Hstr; [| discriminate W].
  apply andb_true_iff in W. destruct W as [W W3]. apply andb_true_iff in W. destruct W as [W1 W2].
  exists str. split.
  - apply fresh_setting; [discriminate | exact Hstr | reflexivity].
  - split; [| exact (rejects_b_spec _ _ _ W3)].
    constructor; [exact (opt_eqb_fold_eq _ _ _ W1) |].
    constructor; [exact (opt_eqb_fold_eq _ _ _ W2) | constructor].
Qed.

Lemma lit_b : forall t, w_lit_b t = true ->
  exists str, literal_setting t [383] [383] str (fresh [383] []) /\
              Forall2 (fold_eq t) [383] [383] /\ lit_rejects t str (fresh [383] []).
Proof.
  intros t W. unfold w_lit_b in W.
  destruct (utf8_tocasefold t (encode_all [383])) as [str |] eqn:Hstr; [| discriminate W].
  apply andb_true_iff in W. destruct W as [W1 W2].
  exists str. split.
  - apply fresh_setting; [discriminate | exact Hstr | reflexivity].
  - split; [| exact (rejects_b_spec _ _ _ W2)].
    constructor; [exact (opt_eqb_fold_eq _ _ _ W1) | constructor].
Qed.

Lemma C15_literal_refuted_proof : stmt_C15_literal_refuted.
Proof.
  destruct C14_tables_decode_proof as [t Ht].
  pose proof (lit_a t (with_table_use _ t Ht w_lit_a_ok)) as Ha.
  pose proof (lit_b t (with_table_use _ t Ht w_lit_b_ok)) as Hb.
  exists t. split; [exact Ht |].
  cbv zeta. rewrite !fresh_nil. split; [exact Ha | exact Hb].
Qed.

Lemma C15_literal_not_general_proof : stmt_C15_literal_not_general.
Proof.
  intro Hall.
  destruct C14_tables_decode_proof as [t Ht].
  destruct (lit_a t (with_table_use _ t Ht w_lit_a_ok)) as [str [Hset [HF2 [s1 [Hrej _]]]]].
  assert (Hs1 : Forall (fun r => is_scalar r = true) [97; 115]) by (repeat constructor).
  assert (Hs2 : Forall (fun r => is_scalar r = true) [97; 383]) by (repeat constructor).
  pose proof (proj2 (Hall t Ht [97; 115] [97; 383] str _ Hs1 Hs2 Hset) HF2) as [s2 [Hacc _]].
  clear Ht. rewrite Hrej in Hacc. discriminate Hacc.
Qed.

(* ---------------------------------------------------------------- (c) the outcome depends on the cache *)

Definition w_cache (t : ucd_table) : bool :=
  let s0 := fresh [383; 115] [] in
  match m_seq t true [115; 115] s0 with
  | inr (true, s1) => (sr s1 =? sr s0) && list_eqb (buf s1) (buf s0) && cache_sound_b t s1 &&
                      rejects_b t [115] s0 && accepts_b t [115] s1 1
  | _ => false
  end.
Lemma w_cache_ok : with_table w_cache = true.
Proof. vm_compute. reflexivity. Qed.

Lemma C15_literal_cache_dependent_proof : stmt_C15_literal_cache_dependent.
Proof.
  destruct C14_tables_decode_proof as [t Ht].
  pose proof (with_table_use _ t Ht w_cache_ok) as W. unfold w_cache in W. cbv zeta in W.
  exists t. split; [exact Ht |]. cbv zeta. rewrite fresh_nil.
  destruct (m_seq t true [115; 115] (fresh [383; 115] [])) as [r | [[|] s1]] eqn:Hm;
    [discriminate W | | discriminate W].
  apply andb_true_iff in W. destruct W as [W W5]. apply andb_true_iff in W. destruct W as [W W4].
  apply andb_true_iff in W. destruct W as [W W3]. apply andb_true_iff in W. destruct W as [W1 W2].
  exists s1. split; [reflexivity |].
  split; [apply N.eqb_eq; exact W1 |]. split; [apply list_eqb_eq; exact W2 |].
  split; [apply C15_cache_sound_init_proof |]. split; [apply cache_sound_b_spec; exact W3 |].
  split; [exact (rejects_b_spec _ _ _ W4) | exact (accepts_b_spec _ _ _ _ W5)].
Qed.

(* ---------------------------------------------------------------- a satisfiable instance *)

(* literal "a" U+00E9 against the input "A" U+00C9 "!" on the shipped table: every hypothesis of
   stmt_C15_literal_partial holds, the texts are fold-equal, and the step accepts 3 bytes *)
Definition flp_b (t : ucd_table) (r : N) : bool :=
  is_scalar r && match tocasefold t r with
                 | Some f => is_scalar f && Nat.eqb (utf8_len f) (utf8_len r)
                 | None => false
                 end.
Lemma flp_b_spec : forall t r, flp_b t r = true -> fold_len_preserved t r.
Proof.
  intros t r H. unfold flp_b in H. apply andb_true_iff in H. destruct H as [H1 H2].
  split; [exact H1 |].
  destruct (tocasefold t r) as [f |]; [| discriminate H2].
  apply andb_true_iff in H2. destruct H2 as [H2 H3]. apply Nat.eqb_eq in H3.
  exists f. split; [reflexivity |]. split; [exact H2 | exact H3].
Qed.

Definition w_lit_ex (t : ucd_table) : bool :=
  forallb (flp_b t) [97; 233] && forallb (flp_b t) [65; 201] &&
  opt_eqb (tocasefold t 97) (tocasefold t 65) && opt_eqb (tocasefold t 233) (tocasefold t 201) &&
  match utf8_tocasefold t (encode_all [97; 233]) with
  | Some str => accepts_b t str (fresh [65; 201] [33]) 3
  | None => false
  end.
Lemma w_lit_ex_ok : with_table w_lit_ex = true.
Proof. vm_compute. reflexivity. Qed.

Lemma Forall_forallb : forall (P : N -> Prop) f l, (forall x, f x = true -> P x) -> forallb f l = true -> Forall P l.
Proof.
  intros P f l Hf H. rewrite forallb_forall in H. apply Forall_forall. intros x Hx. exact (Hf x (H x Hx)).
Qed.

Example C15_literal_partial_example :
  exists ucd str s, decompress_table = Some ucd /\
    Forall (fold_len_preserved ucd) [97; 233] /\ Forall (fold_len_preserved ucd) [65; 201] /\
    literal_setting ucd [97; 233] [65; 201] str s /\
    lenN (encode_all [65; 201]) = lenN (encode_all [97; 233]) /\
    Forall2 (fold_eq ucd) [97; 233] [65; 201] /\
    lit_accepts ucd str s 3.
Proof.
  destruct C14_tables_decode_proof as [t Ht].
  pose proof (with_table_use _ t Ht w_lit_ex_ok) as W. unfold w_lit_ex in W.
  destruct (utf8_tocasefold t (encode_all [97; 233])) as [str |] eqn:Hstr;
    [| rewrite andb_false_r in W; discriminate W].
  apply andb_true_iff in W. destruct W as [W W5]. apply andb_true_iff in W. destruct W as [W W4].
  apply andb_true_iff in W. destruct W as [W W3]. apply andb_true_iff in W. destruct W as [W1 W2].
  exists t, str, (fresh [65; 201] [33]).
  split; [exact Ht |].
  split; [exact (Forall_forallb _ _ _ (flp_b_spec t) W1) |].
  split; [exact (Forall_forallb _ _ _ (flp_b_spec t) W2) |].
  split; [apply fresh_setting; [discriminate | exact Hstr | reflexivity] |].
  split; [reflexivity |].
  split; [| exact (accepts_b_spec _ _ _ _ W5)].
  constructor; [exact (opt_eqb_fold_eq _ _ _ W3) |].
  constructor; [exact (opt_eqb_fold_eq _ _ _ W4) | constructor].
Qed.

(* stmt_C15_cache_sound_preserved: a state with a non-empty sound cache (the one left by the failed
   `match_cf "ss"` above) on which casefold_compare runs again *)
Definition w_preserved (t : ucd_table) : bool :=
  match m_seq t true [115; 115] (fresh [383; 115] []) with
  | inr (_, s1) => cache_sound_b t s1 && negb (lenN (foldcache s1) =? 0) && (0 + 1 <=? lenN (buf s1)) &&
                   match casefold_compare_at t 0 1 [115] s1 with Some _ => true | None => false end
  | _ => false
  end.
Lemma w_preserved_ok : with_table w_preserved = true.
Proof. vm_compute. reflexivity. Qed.

Example C15_cache_sound_preserved_example :
  exists ucd s r s', decompress_table = Some ucd /\ cache_sound ucd s /\ foldcache s <> [] /\
    0 + 1 <= lenN (buf s) /\ casefold_compare_at ucd 0 1 [115] s = Some (r, s').
Proof.
  destruct C14_tables_decode_proof as [t Ht].
  pose proof (with_table_use _ t Ht w_preserved_ok) as W. unfold w_preserved in W.
  destruct (m_seq t true [115; 115] (fresh [383; 115] [])) as [r0 | [b0 s1]]; [discriminate W |].
  destruct (casefold_compare_at t 0 1 [115] s1) as [[r s'] |] eqn:Hc; [| rewrite andb_false_r in W; discriminate W].
  apply andb_true_iff in W. destruct W as [W _]. apply andb_true_iff in W. destruct W as [W W3].
  apply andb_true_iff in W. destruct W as [W1 W2].
  exists t, s1, r, s'. split; [exact Ht |]. split; [exact (cache_sound_b_spec _ _ W1) |].
  split; [| split; [clear Ht; lia | exact Hc]].
  intro E. rewrite E in W2. cbn in W2. discriminate W2.
Qed.
