(* End-to-end statements for the PEG fragment: from a grammar the DSL accepts to the result of
   parse(), through compile (Elab/Codegen/Link), the machine and the reference semantics. *)
From Coq Require Import NArith ZArith List Bool.
From Lug Require Import Gen.Consts Gen.UcdTables Ucd.Lookup Ucd.RuneSet VM.Instr Lang.Expr Lang.Elab Lang.Codegen Lang.Link
  VM.Machine Spec.Peg Proofs.BlockDefs Proofs.LinkStmt.
Import ListNotations.
Local Open Scope N_scope.

(* what a user observes of a callback: its identity and, for captures, the range and the text *)
Inductive obs := OAct (id : N) | OCap (id start size : N) (text : list N).
Definition obs_of_event (e : event) : option obs :=
  match e with
  | EvAction id _ => Some (OAct id)
  | EvCapture id _ start size text => Some (OCap id start size text)
  | _ => None
  end.
Fixpoint observed (evs : list event) : list obs :=
  match evs with
  | [] => []
  | e :: r => match obs_of_event e with Some o => o :: observed r | None => observed r end
  end.
(* the callbacks the reference semantics prescribes for a parse that consumed [j] bytes of [inp] *)
Definition obs_of_trace (inp : list N) (j : N) (t : list tr_item) : list obs :=
  map (fun x => match x with
                | TrAct id => OAct id
                | TrCap id start size =>
                    (* the text is cut out of match() = the first j bytes: a capture made inside a positive
                       predicate that reaches beyond the finally consumed prefix is delivered clipped *)
                    let text := firstnN size (skipnN start (firstnN j inp)) in OCap id start (lenN text) text
                end) t.

(* every capture of the trace starts inside the consumed prefix (otherwise cutting its text out of
   match() throws std::out_of_range in the library) *)
Definition caps_start_ok (j : N) (t : list tr_item) : Prop :=
  Forall (fun x => match x with TrCap _ start _ => start <= j | TrAct _ => True end) t.
(* every capture of the trace lies inside [i, j] *)
Definition caps_within (i j : N) (t : list tr_item) : Prop :=
  Forall (fun x => match x with TrCap _ start size => i <= start /\ start + size <= j | TrAct _ => True end) t.

(* expressions without positive predicates (rule bodies are constrained through G) *)
Fixpoint and_free (p : pexp) : bool :=
  match p with
  | PAnd _ => false
  | PSeq a b | PAlt a b => and_free a && and_free b
  | PStar a | PNot a | PRep _ _ a | PInline _ a | PSkip a | PWrap _ a _ => and_free a
  | _ => true
  end.

(* the rule environment of a linked grammar *)
Definition rules_of (rt : rtable) (s : lstate) (r : nat) : option pexp :=
  if placed s r then Some (r_body (rt_get rt r)) else None.

(* a grammar of the PEG fragment that compiled, with no call marked left-recursive *)
Record fragment_grammar (ucd : ucd_table) (space : expr) (rt : rtable) (start_rule : nat) (sk : pexp) (s : lstate) (prog : list sinstr) : Prop := {
  fg_layout : link_layout ucd space rt start_rule = OK (sk, s);
  fg_prog : start ucd space rt start_rule = OK prog;
  fg_nolr : l_lrec s = [];
  fg_skip : frag sk = true;
  fg_rules : forall r, placed s r = true -> frag (r_body (rt_get rt r)) = true
}.

(* the start expression as the reference semantics sees it: leading whitespace, then the start rule *)
Definition top_pexp (sk : pexp) (start_rule : nat) : pexp := PSeq sk (PCall start_rule 0 0).

(* C01/C02/C12, success: parse() returns true, has consumed exactly the prescribed prefix, has run exactly
   the prescribed callbacks in order with the prescribed ranges/texts, and max_subject_index is the
   farthest failure offset or the final offset if larger *)
Definition stmt_top_success : Prop :=
  forall ucd cb space rt start_rule sk s prog inp j t f,
    ucd_total ucd -> fragment_grammar ucd space rt start_rule sk s prog ->
    peg ucd inp (rules_of rt s) (top_pexp sk start_rule) 0 (Succ j t f) ->
    caps_start_ok j t ->
    exists n fin,
      run ucd cb prog n (init_state inp [] false [] []) = Done true fin /\
      sr fin = j /\ mr fin = N.max f j /\
      observed (rev (log fin)) = obs_of_trace inp j t /\
      frames fin = [] /\ resp fin = [].

(* failure: parse() returns false, no callback has run, and max_subject_index is the farthest failure offset *)
Definition stmt_top_failure : Prop :=
  forall ucd cb space rt start_rule sk s prog inp f,
    ucd_total ucd -> fragment_grammar ucd space rt start_rule sk s prog ->
    peg ucd inp (rules_of rt s) (top_pexp sk start_rule) 0 (Fail f) ->
    exists n fin,
      run ucd cb prog n (init_state inp [] false [] []) = Done false fin /\
      mr fin = f /\ log fin = [] /\ frames fin = [].

(* the reference semantics is a function: with the two statements above, parse() succeeds exactly when
   the semantics says so *)
Definition stmt_peg_deterministic : Prop :=
  forall ucd inp G p i o1 o2, peg ucd inp G p i o1 -> peg ucd inp G p i o2 -> o1 = o2.

(* derived laws of the semantics that the property text names *)
Definition stmt_choice_commits : Prop :=      (* ordered choice commits to the first alternative that succeeds *)
  forall ucd inp G a b i j t f o, peg ucd inp G a i (Succ j t f) -> peg ucd inp G (PAlt a b) i o -> o = Succ j t f.
Definition stmt_star_never_fails : Prop :=    (* repetition never fails ... *)
  forall ucd inp G a i f, ~ peg ucd inp G (PStar a) i (Fail f).
Definition stmt_star_greedy : Prop :=         (* ... and is greedy: it stops only where its body fails *)
  forall ucd inp G a i j t f, peg ucd inp G (PStar a) i (Succ j t f) -> exists f', peg ucd inp G a j (Fail f').
Definition stmt_predicates_consume_nothing : Prop :=
  forall ucd inp G a i j t f, (peg ucd inp G (PNot a) i (Succ j t f) -> j = i /\ t = []) /\ (peg ucd inp G (PAnd a) i (Succ j t f) -> j = i).
Definition stmt_peg_monotone : Prop :=        (* input is never given back *)
  forall ucd inp G p i j t f, peg ucd inp G p i (Succ j t f) -> i <= j.

(* captures outside positive predicates lie within what their expression consumed, hence are delivered
   with exactly the bytes their sub-expression matched *)
Definition stmt_caps_within : Prop :=
  forall ucd inp G p i j t f,
    (forall r body, G r = Some body -> and_free body = true) -> and_free p = true ->
    peg ucd inp G p i (Succ j t f) -> caps_within i j t.

Definition stmt_capture_text_exact : Prop :=
  forall inp i j t, caps_within i j t -> j <= lenN inp ->
    obs_of_trace inp j t =
    map (fun x => match x with TrAct id => OAct id | TrCap id start size => OCap id start size (firstnN size (skipnN start inp)) end) t.

(* C02, the clause that does not hold: a capture inside a positive predicate is delivered clipped to
   the finally consumed prefix.  Witness: &(capture[str("abc")]) > chr('a') on "abcd" delivers "a". *)
Definition stmt_capture_in_lookahead_refuted : Prop :=
  exists ucd inp G p j t f,
    peg ucd inp G p 0 (Succ j t f) /\ frag p = true /\
    t = [TrCap 7 0 3] /\ obs_of_trace inp j t = [OCap 7 0 1 [97]].
