(* C06: the statements of Proofs/BlockEnvDefs.v, proved (Proofs/BlocksEnv.v, Proofs/EnvLaws.v). *)
From Coq Require Import NArith ZArith List Bool.
From Lug Require Import Proofs.BlockEnvDefs Proofs.BlocksEnv Proofs.EnvLaws.

Theorem block_env_proof : stmt_block_env.
Proof. exact block_env. Qed.

Theorem scope_restores_proof : stmt_scope_restores.
Proof. exact scope_restores. Qed.

Theorem table_unchanged_partial_proof : stmt_table_unchanged_partial.
Proof. exact table_unchanged_partial. Qed.

Theorem failure_leaves_table_refuted_proof : stmt_failure_leaves_table_refuted.
Proof. exact failure_leaves_table_refuted. Qed.

Theorem pegE_eval_sound_proof : stmt_pegE_eval_sound.
Proof. exact pegE_eval_sound_all. Qed.

Print Assumptions block_env_proof.
Print Assumptions scope_restores_proof.
Print Assumptions table_unchanged_partial_proof.
Print Assumptions failure_leaves_table_refuted_proof.
Print Assumptions pegE_eval_sound_proof.
