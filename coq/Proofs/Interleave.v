(* C19 (model level): threads parsing with one shared, read-only program, each with its own machine state.
   A scheduler picks which thread steps next; whatever the schedule, every thread goes through exactly the
   states of its solo run.  The shared components are the program, the Unicode table and the callbacks'
   identities, none of which a step can change: `step` returns only the stepping thread's new state. *)
From Coq Require Import NArith ZArith List Bool Lia.
From Lug Require Import Gen.UcdTables Gen.Inventory Ucd.Lookup VM.Instr Lang.Elab VM.Machine.
Import ListNotations.

Section Interleave.
Variable ucd : ucd_table.
Variable cb : callbacks.
Variable prog : list sinstr.            (* the const grammar's program, shared by all threads *)

(* a thread is either still running or has finished with a result *)
Definition tstate := result.
Definition tstep (t : tstate) : tstate :=
  match t with Running s => step ucd cb prog s | other => other end.

Fixpoint tsteps (n : nat) (t : tstate) : tstate := match n with O => t | S m => tsteps m (tstep t) end.

Fixpoint update {A} (l : list A) (i : nat) (x : A) : list A :=
  match l, i with
  | [], _ => []
  | _ :: r, O => x :: r
  | y :: r, S j => y :: update r j x
  end.

(* one scheduling decision: thread i takes a step (a decision naming no thread changes nothing) *)
Definition sched_step (ts : list tstate) (i : nat) : list tstate :=
  match nth_error ts i with Some t => update ts i (tstep t) | None => ts end.
Definition run_schedule (ts : list tstate) (sched : list nat) : list tstate := fold_left sched_step sched ts.

Lemma nth_update_same {A} (l : list A) i x : (i < length l)%nat -> nth_error (update l i x) i = Some x.
Proof. revert i; induction l as [|y r IH]; intros [|j] H; cbn in *; try lia; [reflexivity|apply IH; lia]. Qed.
Lemma nth_update_other {A} (l : list A) i j x : i <> j -> nth_error (update l i x) j = nth_error l j.
Proof.
  revert i j; induction l as [|y r IH]; intros [|i] [|j] H; cbn; try reflexivity; try congruence.
  apply IH; congruence.
Qed.
Lemma tsteps_snoc n t : tsteps (S n) t = tstep (tsteps n t).
Proof. revert t; induction n as [|n IH]; intros t; [reflexivity|]. cbn [tsteps] in *. rewrite <- IH. reflexivity. Qed.

Definition stmt_C19_interleave : Prop :=
  forall (ts : list tstate) (sched : list nat) (t : nat) (s0 : tstate),
    nth_error ts t = Some s0 ->
    nth_error (run_schedule ts sched) t = Some (tsteps (count_occ Nat.eq_dec sched t) s0).

Lemma C19_interleave_proof : stmt_C19_interleave.
Proof.
  intros ts sched. revert ts. induction sched as [|i sched IH] using rev_ind; intros ts t s0 H.
  - cbn. exact H.
  - unfold run_schedule in *. rewrite fold_left_app. cbn [fold_left].
    rewrite count_occ_app. cbn [count_occ].
    specialize (IH ts t s0 H). set (ts' := fold_left sched_step sched ts) in *.
    unfold sched_step. destruct (nth_error ts' i) as [ti|] eqn:Ei.
    + destruct (Nat.eq_dec i t) as [->|Hne].
      * rewrite Ei in IH. injection IH as ->.
        rewrite nth_update_same by (apply nth_error_Some; congruence).
        replace (count_occ Nat.eq_dec sched t + 1)%nat with (S (count_occ Nat.eq_dec sched t)) by lia.
        rewrite tsteps_snoc. reflexivity.
      * rewrite nth_update_other by exact Hne. rewrite IH. f_equal. f_equal. lia.
    + destruct (Nat.eq_dec i t) as [->|Hne]; [congruence|]. rewrite IH. f_equal. f_equal. lia.
Qed.

End Interleave.

(* the classification that justifies the shape of this model: no object with static or thread storage
   duration in the headers is mutable and shared (regenerated from the headers on every run) *)
Definition stmt_C19_statics : Prop :=
  forallb (fun kv => negb (N.eqb (snd kv) 9)) statics = true.
Lemma C19_statics_proof : stmt_C19_statics.
Proof. vm_compute. reflexivity. Qed.
