(* C10: whether the encoder inlines a rule or calls it makes no difference to the reference semantics. *)
From Coq Require Import NArith ZArith List Bool.
From Lug Require Import Gen.UcdTables Ucd.Lookup VM.Instr Lang.Elab Spec.Peg.
Import ListNotations.

Definition stmt_call_inline_equiv : Prop :=
  forall ucd inp G r body prec mode i o,
    G r = Some body ->
    (peg ucd inp G (PCall r prec mode) i o <-> peg ucd inp G (PInline r body) i o).

Lemma call_inline_equiv_proof : stmt_call_inline_equiv.
Proof.
  intros ucd inp G r body prec mode i o HG. split; intros H.
  - inversion H as [ | | | | | | | | | | | | | | | | | | | r' prec' mode' body' i' o' HG' Hb | | | | ]; subst.
    rewrite HG in HG'. injection HG' as <-. apply peg_inline. exact Hb.
  - inversion H as [ | | | | | | | | | | | | | | | | | | | | r' body' i' o' Hb | | | ]; subst.
    eapply peg_call; eauto.
Qed.
