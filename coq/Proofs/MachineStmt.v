(* Statements about the machine that hold for ALL programs (not only compiled ones): invariants and
   characterising lemmas used by C03, C05, C08, C09, C18, C20. *)
From Coq Require Import NArith ZArith List Bool.
From Lug Require Import Gen.Consts Gen.UcdTables Ucd.Lookup Ucd.RuneSet VM.Instr Lang.Elab VM.Machine.
Import ListNotations.
Local Open Scope N_scope.

(* ---------------- C08: the accept/cut inhibit counter counts the frames that postpone a commit *)
Definition postpones (f : frame) : bool :=
  match f with FCapture _ | FLr _ _ _ _ _ _ _ | FRaise _ _ _ _ _ => true | _ => false end.
Definition count_ci (fs : list frame) : N := N.of_nat (length (filter postpones fs)).
Definition ci_inv (s : mstate) : Prop := cic s = count_ci (frames s).

(* a recovery expression answering `rethrow` with no handler installed makes `ret` keep the raise frame while
   the counter is decremented (DESIGN.md, Appendix D): excluded here *)
Definition no_rethrow_resp (prog : list sinstr) : Prop :=
  forall a r, nth_error prog a = Some (IRecoverResp r) -> r < RETHROW.

Definition stmt_C08_ci_counts : Prop :=
  forall ucd cb prog s s', no_rethrow_resp prog -> rr s < RETHROW ->
    ci_inv s -> step ucd cb prog s = Running s' -> ci_inv s' /\ rr s' < RETHROW.

(* while a capture, a left-recursive call or a recovery is open, cut/accept only set their flag *)
Definition stmt_C08_deferred : Prop :=
  forall s, cic s <> 0 -> accept_or_drain_if_deferred s = Running s.

(* with nothing open, a pending cut runs exactly the scheduled responses, in order, then releases the
   consumed input: the buffer loses its first sr bytes, offsets restart at 0, older backtrack points die *)
Definition events_of (m : list N) (rs : list response) : list event :=
  map (fun r => match r_kind r with
                | RAct id => EvAction id (r_depth r)
                | RCap id start size => let text := firstnN size (skipnN start m) in EvCapture id (r_depth r) start (lenN text) text
                end) rs.
Definition caps_ok (m : list N) (rs : list response) : Prop :=
  Forall (fun r => match r_kind r with RCap _ start _ => start <= lenN m | RAct _ => True end) rs.

Definition stmt_C08_commit_when_zero : Prop :=
  forall s, cic s = 0 -> cutf s = true -> success s = true -> sr s <= lenN (buf s) -> 0 < sr s ->
    caps_ok (firstnN (sr s) (buf s)) (resp s) ->
    exists s', accept_or_drain_if_deferred s = Running s' /\
      log s' = EvDrain (sr s) :: rev (events_of (firstnN (sr s) (buf s)) (resp s)) ++ log s /\
      resp s' = [] /\ rc s' = 0 /\ sr s' = 0 /\ buf s' = skipnN (sr s) (buf s) /\
      mr s' = N.max (mr s) (sr s) - sr s /\ cutf s' = false /\ accf s' = false /\
      frames s' = map (tombstone (sr s)) (frames s).

Definition stmt_C08_accept_when_zero : Prop :=
  forall s, cic s = 0 -> cutf s = false -> accf s = true -> sr s <= lenN (buf s) ->
    caps_ok (firstnN (sr s) (buf s)) (resp s) ->
    exists s', accept_or_drain_if_deferred s = Running s' /\
      log s' = rev (events_of (firstnN (sr s) (buf s)) (resp s)) ++ log s /\
      resp s' = [] /\ rc s' = 0 /\ sr s' = sr s /\ buf s' = buf s /\ frames s' = frames s /\ accf s' = false.

(* a backtrack point older than the released text can never be resumed: failing through it keeps failing *)
Definition stmt_C08_tombstone_skipped : Prop :=
  forall cb s c d i p rest, frames s = FBack None c d i p :: rest ->
    fail_one cb s = inr (BACKTRACK, upd_frames rest s).

(* ---------------- C03: growth of a left-recursive invocation *)
(* `ret` on a memo frame either re-arms it with a strictly larger answer (or a first answer) or finishes *)
Definition stmt_C03_growth_strict : Prop :=
  forall cb s srr sra prec pcr pca rcr saved rest,
    frames s = FLr srr sra prec pcr pca rcr saved :: rest ->
    (match sra with None => True | Some a => a < sr s end ->
       exists s', do_ret cb s = Running s' /\
                  frames s' = FLr srr (Some (sr s)) prec pcr pca rcr (skipnN rcr (resp s)) :: rest /\
                  sr s' = srr /\ pc s' = pca /\ rc s' = rcr) /\
    (forall a, sra = Some a -> sr s <= a ->
       forall s', do_ret cb s = Running s' -> frames s' = rest /\ sr s' = a /\ pc s' = pcr).

(* a recursive call whose precedence is below the level of the invocation being grown fails and pushes nothing *)
Definition stmt_C03_prec_filter : Prop :=
  forall s prec off srr sra mprec pcr pca rcr saved,
    prec <> 0 ->
    find_memo (frames s) (sr s) (pc s + off)%Z = LrFound (FLr srr sra mprec pcr pca rcr saved) ->
    (sra = None \/ prec < mprec) ->
    call_into prec off s = start_fail 1 s.

(* ... and at or above that level takes the memoised answer without re-entering the rule *)
Definition stmt_C03_memo_answer : Prop :=
  forall s prec off srr a mprec pcr pca rcr saved,
    prec <> 0 ->
    find_memo (frames s) (sr s) (pc s + off)%Z = LrFound (FLr srr (Some a) mprec pcr pca rcr saved) ->
    mprec <= prec ->
    exists s', call_into prec off s = Running s' /\ sr s' = a /\ frames s' = frames s /\ pc s' = pc s.

(* ---------------- C05: a raise inside a syntactic predicate only makes the predicate's body fail *)
Definition plain_frame (f : frame) : bool :=
  match f with FRaise _ _ _ _ _ | FLr _ _ _ _ _ _ _ => false | _ => true end.

Definition stmt_C05_inhibited_raise : Prop :=
  forall ucd cb s label above below,
    rinh s = true -> fmode s = 0 ->
    frames s = above ++ below -> lenN below = rid s -> forallb plain_frame above = true ->
    exists s', exec ucd cb (IRaise label false) s = Running s' /\
      frames s' = below /\ fmode s' = 1 /\ log s' = log s /\ success s' = success s /\ resp s' = resp s.

(* outside predicates a raise pushes its frame and enters the recovery rule, or fails into the frame at once *)
Definition stmt_C05_raise_pushes : Prop :=
  forall ucd cb s label,
    rinh s = false ->
    exists s', exec ucd cb (IRaise label false) s = Running s' /\
      frames s' = FRaise label (sr s) (rc s) (eh s) (pc s) :: frames s /\ cic s' = cic s + 1 /\ cd s' = cd s + 1 /\
      match rh s with
      | Some target => pc s' = target /\ fmode s' = fmode s /\ rr s' = RESUME
      | None => fmode s' = 1
      end.

(* ---------------- C20 / C09: when the source is asked for more *)
(* an interactive source is never polled while unread input remains *)
Definition stmt_C20_no_poll_while_unread : Prop :=
  forall i n d s, interactive s = true -> i < lenN (buf s) -> snd (available i n d s) = s.

(* polling never loses or reorders input: buffer followed by the pending chunks is invariant *)
Definition all_input (s : mstate) : list N := buf s ++ concat (pending s).
Definition stmt_C09_available_preserves_input : Prop :=
  forall i n d s, let s' := snd (available i n d s) in
    all_input s' = all_input s /\ frames s' = frames s /\ sr s' = sr s /\ resp s' = resp s /\ conds s' = conds s /\ syms s' = syms s.

(* for a non-interactive source, whether n >= 1 bytes are available at offset i <= |buffer| depends only on the
   total input, not on how it is delivered *)
Definition stmt_C09_available_total : Prop :=
  forall i n d s, interactive s = false -> 1 <= n -> i <= lenN (buf s) ->
    (alive s = false -> pending s = []) ->
    fst (available i n d s) = (i + n <=? lenN (all_input s)).

(* ---------------- C18: every parse starts from the same machine state *)
Definition stmt_C18_reset_total : Prop :=
  forall prev,
    reset_state prev =
    init_state_with (skipnN (sr prev) (buf prev)) (pending prev) (alive prev) (interactive prev) (conds prev) (syms prev).

Definition stmt_C18_reset_agree : Prop :=
  forall p1 p2,
    skipnN (sr p1) (buf p1) = skipnN (sr p2) (buf p2) -> pending p1 = pending p2 -> alive p1 = alive p2 ->
    interactive p1 = interactive p2 -> conds p1 = conds p2 -> syms p1 = syms p2 ->
    reset_state p1 = reset_state p2.
