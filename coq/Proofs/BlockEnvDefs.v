(* Statements for C06: the block theorem over the semantics with environment (Spec/PegEnv.v) and the
   scoping laws of that semantics. *)
From Coq Require Import NArith ZArith List Bool.
From Lug Require Import Gen.UcdTables Ucd.Lookup Ucd.RuneSet VM.Instr Lang.Elab Lang.Codegen VM.Machine Spec.Peg Spec.PegEnv Spec.PegEnvEval Proofs.BlockDefs.
Import ListNotations.

Definition coreE (b : mstate) (a : Z) (i m : N) (k : list frame) (r : list response) (d : N) (sy : symtab) : mstate :=
  upd_syms sy (core b a i m k r d).
Definition failingE (b : mstate) (a : Z) (i m : N) (k : list frame) (r : list response) (c d : N) (sy : symtab) : mstate :=
  upd_syms sy (failing b a i m k r c d).

Definition base_okE (inp : list N) (cnd : list name) (b : mstate) : Prop :=
  base_ok inp b /\ conds b = cnd /\ conds_sorted cnd.

(* The machine simulates the semantics with environment.  In both outcomes the condition set of the
   machine state is the one at entry (it is part of the untouched base state), the symbol table is the
   one the semantics prescribes. *)
Definition stmt_block_env : Prop :=
  forall (ucd : ucd_table) (cb : callbacks) (prog : list sinstr) (addr : nat -> Z) (inp : list N) (G : nat -> option pexp),
    ucd_total ucd ->
    (forall r body, G r = Some body -> fragE body = true /\ at_ prog addr (addr r) (cg body ++ [TI IRet])) ->
    forall cnd p i sy o, pegE ucd inp G cnd p i sy o -> fragE p = true ->
    forall b a k m0 r0 d, base_okE inp cnd b -> at_ prog addr a (cg p) ->
    (fetch prog (a + len (cg p)) = Some IRet -> ret_safe k) ->
    match o with
    | SuccE j t f sy' =>
        exists r', kinds r' = t /\
          forall res, runs_to ucd cb prog (coreE b (a + len (cg p)) j (N.max m0 f) k (r0 ++ r') d sy') res ->
                      runs_to ucd cb prog (coreE b a i m0 k r0 d sy) res
    | FailE f sy' =>
        exists junk a' i' c',
          forall res, runs_to ucd cb prog (failingE b a' i' (N.max m0 f) k (r0 ++ junk) c' d sy') res ->
                      runs_to ucd cb prog (coreE b a i m0 k r0 d sy) res
    end.

(* a nested scope hands back the table it was entered with, on success and on failure *)
Definition table_of (o : oute) : symtab := match o with SuccE _ _ _ s => s | FailE _ s => s end.
Definition stmt_scope_restores : Prop :=
  forall ucd inp G c kind nm a i s o, pegE ucd inp G c (PWrap (ISymbolPush kind nm) a ISymbolPop) i s o -> table_of o = s.

(* expressions all of whose symbol definitions sit inside a scope block *)
Fixpoint defs_scoped (p : pexp) : bool :=
  match p with
  | PWrap (ISymbolStart _) _ ISymbolEnd => false
  | PWrap (ISymbolPush _ _) _ ISymbolPop => true
  | PSeq a b | PAlt a b => defs_scoped a && defs_scoped b
  | PStar a | PNot a | PAnd a | PRep _ _ a | PInline _ a | PSkip a | PWrap _ a _ => defs_scoped a
  | _ => true
  end.

(* the part of the property that holds: without an unscoped definition, every exit of every expression
   (success or failure) leaves the table as it found it *)
Definition stmt_table_unchanged_partial : Prop :=
  forall ucd inp G c p i s o,
    (forall r body, G r = Some body -> defs_scoped body = true) -> defs_scoped p = true ->
    pegE ucd inp G c p i s o -> table_of o = s.

(* the property's own claim: a failed expression leaves no definition behind ... *)
Definition stmt_failure_leaves_table : Prop :=
  forall ucd inp G c p i s f s1, fragE p = true -> pegE ucd inp G c p i s (FailE f s1) -> s1 = s.
(* ... is refuted: (symbol("x")[chr('a')] > chr('X')) | (chr('a') > chr('b') > exists("x")) accepts "ab" *)
Definition stmt_failure_leaves_table_refuted : Prop := ~ stmt_failure_leaves_table.

(* the oracle is sound for the relation *)
Definition stmt_pegE_eval_sound : Prop :=
  forall ucd inp G fuel c p i s o, pegE_eval ucd inp G fuel c p i s = Some o -> pegE ucd inp G c p i s o.
