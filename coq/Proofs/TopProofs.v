(* End-to-end theorems for the PEG fragment (statements: Proofs/TopStmt.v): the block theorem and the
   link layout put together, the end of parse() (final accept / halt), and the laws of the semantics. *)
From Coq Require Import NArith ZArith List Bool Lia ZifyBool ZifyN ZifyNat.
From Lug Require Import Gen.Consts Gen.UcdTables Gen.Utf8Tables Utf8.Utf8Model Ucd.Lookup Ucd.RuneSet VM.Instr Lang.Expr Lang.Elab Lang.Codegen
  Lang.Link VM.Machine Spec.Peg Proofs.BlockDefs Proofs.BlockLemmas Proofs.Blocks Proofs.LinkStmt Proofs.LinkProofs
  Proofs.TopStmt Proofs.TopLaws.
Import ListNotations.
Local Open Scope N_scope.

(* ------------------------------------------------------------------ successful offsets stay inside the input *)
Lemma skip_trail_le l : (skip_trail l <= length l)%nat.
Proof. induction l as [|b l IH]; cbn [skip_trail length]; [lia|]. destruct (is_lead_or_ascii b); lia. Qed.

Lemma decode_loop_le l : forall rune st c, (fst (decode_loop l rune st c) <= c + length l)%nat.
Proof.
  induction l as [|b l IH]; intros rune st c; cbn [decode_loop]; [cbn [fst length]; lia|].
  destruct (decode_rune_octet rune b st) as [st' rune'].
  destruct (st' =? st_accept); [cbn [fst length]; lia|].
  destruct (st' =? st_reject).
  - pose proof (skip_trail_le l). pose proof (skip_trail_le (b :: l)). cbn [length] in *.
    destruct (st =? st_accept); cbn [fst]; lia.
  - specialize (IH rune' st' (S c)). cbn [length]. lia.
Qed.

Lemma skip_trail_w_le l : (skip_trail_w l <= length l)%nat.
Proof. unfold skip_trail_w. pose proof (skip_trail_le (firstn 3 l)) as H. rewrite firstn_length in H. lia. Qed.
Lemma decode_rune_w_le l : (fst (decode_rune_w l) <= length l)%nat.
Proof.
  unfold decode_rune_w, decode_rune, rune_window. pose proof (decode_loop_le (firstn 4 l) 0 st_accept O) as H.
  rewrite firstn_length in H. lia.
Qed.

Lemma eol_le l : utf8_match_eol l <= lenN l.
Proof.
  unfold utf8_match_eol, lenN. destruct l as [|c1 t]; [cbn [length]; lia|].
  destruct ((10 <=? c1) && (c1 <=? 12))%bool; [cbn [length]; lia|].
  destruct (c1 =? 13).
  { destruct t as [|c2 t]; [cbn [length]; lia|]. cbn [length].
    destruct c2 as [|p]; [lia|]. do 5 (try (destruct p as [p|p|]; try lia)). }
  destruct (c1 =? 194).
  { destruct t as [|c2 t]; [cbn [length]; lia|]. cbn [length].
    destruct c2 as [|p]; [lia|]. do 9 (try (destruct p as [p|p|]; try lia)). }
  destruct (c1 =? 226); [|lia].
  destruct t as [|c2 t]; [cbn [length]; lia|]. cbn [length].
  destruct c2 as [|p]; [lia|]. do 9 (try (destruct p as [p|p|]; try lia)).
  destruct t as [|c3 t]; [lia|]. cbn [length]. destruct ((c3 =? 168) || (c3 =? 169))%bool; lia.
Qed.

Section Bounds.
Variable ucd : ucd_table.
Variable inp : list N.
Variable G : nat -> option pexp.

Lemma rest_len i : i <= lenN inp -> lenN (rest inp i) = lenN inp - i.
Proof. intros H. unfold rest, skipnN, lenN in *. rewrite skipn_length. lia. Qed.

Lemma tmatch_bound ins i j : tmatch ucd inp ins i = Some j -> i <= lenN inp -> j <= lenN inp.
Proof.
  intros H Hi. pose proof (rest_len i Hi) as HL.
  destruct ins; try discriminate H; unfold tmatch in H.
  - (* any *) destruct (rest inp i) as [|c l]; [discriminate|]. injection H as <-.
    pose proof (skip_trail_w_le l). unfold lenN in *. cbn [length] in HL. lia.
  - (* eol *) destruct (rest inp i) as [|c l]; [discriminate|].
    pose proof (eol_le (c :: l)) as He. remember (utf8_match_eol (c :: l)) as n eqn:En. clear En.
    destruct (n =? 0); [discriminate|]. injection H as <-. lia.
  - (* octet *) destruct (rest inp i) as [|c l]; [discriminate|]. destruct (c =? b); [|discriminate]. injection H as <-.
    unfold lenN in *. cbn [length] in HL. lia.
  - (* set *) destruct (rest inp i) as [|c l]; [discriminate|].
    pose proof (decode_rune_w_le (c :: l)) as HD.
    destruct (decode_rune_w (c :: l)) as [n rune]. destruct (contains s rune); [|discriminate]. injection H as <-.
    cbn [fst] in HD. unfold lenN in *. lia.
  - (* class *) destruct (rest inp i) as [|c l]; [discriminate|].
    pose proof (decode_rune_w_le (c :: l)) as HD.
    destruct (decode_rune_w (c :: l)) as [n rune].
    destruct (class_test ucd k penum mask rune) as [[|]|]; try discriminate. injection H as <-.
    cbn [fst] in HD. unfold lenN in *. lia.
  - (* match *) destruct (lenN s =? 0); [injection H as <-; lia|].
    destruct ((i <? lenN inp) && (lenN s <=? lenN inp - i) && list_eqb (firstnN (lenN s) (rest inp i)) s)%bool eqn:E; [|discriminate].
    injection H as <-. lia.
Qed.

Definition bound_out (i : N) (o : out) : Prop :=
  i <= lenN inp -> match o with Succ j _ _ => j <= lenN inp | Fail _ => True end.

Lemma peg_bound_all :
  (forall p i o, peg ucd inp G p i o -> bound_out i o) /\
  (forall n k p i o, peg_rep ucd inp G n k p i o -> bound_out i o).
Proof.
  apply peg_mutind; unfold bound_out; intros; try exact I; auto;
    try (match goal with IH : _ -> ?g |- ?g => apply IH; assumption end).
  - eapply tmatch_bound; eassumption.
  - destruct o; [auto|exact I].
Qed.

Lemma peg_in_bounds p i j t f : i <= lenN inp -> peg ucd inp G p i (Succ j t f) -> j <= lenN inp.
Proof. intros Hi H. exact (proj1 peg_bound_all _ _ _ H Hi). Qed.

End Bounds.

(* ------------------------------------------------------------------ the final accept *)
Definition set_log (l : list event) (s : mstate) : mstate :=
  {| pc := pc s; sr := sr s; mr := mr s; rc := rc s; cd := cd s; cic := cic s; cutf := cutf s; accf := accf s;
     rid := rid s; rinh := rinh s; eh := eh s; rh := rh s; rr := rr s; frames := frames s; resp := resp s; buf := buf s;
     pending := pending s; alive := alive s; interactive := interactive s; conds := conds s; syms := syms s;
     foldcache := foldcache s; success := success s; fmode := fmode s; log := l |}.

(* the callback a response runs at accept time, given match() *)
Definition ev_of (m : list N) (r : response) : event :=
  match r_kind r with
  | RAct id => EvAction id (r_depth r)
  | RCap id start size => let text := firstnN size (skipnN start m) in EvCapture id (r_depth r) start (lenN text) text
  end.

Definition starts_in (n : N) (t : list tr_item) : Prop :=
  Forall (fun x => match x with TrCap _ start _ => start <= n | TrAct _ => True end) t.

Lemma run_responses_ok m rs : forall s, starts_in (lenN m) (kinds rs) ->
  run_responses m rs s = (true, set_log (rev (map (ev_of m) rs) ++ log s) s).
Proof.
  induction rs as [|r rs IH]; intros s HF.
  - destruct s; reflexivity.
  - unfold starts_in, kinds in HF. cbn [map] in HF. inversion HF as [|x l Hx Hl]; subst. clear HF.
    cbn [run_responses map rev]. rewrite <- app_assoc. cbn [app].
    unfold kind_of in Hx. unfold ev_of at 2.
    destruct (r_kind r) as [id|id start size].
    + rewrite IH by exact Hl. reflexivity.
    + replace (lenN m <? start) with false by lia. cbv zeta. rewrite IH by exact Hl. reflexivity.
Qed.

Lemma observed_evs inp j rs : observed (map (ev_of (firstnN j inp)) rs) = obs_of_trace inp j (kinds rs).
Proof.
  induction rs as [|r rs IH]; [reflexivity|].
  unfold obs_of_trace, kinds in *. cbn [map observed]. rewrite IH.
  unfold ev_of, kind_of. destruct (r_kind r); reflexivity.
Qed.

Lemma do_accept_ok s : starts_in (lenN (firstnN (sr s) (buf s))) (kinds (resp s)) ->
  do_accept s = Running (upd_rc 0 (upd_resp [] (set_log (rev (map (ev_of (firstnN (sr s) (buf s))) (resp s)) ++ log s) s))).
Proof. intros H. unfold do_accept. cbv zeta. rewrite run_responses_ok by exact H. reflexivity. Qed.

Lemma final_accept_ok s : sr s <= lenN (buf s) -> starts_in (lenN (firstnN (sr s) (buf s))) (kinds (resp s)) ->
  final_accept s =
  Running (upd_rc 0 (upd_resp [] (set_log (rev (map (ev_of (firstnN (sr s) (buf s))) (resp s)) ++ log s)
                                          (upd_mr (N.max (mr s) (sr s)) s)))).
Proof.
  intros Hsr H. unfold final_accept. cbv zeta.
  replace (subject_ok (upd_mr (N.max (mr s) (sr s)) s)) with true by (unfold subject_ok; st; lia).
  cbn [negb]. rewrite do_accept_ok by exact H. reflexivity.
Qed.

Lemma firstnN_len {A} (l : list A) n : n <= lenN l -> lenN (firstnN n l) = n.
Proof. intros H. unfold lenN, firstnN in *. rewrite firstn_length. lia. Qed.

Section Top.
Variable ucd : ucd_table.
Variable cb : callbacks.
Variable prog : list sinstr.

Lemma fetch_end : fetch prog (len prog) = None.
Proof.
  unfold fetch, len. replace (Z.of_nat (length prog) <? 0)%Z with false by lia.
  rewrite Nat2Z.id. apply nth_error_None. lia.
Qed.

(* running off the end of the program with success set: accept() and return true *)
Lemma step_end s :
  fmode s = 0 -> fetch prog (pc s) = None -> success s = true -> sr s <= lenN (buf s) ->
  starts_in (sr s) (kinds (resp s)) ->
  step ucd cb prog s =
  Done true (upd_rc 0 (upd_resp [] (set_log (rev (map (ev_of (firstnN (sr s) (buf s))) (resp s)) ++ log s)
                                            (upd_mr (N.max (mr s) (sr s)) s)))).
Proof.
  intros Hf Hfe Hs Hsr HF. unfold step. rewrite Hf. change (0 <? 0) with false. cbv iota. rewrite Hfe, Hs.
  rewrite final_accept_ok; [reflexivity|exact Hsr|]. rewrite firstnN_len by exact Hsr. exact HF.
Qed.

(* failing with nothing left to backtrack to: return false *)
Lemma step_halt s : 0 < fmode s -> frames s = [] -> step ucd cb prog s = Done false s.
Proof.
  intros Hf Hfr. rewrite step_failing by exact Hf. unfold fail_step, fail_one. rewrite Hfr. reflexivity.
Qed.

Section Linked.
Variable addr : nat -> Z.
Variable inp : list N.
Variable G : nat -> option pexp.
Variable sk : pexp.
Variable start_rule : nat.
Hypothesis Htot : ucd_total ucd.
Hypothesis Hrules : forall r body, G r = Some body -> frag body = true /\ at_ prog addr (addr r) (cg body ++ [TI IRet]).
Hypothesis Hpro : at_ prog addr 0 (cg sk ++ [TCall start_rule 0 0; TI (IJump (len prog - (len (cg sk) + 1) - 1))]).
Hypothesis Hsk : frag sk = true.

Let p := top_pexp sk start_rule.

Lemma len_top : len (cg p) = (len (cg sk) + 1)%Z.
Proof. unfold p, top_pexp. cbn [cg]. rewrite len_app, len_cons, len_nil. lia. Qed.

Lemma frag_top : frag p = true.
Proof. unfold p, top_pexp. cbn [frag]. rewrite Hsk. reflexivity. Qed.

Lemma at_top : at_ prog addr 0 (cg p).
Proof.
  unfold p, top_pexp. cbn [cg]. apply (at_app_l prog addr 0 _ [TI (IJump (len prog - (len (cg sk) + 1) - 1))]).
  rewrite <- app_assoc. exact Hpro.
Qed.

Lemma fetch_halt : fetch prog (0 + len (cg p)) = Some (IJump (len prog - (len (cg sk) + 1) - 1)).
Proof.
  assert (H : at_ prog addr (0 + len (cg p)) [TI (IJump (len prog - (len (cg sk) + 1) - 1))]).
  { unfold p, top_pexp. cbn [cg]. apply at_app_r. rewrite <- app_assoc. exact Hpro. }
  exact (at_fetch_ti _ _ _ _ _ H).
Qed.

Lemma top_ret_safe : fetch prog (0 + len (cg p)) = Some IRet -> ret_safe [].
Proof. rewrite fetch_halt. discriminate. Qed.

Lemma top_success_core b j t f :
  base_ok inp b -> success b = true ->
  peg ucd inp G p 0 (Succ j t f) -> caps_start_ok j t ->
  exists n fin r',
    run ucd cb prog n (core b 0 0 0 [] [] 0) = Done true fin /\
    kinds r' = t /\
    sr fin = j /\ mr fin = N.max f j /\
    log fin = rev (map (ev_of (firstnN j inp)) r') ++ log b /\
    frames fin = [] /\ resp fin = [].
Proof.
  intros Hb Hsucc Hpeg Hcaps.
  assert (Hj : j <= lenN inp) by (eapply peg_in_bounds; [|exact Hpeg]; lia).
  pose proof (block_proof ucd cb prog addr inp G Htot Hrules p 0 _ Hpeg frag_top b 0%Z [] 0 [] 0 Hb at_top top_ret_safe) as HB.
  cbv beta iota in HB. destruct HB as (r' & Hk & Hrun).
  pose proof Hb as (Hfm & _ & _ & _ & _ & _ & Hbuf).
  set (fin := upd_rc 0 (upd_resp [] (set_log (rev (map (ev_of (firstnN j inp)) r') ++ log b)
                                            (upd_mr (N.max (N.max 0 f) j) (core b (len prog) j (N.max 0 f) [] r' 0))))).
  destruct (Hrun (Done true fin)) as (n & Hn & _).
  { exists 2%nat. split; [|exact I]. cbn [run app].
    rewrite (step_core ucd cb prog b _ j _ [] r' 0 _ Hfm fetch_halt).
    rewrite exec_jump.
    replace (0 + len (cg p) + 1 + (len prog - (len (cg sk) + 1) - 1))%Z with (len prog) by (rewrite len_top; lia).
    rewrite step_end.
    - unfold fin. st. rewrite Hbuf. reflexivity.
    - exact Hfm.
    - exact fetch_end.
    - exact Hsucc.
    - st. rewrite Hbuf. exact Hj.
    - st. rewrite Hk. exact Hcaps. }
  exists n, fin, r'. split; [exact Hn|]. split; [exact Hk|].
  unfold fin, set_log. st. repeat split. lia.
Qed.

Lemma top_failure_core b f :
  base_ok inp b ->
  peg ucd inp G p 0 (Fail f) ->
  exists n fin,
    run ucd cb prog n (core b 0 0 0 [] [] 0) = Done false fin /\
    mr fin = f /\ log fin = log b /\ frames fin = [].
Proof.
  intros Hb Hpeg.
  pose proof (block_proof ucd cb prog addr inp G Htot Hrules p 0 _ Hpeg frag_top b 0%Z [] 0 [] 0 Hb at_top top_ret_safe) as HB.
  cbv beta iota in HB. destruct HB as (junk & a' & i' & c' & Hrun).
  destruct (Hrun (Done false (failing b a' i' (N.max 0 f) [] ([] ++ junk) c' 0))) as (n & Hn & _).
  { exists 1%nat. split; [|exact I]. cbn [run]. rewrite step_halt; [reflexivity| |reflexivity]. st. lia. }
  eexists n, _. split; [exact Hn|]. st. repeat split. lia.
Qed.

End Linked.
End Top.

(* ------------------------------------------------------------------ from a compiled grammar *)
Lemma init_core inp : init_state inp [] false [] [] = core (init_state inp [] false [] []) 0 0 0 [] [] 0.
Proof. reflexivity. Qed.

Lemma init_base inp : base_ok inp (init_state inp [] false [] []).
Proof. repeat split. Qed.

Lemma fragment_linked ucd space rt start_rule sk s prog :
  fragment_grammar ucd space rt start_rule sk s prog ->
  (forall r body, rules_of rt s r = Some body -> frag body = true /\ at_ prog (addr_of s) (addr_of s r) (cg body ++ [TI IRet])) /\
  at_ prog (addr_of s) 0 (cg sk ++ [TCall start_rule 0 0; TI (IJump (len prog - (len (cg sk) + 1) - 1))]).
Proof.
  intros [Hl Hp Hn Hs Hr].
  destruct (link_layout_proof ucd space rt start_rule sk s prog Hl Hp Hn) as (Hpro & _ & Hat & _).
  split; [|exact Hpro].
  intros r body E. unfold rules_of in E. destruct (placed s r) eqn:Ep; [|discriminate]. injection E as <-.
  split; [apply Hr; exact Ep|apply Hat; exact Ep].
Qed.

Theorem top_success_proof : stmt_top_success.
Proof.
  intros ucd cb space rt start_rule sk s prog inp j t f Htot Hfg Hpeg Hcaps.
  destruct (fragment_linked _ _ _ _ _ _ _ Hfg) as (Hrules & Hpro).
  destruct (top_success_core ucd cb prog (addr_of s) inp (rules_of rt s) sk start_rule Htot Hrules Hpro (fg_skip _ _ _ _ _ _ _ Hfg)
              (init_state inp [] false [] []) j t f (init_base inp) eq_refl Hpeg Hcaps)
    as (n & fin & r' & Hrun & Hk & Hsr & Hmr & Hlog & Hfr & Hre).
  exists n, fin. rewrite init_core. split; [exact Hrun|]. split; [exact Hsr|]. split; [exact Hmr|].
  split; [|split; assumption].
  rewrite Hlog. change (log (init_state inp [] false [] [])) with (@nil event). rewrite app_nil_r, rev_involutive.
  rewrite observed_evs, Hk. reflexivity.
Qed.

Theorem top_failure_proof : stmt_top_failure.
Proof.
  intros ucd cb space rt start_rule sk s prog inp f Htot Hfg Hpeg.
  destruct (fragment_linked _ _ _ _ _ _ _ Hfg) as (Hrules & Hpro).
  destruct (top_failure_core ucd cb prog (addr_of s) inp (rules_of rt s) sk start_rule Htot Hrules Hpro (fg_skip _ _ _ _ _ _ _ Hfg)
              (init_state inp [] false [] []) f (init_base inp) Hpeg)
    as (n & fin & Hrun & Hmr & Hlog & Hfr).
  exists n, fin. rewrite init_core. split; [exact Hrun|]. split; [exact Hmr|]. split; [exact Hlog|exact Hfr].
Qed.

(* ------------------------------------------------------------------ the laws of the semantics *)
Theorem peg_deterministic_proof : stmt_peg_deterministic.
Proof. exact peg_deterministic_law. Qed.
Theorem choice_commits_proof : stmt_choice_commits.
Proof. exact choice_commits_law. Qed.
Theorem star_never_fails_proof : stmt_star_never_fails.
Proof. exact star_never_fails_law. Qed.
Theorem star_greedy_proof : stmt_star_greedy.
Proof. exact star_greedy_law. Qed.
Theorem predicates_consume_nothing_proof : stmt_predicates_consume_nothing.
Proof. exact predicates_consume_nothing_law. Qed.
Theorem peg_monotone_proof : stmt_peg_monotone.
Proof. exact peg_monotone_law. Qed.
Theorem caps_within_proof : stmt_caps_within.
Proof. exact caps_within_law. Qed.
Theorem capture_text_exact_proof : stmt_capture_text_exact.
Proof. exact capture_text_exact_law. Qed.
Theorem capture_in_lookahead_refuted_proof : stmt_capture_in_lookahead_refuted.
Proof. exact capture_in_lookahead_refuted_law. Qed.

Print Assumptions top_success_proof.
Print Assumptions top_failure_proof.
Print Assumptions peg_deterministic_proof.
Print Assumptions choice_commits_proof.
Print Assumptions star_never_fails_proof.
Print Assumptions star_greedy_proof.
Print Assumptions predicates_consume_nothing_proof.
Print Assumptions peg_monotone_proof.
Print Assumptions caps_within_proof.
Print Assumptions capture_text_exact_proof.
Print Assumptions capture_in_lookahead_refuted_proof.
