(* Proof of the layout lemma for start() (statement in Proofs/LinkStmt.v). *)
From Coq Require Import NArith ZArith List Bool Lia ZifyBool ZifyN ZifyNat.
From Lug Require Import Gen.Consts Gen.UcdTables Ucd.Lookup VM.Instr Lang.Expr Lang.Elab Lang.Codegen Lang.Link VM.Machine Spec.Peg Proofs.BlockDefs Proofs.LinkStmt.
Import ListNotations.
Local Open Scope Z_scope.

(* ---- resolve_code, instruction by instruction ---- *)

Definition resolve1 (s : lstate) (t : tinstr) (nxt : option tinstr) (a end_ : Z) : err sinstr :=
  match t with
  | TI (IJump 0) => if match l_halt s with Some h => Z.eqb h a | None => false end
                    then OK (IJump (end_ - a - 1)) else OK (IJump 0)
  | TI i => OK i
  | TCall r prec _ =>
      match assoc_find (l_addrs s) r with
      | None => Err e_limit
      | Some target =>
          let prec' := if existsb (Nat.eqb r) (l_lrec s) then N.max prec 1 else 0%N in
          let off := target - (a + 1) in
          if N.eqb prec' 0 && is_ret nxt then OK (IJump off) else OK (ICall off prec')
      end
  | TRecRule r _ =>
      match assoc_find (l_addrs s) r with
      | None => Err e_limit
      | Some target => OK (IRecoverPush (target - (a + 1)))
      end
  end.

Lemma resolve_code_cons s t rest a e :
  resolve_code s (t :: rest) a e =
  match resolve1 s t (hd_error rest) a e, resolve_code s rest (a + 1) e with
  | OK i, OK is_ => OK (i :: is_)
  | Err w, _ => Err w
  | _, Err w => Err w
  end.
Proof. reflexivity. Qed.

Lemma resolve_code_nth s : forall code a e out,
  resolve_code s code a e = OK out ->
  length out = length code /\
  forall k t, nth_error code k = Some t ->
    exists i, nth_error out k = Some i /\
              resolve1 s t (nth_error code (S k)) (a + Z.of_nat k) e = OK i.
Proof.
  induction code as [|t rest IH]; intros a e out H.
  - cbn in H. injection H as <-. split; [reflexivity|].
    intros k t Hk. destruct k; discriminate.
  - rewrite resolve_code_cons in H.
    destruct (resolve1 s t (hd_error rest) a e) as [i|w] eqn:H1; [|discriminate].
    destruct (resolve_code s rest (a + 1) e) as [is_|w] eqn:H2; [|discriminate].
    injection H as <-. destruct (IH _ _ _ H2) as [Hl Hn].
    split; [cbn [length]; congruence|].
    intros k t' Hk. destruct k as [|k].
    + cbn in Hk. injection Hk as <-. exists i. split; [reflexivity|].
      replace (a + Z.of_nat 0) with a by lia.
      cbn [nth_error]. destruct rest; exact H1.
    + cbn [nth_error] in Hk |- *. destruct (Hn _ _ Hk) as [i' [Hi1 Hi2]].
      exists i'. split; [exact Hi1|].
      replace (a + Z.of_nat (S k)) with (a + 1 + Z.of_nat k) by lia. exact Hi2.
Qed.

Lemma fetch_nat prog (p : nat) : fetch prog (Z.of_nat p) = nth_error prog p.
Proof.
  unfold fetch. destruct (Z.of_nat p <? 0) eqn:E; [lia|]. rewrite Nat2Z.id. reflexivity.
Qed.

(* ---- the invariant of the layout loop ---- *)

Section Inv.
Variable rt : rtable.
Variable pre : list tinstr.
Variable h : option Z.

Definition block (r : nat) : list tinstr := cg (r_body (rt_get rt r)) ++ [TI IRet].

Definition inv (s : lstate) : Prop :=
  l_halt s = h /\ (exists extra, l_code s = pre ++ extra) /\
  forall r a, assoc_find (l_addrs s) r = Some a ->
    len pre <= a /\
    forall k t, nth_error (block r) k = Some t -> nth_error (l_code s) (Z.to_nat a + k) = Some t.

Lemma inv_step s : inv s -> inv (link_step rt s).
Proof.
  intros (Hh & (extra & Hc) & Ha). unfold link_step.
  destruct (rev (l_work s)) as [|[callstack r] rest_rev].
  { split; [exact Hh|]. split; [exists extra; exact Hc|]. exact Ha. }
  destruct (assoc_find (l_addrs s) r) as [a0|] eqn:Hf.
  { split; [exact Hh|]. split; [exists extra; exact Hc|]. exact Ha. }
  destruct (expand_callees (callees_of (cg (r_body (rt_get rt r))) 0) callstack (l_lrec s)) as [lr pushes].
  unfold inv. cbn [l_code l_addrs l_halt].
  split; [exact Hh|]. split.
  { exists (extra ++ cg (r_body (rt_get rt r)) ++ [TI IRet]). rewrite Hc, <- app_assoc. reflexivity. }
  intros r1 a1 Hfind. cbn [assoc_find] in Hfind.
  destruct (Nat.eqb r r1) eqn:Er.
  - apply Nat.eqb_eq in Er. subst r1. injection Hfind as <-.
    split.
    { rewrite Hc. unfold len. rewrite app_length. lia. }
    intros k t Hk. unfold len. rewrite Nat2Z.id.
    rewrite nth_error_app2 by lia.
    replace (length (l_code s) + k - length (l_code s))%nat with k by lia.
    exact Hk.
  - destruct (Ha _ _ Hfind) as [Hge Hblk]. split; [exact Hge|].
    intros k t Hk. specialize (Hblk _ _ Hk).
    rewrite nth_error_app1; [exact Hblk|].
    apply nth_error_Some. congruence.
Qed.

Lemma inv_loop : forall fuel s s', inv s -> link_loop fuel rt s = Some s' -> inv s'.
Proof.
  induction fuel as [|f IH]; intros s s' Hinv Hl.
  - cbn [link_loop] in Hl. destruct (l_work s); [|discriminate]. injection Hl as <-. exact Hinv.
  - cbn [link_loop] in Hl. destruct (l_work s) eqn:Hw.
    + injection Hl as <-. exact Hinv.
    + apply (IH _ _ (inv_step _ Hinv) Hl).
Qed.

End Inv.

(* ---- resolved instructions satisfy res_instr ---- *)

Section Resolved.
Variable s : lstate.
Variable prog : list sinstr.
Hypothesis Hres : resolve_code s (l_code s) 0 (len (l_code s)) = OK prog.
Hypothesis Hlrec : l_lrec s = [].

Lemma prog_length : length prog = length (l_code s).
Proof. exact (proj1 (resolve_code_nth _ _ _ _ _ Hres)). Qed.

Lemma resolved_at (p : nat) (t : tinstr) :
  nth_error (l_code s) p = Some t ->
  exists i, fetch prog (Z.of_nat p) = Some i /\
            resolve1 s t (nth_error (l_code s) (S p)) (Z.of_nat p) (len (l_code s)) = OK i.
Proof.
  intros Hp. destruct (proj2 (resolve_code_nth _ _ _ _ _ Hres) _ _ Hp) as [i [Hi1 Hi2]].
  exists i. rewrite fetch_nat. split; [exact Hi1|].
  replace (0 + Z.of_nat p) with (Z.of_nat p) in Hi2 by lia. exact Hi2.
Qed.

Lemma call_placed (p : nat) r prec m :
  nth_error (l_code s) p = Some (TCall r prec m) -> placed s r = true.
Proof.
  intros Hp. destruct (resolved_at _ _ Hp) as [i [_ Hi]].
  unfold placed. cbn [resolve1] in Hi.
  destruct (assoc_find (l_addrs s) r); [reflexivity|discriminate].
Qed.

Lemma res_ok (p : nat) (t : tinstr) :
  nth_error (l_code s) p = Some t ->
  (forall hh, l_halt s = Some hh -> t = TI (IJump 0) -> hh <> Z.of_nat p) ->
  exists i, fetch prog (Z.of_nat p) = Some i /\ res_instr prog (addr_of s) (Z.of_nat p) t i.
Proof.
  intros Hp Hmark. destruct (resolved_at _ _ Hp) as [i [Hf Hi]].
  exists i. split; [exact Hf|].
  destruct t as [x|r prec m|r m]; cbn [res_instr].
  - assert (Hx : resolve1 s (TI x) (nth_error (l_code s) (S p)) (Z.of_nat p) (len (l_code s)) = OK x).
    { destruct x; try reflexivity.
      destruct off; try reflexivity.
      cbn [resolve1]. destruct (l_halt s) as [hh|] eqn:Hh; [|reflexivity].
      destruct (Z.eqb hh (Z.of_nat p)) eqn:E; [|reflexivity].
      exfalso. apply (Hmark hh eq_refl eq_refl). lia. }
    congruence.
  - cbn [resolve1] in Hi. unfold addr_of.
    destruct (assoc_find (l_addrs s) r) as [target|]; [|discriminate].
    rewrite Hlrec in Hi. cbn [existsb] in Hi. cbv zeta in Hi.
    change (N.eqb 0 0) with true in Hi. cbn [andb] in Hi.
    destruct (is_ret (nth_error (l_code s) (S p))) eqn:Hret.
    + injection Hi as <-. right. split; [reflexivity|].
      unfold is_ret in Hret.
      destruct (nth_error (l_code s) (S p)) as [[[]| |]|] eqn:Hn; try discriminate.
      destruct (resolved_at _ _ Hn) as [i' [Hf' Hi']].
      cbn [resolve1] in Hi'. injection Hi' as <-.
      replace (Z.of_nat p + 1) with (Z.of_nat (S p)) by lia. exact Hf'.
    + injection Hi as <-. left. reflexivity.
  - cbn [resolve1] in Hi. unfold addr_of.
    destruct (assoc_find (l_addrs s) r) as [target|]; [|discriminate].
    injection Hi as <-. reflexivity.
Qed.

End Resolved.

(* ---- the layout lemma ---- *)

Theorem link_layout_proof : stmt_link_layout.
Proof.
  intros ucd space rt start_rule sk s prog HL HS Hlrec.
  unfold link_layout in HL. unfold start, bind2 in HS.
  revert HL HS.
  destruct (skip (spacefn_for ucd space rt None) (r_entry (rt_get rt start_rule)) Nn
              {| modes := [N.lor E P]; entry := 0%N |}) as [[sk' st']|w]; [|discriminate].
  cbv zeta.
  destruct (link_loop (S (S (total_callees rt + length rt))) rt _) as [s'|] eqn:Hloop; [|discriminate].
  intros HL HS. injection HL as -> ->.
  set (pre := cg sk ++ [TCall start_rule 0 0; TI (IJump 0)]) in *.
  assert (Hinv : inv rt pre (Some (len (cg sk) + 1)) s).
  { eapply inv_loop; [|exact Hloop].
    split; [reflexivity|]. split; [exists []; cbn [l_code]; rewrite app_nil_r; reflexivity|].
    intros r a Hf. discriminate. }
  destruct Hinv as (Hh & (extra & Hc) & Ha).
  assert (Hlenpre : len pre = len (cg sk) + 2).
  { unfold pre, len. rewrite app_length. cbn [length]. lia. }
  assert (Hpre : forall k, (k < length pre)%nat -> nth_error (l_code s) k = nth_error pre k).
  { intros k Hk. rewrite Hc. apply nth_error_app1. exact Hk. }
  assert (Hlen : len prog = len (l_code s)).
  { unfold len. rewrite (prog_length _ _ HS). reflexivity. }
  assert (Hstart : placed s start_rule = true).
  { apply (call_placed _ _ HS (length (cg sk)) start_rule 0%N 0%N).
    rewrite Hpre by (unfold len in Hlenpre; lia).
    unfold pre. rewrite nth_error_app2 by lia. rewrite Nat.sub_diag. reflexivity. }
  assert (Hrule : forall r, placed s r = true ->
            assoc_find (l_addrs s) r = Some (addr_of s r) /\ len pre <= addr_of s r /\
            forall k t, nth_error (block rt r) k = Some t ->
                        nth_error (l_code s) (Z.to_nat (addr_of s r) + k) = Some t).
  { intros r Hpl. unfold placed in Hpl. unfold addr_of.
    destruct (assoc_find (l_addrs s) r) as [a|] eqn:Hf; [|discriminate].
    destruct (Ha _ _ Hf) as [Hge Hblk]. auto. }
  split; [|split; [exact Hstart|split]].
  - (* prologue *)
    split; [lia|]. intros k t Hk.
    replace (0 + Z.of_nat k) with (Z.of_nat k) by lia.
    destruct (lt_dec k (length (cg sk) + 1)) as [Hlt|Hge].
    + (* inside the whitespace block or the call *)
      assert (Hk' : nth_error (l_code s) k = Some t).
      { rewrite Hpre by (unfold len in Hlenpre; lia). unfold pre.
        destruct (lt_dec k (length (cg sk))) as [Hlt'|Hge'].
        - rewrite nth_error_app1 in Hk |- * by exact Hlt'. exact Hk.
        - rewrite nth_error_app2 in Hk |- * by lia.
          replace (k - length (cg sk))%nat with 0%nat in Hk |- * by lia. exact Hk. }
      apply (res_ok _ _ HS Hlrec _ _ Hk').
      intros hh Hhh _. rewrite Hh in Hhh. injection Hhh as <-. unfold len. lia.
    + (* the marker *)
      rewrite nth_error_app2 in Hk by lia.
      destruct (k - length (cg sk))%nat as [|[|j]] eqn:Ej; [lia| |destruct j; discriminate].
      cbn in Hk. injection Hk as <-.
      assert (Hk' : nth_error (l_code s) k = Some (TI (IJump 0))).
      { rewrite Hpre by (unfold len in Hlenpre; lia). unfold pre.
        rewrite nth_error_app2 by lia. rewrite Ej. reflexivity. }
      destruct (resolved_at _ _ HS _ _ Hk') as [i [Hf Hi]].
      exists i. split; [exact Hf|]. cbn [res_instr].
      cbn [resolve1] in Hi. rewrite Hh in Hi.
      replace (len (cg sk) + 1 =? Z.of_nat k) with true in Hi by (unfold len; lia).
      injection Hi as <-. f_equal. rewrite Hlen. unfold len. lia.
  - (* rule blocks *)
    intros r Hpl. destruct (Hrule _ Hpl) as (_ & Hge & Hblk).
    assert (H0 : 0 <= addr_of s r) by (unfold len in Hge; lia).
    split; [exact H0|]. intros k t Hk.
    specialize (Hblk _ _ Hk).
    replace (addr_of s r + Z.of_nat k) with (Z.of_nat (Z.to_nat (addr_of s r) + k)) by lia.
    apply (res_ok _ _ HS Hlrec _ _ Hblk).
    intros hh Hhh _. rewrite Hh in Hhh. injection Hhh as <-. lia.
  - (* closure *)
    intros r r' prec mode Hpl Hin. destruct (Hrule _ Hpl) as (_ & _ & Hblk).
    destruct (In_nth_error _ _ Hin) as [k Hk].
    apply (call_placed _ _ HS (Z.to_nat (addr_of s r) + k) r' prec mode).
    apply Hblk. unfold block. rewrite nth_error_app1; [exact Hk|].
    apply nth_error_Some. congruence.
Qed.

Print Assumptions link_layout_proof.
