(* Definitions shared by the block theorem and its corollaries: where code sits in a linked program,
   canonical machine states at block boundaries, and "runs to a final result". *)
From Coq Require Import NArith ZArith List Bool.
From Lug Require Import Gen.UcdTables Ucd.Lookup Ucd.RuneSet VM.Instr Lang.Elab Lang.Codegen VM.Machine Spec.Peg.
Import ListNotations.

Section Defs.
Variable ucd : ucd_table.
Variable cb : callbacks.
Variable prog : list sinstr.          (* the linked program *)
Variable addr : nat -> Z.             (* entry address of each rule *)

(* how a template instruction at address [a] may appear in the linked program: a call to a rule that
   is not left-recursive is `call` with precedence 0, or `jump` when the next instruction is `ret`
   (lug's tail-call rewriting in start()) *)
Definition res_instr (a : Z) (t : tinstr) (i : sinstr) : Prop :=
  match t with
  | TI x => i = x
  | TCall r _ _ => i = ICall (addr r - (a + 1)) 0 \/ (i = IJump (addr r - (a + 1)) /\ fetch prog (a + 1) = Some IRet)
  | TRecRule r _ => i = IRecoverPush (addr r - (a + 1))
  end.

Definition at_ (a : Z) (code : list tinstr) : Prop :=
  (0 <= a)%Z /\ forall k t, nth_error code k = Some t ->
                 exists i, fetch prog (a + Z.of_nat k) = Some i /\ res_instr (a + Z.of_nat k) t i.

(* state at a block boundary: everything from [b] except pc, sr, mr, frames, responses (rc = their
   number) and call depth *)
Definition core (b : mstate) (a : Z) (i m : N) (k : list frame) (r : list response) (d : N) : mstate :=
  upd_pc a (upd_sr i (upd_mr m (upd_frames k (upd_resp r (upd_rc (lenN r) (upd_cd d b)))))).

(* state in failure mode with one backtrack point to take *)
Definition failing (b : mstate) (a : Z) (i m : N) (k : list frame) (r : list response) (c d : N) : mstate :=
  upd_fmode 1 (upd_pc a (upd_sr i (upd_mr m (upd_frames k (upd_resp r (upd_rc c (upd_cd d b))))))).

(* the part of the state a PEG block never touches *)
Definition base_ok (inp : list N) (b : mstate) : Prop :=
  fmode b = 0%N /\ cutf b = false /\ accf b = false /\ pending b = [] /\ alive b = false /\ interactive b = false /\ buf b = inp.

Definition final (res : result) : Prop := match res with Running _ => False | _ => True end.
Definition runs_to (s : mstate) (res : result) : Prop := exists n, run ucd cb prog n s = res /\ final res.

End Defs.

(* the frame a `ret` would pop is a call frame *)
Definition ret_safe (k : list frame) : Prop :=
  match k with FCall _ :: _ | FLr _ _ _ _ _ _ _ :: _ => True | _ => False end.

(* every code point has a record (C14_indices_in_range establishes it for the shipped tables) *)
Definition ucd_total (ucd : ucd_table) : Prop := forall r, query ucd r <> None.

(* Statement of the block theorem (CPS form, so that tail-called rules need no special treatment):
   if the reference semantics derives an outcome for [p] at offset [i], then from the state at the
   start of the code of [p] the machine behaves as it would from
   - the end of the block with sr advanced, the trace appended to the responses and mr raised to the
     farthest failure offset, the frame stack, call depth and everything else as before, or
   - failure mode with the frame stack exactly as at entry, the responses a prefix-extension of the
     ones at entry and mr raised to the farthest failure offset.
   Side condition [ret_safe]: when the block is immediately followed by a `ret` (so that a trailing call
   may have been rewritten into a jump), the frame that `ret` pops is a call frame -- always the case
   in a linked grammar, where rule bodies and repeat subroutines only ever run under a call frame. *)
Definition stmt_block : Prop :=
  forall (ucd : ucd_table) (cb : callbacks) (prog : list sinstr) (addr : nat -> Z) (inp : list N) (G : nat -> option pexp),
    ucd_total ucd ->
    (forall r body, G r = Some body -> frag body = true /\ at_ prog addr (addr r) (cg body ++ [TI IRet])) ->
    forall p i o, peg ucd inp G p i o -> frag p = true ->
    forall b a k m0 r0 d, base_ok inp b -> at_ prog addr a (cg p) ->
    (fetch prog (a + len (cg p)) = Some IRet -> ret_safe k) ->
    match o with
    | Succ j t f =>
        exists r', kinds r' = t /\
          forall res, runs_to ucd cb prog (core b (a + len (cg p)) j (N.max m0 f) k (r0 ++ r') d) res ->
                      runs_to ucd cb prog (core b a i m0 k r0 d) res
    | Fail f =>
        exists junk a' i' c',
          forall res, runs_to ucd cb prog (failing b a' i' (N.max m0 f) k (r0 ++ junk) c' d) res ->
                      runs_to ucd cb prog (core b a i m0 k r0 d) res
    end.
