(* Lemma kit for the block theorem: code placement, "runs to", one lemma per instruction kind on the
   canonical states [core] / [failing], and the terminal matchers against [tmatch]. *)
From Coq Require Import NArith ZArith List Bool Lia ZifyBool ZifyN ZifyNat.
From Lug Require Import Gen.Consts Gen.UcdTables Gen.Utf8Tables Utf8.Utf8Model Ucd.Lookup Ucd.RuneSet VM.Instr Lang.Elab Lang.Codegen VM.Machine Spec.Peg Proofs.BlockDefs.
Import ListNotations.
Local Open Scope Z_scope.

(* ------------------------------------------------------------------ lengths *)
Lemma len_cons {A} (x : A) c : len (x :: c) = 1 + len c.
Proof. unfold len; cbn [length]; lia. Qed.
Lemma len_app {A} (c d : list A) : len (c ++ d) = len c + len d.
Proof. unfold len; rewrite app_length; lia. Qed.
Lemma len_nil {A} : len (@nil A) = 0.
Proof. reflexivity. Qed.
Lemma len_nonneg {A} (c : list A) : 0 <= len c.
Proof. unfold len; lia. Qed.

Lemma len_rep_calls n fa : len (rep_calls n fa) = Z.of_nat n.
Proof. revert fa; induction n as [|n IH]; intros fa; cbn [rep_calls]; [reflexivity|]. rewrite len_cons, IH. lia. Qed.
Lemma len_rep_opts n x y : len (rep_opts n x y) = 3 * Z.of_nat n.
Proof. revert x; induction n as [|n IH]; intros x; cbn [rep_opts]; [reflexivity|]. rewrite !len_cons, IH. lia. Qed.

Lemma lenN_app {A} (l l' : list A) : lenN (l ++ l') = (lenN l + lenN l')%N.
Proof. unfold lenN. rewrite app_length. lia. Qed.

Lemma firstnN_app_len {A} (l l' : list A) : firstnN (lenN l) (l ++ l') = l.
Proof.
  unfold firstnN, lenN. rewrite Nat2N.id, firstn_app, Nat.sub_diag, firstn_all. cbn [firstn]. apply app_nil_r.
Qed.

Lemma kinds_app l l' : kinds (l ++ l') = kinds l ++ kinds l'.
Proof. apply map_app. Qed.

(* ------------------------------------------------------------------ code placement *)
Section Place.
Variable prog : list sinstr.
Variable addr : nat -> Z.
Notation at_ := (at_ prog addr).

Lemma at_app_l a c1 c2 : at_ a (c1 ++ c2) -> at_ a c1.
Proof.
  intros [Ha H]. split; [exact Ha|]. intros k t Hk. apply H.
  rewrite nth_error_app1; [exact Hk|]. apply nth_error_Some. congruence.
Qed.

Lemma at_app_r a c1 c2 : at_ a (c1 ++ c2) -> at_ (a + len c1) c2.
Proof.
  intros [Ha H]. split; [pose proof (len_nonneg c1); lia|]. intros k t Hk.
  specialize (H (length c1 + k)%nat t).
  rewrite nth_error_app2 in H by lia. replace (length c1 + k - length c1)%nat with k in H by lia. specialize (H Hk).
  replace (a + len c1 + Z.of_nat k) with (a + Z.of_nat (length c1 + k)) by (unfold len; lia). exact H.
Qed.

Lemma at_cons a t c : at_ a (t :: c) -> at_ (a + 1) c.
Proof. intros H. apply (at_app_r a [t] c) in H. exact H. Qed.

Lemma at_head a t c : at_ a (t :: c) -> exists i, fetch prog a = Some i /\ res_instr prog addr a t i.
Proof. intros [Ha H]. specialize (H O t eq_refl). cbn [Z.of_nat] in H. rewrite Z.add_0_r in H. exact H. Qed.

Lemma at_fetch_ti a i c : at_ a (TI i :: c) -> fetch prog a = Some i.
Proof. intros H. destruct (at_head _ _ _ H) as (x & Hf & Hr). cbn in Hr. congruence. Qed.

Lemma at_nonneg a c : at_ a c -> 0 <= a.
Proof. intros [H _]; exact H. Qed.

End Place.

(* ------------------------------------------------------------------ runs_to *)
Section Runs.
Variable ucd : ucd_table.
Variable cb : callbacks.
Variable prog : list sinstr.
Notation step := (step ucd cb prog).
Notation runs_to := (runs_to ucd cb prog).

Lemma runs_step s s' res : step s = Running s' -> runs_to s' res -> runs_to s res.
Proof. intros H (n & Hr & Hf). exists (S n). cbn [run]. rewrite H. split; assumption. Qed.

Lemma runs_same_step s s' res : step s = step s' -> runs_to s res -> runs_to s' res.
Proof.
  intros H (n & Hr & Hf). destruct n as [|n].
  - cbn [run] in Hr. subst res. destruct Hf.
  - exists (S n). cbn [run] in *. rewrite <- H. split; assumption.
Qed.

End Runs.

(* ------------------------------------------------------------------ instructions on canonical states *)
Ltac st := cbn [core failing upd_pc upd_sr upd_mr upd_rc upd_cd upd_ci upd_ri upd_eh upd_rh upd_rr upd_frames upd_resp
                upd_src upd_conds upd_syms upd_cache upd_success upd_fmode add_log
                pc sr mr rc cd cic cutf accf rid rinh eh rh rr frames resp buf pending alive interactive conds syms
                foldcache success fmode log].

Lemma aod_id s : cutf s = false -> accf s = false -> accept_or_drain_if_deferred s = Running s.
Proof. intros H1 H2. unfold accept_or_drain_if_deferred. rewrite H1, H2. cbn [orb]. destruct (cic s =? 0)%N; reflexivity. Qed.

Lemma pop_after_app s r0 junk :
  resp s = r0 ++ junk -> s = upd_resp (resp s) s -> pop_responses_after (lenN r0) s = upd_resp r0 s.
Proof.
  intros Hr He. unfold pop_responses_after. rewrite Hr. destruct (lenN r0 <? lenN (r0 ++ junk))%N eqn:E.
  - rewrite firstnN_app_len. reflexivity.
  - rewrite lenN_app in E.
    assert (junk = []) as -> by (destruct junk; [reflexivity|unfold lenN in E; cbn [length] in E; lia]).
    rewrite app_nil_r in Hr. transitivity (upd_resp (resp s) s); [exact He|]. rewrite Hr. reflexivity.
Qed.

Section Steps.
Variable ucd : ucd_table.
Variable cb : callbacks.
Variable prog : list sinstr.
Notation step := (step ucd cb prog).
Notation exec := (exec ucd cb).

Lemma step_failing s : (0 < fmode s)%N -> step s = fail_step cb s.
Proof. intros H. unfold Machine.step. replace (0 <? fmode s)%N with true by lia. reflexivity. Qed.

Lemma fail_step_back1 s x c rd ri p rest :
  frames s = FBack (Some x) c rd ri p :: rest -> fmode s = 1%N ->
  fail_step cb s = accept_or_drain_if_deferred (pop_responses_after c
                     (upd_fmode 0 (upd_frames rest (upd_pc p (upd_ri rd ri (upd_rc c (upd_sr x s))))))).
Proof.
  intros Hfr Hfm. unfold fail_step, fail_one. rewrite Hfr. cbv beta iota zeta.
  change (BACKTRACK <=? ACCEPT)%N with false; change (ACCEPT =? HALT)%N with false; change (ACCEPT <? ACCEPT)%N with false.
  cbv iota. st. rewrite Hfm. change (1 - 1 =? 0)%N with true. cbv iota. reflexivity.
Qed.

Lemma step_fail_own b a' i' m x rd ri p k r0 junk c' d :
  fmode b = 0%N -> cutf b = false -> accf b = false ->
  step (failing b a' i' m (FBack (Some x) (lenN r0) rd ri p :: k) (r0 ++ junk) c' d) =
  Running (core (upd_ri rd ri b) p x m k r0 d).
Proof.
  intros Hf Hc Ha.
  rewrite step_failing by (st; lia).
  rewrite (fail_step_back1 _ x (lenN r0) rd ri p k) by reflexivity.
  rewrite (pop_after_app _ r0 junk) by reflexivity.
  rewrite aod_id by assumption.
  replace (upd_fmode 0) with (upd_fmode (fmode b)) by (rewrite Hf; reflexivity).
  reflexivity.
Qed.

Lemma step_core b a i m k r d ins :
  fmode b = 0%N -> fetch prog a = Some ins ->
  step (core b a i m k r d) = exec ins (core b (a + 1) i m k r d).
Proof.
  intros Hf Hfe. unfold Machine.step. change (fmode (core b a i m k r d)) with (fmode b). rewrite Hf.
  change (0 <? 0)%N with false. cbv iota. change (pc (core b a i m k r d)) with a. rewrite Hfe. reflexivity.
Qed.

Lemma exec_jump b a i m k r d off :
  exec (IJump off) (core b a i m k r d) = Running (core b (a + off) i m k r d).
Proof. reflexivity. Qed.

Lemma exec_choice b a i m k r d off :
  exec (IChoice off false) (core b a i m k r d) =
  Running (core b a i m (FBack (Some i) (lenN r) (rid b) (rinh b) (a + off) :: k) r d).
Proof. reflexivity. Qed.

Lemma exec_choice_pred b a i m k r d off :
  exec (IChoice off true) (core b a i m k r d) =
  Running (core (upd_ri (lenN (FBack (Some i) (lenN r) (rid b) (rinh b) (a + off) :: k)) true b) a i m
                (FBack (Some i) (lenN r) (rid b) (rinh b) (a + off) :: k) r d).
Proof. reflexivity. Qed.

Lemma exec_commit b a i m f k r d off :
  exec (ICommit off) (core b a i m (f :: k) r d) = Running (core b (a + off) i m k r d).
Proof. reflexivity. Qed.

Lemma exec_commit_partial b a i m x c rd ri p k r d off :
  exec (ICommitPartial off) (core b a i m (FBack x c rd ri p :: k) r d) =
  Running (core b (a + off) i m (FBack (Some i) (lenN r) rd ri p :: k) r d).
Proof. reflexivity. Qed.

Lemma exec_commit_back b a i m x c rd ri p k r d off :
  exec (ICommitBack off) (core b a i m (FBack (Some x) c rd ri p :: k) r d) =
  Running (core (upd_ri rd ri b) (a + off) x m k r d).
Proof. reflexivity. Qed.

Lemma exec_fail1 b a i m k r d :
  exec (IFail 1) (core b a i m k r d) = Running (failing b a i (N.max m i) k r (lenN r) d).
Proof. reflexivity. Qed.

Lemma exec_fail2 b a i m k r d :
  exec (IFail 2) (core b a i m k r d) = Running (upd_fmode 2 (core b a i (N.max m i) k r d)).
Proof. reflexivity. Qed.

Lemma fail_step_back2 s x c rd ri p rest :
  frames s = FBack (Some x) c rd ri p :: rest -> fmode s = 2%N ->
  fail_step cb s = Running (upd_fmode 1 (upd_frames rest (upd_pc p (upd_ri rd ri (upd_rc c (upd_sr x s)))))).
Proof.
  intros Hfr Hfm. unfold fail_step, fail_one. rewrite Hfr. cbv beta iota zeta.
  change (BACKTRACK <=? ACCEPT)%N with false; change (ACCEPT =? HALT)%N with false; change (ACCEPT <? ACCEPT)%N with false.
  cbv iota. st. rewrite Hfm. change (2 - 1 =? 0)%N with false. cbv iota. reflexivity.
Qed.

Lemma step_fail2_own b a j m x c rd ri p k r d :
  step (upd_fmode 2 (core b a j m (FBack (Some x) c rd ri p :: k) r d)) =
  Running (failing (upd_ri rd ri b) p x m k r c d).
Proof.
  rewrite step_failing by (st; lia).
  rewrite (fail_step_back2 _ x c rd ri p k) by reflexivity. reflexivity.
Qed.

Lemma fail_step_call s p rest :
  frames s = FCall p :: rest -> fail_step cb s = Running (upd_frames rest (upd_cd (cd s - 1) s)).
Proof.
  intros Hfr. unfold fail_step, fail_one. rewrite Hfr. cbv beta iota zeta.
  change (BACKTRACK <=? BACKTRACK)%N with true. reflexivity.
Qed.

Lemma step_fail_call b a' i' m p k r c d :
  step (failing b a' i' m (FCall p :: k) r c (d + 1)) = Running (failing b a' i' m k r c d).
Proof.
  rewrite step_failing by (st; lia).
  rewrite (fail_step_call _ p k) by reflexivity. st. rewrite N.add_sub. reflexivity.
Qed.

Lemma fail_step_capture s x rest :
  frames s = FCapture x :: rest -> fail_step cb s = Running (upd_frames rest (upd_ci (cic s - 1) (cutf s) (accf s) s)).
Proof.
  intros Hfr. unfold fail_step, fail_one. rewrite Hfr. cbv beta iota zeta.
  change (BACKTRACK <=? BACKTRACK)%N with true. reflexivity.
Qed.

Lemma step_fail_capture b a' i' m x k r c d :
  step (failing (upd_ci (cic b + 1) (cutf b) (accf b) b) a' i' m (FCapture x :: k) r c d) =
  Running (failing b a' i' m k r c d).
Proof.
  rewrite step_failing by (st; lia).
  rewrite (fail_step_capture _ x k) by reflexivity. st. rewrite N.add_sub. reflexivity.
Qed.

Lemma exec_call b a i m k r d off :
  exec (ICall off 0) (core b a i m k r d) = Running (core b (a + off) i m (FCall a :: k) r (d + 1)).
Proof. reflexivity. Qed.

Lemma do_ret_call s p rest :
  frames s = FCall p :: rest -> do_ret cb s = Running (upd_frames rest (upd_pc p (upd_cd (cd s - 1) s))).
Proof. intros Hfr. unfold do_ret. rewrite Hfr. reflexivity. Qed.

Lemma exec_ret b a i m p k r d :
  exec IRet (core b a i m (FCall p :: k) r (d + 1)) = Running (core b p i m k r d).
Proof.
  change (exec IRet (core b a i m (FCall p :: k) r (d + 1))) with (do_ret cb (core b a i m (FCall p :: k) r (d + 1))).
  rewrite (do_ret_call _ p k) by reflexivity. st. rewrite N.add_sub. reflexivity.
Qed.

Lemma exec_action b a i m k r d id :
  exec (IAction id) (core b a i m k r d) =
  Running (core b a i m k (r ++ [{| r_depth := d; r_kind := RAct id |}]) d).
Proof. reflexivity. Qed.

Lemma exec_capture_start b a i m k r d :
  exec ICaptureStart (core b a i m k r d) =
  Running (core (upd_ci (cic b + 1) (cutf b) (accf b) b) a i m (FCapture i :: k) r d).
Proof. reflexivity. Qed.

Lemma exec_capture_end_gen s c sr0 rest :
  frames s = FCapture sr0 :: rest -> (sr0 <= sr s)%N -> cutf s = false -> accf s = false ->
  exec (ICaptureEnd c) s =
  Running (push_response {| r_depth := cd s; r_kind := RCap c sr0 (sr s - sr0) |}
             (upd_ci (cic s - 1) (cutf s) (accf s) (upd_frames rest s))).
Proof.
  intros Hfr Hle Hc Ha. unfold Machine.exec. rewrite Hfr. cbv beta iota zeta. st.
  replace (sr s <? sr0)%N with false by lia. rewrite aod_id by (st; assumption). reflexivity.
Qed.

Lemma exec_capture_end b a i j m k r d c :
  cutf b = false -> accf b = false -> (i <= j)%N ->
  exec (ICaptureEnd c) (core (upd_ci (cic b + 1) (cutf b) (accf b) b) a j m (FCapture i :: k) r d) =
  Running (core b a j m k (r ++ [{| r_depth := d; r_kind := RCap c i (j - i) |}]) d).
Proof.
  intros Hc Ha Hle.
  rewrite (exec_capture_end_gen _ c i k) by (st; first [reflexivity | assumption]).
  st. rewrite N.add_sub. reflexivity.
Qed.

(* a `ret` that pops a call frame does not care where it sits *)
Lemma do_ret_pc_indep s1 s2 : upd_pc 0 s1 = upd_pc 0 s2 -> ret_safe (frames s1) -> do_ret cb s1 = do_ret cb s2.
Proof.
  destruct s1, s2. unfold upd_pc; st. intros H; injection H; intros; subst.
  destruct frames0 as [|f fs]; [contradiction|]. destruct f; try contradiction.
  - reflexivity.
  - unfold do_ret, restore_responses_after, pop_responses_after; st.
    destruct sra; repeat (match goal with |- context [if ?c then _ else _] => destruct c end); reflexivity.
Qed.

Lemma exec_ret_any_pc b a1 a2 i m k r d :
  ret_safe k -> exec IRet (core b a1 i m k r d) = exec IRet (core b a2 i m k r d).
Proof. intros Hk. apply do_ret_pc_indep; [reflexivity|exact Hk]. Qed.
End Steps.

(* ------------------------------------------------------------------ terminals *)
Lemma decode_loop_ge l : forall rune st c, (c <= fst (decode_loop l rune st c))%nat.
Proof.
  induction l as [|b l IH]; intros rune st c; cbn [decode_loop]; [cbn [fst]; lia|].
  destruct (decode_rune_octet rune b st) as [st' rune'].
  destruct (st' =? st_accept)%N; [cbn [fst]; lia|].
  destruct (st' =? st_reject)%N; [destruct (st =? st_accept)%N; cbn [fst]; lia|].
  specialize (IH rune' st' (S c)). lia.
Qed.

Lemma decode_rune_pos0 c l : fst (decode_rune (c :: l)) <> O.
Proof.
  unfold decode_rune. cbn [decode_loop].
  destruct (decode_rune_octet 0 c st_accept) as [st' rune'].
  destruct (st' =? st_accept)%N; [cbn [fst]; lia|].
  destruct (st' =? st_reject)%N; [rewrite N.eqb_refl; cbn [fst]; lia|].
  pose proof (decode_loop_ge l rune' st' 1%nat). lia.
Qed.
Lemma decode_rune_pos c l : fst (decode_rune_w (c :: l)) <> O.
Proof. unfold decode_rune_w, rune_window. cbn [firstn]. apply decode_rune_pos0. Qed.

Section Match.
Variable ucd : ucd_table.
Variable cb : callbacks.
Variable prog : list sinstr.
Variable inp : list N.
Hypothesis Htot : ucd_total ucd.
Notation step := (step ucd cb prog).
Notation exec := (exec ucd cb).
Notation rest := (rest inp).
Notation tmatch := (tmatch ucd inp).

Definition src_ok (s : mstate) : Prop := pending s = [] /\ alive s = false /\ interactive s = false /\ buf s = inp.

Lemma avail_ok s i n dd : src_ok s -> available i n dd s = ((i <? lenN inp)%N && (n <=? lenN inp - i)%N, s).
Proof.
  intros (Hp & Hal & Hin & Hb). unfold available. rewrite Hp. cbn [length]. cbn [available_loop]. rewrite Hb, Hin.
  rewrite andb_false_r. unfold fill_buffer. rewrite Hal. cbn [negb snd].
  destruct (i <? lenN inp)%N eqn:Ei; cbn [andb]; [|reflexivity].
  destruct (N.max n dd <=? lenN inp - i)%N eqn:Em.
  - replace (n <=? lenN inp - i)%N with true by lia. reflexivity.
  - destruct (n <=? lenN inp - i)%N; reflexivity.
Qed.

Lemma rest_nil i : (lenN inp <= i)%N -> rest i = [].
Proof. intros H. unfold Peg.rest, skipnN. apply skipn_all2. unfold lenN in H. lia. Qed.

Lemma rest_cons i : (i < lenN inp)%N -> exists c l, rest i = c :: l.
Proof.
  intros H. unfold Peg.rest, skipnN. destruct (skipn (N.to_nat i) inp) as [|c l] eqn:E; [|eauto].
  apply (f_equal (@length N)) in E. rewrite skipn_length in E. unfold lenN in H. cbn [length] in E. lia.
Qed.

Lemma subject_rest s : src_ok s -> subject_from (sr s) s = rest (sr s).
Proof. intros (_ & _ & _ & Hb). unfold subject_from, Peg.rest. rewrite Hb. reflexivity. Qed.

Lemma exec_term ins s : is_terminal ins = true -> src_ok s ->
  exec ins s = match tmatch ins (sr s) with Some j => Running (upd_sr j s) | None => start_fail 1 s end.
Proof.
  intros Ht Hs. pose proof Hs as (Hp & Hal & Hin & Hb).
  destruct ins; try discriminate Ht; unfold Machine.exec, Peg.tmatch.
  - (* any *) unfold m_any. rewrite Hin, andb_false_r. cbv iota. rewrite avail_ok by exact Hs. cbv iota beta.
    rewrite subject_rest by exact Hs.
    destruct (sr s <? lenN inp)%N eqn:E.
    + replace (1 <=? lenN inp - sr s)%N with true by lia. cbn [andb]. destruct (rest_cons (sr s)) as (c & l & ->); [lia|]. reflexivity.
    + cbn [andb]. rewrite rest_nil by lia. reflexivity.
  - (* eol *) unfold m_eol. rewrite avail_ok by exact Hs. cbv iota beta. rewrite subject_rest by exact Hs.
    destruct (sr s <? lenN inp)%N eqn:E.
    + replace (1 <=? lenN inp - sr s)%N with true by lia. cbn [andb]. destruct (rest_cons (sr s)) as (c & l & ->); [lia|].
      cbv beta iota zeta. destruct (utf8_match_eol (c :: l) =? 0)%N; reflexivity.
    + cbn [andb]. rewrite rest_nil by lia. reflexivity.
  - (* octet *) unfold m_octet. rewrite avail_ok by exact Hs. cbv iota beta. rewrite subject_rest by exact Hs.
    destruct (sr s <? lenN inp)%N eqn:E.
    + replace (1 <=? lenN inp - sr s)%N with true by lia. cbn [andb]. destruct (rest_cons (sr s)) as (c & l & ->); [lia|].
      cbv beta iota. destruct (c =? b)%N; reflexivity.
    + cbn [andb]. rewrite rest_nil by lia. reflexivity.
  - (* set *) unfold m_rune. rewrite avail_ok by exact Hs. cbv iota beta. rewrite subject_rest by exact Hs.
    destruct (sr s <? lenN inp)%N eqn:E.
    + replace (1 <=? lenN inp - sr s)%N with true by lia. cbn [andb]. destruct (rest_cons (sr s)) as (c & l & ->); [lia|].
      pose proof (decode_rune_pos c l) as Hpos. destruct (decode_rune_w (c :: l)) as [n rune]. cbn [fst] in Hpos.
      destruct n as [|n]; [congruence|]. cbv beta iota. destruct (contains s0 rune); reflexivity.
    + cbn [andb]. rewrite rest_nil by lia. reflexivity.
  - (* class *) unfold m_rune. rewrite avail_ok by exact Hs. cbv iota beta. rewrite subject_rest by exact Hs.
    destruct (sr s <? lenN inp)%N eqn:E.
    + replace (1 <=? lenN inp - sr s)%N with true by lia. cbn [andb]. destruct (rest_cons (sr s)) as (c & l & ->); [lia|].
      pose proof (decode_rune_pos c l) as Hpos. destruct (decode_rune_w (c :: l)) as [n rune]. cbn [fst] in Hpos.
      destruct n as [|n]; [congruence|]. cbv beta iota.
      destruct (class_test ucd k penum mask rune) as [[|]|] eqn:Ec; try reflexivity.
      exfalso. unfold class_test in Ec. destruct (query ucd rune) eqn:Q; [discriminate|]. exact (Htot rune Q).
    + cbn [andb]. rewrite rest_nil by lia. reflexivity.
  - (* match *) unfold m_seq, m_seq_at. destruct (lenN s0 =? 0)%N; [reflexivity|].
    rewrite avail_ok by exact Hs. cbv iota beta.
    destruct ((sr s <? lenN inp) && (lenN s0 <=? lenN inp - sr s))%N; [|reflexivity].
    unfold compare_at. rewrite subject_rest by exact Hs. cbn [andb].
    destruct (list_eqb (firstnN (lenN s0) (rest (sr s))) s0); reflexivity.
Qed.

Lemma src_ok_core b a i m k r d : base_ok inp b -> src_ok (core b a i m k r d).
Proof. intros (_ & _ & _ & Hp & Ha & Hi & Hb). repeat split; assumption. Qed.

Lemma step_term_ok b a i m k r d ins j :
  base_ok inp b -> fetch prog a = Some ins -> is_terminal ins = true -> tmatch ins i = Some j ->
  step (core b a i m k r d) = Running (core b (a + 1) j m k r d).
Proof.
  intros Hb Hf Ht Hm. rewrite (step_core ucd cb prog b a i m k r d ins) by (try apply Hb; exact Hf).
  rewrite exec_term by (try apply src_ok_core; assumption).
  change (sr (core b (a + 1) i m k r d)) with i. rewrite Hm. reflexivity.
Qed.

Lemma step_term_ko b a i m k r d ins :
  base_ok inp b -> fetch prog a = Some ins -> is_terminal ins = true -> tmatch ins i = None ->
  step (core b a i m k r d) = Running (failing b (a + 1) i (N.max m i) k r (lenN r) d).
Proof.
  intros Hb Hf Ht Hm. rewrite (step_core ucd cb prog b a i m k r d ins) by (try apply Hb; exact Hf).
  rewrite exec_term by (try apply src_ok_core; assumption).
  change (sr (core b (a + 1) i m k r d)) with i. rewrite Hm. reflexivity.
Qed.

Lemma tmatch_mono ins i j : tmatch ins i = Some j -> (i <= j)%N.
Proof.
  destruct ins; try discriminate; unfold Peg.tmatch.
  - destruct (rest i); [discriminate|]. intros [= <-]. lia.
  - destruct (rest i) as [|c l]; [discriminate|]. cbv beta iota zeta. destruct (utf8_match_eol (c :: l) =? 0)%N; [discriminate|]. intros [= <-]. lia.
  - destruct (rest i) as [|c l]; [discriminate|]. destruct (c =? b)%N; [|discriminate]. intros [= <-]. lia.
  - destruct (rest i) as [|c l]; [discriminate|]. destruct (decode_rune_w (c :: l)) as [n rune]. destruct (contains s rune); [|discriminate]. intros [= <-]. lia.
  - destruct (rest i) as [|c l]; [discriminate|]. destruct (decode_rune_w (c :: l)) as [n rune].
    destruct (class_test ucd k penum mask rune) as [[|]|]; try discriminate. intros [= <-]. lia.
  - destruct (lenN s =? 0)%N; [intros [= <-]; lia|].
    destruct ((i <? lenN inp)%N && (lenN s <=? lenN inp - i)%N && list_eqb (firstnN (lenN s) (rest i)) s); [|discriminate]. intros [= <-]. lia.
Qed.
End Match.

Scheme peg_mind := Minimality for peg Sort Prop
  with peg_rep_mind := Minimality for peg_rep Sort Prop.
Combined Scheme peg_mutind from peg_mind, peg_rep_mind.

Definition mono_out (i : N) (o : out) : Prop := match o with Succ j _ _ => (i <= j)%N | Fail _ => True end.
Lemma peg_mono (ucd : ucd_table) (inp : list N) (G : nat -> option pexp) :
  (forall p i o, peg ucd inp G p i o -> mono_out i o) /\
  (forall n k p i o, peg_rep ucd inp G n k p i o -> mono_out i o).
Proof.
  apply peg_mutind; unfold mono_out; intros; try exact I; try assumption; try lia.
  - eapply tmatch_mono; eassumption.
  - destruct o; [lia|exact I].
Qed.
