(* The block theorem over the semantics with environment (statement: Proofs/BlockEnvDefs.v,
   [stmt_block_env]).  Same proof as Proofs/Blocks.v with the symbol table threaded: the canonical
   states are [core (upd_syms sy b) ...] (= [coreE b ... sy]). *)
From Coq Require Import NArith ZArith List Bool Lia ZifyBool ZifyN ZifyNat.
From Lug Require Import Gen.Consts Gen.UcdTables Utf8.Utf8Model Ucd.Lookup Ucd.RuneSet VM.Instr Lang.Elab Lang.Codegen
  VM.Machine Spec.Peg Spec.PegEnv Proofs.BlockDefs Proofs.BlockLemmas Proofs.BlockEnvDefs Proofs.BlockEnvLemmas.
Import ListNotations.
Local Open Scope Z_scope.

(* equality of canonical states, componentwise *)
Ltac seq :=
  rewrite ?len_cons, ?len_app, ?len_nil, ?len_rep_calls, ?len_rep_opts;
  first [ reflexivity | lia | (rewrite ?app_nil_r, <- ?app_assoc; reflexivity)
        | match goal with
          | |- core _ _ _ _ _ _ _ = core _ _ _ _ _ _ _ => f_equal; seq
          | |- failing _ _ _ _ _ _ _ _ = failing _ _ _ _ _ _ _ _ => f_equal; seq
          | |- upd_fmode _ _ = upd_fmode _ _ => f_equal; seq
          | |- (_ :: _) = (_ :: _) => f_equal; seq
          | |- FBack _ _ _ _ _ = FBack _ _ _ _ _ => f_equal; seq
          | |- FCall _ = FCall _ => f_equal; seq
          | |- Some _ = Some _ => f_equal; seq
          | |- lenN _ = lenN _ => f_equal; seq
          end ].

Section Block.
Variable ucd : ucd_table.
Variable cb : callbacks.
Variable prog : list sinstr.
Variable addr : nat -> Z.
Variable inp : list N.
Variable G : nat -> option pexp.
Hypothesis Htot : ucd_total ucd.
Hypothesis Hrules : forall r body, G r = Some body -> fragE body = true /\ at_ prog addr (addr r) (cg body ++ [TI IRet]).

Notation at_ := (at_ prog addr).
Notation step := (step ucd cb prog).
Notation exec := (exec ucd cb).
Notation runs_to := (runs_to ucd cb prog).
Notation base_ok := (base_ok inp).
Notation base_okE := (base_okE inp).
Notation pegE := (pegE ucd inp G).
Notation pegE_rep := (pegE_rep ucd inp G).

(* ------------------------------------------------------------------ small kit *)
Lemma runs_eq s s' res : runs_to s res -> s = s' -> runs_to s' res.
Proof. intros H <-. exact H. Qed.

Lemma run_instr b a i m k r d ins s' res :
  base_ok b -> fetch prog a = Some ins -> exec ins (core b (a + 1) i m k r d) = Running s' ->
  runs_to s' res -> runs_to (core b a i m k r d) res.
Proof.
  intros Hb Hf He H. eapply runs_step; [|exact H].
  rewrite (step_core ucd cb prog b a i m k r d ins) by (try apply Hb; exact Hf). exact He.
Qed.

Lemma bok sy b c : base_okE c b -> base_ok (upd_syms sy b).
Proof. intros [H _]. exact H. Qed.

Lemma bokE_ri c b x y : base_okE c b -> base_okE c (upd_ri x y b).
Proof. intros H. exact H. Qed.
Lemma bokE_ci c b x : base_okE c b -> base_okE c (upd_ci x (cutf b) (accf b) b).
Proof. intros H. exact H. Qed.

Definition tail_ok (k : list frame) (e : Z) : Prop := fetch prog e = Some IRet -> ret_safe k.

Lemma tail_ok_eq k e e' : e = e' -> tail_ok k e -> tail_ok k e'.
Proof. intros <- H. exact H. Qed.

Lemma tail_ti k e x c : at_ e (TI x :: c) -> x <> IRet -> tail_ok k e.
Proof. intros Hat Hx Hf. rewrite (at_fetch_ti _ _ _ _ _ Hat) in Hf. congruence. Qed.

(* the first instruction of a block of the fragment is never a `ret` *)
Lemma fragE_first p : fragE p = true -> forall t c, cg p = t :: c -> forall a, res_instr prog addr a t IRet -> False.
Proof.
  induction p as [ | ins | p1 IH1 p2 IH2 | p1 IH1 p2 IH2 | p1 IH1 | p1 IH1 | p1 IH1 | | n m p1 IH1 | r prec mode
                 | r p1 IH1 | p1 IH1 | pre p1 IH1 post | r mode p1 IH1 | p1 IH1 p2 IH2 | l r mode | l p1 IH1 | p1 IH1 ];
    cbn [fragE cg]; intros Hf t c E a Hr; try discriminate.
  - injection E as <- <-. cbn in Hr. subst ins. discriminate Hf.
  - apply andb_prop in Hf as [Hf1 Hf2]. destruct (cg p1) as [|t1 c1] eqn:E1; cbn [app] in E.
    + eapply IH2; eauto.
    + injection E as -> _. eapply IH1; eauto.
  - injection E as <- _. discriminate Hr.
  - injection E as <- _. discriminate Hr.
  - injection E as <- _. discriminate Hr.
  - injection E as <- _. discriminate Hr.
  - injection E as <- _. discriminate Hr.
  - injection E as <- _. discriminate Hr.
  - injection E as <- _. cbn in Hr. destruct Hr as [Hr|[Hr _]]; discriminate Hr.
  - eapply IH1; eauto.
  - eapply IH1; eauto.
  - destruct pre; try discriminate Hf; injection E as <- _; discriminate Hr.
Qed.

Lemma tail_seq k e pb : fragE pb = true -> at_ e (cg pb) -> tail_ok k (e + len (cg pb)) -> tail_ok k e.
Proof.
  intros Hf Hat Ht. destruct (cg pb) as [|t c] eqn:E.
  - rewrite len_nil, Z.add_0_r in Ht. exact Ht.
  - intros Hfe. exfalso. destruct (at_head _ _ _ _ _ Hat) as (x & Hx & Hr). rewrite Hfe in Hx. injection Hx as <-.
    eapply fragE_first; eauto.
Qed.

(* ------------------------------------------------------------------ the statement, per outcome *)
Definition outS (o : oute) (S : mstate) (b : mstate) (e : Z) (k : list frame) (m0 : N) (r0 : list response) (d : N) : Prop :=
  match o with
  | SuccE j t f sy' =>
      exists r', kinds r' = t /\
        forall res, runs_to (core (upd_syms sy' b) e j (N.max m0 f) k (r0 ++ r') d) res -> runs_to S res
  | FailE f sy' =>
      exists junk a' i' c',
        forall res, runs_to (failing (upd_syms sy' b) a' i' (N.max m0 f) k (r0 ++ junk) c' d) res -> runs_to S res
  end.

Definition blockP (cnd : list name) (p : pexp) (i : N) (sy : symtab) (o : oute) : Prop :=
  forall b a k m0 r0 d, base_okE cnd b -> at_ a (cg p) -> tail_ok k (a + len (cg p)) ->
    outS o (core (upd_syms sy b) a i m0 k r0 d) b (a + len (cg p)) k m0 r0 d.

Definition loopP (cnd : list name) (pa : pexp) (i : N) (sy : symtab) (o : oute) : Prop :=
  forall b a k m0 r0 d, base_okE cnd b -> at_ a (cg (PStar pa)) ->
    outS o (core (upd_syms sy b) (a + 1) i m0 (FBack (Some i) (lenN r0) (rid b) (rinh b) (a + len (cg pa) + 2) :: k) r0 d)
         b (a + len (cg pa) + 2) k m0 r0 d.

Definition repP (cnd : list name) (n kk : nat) (pa : pexp) (i : N) (sy : symtab) (o : oute) : Prop :=
  forall b A c E k m0 r0 d, base_okE cnd b ->
    at_ (A + 1) (cg pa ++ [TI IRet]) ->
    at_ c (rep_calls n (c - A) ++ rep_opts kk (c - A + Z.of_nat n) (E - A)) ->
    E = c + Z.of_nat n + 3 * Z.of_nat kk ->
    outS o (core (upd_syms sy b) c i m0 k r0 d) b E k m0 r0 d.

(* ------------------------------------------------------------------ leaves *)
Lemma case_empty c i sy : blockP c PEmpty i sy (SuccE i [] 0 sy).
Proof.
  intros b a k m0 r0 d Hb Hat Ht. exists []. split; [reflexivity|]. intros res H.
  eapply runs_eq; [exact H|]. cbn [cg]. seq.
Qed.

Lemma case_term_ok c ins i j sy :
  is_terminal ins = true -> tmatch ucd inp ins i = Some j -> blockP c (PInstr ins) i sy (SuccE j [] 0 sy).
Proof.
  intros Hterm Hm b a k m0 r0 d Hb Hat Ht. cbn [cg] in *. exists []. split; [reflexivity|]. intros res H.
  eapply runs_step; [eapply step_term_ok; eauto using at_fetch_ti, bok|].
  eapply runs_eq; [exact H|]. seq.
Qed.

Lemma case_term_ko c ins i sy :
  is_terminal ins = true -> tmatch ucd inp ins i = None -> blockP c (PInstr ins) i sy (FailE i sy).
Proof.
  intros Hterm Hm b a k m0 r0 d Hb Hat Ht. cbn [cg] in *. exists [], (a + 1), i, (lenN r0). intros res H.
  eapply runs_step; [eapply step_term_ko; eauto using at_fetch_ti, bok|].
  eapply runs_eq; [exact H|]. seq.
Qed.

Lemma case_action c id i sy : blockP c (PInstr (IAction id)) i sy (SuccE i [TrAct id] 0 sy).
Proof.
  intros b a k m0 r0 d Hb Hat Ht. cbn [cg] in *. exists [{| r_depth := d; r_kind := RAct id |}]. split; [reflexivity|].
  intros res H.
  eapply run_instr; [exact (bok _ _ _ Hb)|eapply at_fetch_ti; exact Hat|apply exec_action|].
  eapply runs_eq; [exact H|]. seq.
Qed.

Lemma case_when_ok c nm v i sy : has_cond c nm = v -> blockP c (PInstr (IConditionTest nm v)) i sy (SuccE i [] 0 sy).
Proof.
  intros Hc b a k m0 r0 d Hb Hat Ht. cbn [cg] in *. exists []. split; [reflexivity|]. intros res H.
  eapply run_instr; [exact (bok _ _ _ Hb)|eapply at_fetch_ti; exact Hat|apply exec_cond_test_ok|].
  - destruct Hb as (_ & Hcb & _). change (conds (upd_syms sy b)) with (conds b). rewrite Hcb. exact Hc.
  - eapply runs_eq; [exact H|]. seq.
Qed.

Lemma case_when_ko c nm v i sy : has_cond c nm <> v -> blockP c (PInstr (IConditionTest nm v)) i sy (FailE i sy).
Proof.
  intros Hc b a k m0 r0 d Hb Hat Ht. cbn [cg] in *. exists [], (a + 1), i, (lenN r0). intros res H.
  eapply run_instr; [exact (bok _ _ _ Hb)|eapply at_fetch_ti; exact Hat|apply exec_cond_test_ko|].
  - destruct Hb as (_ & Hcb & _). change (conds (upd_syms sy b)) with (conds b). rewrite Hcb. exact Hc.
  - eapply runs_eq; [exact H|]. seq.
Qed.

Lemma case_exists_ok c nm v i sy : has_symbol sy nm = v -> blockP c (PInstr (ISymbolExists nm v)) i sy (SuccE i [] 0 sy).
Proof.
  intros Hc b a k m0 r0 d Hb Hat Ht. cbn [cg] in *. exists []. split; [reflexivity|]. intros res H.
  eapply run_instr; [exact (bok _ _ _ Hb)|eapply at_fetch_ti; exact Hat|apply exec_sym_exists_ok; exact Hc|].
  eapply runs_eq; [exact H|]. seq.
Qed.

Lemma case_exists_ko c nm v i sy : has_symbol sy nm <> v -> blockP c (PInstr (ISymbolExists nm v)) i sy (FailE i sy).
Proof.
  intros Hc b a k m0 r0 d Hb Hat Ht. cbn [cg] in *. exists [], (a + 1), i, (lenN r0). intros res H.
  eapply run_instr; [exact (bok _ _ _ Hb)|eapply at_fetch_ti; exact Hat|apply exec_sym_exists_ko; exact Hc|].
  eapply runs_eq; [exact H|]. seq.
Qed.

Lemma case_symmatch_ok c sk nm idx i j sy :
  sym_match inp sk (get_symbols sy nm) idx i = Some j -> blockP c (PInstr (ISymbolMatch sk false nm idx)) i sy (SuccE j [] 0 sy).
Proof.
  intros Hm b a k m0 r0 d Hb Hat Ht. cbn [cg] in *. exists []. split; [reflexivity|]. intros res H.
  eapply runs_step; [eapply step_symmatch_ok; [exact (bok _ _ _ Hb)|eapply at_fetch_ti; exact Hat|exact Hm]|].
  eapply runs_eq; [exact H|]. seq.
Qed.

Lemma case_symmatch_ko c sk nm idx i sy :
  sym_match inp sk (get_symbols sy nm) idx i = None -> blockP c (PInstr (ISymbolMatch sk false nm idx)) i sy (FailE i sy).
Proof.
  intros Hm b a k m0 r0 d Hb Hat Ht. cbn [cg] in *. exists [], (a + 1), i, (lenN r0). intros res H.
  eapply runs_step; [eapply step_symmatch_ko; [exact (bok _ _ _ Hb)|eapply at_fetch_ti; exact Hat|exact Hm]|].
  eapply runs_eq; [exact H|]. seq.
Qed.

(* ------------------------------------------------------------------ sequence *)
Lemma seq_tails k a pa pb : fragE pb = true -> at_ a (cg pa ++ cg pb) -> tail_ok k (a + len (cg pa ++ cg pb)) ->
  tail_ok k (a + len (cg pa)) /\ tail_ok k (a + len (cg pa) + len (cg pb)).
Proof.
  intros Hf Hat Ht. assert (T2 : tail_ok k (a + len (cg pa) + len (cg pb))).
  { eapply tail_ok_eq; [|exact Ht]. rewrite len_app. lia. }
  split; [|exact T2]. eapply tail_seq; eauto using at_app_r.
Qed.

Lemma case_seq_ok c pa pb i j t1 f1 sy sy1 j' t2 f2 sy2 :
  fragE pb = true -> blockP c pa i sy (SuccE j t1 f1 sy1) -> blockP c pb j sy1 (SuccE j' t2 f2 sy2) ->
  blockP c (PSeq pa pb) i sy (SuccE j' (t1 ++ t2) (N.max f1 f2) sy2).
Proof.
  intros Hfb IH1 IH2 b a k m0 r0 d Hb Hat Ht. cbn [cg] in *.
  destruct (seq_tails k a pa pb Hfb Hat Ht) as [T1 T2].
  destruct (IH1 b a k m0 r0 d Hb (at_app_l _ _ _ _ _ Hat) T1) as (r1 & K1 & R1).
  destruct (IH2 b (a + len (cg pa)) k (N.max m0 f1) (r0 ++ r1) d Hb (at_app_r _ _ _ _ _ Hat) T2) as (r2 & K2 & R2).
  exists (r1 ++ r2). split; [rewrite kinds_app; congruence|]. intros res H.
  apply R1, R2. eapply runs_eq; [exact H|]. seq.
Qed.

Lemma case_seq_ko2 c pa pb i j t1 f1 sy sy1 f2 sy2 :
  fragE pb = true -> blockP c pa i sy (SuccE j t1 f1 sy1) -> blockP c pb j sy1 (FailE f2 sy2) ->
  blockP c (PSeq pa pb) i sy (FailE (N.max f1 f2) sy2).
Proof.
  intros Hfb IH1 IH2 b a k m0 r0 d Hb Hat Ht. cbn [cg] in *.
  destruct (seq_tails k a pa pb Hfb Hat Ht) as [T1 T2].
  destruct (IH1 b a k m0 r0 d Hb (at_app_l _ _ _ _ _ Hat) T1) as (r1 & K1 & R1).
  destruct (IH2 b (a + len (cg pa)) k (N.max m0 f1) (r0 ++ r1) d Hb (at_app_r _ _ _ _ _ Hat) T2) as (junk & a' & i' & c' & R2).
  exists (r1 ++ junk), a', i', c'. intros res H.
  apply R1, R2. eapply runs_eq; [exact H|]. seq.
Qed.

Lemma case_seq_ko1 c pa pb i sy f1 sy1 :
  fragE pb = true -> blockP c pa i sy (FailE f1 sy1) -> blockP c (PSeq pa pb) i sy (FailE f1 sy1).
Proof.
  intros Hfb IH1 b a k m0 r0 d Hb Hat Ht. cbn [cg] in *.
  destruct (seq_tails k a pa pb Hfb Hat Ht) as [T1 T2].
  exact (IH1 b a k m0 r0 d Hb (at_app_l _ _ _ _ _ Hat) T1).
Qed.

(* ------------------------------------------------------------------ ordered choice *)
Lemma case_alt_l c pa pb i sy j t f sy1 : blockP c pa i sy (SuccE j t f sy1) -> blockP c (PAlt pa pb) i sy (SuccE j t f sy1).
Proof.
  intros IH1 b a k m0 r0 d Hb Hat Ht. cbn [cg] in *.
  pose proof (at_cons _ _ _ _ _ Hat) as Hat1.
  pose proof (at_app_l _ _ _ _ _ Hat1) as HatA. pose proof (at_app_r _ _ _ _ _ Hat1) as HatC.
  set (F := FBack (Some i) (lenN r0) (rid b) (rinh b) (a + 1 + (len (cg pa) + 1))).
  destruct (IH1 b (a + 1) (F :: k) m0 r0 d Hb HatA) as (r1 & K1 & R1).
  { eapply tail_ti; [exact HatC|discriminate]. }
  exists r1. split; [exact K1|]. intros res H.
  eapply run_instr; [exact (bok _ _ _ Hb)|eapply at_fetch_ti; exact Hat|apply exec_choice|]. apply R1.
  eapply run_instr; [exact (bok _ _ _ Hb)|eapply at_fetch_ti; exact HatC|apply exec_commit|].
  eapply runs_eq; [exact H|]. seq.
Qed.

Lemma case_alt_r c pa pb i sy f1 sy1 o :
  blockP c pa i sy (FailE f1 sy1) -> blockP c pb i sy1 o ->
  blockP c (PAlt pa pb) i sy (match o with SuccE j t f2 s2 => SuccE j t (N.max f1 f2) s2 | FailE f2 s2 => FailE (N.max f1 f2) s2 end).
Proof.
  intros IH1 IH2 b a k m0 r0 d Hb Hat Ht. cbn [cg] in *.
  pose proof (at_cons _ _ _ _ _ Hat) as Hat1.
  pose proof (at_app_l _ _ _ _ _ Hat1) as HatA. pose proof (at_app_r _ _ _ _ _ Hat1) as HatC.
  pose proof (at_cons _ _ _ _ _ HatC) as HatB.
  set (F := FBack (Some i) (lenN r0) (rid b) (rinh b) (a + 1 + (len (cg pa) + 1))).
  destruct (IH1 b (a + 1) (F :: k) m0 r0 d Hb HatA) as (junk & a' & i' & c' & R1).
  { eapply tail_ti; [exact HatC|discriminate]. }
  assert (T2 : tail_ok k (a + 1 + len (cg pa) + 1 + len (cg pb))).
  { eapply tail_ok_eq; [|exact Ht]. rewrite !len_cons, len_app, len_cons. lia. }
  pose proof (IH2 b (a + 1 + len (cg pa) + 1) k (N.max m0 f1) r0 d Hb HatB T2) as O2.
  assert (Start : forall res, runs_to (core (upd_syms sy1 b) (a + 1 + len (cg pa) + 1) i (N.max m0 f1) k r0 d) res ->
                              runs_to (core (upd_syms sy b) a i m0 k r0 d) res).
  { intros res H.
    eapply run_instr; [exact (bok _ _ _ Hb)|eapply at_fetch_ti; exact Hat|apply exec_choice|]. apply R1.
    eapply runs_step; [apply step_fail_own; apply (bok sy1 _ _ Hb)|].
    eapply runs_eq; [exact H|]. seq. }
  destruct o as [j t f2 s2|f2 s2].
  - destruct O2 as (r2 & K2 & R2). exists r2. split; [exact K2|]. intros res H.
    apply Start, R2. eapply runs_eq; [exact H|]. seq.
  - destruct O2 as (junk2 & a2 & i2 & c2 & R2). exists junk2, a2, i2, c2. intros res H.
    apply Start, R2. eapply runs_eq; [exact H|]. seq.
Qed.

(* ------------------------------------------------------------------ star *)
Lemma len_star pa : len (cg (PStar pa)) = len (cg pa) + 2.
Proof. cbn [cg]. rewrite len_cons, len_app, len_cons, len_nil. lia. Qed.

Lemma case_star_more_loop c pa i sy j t1 f1 sy1 j' t2 f2 sy2 :
  blockP c pa i sy (SuccE j t1 f1 sy1) -> loopP c pa j sy1 (SuccE j' t2 f2 sy2) ->
  loopP c pa i sy (SuccE j' (t1 ++ t2) (N.max f1 f2) sy2).
Proof.
  intros IH1 IH2 b a k m0 r0 d Hb Hat.
  pose proof Hat as Hat0. cbn [cg] in Hat0.
  pose proof (at_cons _ _ _ _ _ Hat0) as Hat1.
  pose proof (at_app_l _ _ _ _ _ Hat1) as HatA. pose proof (at_app_r _ _ _ _ _ Hat1) as HatP.
  set (E := a + len (cg pa) + 2).
  destruct (IH1 b (a + 1) (FBack (Some i) (lenN r0) (rid b) (rinh b) E :: k) m0 r0 d Hb HatA) as (r1 & K1 & R1).
  { eapply tail_ti; [exact HatP|discriminate]. }
  destruct (IH2 b a k (N.max m0 f1) (r0 ++ r1) d Hb Hat) as (r2 & K2 & R2). fold E in R2.
  exists (r1 ++ r2). split; [rewrite kinds_app; congruence|]. intros res H.
  apply R1.
  eapply run_instr; [exact (bok _ _ _ Hb)|eapply at_fetch_ti; exact HatP|apply exec_commit_partial|].
  eapply runs_eq; [apply R2; eapply runs_eq; [exact H|]; seq|]. seq.
Qed.

Lemma case_star_done_loop c pa i sy f sy1 : blockP c pa i sy (FailE f sy1) -> loopP c pa i sy (SuccE i [] f sy1).
Proof.
  intros IH1 b a k m0 r0 d Hb Hat.
  pose proof Hat as Hat0. cbn [cg] in Hat0.
  pose proof (at_cons _ _ _ _ _ Hat0) as Hat1.
  pose proof (at_app_l _ _ _ _ _ Hat1) as HatA. pose proof (at_app_r _ _ _ _ _ Hat1) as HatP.
  set (E := a + len (cg pa) + 2).
  destruct (IH1 b (a + 1) (FBack (Some i) (lenN r0) (rid b) (rinh b) E :: k) m0 r0 d Hb HatA) as (junk & a' & i' & c' & R1).
  { eapply tail_ti; [exact HatP|discriminate]. }
  exists []. split; [reflexivity|]. intros res H.
  apply R1. eapply runs_step; [apply step_fail_own; apply (bok sy1 _ _ Hb)|].
  eapply runs_eq; [exact H|]. seq.
Qed.

Lemma star_block c pa i sy j t f sy1 : loopP c pa i sy (SuccE j t f sy1) -> blockP c (PStar pa) i sy (SuccE j t f sy1).
Proof.
  intros L b a k m0 r0 d Hb Hat Ht.
  destruct (L b a k m0 r0 d Hb Hat) as (r' & K & R). exists r'. split; [exact K|]. intros res H.
  pose proof Hat as Hat0. cbn [cg] in Hat0.
  eapply run_instr; [exact (bok _ _ _ Hb)|eapply at_fetch_ti; exact Hat0|apply exec_choice|].
  eapply runs_eq; [apply R; eapply runs_eq; [exact H|]; rewrite len_star; seq|]. seq.
Qed.

(* ------------------------------------------------------------------ predicates *)
Lemma case_not_ok c pa i sy f sy1 : blockP c pa i sy (FailE f sy1) -> blockP c (PNot pa) i sy (SuccE i [] f sy1).
Proof.
  intros IH1 b a k m0 r0 d Hb Hat Ht. cbn [cg] in *.
  pose proof (at_cons _ _ _ _ _ Hat) as Hat1.
  pose proof (at_app_l _ _ _ _ _ Hat1) as HatA. pose proof (at_app_r _ _ _ _ _ Hat1) as HatP.
  set (F := FBack (Some i) (lenN r0) (rid b) (rinh b) (a + 1 + (len (cg pa) + 1))).
  set (b' := upd_ri (lenN (F :: k)) true b).
  destruct (IH1 b' (a + 1) (F :: k) m0 r0 d (bokE_ri _ _ _ _ Hb) HatA) as (junk & a' & i' & c' & R1).
  { eapply tail_ti; [exact HatP|discriminate]. }
  exists []. split; [reflexivity|]. intros res H.
  eapply run_instr; [exact (bok _ _ _ Hb)|eapply at_fetch_ti; exact Hat|apply exec_choice_pred|]. apply R1.
  eapply runs_step; [apply step_fail_own; apply (bok sy1 _ _ Hb)|].
  eapply runs_eq; [exact H|]. seq.
Qed.

Lemma case_not_ko c pa i sy j t f sy1 : blockP c pa i sy (SuccE j t f sy1) -> blockP c (PNot pa) i sy (FailE (N.max f j) sy1).
Proof.
  intros IH1 b a k m0 r0 d Hb Hat Ht. cbn [cg] in *.
  pose proof (at_cons _ _ _ _ _ Hat) as Hat1.
  pose proof (at_app_l _ _ _ _ _ Hat1) as HatA. pose proof (at_app_r _ _ _ _ _ Hat1) as HatP.
  set (F := FBack (Some i) (lenN r0) (rid b) (rinh b) (a + 1 + (len (cg pa) + 1))).
  set (b' := upd_ri (lenN (F :: k)) true b).
  destruct (IH1 b' (a + 1) (F :: k) m0 r0 d (bokE_ri _ _ _ _ Hb) HatA) as (r1 & K1 & R1).
  { eapply tail_ti; [exact HatP|discriminate]. }
  exists r1, (a + 1 + (len (cg pa) + 1)), i, (lenN r0). intros res H.
  eapply run_instr; [exact (bok _ _ _ Hb)|eapply at_fetch_ti; exact Hat|apply exec_choice_pred|]. apply R1.
  eapply run_instr; [exact (bok sy1 _ _ (bokE_ri _ _ _ _ Hb))|eapply at_fetch_ti; exact HatP|apply exec_fail2|].
  eapply runs_step; [apply step_fail2_own|].
  eapply runs_eq; [exact H|]. seq.
Qed.

Lemma case_and_ok c pa i sy j t f sy1 : blockP c pa i sy (SuccE j t f sy1) -> blockP c (PAnd pa) i sy (SuccE i t f sy1).
Proof.
  intros IH1 b a k m0 r0 d Hb Hat Ht. cbn [cg] in *.
  pose proof (at_cons _ _ _ _ _ Hat) as Hat1.
  pose proof (at_app_l _ _ _ _ _ Hat1) as HatA. pose proof (at_app_r _ _ _ _ _ Hat1) as HatP.
  set (F := FBack (Some i) (lenN r0) (rid b) (rinh b) (a + 1 + (len (cg pa) + 1))).
  set (b' := upd_ri (lenN (F :: k)) true b).
  destruct (IH1 b' (a + 1) (F :: k) m0 r0 d (bokE_ri _ _ _ _ Hb) HatA) as (r1 & K1 & R1).
  { eapply tail_ti; [exact HatP|discriminate]. }
  exists r1. split; [exact K1|]. intros res H.
  eapply run_instr; [exact (bok _ _ _ Hb)|eapply at_fetch_ti; exact Hat|apply exec_choice_pred|]. apply R1.
  eapply run_instr; [exact (bok sy1 _ _ (bokE_ri _ _ _ _ Hb))|eapply at_fetch_ti; exact HatP|apply exec_commit_back|].
  eapply runs_eq; [exact H|]. seq.
Qed.

Lemma case_and_ko c pa i sy f sy1 : blockP c pa i sy (FailE f sy1) -> blockP c (PAnd pa) i sy (FailE (N.max f i) sy1).
Proof.
  intros IH1 b a k m0 r0 d Hb Hat Ht. cbn [cg] in *.
  pose proof (at_cons _ _ _ _ _ Hat) as Hat1.
  pose proof (at_app_l _ _ _ _ _ Hat1) as HatA. pose proof (at_app_r _ _ _ _ _ Hat1) as HatP.
  pose proof (at_cons _ _ _ _ _ HatP) as HatQ.
  set (F := FBack (Some i) (lenN r0) (rid b) (rinh b) (a + 1 + (len (cg pa) + 1))).
  set (b' := upd_ri (lenN (F :: k)) true b).
  destruct (IH1 b' (a + 1) (F :: k) m0 r0 d (bokE_ri _ _ _ _ Hb) HatA) as (junk & a' & i' & c' & R1).
  { eapply tail_ti; [exact HatP|discriminate]. }
  exists [], (a + 1 + len (cg pa) + 1 + 1), i, (lenN r0). intros res H.
  eapply run_instr; [exact (bok _ _ _ Hb)|eapply at_fetch_ti; exact Hat|apply exec_choice_pred|]. apply R1.
  eapply runs_step; [apply step_fail_own; apply (bok sy1 _ _ Hb)|].
  apply (runs_eq (core (upd_syms sy1 b) (a + 1 + len (cg pa) + 1) i (N.max m0 f) k r0 d)); [|seq].
  eapply run_instr; [exact (bok _ _ _ Hb)|eapply at_fetch_ti; exact HatQ|apply exec_fail1|].
  eapply runs_eq; [exact H|]. seq.
Qed.

Lemma case_eoi_ok c i sy : tmatch ucd inp (IMatchAny 1) i = None -> blockP c PEoi i sy (SuccE i [] i sy).
Proof.
  intros Hm b a k m0 r0 d Hb Hat Ht. cbn [cg] in *.
  pose proof (at_cons _ _ _ _ _ Hat) as Hat1.
  exists []. split; [reflexivity|]. intros res H.
  eapply run_instr; [exact (bok _ _ _ Hb)|eapply at_fetch_ti; exact Hat|apply exec_choice|].
  eapply runs_step; [eapply step_term_ko; eauto using at_fetch_ti, bok|].
  eapply runs_eq; [eapply runs_step; [apply (step_fail_own ucd cb prog (upd_syms sy b) (a + 1 + 1) i (N.max m0 i) i (rid b) (rinh b) (a + 1 + 2) k r0 [] (lenN r0) d); apply (bok sy _ _ Hb)|]|].
  - eapply runs_eq; [exact H|]. seq.
  - seq.
Qed.

Lemma case_eoi_ko c i j sy : tmatch ucd inp (IMatchAny 1) i = Some j -> blockP c PEoi i sy (FailE j sy).
Proof.
  intros Hm b a k m0 r0 d Hb Hat Ht. cbn [cg] in *.
  pose proof (at_cons _ _ _ _ _ Hat) as Hat1. pose proof (at_cons _ _ _ _ _ Hat1) as Hat2.
  exists [], (a + 1 + 2), i, (lenN r0). intros res H.
  eapply run_instr; [exact (bok _ _ _ Hb)|eapply at_fetch_ti; exact Hat|apply exec_choice|].
  eapply runs_step; [eapply step_term_ok; eauto using at_fetch_ti, bok|].
  eapply run_instr; [exact (bok _ _ _ Hb)|eapply at_fetch_ti; exact Hat2|apply exec_fail2|].
  eapply runs_step; [apply step_fail2_own|].
  eapply runs_eq; [exact H|]. seq.
Qed.

(* ------------------------------------------------------------------ rule calls *)
Lemma case_call c r prec mode body i sy o :
  G r = Some body -> blockP c body i sy o -> blockP c (PCall r prec mode) i sy o.
Proof.
  intros HG IH b a k m0 r0 d Hb Hat Ht. cbn [cg] in *.
  destruct (Hrules r body HG) as [Hfb Hbody].
  pose proof (at_app_l _ _ _ _ _ Hbody) as HatB. pose proof (at_app_r _ _ _ _ _ Hbody) as HatR.
  destruct (at_head _ _ _ _ _ Hat) as (x & Hfx & Hr). cbn in Hr.
  assert (Elen : a + len [TCall r prec mode] = a + 1) by (rewrite len_cons, len_nil; lia).
  destruct Hr as [->|[-> Hret]].
  - (* a real call *)
    assert (T : tail_ok (FCall (a + 1) :: k) (addr r + len (cg body))) by (intros _; exact I).
    pose proof (IH b (addr r) (FCall (a + 1) :: k) m0 r0 (d + 1)%N Hb HatB T) as O.
    assert (Start : forall res, runs_to (core (upd_syms sy b) (addr r) i m0 (FCall (a + 1) :: k) r0 (d + 1)) res ->
                                runs_to (core (upd_syms sy b) a i m0 k r0 d) res).
    { intros res H. eapply run_instr; [exact (bok _ _ _ Hb)|exact Hfx|apply exec_call|]. eapply runs_eq; [exact H|]. seq. }
    destruct o as [j t f s1|f s1].
    + destruct O as (r1 & K1 & R1). exists r1. split; [exact K1|]. intros res H.
      apply Start, R1.
      eapply run_instr; [exact (bok _ _ _ Hb)|eapply at_fetch_ti; exact HatR|apply exec_ret|].
      eapply runs_eq; [exact H|]. rewrite Elen. reflexivity.
    + destruct O as (junk & a' & i' & c' & R1). exists junk, a', i', c'. intros res H.
      apply Start, R1. eapply runs_step; [apply step_fail_call|]. exact H.
  - (* a tail call: jump, and the callee's ret stands in for ours *)
    assert (Hsafe : ret_safe k) by (apply Ht; rewrite Elen; exact Hret).
    assert (T : tail_ok k (addr r + len (cg body))) by (intros _; exact Hsafe).
    pose proof (IH b (addr r) k m0 r0 d Hb HatB T) as O.
    assert (Start : forall res, runs_to (core (upd_syms sy b) (addr r) i m0 k r0 d) res -> runs_to (core (upd_syms sy b) a i m0 k r0 d) res).
    { intros res H. eapply run_instr; [exact (bok _ _ _ Hb)|exact Hfx|apply exec_jump|]. eapply runs_eq; [exact H|]. seq. }
    destruct o as [j t f s1|f s1].
    + destruct O as (r1 & K1 & R1). exists r1. split; [exact K1|]. intros res H.
      apply Start, R1. rewrite Elen in H.
      eapply runs_same_step; [|exact H].
      rewrite (step_core ucd cb prog (upd_syms s1 b) (a + 1) j (N.max m0 f) k (r0 ++ r1) d IRet) by (try apply (bok s1 _ _ Hb); exact Hret).
      rewrite (step_core ucd cb prog (upd_syms s1 b) (addr r + len (cg body)) j (N.max m0 f) k (r0 ++ r1) d IRet)
        by (try apply (bok s1 _ _ Hb); eapply at_fetch_ti; exact HatR).
      apply exec_ret_any_pc. exact Hsafe.
    + destruct O as (junk & a' & i' & c' & R1). exists junk, a', i', c'. intros res H.
      apply Start, R1. exact H.
Qed.

(* ------------------------------------------------------------------ captures *)
Lemma case_capture_ok c id pa i sy j t f sy1 :
  (i <= j)%N -> blockP c pa i sy (SuccE j t f sy1) ->
  blockP c (PWrap ICaptureStart pa (ICaptureEnd id)) i sy (SuccE j (t ++ [TrCap id i (j - i)]) f sy1).
Proof.
  intros Hle IH1 b a k m0 r0 d Hb Hat Ht. cbn [cg] in *.
  pose proof (at_cons _ _ _ _ _ Hat) as Hat1.
  pose proof (at_app_l _ _ _ _ _ Hat1) as HatA. pose proof (at_app_r _ _ _ _ _ Hat1) as HatP.
  set (b' := upd_ci (cic b + 1) (cutf b) (accf b) b).
  destruct (IH1 b' (a + 1) (FCapture i :: k) m0 r0 d (bokE_ci _ _ _ Hb) HatA) as (r1 & K1 & R1).
  { eapply tail_ti; [exact HatP|discriminate]. }
  exists (r1 ++ [{| r_depth := d; r_kind := RCap id i (j - i) |}]). split; [rewrite kinds_app, K1; reflexivity|].
  intros res H.
  eapply run_instr; [exact (bok _ _ _ Hb)|eapply at_fetch_ti; exact Hat|apply exec_capture_start|]. apply R1.
  eapply run_instr; [exact (bok sy1 _ _ (bokE_ci _ _ _ Hb))|eapply at_fetch_ti; exact HatP|
                     apply (exec_capture_end ucd cb (upd_syms sy1 b)); [apply Hb|apply Hb|exact Hle]|].
  eapply runs_eq; [exact H|]. seq.
Qed.

Lemma case_capture_ko c id pa i sy f sy1 :
  blockP c pa i sy (FailE f sy1) -> blockP c (PWrap ICaptureStart pa (ICaptureEnd id)) i sy (FailE f sy1).
Proof.
  intros IH1 b a k m0 r0 d Hb Hat Ht. cbn [cg] in *.
  pose proof (at_cons _ _ _ _ _ Hat) as Hat1.
  pose proof (at_app_l _ _ _ _ _ Hat1) as HatA. pose proof (at_app_r _ _ _ _ _ Hat1) as HatP.
  set (b' := upd_ci (cic b + 1) (cutf b) (accf b) b).
  destruct (IH1 b' (a + 1) (FCapture i :: k) m0 r0 d (bokE_ci _ _ _ Hb) HatA) as (junk & a' & i' & c' & R1).
  { eapply tail_ti; [exact HatP|discriminate]. }
  exists junk, a', i', c'. intros res H.
  eapply run_instr; [exact (bok _ _ _ Hb)|eapply at_fetch_ti; exact Hat|apply exec_capture_start|]. apply R1.
  eapply runs_step; [apply (step_fail_capture ucd cb prog (upd_syms sy1 b))|]. exact H.
Qed.

(* ------------------------------------------------------------------ condition blocks *)
Lemma bokE_cond c b nm v : base_okE c b -> base_okE (set_cond c nm v) (upd_conds (set_cond c nm v) b).
Proof.
  intros (H1 & H2 & H3). split; [exact H1|]. split; [reflexivity|]. apply set_cond_sorted. exact H3.
Qed.

Lemma case_cond c nm v pa i sy o :
  blockP (set_cond c nm v) pa i sy o -> blockP c (PWrap (IConditionPush nm v) pa IConditionPop) i sy o.
Proof.
  intros IH1 b a k m0 r0 d Hb Hat Ht. cbn [cg] in *.
  pose proof (at_cons _ _ _ _ _ Hat) as Hat1.
  pose proof (at_app_l _ _ _ _ _ Hat1) as HatA. pose proof (at_app_r _ _ _ _ _ Hat1) as HatP.
  pose proof Hb as (Hb0 & Hcb & Hsrt).
  set (c' := set_cond c nm v).
  set (b' := upd_conds c' b).
  assert (T : tail_ok (FCond nm (has_cond c nm) :: k) (a + 1 + len (cg pa))).
  { eapply tail_ti; [exact HatP|discriminate]. }
  pose proof (IH1 b' (a + 1) (FCond nm (has_cond c nm) :: k) m0 r0 d (bokE_cond _ _ _ _ Hb) HatA T) as O.
  assert (Start : forall res, runs_to (core (upd_syms sy b') (a + 1) i m0 (FCond nm (has_cond c nm) :: k) r0 d) res ->
                              runs_to (core (upd_syms sy b) a i m0 k r0 d) res).
  { intros res H. eapply run_instr; [exact (bok _ _ _ Hb)|eapply at_fetch_ti; exact Hat|apply exec_cond_push|].
    eapply runs_eq; [exact H|]. unfold b', c'. rewrite <- Hcb. reflexivity. }
  assert (Back : set_cond (conds b') nm (has_cond c nm) = conds b).
  { change (conds b') with (set_cond c nm v). rewrite Hcb. apply set_cond_restore. exact Hsrt. }
  destruct o as [j t f s1|f s1].
  - destruct O as (r1 & K1 & R1). exists r1. split; [exact K1|]. intros res H.
    apply Start, R1.
    eapply run_instr; [exact (bok s1 _ _ (bokE_cond _ _ _ _ Hb))|eapply at_fetch_ti; exact HatP|apply exec_cond_pop|].
    change (conds (upd_syms s1 b')) with (conds b'). rewrite Back.
    eapply runs_eq; [exact H|]. seq.
  - destruct O as (junk & a' & i' & c2 & R1). exists junk, a', i', c2. intros res H.
    apply Start, R1.
    eapply runs_step; [apply step_fail_cond|].
    change (conds (upd_syms s1 b')) with (conds b'). rewrite Back.
    eapply runs_eq; [exact H|]. reflexivity.
Qed.

(* ------------------------------------------------------------------ symbol definitions *)
Lemma case_symdef_ok c nm pa i sy j t f sy1 :
  (i <= j)%N -> blockP c pa i sy (SuccE j t f sy1) ->
  blockP c (PWrap (ISymbolStart nm) pa ISymbolEnd) i sy (SuccE j t f (add_symbol sy1 nm (firstnN (j - i) (skipnN i inp)))).
Proof.
  intros Hle IH1 b a k m0 r0 d Hb Hat Ht. cbn [cg] in *.
  pose proof (at_cons _ _ _ _ _ Hat) as Hat1.
  pose proof (at_app_l _ _ _ _ _ Hat1) as HatA. pose proof (at_app_r _ _ _ _ _ Hat1) as HatP.
  destruct (IH1 b (a + 1) (FSymbol nm i :: k) m0 r0 d Hb HatA) as (r1 & K1 & R1).
  { eapply tail_ti; [exact HatP|discriminate]. }
  exists r1. split; [exact K1|]. intros res H.
  eapply run_instr; [exact (bok _ _ _ Hb)|eapply at_fetch_ti; exact Hat|apply exec_symbol_start|]. apply R1.
  eapply run_instr; [exact (bok sy1 _ _ Hb)|eapply at_fetch_ti; exact HatP|apply exec_symbol_end; exact Hle|].
  assert (Hbuf : buf (upd_syms sy1 b) = inp) by (apply Hb).
  rewrite Hbuf. change (syms (upd_syms sy1 b)) with sy1.
  eapply runs_eq; [exact H|]. seq.
Qed.

Lemma case_symdef_ko c nm pa i sy f sy1 :
  blockP c pa i sy (FailE f sy1) -> blockP c (PWrap (ISymbolStart nm) pa ISymbolEnd) i sy (FailE f sy1).
Proof.
  intros IH1 b a k m0 r0 d Hb Hat Ht. cbn [cg] in *.
  pose proof (at_cons _ _ _ _ _ Hat) as Hat1.
  pose proof (at_app_l _ _ _ _ _ Hat1) as HatA. pose proof (at_app_r _ _ _ _ _ Hat1) as HatP.
  destruct (IH1 b (a + 1) (FSymbol nm i :: k) m0 r0 d Hb HatA) as (junk & a' & i' & c' & R1).
  { eapply tail_ti; [exact HatP|discriminate]. }
  exists junk, a', i', c'. intros res H.
  eapply run_instr; [exact (bok _ _ _ Hb)|eapply at_fetch_ti; exact Hat|apply exec_symbol_start|]. apply R1.
  eapply runs_step; [apply step_fail_symbol|]. exact H.
Qed.

(* ------------------------------------------------------------------ scopes *)
Lemma case_scope_ok c kind nm pa i sy j t f sy1 :
  blockP c pa i (scope_enter kind nm sy) (SuccE j t f sy1) ->
  blockP c (PWrap (ISymbolPush kind nm) pa ISymbolPop) i sy (SuccE j t f sy).
Proof.
  intros IH1 b a k m0 r0 d Hb Hat Ht. cbn [cg] in *.
  pose proof (at_cons _ _ _ _ _ Hat) as Hat1.
  pose proof (at_app_l _ _ _ _ _ Hat1) as HatA. pose proof (at_app_r _ _ _ _ _ Hat1) as HatP.
  destruct (IH1 b (a + 1) (FSymtab sy :: k) m0 r0 d Hb HatA) as (r1 & K1 & R1).
  { eapply tail_ti; [exact HatP|discriminate]. }
  exists r1. split; [exact K1|]. intros res H.
  eapply run_instr; [exact (bok _ _ _ Hb)|eapply at_fetch_ti; exact Hat|apply exec_symbol_push|]. apply R1.
  eapply run_instr; [exact (bok sy1 _ _ Hb)|eapply at_fetch_ti; exact HatP|apply exec_symbol_pop|].
  eapply runs_eq; [exact H|]. seq.
Qed.

Lemma case_scope_ko c kind nm pa i sy f sy1 :
  blockP c pa i (scope_enter kind nm sy) (FailE f sy1) ->
  blockP c (PWrap (ISymbolPush kind nm) pa ISymbolPop) i sy (FailE f sy).
Proof.
  intros IH1 b a k m0 r0 d Hb Hat Ht. cbn [cg] in *.
  pose proof (at_cons _ _ _ _ _ Hat) as Hat1.
  pose proof (at_app_l _ _ _ _ _ Hat1) as HatA. pose proof (at_app_r _ _ _ _ _ Hat1) as HatP.
  destruct (IH1 b (a + 1) (FSymtab sy :: k) m0 r0 d Hb HatA) as (junk & a' & i' & c' & R1).
  { eapply tail_ti; [exact HatP|discriminate]. }
  exists junk, a', i', c'. intros res H.
  eapply run_instr; [exact (bok _ _ _ Hb)|eapply at_fetch_ti; exact Hat|apply exec_symbol_push|]. apply R1.
  eapply runs_step; [apply step_fail_symtab|]. exact H.
Qed.

(* ------------------------------------------------------------------ repeat(n, m) *)
Lemma at_eq a a' c c' : a = a' -> c = c' -> at_ a c -> at_ a' c'.
Proof. intros <- <- H. exact H. Qed.

Lemma sub_call c pa i sy o :
  blockP c pa i sy o -> forall b A q off k m0 r0 d, base_okE c b -> at_ (A + 1) (cg pa ++ [TI IRet]) ->
  fetch prog q = Some (ICall off 0) -> q + 1 + off = A + 1 ->
  outS o (core (upd_syms sy b) q i m0 k r0 d) b (q + 1) k m0 r0 d.
Proof.
  intros IH b A q off k m0 r0 d Hb HatS Hfq Hoff.
  pose proof (at_app_l _ _ _ _ _ HatS) as HatB. pose proof (at_app_r _ _ _ _ _ HatS) as HatR.
  assert (T : tail_ok (FCall (q + 1) :: k) (A + 1 + len (cg pa))) by (intros _; exact I).
  pose proof (IH b (A + 1) (FCall (q + 1) :: k) m0 r0 (d + 1)%N Hb HatB T) as O.
  assert (Start : forall res, runs_to (core (upd_syms sy b) (A + 1) i m0 (FCall (q + 1) :: k) r0 (d + 1)) res ->
                              runs_to (core (upd_syms sy b) q i m0 k r0 d) res).
  { intros res H. eapply run_instr; [exact (bok _ _ _ Hb)|exact Hfq|apply exec_call|]. eapply runs_eq; [exact H|]. seq. }
  destruct o as [j t f s1|f s1].
  - destruct O as (r1 & K1 & R1). exists r1. split; [exact K1|]. intros res H.
    apply Start, R1.
    eapply run_instr; [exact (bok _ _ _ Hb)|eapply at_fetch_ti; exact HatR|apply exec_ret|]. exact H.
  - destruct O as (junk & a' & i' & c' & R1). exists junk, a', i', c'. intros res H.
    apply Start, R1. eapply runs_step; [apply step_fail_call|]. exact H.
Qed.

Lemma case_rep_done c pa i sy : repP c 0 0 pa i sy (SuccE i [] 0 sy).
Proof.
  intros b A cc E k m0 r0 d Hb HatS HatC HE. exists []. split; [reflexivity|]. intros res H.
  eapply runs_eq; [exact H|]. subst E. seq.
Qed.

Lemma case_rep_must_ok c n kk pa i sy j t1 f1 sy1 o :
  blockP c pa i sy (SuccE j t1 f1 sy1) -> repP c n kk pa j sy1 o ->
  repP c (S n) kk pa i sy (match o with SuccE j' t2 f2 s2 => SuccE j' (t1 ++ t2) (N.max f1 f2) s2 | FailE f2 s2 => FailE (N.max f1 f2) s2 end).
Proof.
  intros IH1 IH2 b A cc E k m0 r0 d Hb HatS HatC HE. cbn [rep_calls app] in HatC.
  destruct (sub_call c pa i sy _ IH1 b A cc (- (cc - A)) k m0 r0 d Hb HatS (at_fetch_ti _ _ _ _ _ HatC)) as (r1 & K1 & R1); [lia|].
  assert (HatN : at_ (cc + 1) (rep_calls n (cc + 1 - A) ++ rep_opts kk (cc + 1 - A + Z.of_nat n) (E - A))).
  { eapply at_eq; [reflexivity| |exact (at_cons _ _ _ _ _ HatC)]. f_equal; f_equal; lia. }
  pose proof (IH2 b A (cc + 1) E k (N.max m0 f1) (r0 ++ r1) d Hb HatS HatN) as O.
  destruct o as [j' t2 f2 s2|f2 s2].
  - destruct O as (r2 & K2 & R2); [lia|]. exists (r1 ++ r2). split; [rewrite kinds_app; congruence|]. intros res H.
    apply R1, R2. eapply runs_eq; [exact H|]. seq.
  - destruct O as (junk & a' & i' & c' & R2); [lia|]. exists (r1 ++ junk), a', i', c'. intros res H.
    apply R1, R2. eapply runs_eq; [exact H|]. seq.
Qed.

Lemma case_rep_must_ko c n kk pa i sy f sy1 : blockP c pa i sy (FailE f sy1) -> repP c (S n) kk pa i sy (FailE f sy1).
Proof.
  intros IH1 b A cc E k m0 r0 d Hb HatS HatC HE. cbn [rep_calls app] in HatC.
  apply (sub_call c pa i sy _ IH1 b A cc (- (cc - A)) k m0 r0 d Hb HatS (at_fetch_ti _ _ _ _ _ HatC)). lia.
Qed.

Lemma case_rep_opt_ok c kk pa i sy j t1 f1 sy1 j' t2 f2 sy2 :
  blockP c pa i sy (SuccE j t1 f1 sy1) -> repP c 0 kk pa j sy1 (SuccE j' t2 f2 sy2) ->
  repP c 0 (S kk) pa i sy (SuccE j' (t1 ++ t2) (N.max f1 f2) sy2).
Proof.
  intros IH1 IH2 b A cc E k m0 r0 d Hb HatS HatC HE. cbn [rep_calls rep_opts app Z.of_nat] in HatC.
  pose proof (at_cons _ _ _ _ _ HatC) as HatC1. pose proof (at_cons _ _ _ _ _ HatC1) as HatC2.
  pose proof (at_cons _ _ _ _ _ HatC2) as HatC3.
  set (F := FBack (Some i) (lenN r0) (rid b) (rinh b) (cc + 1 + (E - A - (cc - A + 0) - 1))).
  destruct (sub_call c pa i sy _ IH1 b A (cc + 1) (- (cc - A + 0 + 1)) (F :: k) m0 r0 d Hb HatS (at_fetch_ti _ _ _ _ _ HatC1))
    as (r1 & K1 & R1); [lia|].
  assert (HatN : at_ (cc + 3) (rep_calls 0 (cc + 3 - A) ++ rep_opts kk (cc + 3 - A + Z.of_nat 0) (E - A))).
  { eapply at_eq; [| |exact HatC3]; [lia|]. cbn [rep_calls app Z.of_nat]. f_equal; lia. }
  destruct (IH2 b A (cc + 3) E k (N.max m0 f1) (r0 ++ r1) d Hb HatS HatN) as (r2 & K2 & R2); [lia|].
  exists (r1 ++ r2). split; [rewrite kinds_app; congruence|]. intros res H.
  eapply run_instr; [exact (bok _ _ _ Hb)|eapply at_fetch_ti; exact HatC|apply exec_choice|]. apply R1.
  eapply run_instr; [exact (bok _ _ _ Hb)|eapply at_fetch_ti; exact HatC2|apply exec_commit|].
  eapply runs_eq; [apply R2; eapply runs_eq; [exact H|]; seq|]. seq.
Qed.

Lemma case_rep_opt_stop c kk pa i sy f sy1 : blockP c pa i sy (FailE f sy1) -> repP c 0 (S kk) pa i sy (SuccE i [] f sy1).
Proof.
  intros IH1 b A cc E k m0 r0 d Hb HatS HatC HE. cbn [rep_calls rep_opts app Z.of_nat] in HatC.
  pose proof (at_cons _ _ _ _ _ HatC) as HatC1.
  set (F := FBack (Some i) (lenN r0) (rid b) (rinh b) (cc + 1 + (E - A - (cc - A + 0) - 1))).
  destruct (sub_call c pa i sy _ IH1 b A (cc + 1) (- (cc - A + 0 + 1)) (F :: k) m0 r0 d Hb HatS (at_fetch_ti _ _ _ _ _ HatC1))
    as (junk & a' & i' & c' & R1); [lia|].
  exists []. split; [reflexivity|]. intros res H.
  eapply run_instr; [exact (bok _ _ _ Hb)|eapply at_fetch_ti; exact HatC|apply exec_choice|]. apply R1.
  eapply runs_step; [apply step_fail_own; apply (bok sy1 _ _ Hb)|].
  eapply runs_eq; [exact H|]. seq.
Qed.

Lemma app_cons_assoc {A} (l : list A) x r : l ++ x :: r = (l ++ [x]) ++ r.
Proof. rewrite <- app_assoc. reflexivity. Qed.

Lemma case_repeat c n m pa i sy o :
  repP c (N.to_nat n) (N.to_nat m - N.to_nat n) pa i sy o -> blockP c (PRep n m pa) i sy o.
Proof.
  intros IH b a k m0 r0 d Hb Hat Ht. cbn [cg] in *.
  set (nn := N.to_nat n) in *. set (kk := (N.to_nat m - nn)%nat) in *. set (la := len (cg pa)) in *.
  pose proof (at_cons _ _ _ _ _ Hat) as Hat1. rewrite app_cons_assoc in Hat1.
  pose proof (at_app_l _ _ _ _ _ Hat1) as HatS. pose proof (at_app_r _ _ _ _ _ Hat1) as HatC.
  set (cc := a + la + 2). set (E := cc + Z.of_nat nn + 3 * Z.of_nat kk).
  assert (HatN : at_ cc (rep_calls nn (cc - a) ++ rep_opts kk (cc - a + Z.of_nat nn) (E - a))).
  { eapply at_eq; [| |exact HatC].
    - rewrite len_app, len_cons, len_nil. unfold cc, la. lia.
    - unfold E, cc. f_equal; f_equal; lia. }
  pose proof (IH b a cc E k m0 r0 d Hb HatS HatN eq_refl) as O.
  assert (Start : forall res, runs_to (core (upd_syms sy b) cc i m0 k r0 d) res -> runs_to (core (upd_syms sy b) a i m0 k r0 d) res).
  { intros res H. eapply run_instr; [exact (bok _ _ _ Hb)|eapply at_fetch_ti; exact Hat|apply exec_jump|].
    eapply runs_eq; [exact H|]. unfold cc. seq. }
  destruct o as [j t f s1|f s1].
  - destruct O as (r1 & K1 & R1). exists r1. split; [exact K1|]. intros res H.
    apply Start, R1. eapply runs_eq; [exact H|]. unfold E, cc, la. seq.
  - destruct O as (junk & a' & i' & c' & R1). exists junk, a', i', c'. intros res H.
    apply Start, R1. exact H.
Qed.

(* ------------------------------------------------------------------ the induction *)
Definition P (c : list name) (p : pexp) (i : N) (sy : symtab) (o : oute) : Prop :=
  fragE p = true -> blockP c p i sy o /\ match p with PStar pa => loopP c pa i sy o | _ => True end.
Definition P0 (c : list name) (n kk : nat) (pa : pexp) (i : N) (sy : symtab) (o : oute) : Prop :=
  fragE pa = true -> repP c n kk pa i sy o.

Lemma block_all :
  (forall c p i sy o, pegE c p i sy o -> P c p i sy o) /\
  (forall c n kk pa i sy o, pegE_rep c n kk pa i sy o -> P0 c n kk pa i sy o).
Proof.
  apply (pegE_mutind ucd inp G P P0); unfold P, P0.
  - (* empty *) intros c i s _. split; [apply case_empty|exact I].
  - (* term ok *) intros c ins i j s Ht Hm _. split; [apply case_term_ok; assumption|exact I].
  - (* term ko *) intros c ins i s Ht Hm _. split; [apply case_term_ko; assumption|exact I].
  - (* action *) intros c id i s _. split; [apply case_action|exact I].
  - (* when ok *) intros c nm v i s Hc _. split; [apply case_when_ok; exact Hc|exact I].
  - (* when ko *) intros c nm v i s Hc _. split; [apply case_when_ko; exact Hc|exact I].
  - (* exists ok *) intros c nm v i s Hc _. split; [apply case_exists_ok; exact Hc|exact I].
  - (* exists ko *) intros c nm v i s Hc _. split; [apply case_exists_ko; exact Hc|exact I].
  - (* symmatch ok *) intros c k nm idx i j s Hm _. split; [apply case_symmatch_ok; exact Hm|exact I].
  - (* symmatch ko *) intros c k nm idx i s Hm _. split; [apply case_symmatch_ko; exact Hm|exact I].
  - (* seq ok *) intros c pa pb i j t1 f1 s s1 j' t2 f2 s2 _ IH1 _ IH2 Hf. cbn [fragE] in Hf. apply andb_prop in Hf as [Hfa Hfb].
    split; [|exact I]. apply case_seq_ok with (j := j) (sy1 := s1); [exact Hfb|exact (proj1 (IH1 Hfa))|exact (proj1 (IH2 Hfb))].
  - (* seq ko2 *) intros c pa pb i j t1 f1 s s1 f2 s2 _ IH1 _ IH2 Hf. cbn [fragE] in Hf. apply andb_prop in Hf as [Hfa Hfb].
    split; [|exact I]. eapply case_seq_ko2; [exact Hfb|exact (proj1 (IH1 Hfa))|exact (proj1 (IH2 Hfb))].
  - (* seq ko1 *) intros c pa pb i s f1 s1 _ IH1 Hf. cbn [fragE] in Hf. apply andb_prop in Hf as [Hfa Hfb].
    split; [|exact I]. apply case_seq_ko1; [exact Hfb|exact (proj1 (IH1 Hfa))].
  - (* alt l *) intros c pa pb i s j t f s1 _ IH1 Hf. cbn [fragE] in Hf. apply andb_prop in Hf as [Hfa Hfb].
    split; [|exact I]. apply case_alt_l. exact (proj1 (IH1 Hfa)).
  - (* alt r ok *) intros c pa pb i s f1 s1 j t f2 s2 _ IH1 _ IH2 Hf. cbn [fragE] in Hf. apply andb_prop in Hf as [Hfa Hfb].
    split; [|exact I]. exact (case_alt_r c pa pb i s f1 s1 (SuccE j t f2 s2) (proj1 (IH1 Hfa)) (proj1 (IH2 Hfb))).
  - (* alt r ko *) intros c pa pb i s f1 s1 f2 s2 _ IH1 _ IH2 Hf. cbn [fragE] in Hf. apply andb_prop in Hf as [Hfa Hfb].
    split; [|exact I]. exact (case_alt_r c pa pb i s f1 s1 (FailE f2 s2) (proj1 (IH1 Hfa)) (proj1 (IH2 Hfb))).
  - (* star more *) intros c pa i s j t1 f1 s1 j' t2 f2 s2 _ IH1 _ IH2 Hf. cbn [fragE] in Hf.
    pose proof (case_star_more_loop c pa i s j t1 f1 s1 j' t2 f2 s2 (proj1 (IH1 Hf)) (proj2 (IH2 Hf))) as L.
    split; [apply star_block|]; exact L.
  - (* star done *) intros c pa i s f s1 _ IH1 Hf. cbn [fragE] in Hf.
    pose proof (case_star_done_loop c pa i s f s1 (proj1 (IH1 Hf))) as L.
    split; [apply star_block|]; exact L.
  - (* not ok *) intros c pa i s f s1 _ IH1 Hf. cbn [fragE] in Hf. split; [|exact I]. apply case_not_ok. exact (proj1 (IH1 Hf)).
  - (* not ko *) intros c pa i s j t f s1 _ IH1 Hf. cbn [fragE] in Hf. split; [|exact I]. apply case_not_ko with (t := t) (j := j). exact (proj1 (IH1 Hf)).
  - (* and ok *) intros c pa i s j t f s1 _ IH1 Hf. cbn [fragE] in Hf. split; [|exact I]. apply case_and_ok with (j := j). exact (proj1 (IH1 Hf)).
  - (* and ko *) intros c pa i s f s1 _ IH1 Hf. cbn [fragE] in Hf. split; [|exact I]. apply case_and_ko. exact (proj1 (IH1 Hf)).
  - (* eoi ok *) intros c i s Hm _. split; [apply case_eoi_ok; exact Hm|exact I].
  - (* eoi ko *) intros c i j s Hm _. split; [apply case_eoi_ko; exact Hm|exact I].
  - (* repeat *) intros c n m pa i s o _ IH Hf. cbn [fragE] in Hf. split; [|exact I]. apply case_repeat. exact (IH Hf).
  - (* call *) intros c r prec mode body i s o HG _ IH Hf. destruct (Hrules r body HG) as [Hfb _].
    split; [|exact I]. eapply case_call; [exact HG|exact (proj1 (IH Hfb))].
  - (* inline *) intros c r body i s o _ IH Hf. cbn [fragE] in Hf. split; [exact (proj1 (IH Hf))|exact I].
  - (* skip *) intros c sp i s o _ IH Hf. cbn [fragE] in Hf. split; [exact (proj1 (IH Hf))|exact I].
  - (* capture ok *) intros c id pa i s j t f s1 Hpeg IH Hf. cbn [fragE] in Hf. split; [|exact I].
    apply case_capture_ok; [exact (proj1 (pegE_mono ucd inp G) _ _ _ _ _ Hpeg)|exact (proj1 (IH Hf))].
  - (* capture ko *) intros c id pa i s f s1 _ IH Hf. cbn [fragE] in Hf. split; [|exact I].
    apply case_capture_ko. exact (proj1 (IH Hf)).
  - (* condition block *) intros c nm v pa i s o _ IH Hf. cbn [fragE] in Hf. split; [|exact I].
    apply case_cond. exact (proj1 (IH Hf)).
  - (* symdef ok *) intros c nm pa i s j t f s1 Hpeg IH Hf. cbn [fragE] in Hf. split; [|exact I].
    apply case_symdef_ok; [exact (proj1 (pegE_mono ucd inp G) _ _ _ _ _ Hpeg)|exact (proj1 (IH Hf))].
  - (* symdef ko *) intros c nm pa i s f s1 _ IH Hf. cbn [fragE] in Hf. split; [|exact I].
    apply case_symdef_ko. exact (proj1 (IH Hf)).
  - (* scope ok *) intros c kind nm pa i s j t f s1 _ IH Hf. cbn [fragE] in Hf. apply andb_prop in Hf as [Hf _]. split; [|exact I].
    eapply case_scope_ok. exact (proj1 (IH Hf)).
  - (* scope ko *) intros c kind nm pa i s f s1 _ IH Hf. cbn [fragE] in Hf. apply andb_prop in Hf as [Hf _]. split; [|exact I].
    eapply case_scope_ko. exact (proj1 (IH Hf)).
  - (* rep done *) intros c pa i s _. apply case_rep_done.
  - (* rep must ok *) intros c n kk pa i s j t1 f1 s1 o _ IH1 _ IH2 Hf. apply case_rep_must_ok with (j := j) (sy1 := s1); [exact (proj1 (IH1 Hf))|exact (IH2 Hf)].
  - (* rep must ko *) intros c n kk pa i s f s1 _ IH1 Hf. apply case_rep_must_ko. exact (proj1 (IH1 Hf)).
  - (* rep opt ok *) intros c kk pa i s j t1 f1 s1 j' t2 f2 s2 _ IH1 _ IH2 Hf. eapply case_rep_opt_ok; [exact (proj1 (IH1 Hf))|exact (IH2 Hf)].
  - (* rep opt stop *) intros c kk pa i s f s1 _ IH1 Hf. apply case_rep_opt_stop. exact (proj1 (IH1 Hf)).
Qed.

End Block.

Theorem block_env : stmt_block_env.
Proof.
  intros ucd cb prog addr inp G Htot Hrules cnd p i sy o Hpeg Hfrag b a k m0 r0 d Hb Hat Ht.
  pose proof (proj1 (proj1 (block_all ucd cb prog addr inp G Htot Hrules) cnd p i sy o Hpeg Hfrag) b a k m0 r0 d Hb Hat Ht) as O.
  destruct o as [j t f s1|f s1]; exact O.
Qed.
