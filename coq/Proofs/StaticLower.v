(* Lowering to lug's numeric encoding loses nothing, and lowering a concatenation extends the tables of
   the first part (statements in Proofs/StaticStmt.v). *)
From Coq Require Import NArith ZArith List Bool Lia ZifyBool ZifyN ZifyNat.
From Lug Require Import Gen.Consts Ucd.RuneSet VM.Instr Lang.Lower.
From Lug Require Import Proofs.StaticStmt.
Import ListNotations.

(* ---- prefixes ---- *)

Definition prefix {A} (l1 l2 : list A) : Prop := exists s, l2 = l1 ++ s.

Lemma prefix_refl {A} (l : list A) : prefix l l.
Proof. exists []. rewrite app_nil_r. reflexivity. Qed.

Lemma prefix_app {A} (l s : list A) : prefix l (l ++ s).
Proof. exists s. reflexivity. Qed.

Lemma prefix_trans {A} (l1 l2 l3 : list A) : prefix l1 l2 -> prefix l2 l3 -> prefix l1 l3.
Proof. intros [s1 ->] [s2 ->]. exists (s1 ++ s2). rewrite app_assoc. reflexivity. Qed.

Lemma prefix_firstn {A} (l1 l2 : list A) : prefix l1 l2 -> firstn (length l1) l2 = l1.
Proof.
  intros [s ->]. rewrite firstn_app, Nat.sub_diag, firstn_all. cbn [firstn]. apply app_nil_r.
Qed.

Lemma nthN_ext {A} (l : list A) a l' : prefix (l ++ [a]) l' -> nthN l' (lenN l) = Some a.
Proof.
  intros [s ->]. unfold nthN, lenN. rewrite Nat2N.id, <- app_assoc.
  rewrite nth_error_app2 by lia. rewrite Nat.sub_diag. reflexivity.
Qed.

Lemma slice_ext (d s d' : list N) : prefix (d ++ s) d' -> slice d' (Z.of_N (lenN d)) (lenN s) = Some s.
Proof.
  intros [r ->]. unfold slice, lenN.
  destruct (Z.of_N (N.of_nat (length d)) <? 0)%Z eqn:E; [lia|].
  replace (Z.to_nat (Z.of_N (N.of_nat (length d)))) with (length d) by lia. rewrite !Nat2N.id.
  destruct (length d + length s <=? length ((d ++ s) ++ r))%nat eqn:E2.
  - f_equal. rewrite <- app_assoc, skipn_app, Nat.sub_diag, skipn_all. cbn [skipn app].
    rewrite firstn_app, Nat.sub_diag, firstn_all. cbn [firstn]. apply app_nil_r.
  - rewrite !app_length in E2. lia.
Qed.

(* ---- one program extends another: every table and the code only grew at the end ---- *)

Definition ext (p q : program) : Prop :=
  prefix (p_code p) (p_code q) /\ prefix (p_data p) (p_data q) /\
  prefix (p_uniforms p) (p_uniforms q) /\ prefix (p_runesets p) (p_runesets q) /\
  prefix (p_handlers p) (p_handlers q) /\ prefix (p_predicates p) (p_predicates q) /\
  prefix (p_actions p) (p_actions q) /\ prefix (p_captures p) (p_captures q).

Lemma ext_refl p : ext p p.
Proof. repeat split; apply prefix_refl. Qed.

Lemma ext_trans p q r : ext p q -> ext q r -> ext p r.
Proof.
  intros (A1 & A2 & A3 & A4 & A5 & A6 & A7 & A8) (B1 & B2 & B3 & B4 & B5 & B6 & B7 & B8).
  repeat split; eapply prefix_trans; eassumption.
Qed.

Ltac pfx := first [apply prefix_refl | apply prefix_app].

Lemma lower_one_ext p i : ext p (lower_one p i).
Proof.
  destruct i; cbn [lower_one];
    try (match goal with k : class_kind |- _ => destruct k end);
    try (match goal with |- context [N.eqb ?k 1] => destruct (N.eqb k 1) end);
    unfold ext; repeat split; pfx.
Qed.

Lemma fold_ext : forall c p, ext p (fold_left lower_one c p).
Proof.
  induction c as [|i c IH]; intros p; cbn [fold_left]; [apply ext_refl|].
  eapply ext_trans; [apply lower_one_ext|apply IH].
Qed.

(* ---- decoding what one instruction was lowered to, through any later tables ---- *)

Lemma b2n_back v : negb (N.eqb (b2n v) 0) = v.
Proof. destruct v; reflexivity. Qed.

Lemma lower_one_back p i :
  exists x, p_code (lower_one p i) = p_code p ++ [x] /\
            forall q, ext (lower_one p i) q -> canon i -> unlower_one q x = Some i.
Proof.
  destruct i; cbn [lower_one];
    try (match goal with k : class_kind |- _ => destruct k end);
    try (match goal with k : symk, cf : bool |- _ => destruct k, cf end);
    try (match goal with |- context [N.eqb ?k 1] => destruct (N.eqb k 1) eqn:Hk1 end);
    (eexists; split; [reflexivity|]);
    intros q (_ & Hd & Hu & Hr & Hh & Hp & Ha & Hc) Hcanon;
    cbn [lower_one plain emit with_str p_code p_data p_uniforms p_runesets p_handlers p_predicates p_actions p_captures] in Hd, Hu, Hr, Hh, Hp, Ha, Hc;
    unfold unlower_one; cbn [n_op n_imm8 n_imm16 n_off sym_op];
    try rewrite (slice_ext _ _ _ Hd);
    try rewrite (nthN_ext _ _ _ Hu); try rewrite (nthN_ext _ _ _ Hr); try rewrite (nthN_ext _ _ _ Hh);
    try rewrite (nthN_ext _ _ _ Hp); try rewrite (nthN_ext _ _ _ Ha); try rewrite (nthN_ext _ _ _ Hc);
    cbn; rewrite ?b2n_back; try reflexivity.
  - (* symbol push with a name *)
    apply N.eqb_eq in Hk1. subst kind. reflexivity.
  - (* symbol push without a name *)
    rewrite Hk1. cbn [canon] in Hcanon.
    destruct Hcanon as [->|[_ ->]]; [discriminate Hk1|reflexivity].
Qed.

(* ---- the whole code ---- *)

Lemma fold_back : forall code p0, Forall canon code ->
  exists xs, p_code (fold_left lower_one code p0) = p_code p0 ++ xs /\
             forall q, ext (fold_left lower_one code p0) q -> map_opt' (unlower_one q) xs = Some code.
Proof.
  induction code as [|i rest IH]; intros p0 Hcan; cbn [fold_left].
  - exists []. split; [rewrite app_nil_r; reflexivity|]. intros q _. reflexivity.
  - inversion Hcan as [|i' rest' Hi Hrest]; subst.
    destruct (lower_one_back p0 i) as [x [Hx1 Hx2]].
    destruct (IH (lower_one p0 i) Hrest) as [xs [Hxs1 Hxs2]].
    exists (x :: xs). split.
    + rewrite Hxs1, Hx1, <- app_assoc. reflexivity.
    + intros q Hq. cbn [map_opt'].
      rewrite (Hx2 q (ext_trans _ _ _ (fold_ext rest _) Hq) Hi), (Hxs2 q Hq). reflexivity.
Qed.

Theorem unlower_lower_proof : stmt_unlower_lower.
Proof.
  intros code Hcan. destruct (fold_back code empty_program Hcan) as [xs [H1 H2]].
  unfold unlower. set (Q := lower code).
  replace (p_code Q) with xs by (unfold Q, lower; cbn [p_code]; rewrite H1; reflexivity).
  apply H2. unfold Q, lower, ext. cbn [p_code p_data p_uniforms p_runesets p_handlers p_predicates p_actions p_captures].
  repeat split; pfx.
Qed.

(* ---- lowering a concatenation ---- *)

Lemma lower_one_code_length p i : length (p_code (lower_one p i)) = S (length (p_code p)).
Proof. destruct (lower_one_back p i) as [x [-> _]]. rewrite app_length. cbn [length]. lia. Qed.

Lemma fold_code_length : forall c p, length (p_code (fold_left lower_one c p)) = (length (p_code p) + length c)%nat.
Proof.
  induction c as [|i c IH]; intros p; cbn [fold_left length]; [lia|].
  rewrite IH, lower_one_code_length. lia.
Qed.

Theorem lower_app_code_proof : stmt_lower_app_code.
Proof.
  intros c1 c2 p1 p. subst p. rewrite fold_left_app. fold p1.
  destruct (fold_ext c2 p1) as (H1 & H2 & H3 & H4 & H5 & H6 & H7 & H8).
  assert (Hl : length c1 = length (p_code p1)).
  { unfold p1. rewrite fold_code_length. reflexivity. }
  rewrite Hl. repeat split; apply prefix_firstn; assumption.
Qed.

Print Assumptions unlower_lower_proof.
Print Assumptions lower_app_code_proof.
