(* Lemma kit for the block theorem with environment: names and sorted condition sets, the new
   instructions on canonical states, the symbol matchers against [sym_match], monotonicity of [pegE]. *)
From Coq Require Import NArith ZArith List Bool Lia ZifyBool ZifyN ZifyNat.
From Lug Require Import Gen.Consts Gen.UcdTables Utf8.Utf8Model Ucd.Lookup Ucd.RuneSet VM.Instr Lang.Elab Lang.Codegen
  VM.Machine Spec.Peg Spec.PegEnv Proofs.BlockDefs Proofs.BlockLemmas Proofs.BlockEnvDefs.
Import ListNotations.
Local Open Scope Z_scope.

(* ------------------------------------------------------------------ names *)
Lemma name_eqb_eq a b : name_eqb a b = true <-> a = b.
Proof.
  revert b; induction a as [|x a IH]; intros [|y b]; cbn [name_eqb]; split; intros H; try reflexivity; try discriminate.
  - apply andb_prop in H as [H1 H2]. apply N.eqb_eq in H1. apply IH in H2. congruence.
  - injection H as -> ->. rewrite N.eqb_refl. cbn [andb]. apply IH. reflexivity.
Qed.

Lemma name_eqb_refl a : name_eqb a a = true.
Proof. apply name_eqb_eq. reflexivity. Qed.

Lemma name_eqb_sym a b : name_eqb a b = name_eqb b a.
Proof.
  destruct (name_eqb a b) eqn:E1, (name_eqb b a) eqn:E2; try reflexivity.
  - apply name_eqb_eq in E1. subst. rewrite name_eqb_refl in E2. discriminate.
  - apply name_eqb_eq in E2. subst. rewrite name_eqb_refl in E1. discriminate.
Qed.

Lemma name_ltb_irrefl a : name_ltb a a = false.
Proof. induction a as [|x a IH]; cbn [name_ltb]; [reflexivity|]. rewrite IH. lia. Qed.

Lemma name_ltb_trans a b c : name_ltb a b = true -> name_ltb b c = true -> name_ltb a c = true.
Proof.
  revert b c; induction a as [|x a IH]; intros [|y b] [|z c]; cbn [name_ltb]; intros H1 H2; try discriminate; try reflexivity.
  apply orb_prop in H1. apply orb_prop in H2. apply orb_true_iff.
  destruct H1 as [H1|H1]; destruct H2 as [H2|H2].
  - left. lia.
  - apply andb_prop in H2 as [H2 _]. left. lia.
  - apply andb_prop in H1 as [H1 _]. left. lia.
  - apply andb_prop in H1 as [H1 H1']. apply andb_prop in H2 as [H2 H2']. right.
    apply andb_true_intro. split; [lia|]. eapply IH; eassumption.
Qed.

Lemma name_ltb_total a b : name_ltb a b = false -> name_eqb a b = false -> name_ltb b a = true.
Proof.
  revert b; induction a as [|x a IH]; intros [|y b]; cbn [name_ltb name_eqb]; intros H1 H2; try discriminate; try reflexivity.
  apply orb_false_elim in H1 as [H1 H1']. apply orb_true_iff.
  destruct (x =? y)%N eqn:E.
  - right. cbn [andb] in *. apply andb_true_intro. split; [lia|]. apply IH; assumption.
  - left. lia.
Qed.

Lemma name_ltb_asym a b : name_ltb a b = true -> name_ltb b a = false.
Proof.
  intros H. destruct (name_ltb b a) eqn:E; [|reflexivity].
  pose proof (name_ltb_trans _ _ _ H E) as K. rewrite name_ltb_irrefl in K. discriminate.
Qed.

Lemma name_ltb_neq a b : name_ltb a b = true -> name_eqb a b = false.
Proof.
  intros H. destruct (name_eqb a b) eqn:E; [|reflexivity]. apply name_eqb_eq in E. subst.
  rewrite name_ltb_irrefl in H. discriminate.
Qed.

(* ------------------------------------------------------------------ sorted condition sets *)
Definition lb (x : name) (r : list name) : Prop := forall y, In y r -> name_ltb x y = true.

Lemma sorted_cons_iff x r : conds_sorted (x :: r) <-> lb x r /\ conds_sorted r.
Proof.
  revert x; induction r as [|y r IH]; intros x.
  - cbn. split; [intros _; split; [intros z []|exact I]|intros _; split; exact I].
  - change (conds_sorted (x :: y :: r)) with (name_ltb x y = true /\ conds_sorted (y :: r)).
    split.
    + intros [H1 H2]. split; [|exact H2]. intros z [<-|Hz]; [exact H1|].
      apply IH in H2 as [H2 _]. eapply name_ltb_trans; [exact H1|]. apply H2. exact Hz.
    + intros [H1 H2]. split; [|exact H2]. apply H1. left. reflexivity.
Qed.

Lemma has_cond_in c nm : has_cond c nm = true -> In nm c.
Proof.
  unfold has_cond. intros H. apply existsb_exists in H as (x & Hx & E). apply name_eqb_eq in E. subst. exact Hx.
Qed.

Lemma lb_not_has x r : lb x r -> has_cond r x = false.
Proof.
  intros H. destruct (has_cond r x) eqn:E; [|reflexivity]. apply has_cond_in in E. apply H in E.
  rewrite name_ltb_irrefl in E. discriminate.
Qed.

Lemma remove_absent c nm : has_cond c nm = false -> remove_cond c nm = c.
Proof.
  unfold has_cond, remove_cond. induction c as [|x r IH]; cbn [existsb filter]; intros H; [reflexivity|].
  apply orb_false_elim in H as [H1 H2]. rewrite H1. cbn [negb]. rewrite IH by exact H2. reflexivity.
Qed.

Lemma insert_present c nm : conds_sorted c -> has_cond c nm = true -> insert_cond c nm = c.
Proof.
  induction c as [|x r IH]; intros Hs H; [discriminate H|].
  cbn [insert_cond]. destruct (name_eqb nm x) eqn:E; [reflexivity|].
  apply sorted_cons_iff in Hs as [Hl Hs].
  change (has_cond (x :: r) nm) with (name_eqb nm x || has_cond r nm)%bool in H. rewrite E in H. cbn [orb] in H.
  pose proof (Hl nm (has_cond_in _ _ H)) as K. rewrite (name_ltb_asym _ _ K). rewrite IH by assumption. reflexivity.
Qed.

Lemma remove_insert c nm : has_cond c nm = false -> remove_cond (insert_cond c nm) nm = c.
Proof.
  induction c as [|x r IH]; intros H.
  - cbn [insert_cond]. unfold remove_cond. cbn [filter]. rewrite name_eqb_refl. reflexivity.
  - change (has_cond (x :: r) nm) with (name_eqb nm x || has_cond r nm)%bool in H.
    apply orb_false_elim in H as [H1 H2]. cbn [insert_cond]. rewrite H1.
    destruct (name_ltb nm x).
    + unfold remove_cond. cbn [filter]. rewrite name_eqb_refl, H1. cbn [negb].
      f_equal. apply remove_absent. exact H2.
    + unfold remove_cond. cbn [filter]. rewrite H1. cbn [negb]. f_equal. apply IH. exact H2.
Qed.

Lemma insert_remove c nm : conds_sorted c -> has_cond c nm = true -> insert_cond (remove_cond c nm) nm = c.
Proof.
  induction c as [|x r IH]; intros Hs H; [discriminate H|].
  apply sorted_cons_iff in Hs as [Hl Hs].
  change (has_cond (x :: r) nm) with (name_eqb nm x || has_cond r nm)%bool in H.
  unfold remove_cond. cbn [filter]. fold (remove_cond r nm).
  destruct (name_eqb nm x) eqn:E; cbn [negb].
  - apply name_eqb_eq in E. subst x.
    rewrite remove_absent by (apply lb_not_has; exact Hl).
    destruct r as [|y r']; [reflexivity|]. cbn [insert_cond].
    pose proof (Hl y (or_introl eq_refl)) as K. rewrite (name_ltb_neq _ _ K), K. reflexivity.
  - cbn [orb] in H. cbn [insert_cond]. rewrite E.
    pose proof (Hl nm (has_cond_in _ _ H)) as K. rewrite (name_ltb_asym _ _ K). rewrite IH by assumption. reflexivity.
Qed.

Lemma set_cond_restore c nm v : conds_sorted c -> set_cond (set_cond c nm v) nm (has_cond c nm) = c.
Proof.
  intros Hs. destruct v, (has_cond c nm) eqn:E; cbn [set_cond].
  - rewrite (insert_present c nm) by assumption. apply insert_present; assumption.
  - apply remove_insert. exact E.
  - apply insert_remove; assumption.
  - rewrite (remove_absent c nm) by assumption. apply remove_absent; assumption.
Qed.

Lemma in_insert c nm y : In y (insert_cond c nm) -> y = nm \/ In y c.
Proof.
  induction c as [|x r IH]; cbn [insert_cond].
  - intros [<-|[]]. left. reflexivity.
  - destruct (name_eqb nm x); [intros H; right; exact H|].
    destruct (name_ltb nm x).
    + intros [<-|H]; [left; reflexivity|right; exact H].
    + intros [<-|H]; [right; left; reflexivity|]. destruct (IH H) as [->|K]; [left; reflexivity|right; right; exact K].
Qed.

Lemma insert_sorted c nm : conds_sorted c -> conds_sorted (insert_cond c nm).
Proof.
  induction c as [|x r IH]; intros Hs; [cbn; split; exact I|].
  cbn [insert_cond]. destruct (name_eqb nm x) eqn:E; [exact Hs|].
  destruct (name_ltb nm x) eqn:L.
  - change (name_ltb nm x = true /\ conds_sorted (x :: r)). split; assumption.
  - apply sorted_cons_iff in Hs as [Hl Hs]. apply sorted_cons_iff. split; [|apply IH; exact Hs].
    intros y Hy. destruct (in_insert _ _ _ Hy) as [->|K]; [|apply Hl; exact K].
    apply name_ltb_total; [exact L|]. exact E.
Qed.

Lemma remove_sorted c nm : conds_sorted c -> conds_sorted (remove_cond c nm).
Proof.
  unfold remove_cond. induction c as [|x r IH]; intros Hs; [exact I|].
  apply sorted_cons_iff in Hs as [Hl Hs]. cbn [filter].
  destruct (negb (name_eqb nm x)); [|apply IH; exact Hs].
  apply sorted_cons_iff. split; [|apply IH; exact Hs].
  intros y Hy. apply filter_In in Hy as [Hy _]. apply Hl. exact Hy.
Qed.

Lemma set_cond_sorted c nm v : conds_sorted c -> conds_sorted (set_cond c nm v).
Proof. destruct v; cbn [set_cond]; [apply insert_sorted|apply remove_sorted]. Qed.

(* ------------------------------------------------------------------ canonical states with a table *)
Lemma coreE_core b a i m k r d sy : coreE b a i m k r d sy = core (upd_syms sy b) a i m k r d.
Proof. reflexivity. Qed.
Lemma failingE_failing b a i m k r c d sy : failingE b a i m k r c d sy = failing (upd_syms sy b) a i m k r c d.
Proof. reflexivity. Qed.

Lemma base_ok_syms inp sy b : base_ok inp b -> base_ok inp (upd_syms sy b).
Proof. intros H. exact H. Qed.
Lemma base_ok_conds inp c b : base_ok inp b -> base_ok inp (upd_conds c b).
Proof. intros H. exact H. Qed.

(* ------------------------------------------------------------------ the new instructions *)
Section Steps.
Variable ucd : ucd_table.
Variable cb : callbacks.
Variable prog : list sinstr.
Notation step := (step ucd cb prog).
Notation exec := (exec ucd cb).

Lemma exec_cond_test_ok b a i m k r d nm v :
  has_cond (conds b) nm = v -> exec (IConditionTest nm v) (core b a i m k r d) = Running (core b a i m k r d).
Proof.
  intros H. unfold Machine.exec. change (conds (core b a i m k r d)) with (conds b). rewrite H, Bool.eqb_reflx. reflexivity.
Qed.

Lemma exec_cond_test_ko b a i m k r d nm v :
  has_cond (conds b) nm <> v ->
  exec (IConditionTest nm v) (core b a i m k r d) = Running (failing b a i (N.max m i) k r (lenN r) d).
Proof.
  intros H. unfold Machine.exec. change (conds (core b a i m k r d)) with (conds b).
  destruct (Bool.eqb (has_cond (conds b) nm) v) eqn:E; [apply eqb_prop in E; contradiction|]. reflexivity.
Qed.

Lemma exec_sym_exists_ok b a i m k r d nm v :
  has_symbol (syms b) nm = v -> exec (ISymbolExists nm v) (core b a i m k r d) = Running (core b a i m k r d).
Proof.
  intros H. unfold Machine.exec. change (syms (core b a i m k r d)) with (syms b). rewrite H, Bool.eqb_reflx. reflexivity.
Qed.

Lemma exec_sym_exists_ko b a i m k r d nm v :
  has_symbol (syms b) nm <> v ->
  exec (ISymbolExists nm v) (core b a i m k r d) = Running (failing b a i (N.max m i) k r (lenN r) d).
Proof.
  intros H. unfold Machine.exec. change (syms (core b a i m k r d)) with (syms b).
  destruct (Bool.eqb (has_symbol (syms b) nm) v) eqn:E; [apply eqb_prop in E; contradiction|]. reflexivity.
Qed.

Lemma exec_cond_push b a i m k r d nm v :
  exec (IConditionPush nm v) (core b a i m k r d) =
  Running (core (upd_conds (set_cond (conds b) nm v) b) a i m (FCond nm (has_cond (conds b) nm) :: k) r d).
Proof. reflexivity. Qed.

Lemma exec_cond_pop b a i m k r d nm old :
  exec IConditionPop (core b a i m (FCond nm old :: k) r d) =
  Running (core (upd_conds (set_cond (conds b) nm old) b) a i m k r d).
Proof. reflexivity. Qed.

Lemma fail_step_cond s nm old rest :
  frames s = FCond nm old :: rest ->
  fail_step cb s = Running (upd_frames rest (upd_conds (set_cond (conds s) nm old) s)).
Proof.
  intros Hfr. unfold fail_step, fail_one. rewrite Hfr. cbv beta iota zeta.
  change (BACKTRACK <=? BACKTRACK)%N with true. reflexivity.
Qed.

Lemma step_fail_cond b a' i' m nm old k r c d :
  step (failing b a' i' m (FCond nm old :: k) r c d) =
  Running (failing (upd_conds (set_cond (conds b) nm old) b) a' i' m k r c d).
Proof.
  rewrite step_failing by (st; lia).
  rewrite (fail_step_cond _ nm old k) by reflexivity. reflexivity.
Qed.

Lemma exec_symbol_start b a i m k r d nm :
  exec (ISymbolStart nm) (core b a i m k r d) = Running (core b a i m (FSymbol nm i :: k) r d).
Proof. reflexivity. Qed.

Lemma exec_symbol_end_gen s nm sr0 rest :
  frames s = FSymbol nm sr0 :: rest -> (sr0 <= sr s)%N ->
  exec ISymbolEnd s =
  Running (upd_syms (add_symbol (syms s) nm (firstnN (sr s - sr0) (skipnN sr0 (buf s)))) (upd_frames rest s)).
Proof.
  intros Hfr Hle. unfold Machine.exec. rewrite Hfr. cbv beta iota zeta. st.
  replace (sr s <? sr0)%N with false by lia. reflexivity.
Qed.

Lemma exec_symbol_end b a i j m k r d nm :
  (i <= j)%N ->
  exec ISymbolEnd (core b a j m (FSymbol nm i :: k) r d) =
  Running (core (upd_syms (add_symbol (syms b) nm (firstnN (j - i) (skipnN i (buf b)))) b) a j m k r d).
Proof.
  intros Hle. rewrite (exec_symbol_end_gen _ nm i k) by (st; first [reflexivity | assumption]). reflexivity.
Qed.

Lemma fail_step_symbol s nm x rest :
  frames s = FSymbol nm x :: rest -> fail_step cb s = Running (upd_frames rest s).
Proof.
  intros Hfr. unfold fail_step, fail_one. rewrite Hfr. cbv beta iota zeta.
  change (BACKTRACK <=? BACKTRACK)%N with true. reflexivity.
Qed.

Lemma step_fail_symbol b a' i' m nm x k r c d :
  step (failing b a' i' m (FSymbol nm x :: k) r c d) = Running (failing b a' i' m k r c d).
Proof.
  rewrite step_failing by (st; lia).
  rewrite (fail_step_symbol _ nm x k) by reflexivity. reflexivity.
Qed.

Lemma exec_symbol_push b a i m k r d kind nm :
  exec (ISymbolPush kind nm) (core b a i m k r d) =
  Running (core (upd_syms (scope_enter kind nm (syms b)) b) a i m (FSymtab (syms b) :: k) r d).
Proof.
  unfold Machine.exec, scope_enter. destruct (kind =? 1)%N; [reflexivity|]. destruct (kind =? 2)%N; reflexivity.
Qed.

Lemma exec_symbol_pop b a i m k r d t :
  exec ISymbolPop (core b a i m (FSymtab t :: k) r d) = Running (core (upd_syms t b) a i m k r d).
Proof. reflexivity. Qed.

Lemma fail_step_symtab s t rest :
  frames s = FSymtab t :: rest -> fail_step cb s = Running (upd_frames rest (upd_syms t s)).
Proof.
  intros Hfr. unfold fail_step, fail_one. rewrite Hfr. cbv beta iota zeta.
  change (BACKTRACK <=? BACKTRACK)%N with true. reflexivity.
Qed.

Lemma step_fail_symtab b a' i' m t k r c d :
  step (failing b a' i' m (FSymtab t :: k) r c d) = Running (failing (upd_syms t b) a' i' m k r c d).
Proof.
  rewrite step_failing by (st; lia).
  rewrite (fail_step_symtab _ t k) by reflexivity. reflexivity.
Qed.
End Steps.

(* ------------------------------------------------------------------ symbol matchers *)
Section SymMatch.
Variable ucd : ucd_table.
Variable cb : callbacks.
Variable prog : list sinstr.
Variable inp : list N.
Notation step := (step ucd cb prog).
Notation exec := (exec ucd cb).
Notation src_ok := (src_ok inp).

Lemma m_seq_at_lit v i s : src_ok s -> m_seq_at ucd false v i s = inr (lit_at inp v i, s).
Proof.
  intros Hs. unfold m_seq_at, lit_at. destruct (lenN v =? 0)%N; [reflexivity|].
  rewrite (avail_ok inp s i (lenN v) 0%N Hs). cbv iota beta.
  destruct ((i <? lenN inp) && (lenN v <=? lenN inp - i))%N; [|reflexivity]. cbn [andb].
  unfold compare_at, subject_from, Peg.rest. destruct Hs as (_ & _ & _ & ->).
  destruct (list_eqb (firstnN (lenN v) (skipnN i inp)) v); reflexivity.
Qed.

Lemma m_sym_all_ok vals : forall i s, src_ok s -> m_sym_all ucd false vals i s = inr (sym_all inp vals i, s).
Proof.
  induction vals as [|v vals IH]; intros i s Hs; cbn [m_sym_all sym_all sym_mod]; [reflexivity|].
  unfold sym_mod. rewrite m_seq_at_lit by exact Hs. destruct (lit_at inp v i) as [j|]; [|reflexivity].
  apply IH. exact Hs.
Qed.

Lemma m_sym_any_ok vals : forall i s, src_ok s -> m_sym_any ucd false vals i s = inr (sym_any inp vals i, s).
Proof.
  induction vals as [|v vals IH]; intros i s Hs; cbn [m_sym_any sym_any]; [reflexivity|].
  unfold sym_mod. rewrite m_seq_at_lit by exact Hs. destruct (lit_at inp v i) as [j|]; [reflexivity|].
  apply IH. exact Hs.
Qed.

Lemma m_symbol_ok k nm idx s : src_ok s ->
  m_symbol ucd k false nm idx s =
  inr (match sym_match inp k (get_symbols (syms s) nm) idx (sr s) with Some j => (false, upd_sr j s) | None => (true, s) end).
Proof.
  intros Hs. unfold m_symbol, sym_match, sym_mod. destruct k.
  - rewrite m_sym_all_ok by exact Hs. destruct (sym_all inp (get_symbols (syms s) nm) (sr s)); reflexivity.
  - rewrite m_sym_any_ok by exact Hs. destruct (sym_any inp (get_symbols (syms s) nm) (sr s)); reflexivity.
  - destruct (nth_error (get_symbols (syms s) nm) (N.to_nat idx)) as [v|]; [|reflexivity].
    rewrite m_seq_at_lit by exact Hs. destruct (lit_at inp v (sr s)); reflexivity.
  - destruct (idx <? lenN (get_symbols (syms s) nm))%N; [|reflexivity].
    destruct (nth_error (get_symbols (syms s) nm) (N.to_nat (lenN (get_symbols (syms s) nm) - idx - 1))) as [v|]; [|reflexivity].
    rewrite m_seq_at_lit by exact Hs. destruct (lit_at inp v (sr s)); reflexivity.
Qed.

Lemma exec_symmatch k nm idx s : src_ok s ->
  exec (ISymbolMatch k false nm idx) s =
  match sym_match inp k (get_symbols (syms s) nm) idx (sr s) with Some j => Running (upd_sr j s) | None => start_fail 1 s end.
Proof.
  intros Hs. unfold Machine.exec. rewrite m_symbol_ok by exact Hs.
  destruct (sym_match inp k (get_symbols (syms s) nm) idx (sr s)); reflexivity.
Qed.

Lemma step_symmatch_ok b a i m k r d sk nm idx j :
  base_ok inp b -> fetch prog a = Some (ISymbolMatch sk false nm idx) ->
  sym_match inp sk (get_symbols (syms b) nm) idx i = Some j ->
  step (core b a i m k r d) = Running (core b (a + 1) j m k r d).
Proof.
  intros Hb Hf Hm. rewrite (step_core ucd cb prog b a i m k r d _) by (try apply Hb; exact Hf).
  rewrite exec_symmatch by (apply src_ok_core; assumption).
  change (sr (core b (a + 1) i m k r d)) with i. change (syms (core b (a + 1) i m k r d)) with (syms b).
  rewrite Hm. reflexivity.
Qed.

Lemma step_symmatch_ko b a i m k r d sk nm idx :
  base_ok inp b -> fetch prog a = Some (ISymbolMatch sk false nm idx) ->
  sym_match inp sk (get_symbols (syms b) nm) idx i = None ->
  step (core b a i m k r d) = Running (failing b (a + 1) i (N.max m i) k r (lenN r) d).
Proof.
  intros Hb Hf Hm. rewrite (step_core ucd cb prog b a i m k r d _) by (try apply Hb; exact Hf).
  rewrite exec_symmatch by (apply src_ok_core; assumption).
  change (sr (core b (a + 1) i m k r d)) with i. change (syms (core b (a + 1) i m k r d)) with (syms b).
  rewrite Hm. reflexivity.
Qed.

(* monotonicity *)
Lemma lit_at_mono v i j : lit_at inp v i = Some j -> (i <= j)%N.
Proof.
  unfold lit_at. destruct (lenN v =? 0)%N; [intros [= <-]; lia|].
  destruct ((i <? lenN inp)%N && (lenN v <=? lenN inp - i)%N && list_eqb (firstnN (lenN v) (rest inp i)) v); [|discriminate].
  intros [= <-]. lia.
Qed.

Lemma sym_all_mono vals : forall i j, sym_all inp vals i = Some j -> (i <= j)%N.
Proof.
  induction vals as [|v vals IH]; intros i j; cbn [sym_all]; [intros [= <-]; lia|].
  destruct (lit_at inp v i) as [j1|] eqn:E; [|discriminate]. intros H. apply lit_at_mono in E. apply IH in H. lia.
Qed.

Lemma sym_any_mono vals : forall i j, sym_any inp vals i = Some j -> (i <= j)%N.
Proof.
  induction vals as [|v vals IH]; intros i j; cbn [sym_any]; [discriminate|].
  destruct (lit_at inp v i) as [j1|] eqn:E; [intros [= <-]; eapply lit_at_mono; exact E|]. apply IH.
Qed.

Lemma sym_match_mono k vals idx i j : sym_match inp k vals idx i = Some j -> (i <= j)%N.
Proof.
  unfold sym_match. destruct k.
  - apply sym_all_mono.
  - apply sym_any_mono.
  - destruct (nth_error vals (N.to_nat idx)); [apply lit_at_mono|discriminate].
  - destruct (idx <? lenN vals)%N; [|discriminate].
    destruct (nth_error vals (N.to_nat (lenN vals - idx - 1))); [apply lit_at_mono|discriminate].
Qed.
End SymMatch.

Scheme pegE_mind := Minimality for pegE Sort Prop
  with pegE_rep_mind := Minimality for pegE_rep Sort Prop.
Combined Scheme pegE_mutind from pegE_mind, pegE_rep_mind.

Definition mono_outE (i : N) (o : oute) : Prop := match o with SuccE j _ _ _ => (i <= j)%N | FailE _ _ => True end.
Lemma pegE_mono (ucd : ucd_table) (inp : list N) (G : nat -> option pexp) :
  (forall c p i s o, pegE ucd inp G c p i s o -> mono_outE i o) /\
  (forall c n k p i s o, pegE_rep ucd inp G c n k p i s o -> mono_outE i o).
Proof.
  apply pegE_mutind; unfold mono_outE; intros; try exact I; try assumption; try lia.
  - eapply tmatch_mono; eassumption.
  - eapply sym_match_mono; eassumption.
  - destruct o; [lia|exact I].
Qed.
