(* Laws of the reference semantics (Spec/Peg.v) named by the property text: determinism, committed
   choice, greedy repetition, predicates, monotonicity, capture ranges.  Statements: Proofs/TopStmt.v. *)
From Coq Require Import NArith ZArith List Bool Lia ZifyBool ZifyN ZifyNat FMapPositive.
From Lug Require Import Gen.Consts Gen.UcdTables Utf8.Utf8Model Ucd.Lookup Ucd.RuneSet VM.Instr Lang.Expr Lang.Elab Lang.Codegen
  Lang.Link VM.Machine Spec.Peg Proofs.BlockDefs Proofs.BlockLemmas Proofs.LinkStmt Proofs.TopStmt.
Import ListNotations.
Local Open Scope N_scope.

(* ------------------------------------------------------------------ determinism *)
Ltac det_ih :=
  match goal with
  | IH : (forall o2, peg _ _ _ ?a ?i o2 -> ?o = o2), H : peg _ _ _ ?a ?i ?o' |- _ =>
      lazymatch o' with o => fail | _ => idtac end;
      let E := fresh "E" in pose proof (IH _ H) as E; clear IH;
      first [ subst o' | subst o | (inversion E; subst; clear E) ]
  | IH : (forall o2, peg_rep _ _ _ ?n ?k ?a ?i o2 -> ?o = o2), H : peg_rep _ _ _ ?n ?k ?a ?i ?o' |- _ =>
      lazymatch o' with o => fail | _ => idtac end;
      let E := fresh "E" in pose proof (IH _ H) as E; clear IH;
      first [ subst o' | subst o | (inversion E; subst; clear E) ]
  end.

Ltac same_body :=
  match goal with
  | H1 : ?G ?r = Some ?b, H2 : ?G ?r = Some ?b' |- _ =>
      lazymatch b' with b => fail | _ => idtac end;
      rewrite H1 in H2; injection H2 as <-
  end.

Lemma peg_det_all (ucd : ucd_table) (inp : list N) (G : nat -> option pexp) :
  (forall p i o1, peg ucd inp G p i o1 -> forall o2, peg ucd inp G p i o2 -> o1 = o2) /\
  (forall n k a i o1, peg_rep ucd inp G n k a i o1 -> forall o2, peg_rep ucd inp G n k a i o2 -> o1 = o2).
Proof.
  apply peg_mutind; intros;
    match goal with
    | H2 : peg _ _ _ _ _ ?o2 |- _ = ?o2 => inversion H2; subst; clear H2
    | H2 : peg_rep _ _ _ _ _ _ _ ?o2 |- _ = ?o2 => inversion H2; subst; clear H2
    end;
    try same_body; repeat det_ih; try reflexivity; try congruence; try discriminate.
Qed.

Lemma peg_deterministic_law : stmt_peg_deterministic.
Proof. intros ucd inp G p i o1 o2 H1 H2. exact (proj1 (peg_det_all ucd inp G) p i o1 H1 o2 H2). Qed.

(* ------------------------------------------------------------------ choice, star, predicates *)
Lemma choice_commits_law : stmt_choice_commits.
Proof.
  intros ucd inp G a b i j t f o Ha Hab. inversion Hab; subst.
  - eapply peg_deterministic_law; eassumption.
  - match goal with Hk : peg _ _ _ a i (Fail _) |- _ => pose proof (peg_deterministic_law _ _ _ _ _ _ _ Ha Hk) as E end.
    discriminate E.
  - match goal with Hk : peg _ _ _ a i (Fail _) |- _ => pose proof (peg_deterministic_law _ _ _ _ _ _ _ Ha Hk) as E end.
    discriminate E.
Qed.

Lemma star_never_fails_law : stmt_star_never_fails.
Proof. intros ucd inp G a i f H. inversion H. Qed.

Lemma star_greedy_gen ucd inp G p i o :
  peg ucd inp G p i o -> forall a, p = PStar a -> forall j t f, o = Succ j t f -> exists f', peg ucd inp G a j (Fail f').
Proof.
  induction 1; intros a0 Ep j0 t0 f0 Eo; try discriminate Ep.
  - injection Ep as ->. injection Eo as <- _ _. eapply IHpeg2; reflexivity.
  - injection Ep as ->. injection Eo as <- _ _. eauto.
Qed.

Lemma star_greedy_law : stmt_star_greedy.
Proof. intros ucd inp G a i j t f H. eapply star_greedy_gen; [exact H|reflexivity|reflexivity]. Qed.

Lemma predicates_consume_nothing_law : stmt_predicates_consume_nothing.
Proof.
  intros ucd inp G a i j t f. split; intros H; inversion H; subst; [split; reflexivity|reflexivity].
Qed.

Lemma peg_monotone_law : stmt_peg_monotone.
Proof. intros ucd inp G p i j t f H. exact (proj1 (peg_mono ucd inp G) _ _ _ H). Qed.

(* ------------------------------------------------------------------ capture ranges *)
Lemma caps_within_nil i j : caps_within i j [].
Proof. constructor. Qed.

Lemma caps_within_widen i j i' j' t : caps_within i j t -> i' <= i -> j <= j' -> caps_within i' j' t.
Proof.
  unfold caps_within. intros H Hi Hj. eapply Forall_impl; [|exact H].
  intros [id|id st sz]; [trivial|]. cbv beta iota. lia.
Qed.

Lemma caps_within_app i j t1 t2 : caps_within i j t1 -> caps_within i j t2 -> caps_within i j (t1 ++ t2).
Proof. unfold caps_within. intros H1 H2. apply Forall_app. split; assumption. Qed.

Ltac widen :=
  match goal with
  | H : caps_within ?i ?j ?t |- caps_within _ _ ?t => apply (caps_within_widen i j _ _ t H); lia
  end.

Definition cw_out (i : N) (o : out) : Prop := match o with Succ j t _ => caps_within i j t | Fail _ => True end.

Lemma caps_within_all (ucd : ucd_table) (inp : list N) (G : nat -> option pexp) :
  (forall r body, G r = Some body -> and_free body = true) ->
  (forall p i o, peg ucd inp G p i o -> and_free p = true -> cw_out i o) /\
  (forall n k a i o, peg_rep ucd inp G n k a i o -> and_free a = true -> cw_out i o).
Proof.
  intros HG.
  pose proof (proj1 (peg_mono ucd inp G)) as M1. pose proof (proj2 (peg_mono ucd inp G)) as M2.
  apply peg_mutind; unfold cw_out; intros; cbn [and_free] in *;
    repeat match goal with
           | H : (_ && _)%bool = true |- _ => apply andb_prop in H as [? ?]
           end;
    try discriminate; try exact I; try apply caps_within_nil;
    try (constructor; [exact I|constructor]);
    repeat match goal with
           | IH : and_free ?a = true -> _, H : and_free ?a = true |- _ => specialize (IH H)
           | H : peg _ _ _ _ _ (Succ _ _ _) |- _ => apply M1 in H; unfold mono_out in H
           | H : peg_rep _ _ _ _ _ _ _ (Succ _ _ _) |- _ => apply M2 in H; unfold mono_out in H
           end.
  - (* seq *) apply caps_within_app; widen.
  - (* alt l *) assumption.
  - (* alt r *) assumption.
  - (* star more *) apply caps_within_app; widen.
  - (* repeat *) assumption.
  - (* call *) match goal with IH : and_free _ = true -> _ |- _ => apply IH end. eapply HG; eassumption.
  - (* inline *) assumption.
  - (* skip *) assumption.
  - (* capture *) apply caps_within_app; [assumption|]. constructor; [|constructor]. lia.
  - (* rep must ok *) destruct o as [j' t2 f2|f2]; [|exact I].
    apply M2 in H1. unfold mono_out in H1.
    apply caps_within_app; widen.
  - (* rep opt ok *) apply caps_within_app; widen.
Qed.

Lemma caps_within_law : stmt_caps_within.
Proof.
  intros ucd inp G p i j t f HG Hp H.
  exact (proj1 (caps_within_all ucd inp G HG) _ _ _ H Hp).
Qed.

(* ------------------------------------------------------------------ capture text *)
Lemma cap_text_eq (inp : list N) (j start size : N) :
  start + size <= j -> firstnN size (skipnN start (firstnN j inp)) = firstnN size (skipnN start inp).
Proof.
  intros H. unfold firstnN, skipnN. rewrite skipn_firstn_comm, firstn_firstn. f_equal. lia.
Qed.

Lemma cap_text_len (inp : list N) (j start size : N) :
  start + size <= j -> j <= lenN inp -> lenN (firstnN size (skipnN start inp)) = size.
Proof.
  intros H1 H2. unfold lenN, firstnN, skipnN in *. rewrite firstn_length, skipn_length. lia.
Qed.

Lemma capture_text_exact_law : stmt_capture_text_exact.
Proof.
  intros inp i j t Hc Hj. unfold obs_of_trace. apply map_ext_in. intros [id|id st sz] Hin; [reflexivity|].
  unfold caps_within in Hc. rewrite Forall_forall in Hc. specialize (Hc _ Hin). cbv beta iota in Hc.
  cbv zeta. rewrite (cap_text_eq inp j st sz) by lia. rewrite (cap_text_len inp j st sz) by lia. reflexivity.
Qed.

(* ------------------------------------------------------------------ the clipped capture *)
Definition trivial_ucd : ucd_table :=
  {| t_stage1 := PositiveMap.empty N; t_stage2 := PositiveMap.empty N;
     t_records := PositiveMap.empty raw_record; t_nrecords := 0 |}.

Lemma capture_in_lookahead_refuted_law : stmt_capture_in_lookahead_refuted.
Proof.
  exists trivial_ucd, [97; 98; 99; 100], (fun _ => None),
    (PSeq (PAnd (PWrap ICaptureStart (PInstr (IMatch [97; 98; 99])) (ICaptureEnd 7))) (PInstr (IMatchOctet 97))),
    1, [TrCap 7 0 3], 0.
  split; [|split; [reflexivity|split; reflexivity]].
  assert (H : peg trivial_ucd [97; 98; 99; 100] (fun _ => None)
                (PSeq (PAnd (PWrap ICaptureStart (PInstr (IMatch [97; 98; 99])) (ICaptureEnd 7))) (PInstr (IMatchOctet 97)))
                0 (Succ 1 (([] ++ [TrCap 7 0 (3 - 0)]) ++ []) (N.max 0 0))).
  { eapply peg_seq_ok with (j := 0).
    - apply peg_and_ok with (j := 3). apply peg_capture_ok. apply peg_term_ok; reflexivity.
    - apply peg_term_ok; reflexivity. }
  exact H.
Qed.
