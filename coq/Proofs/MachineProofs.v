(* Proofs of the statements of Proofs/MachineStmt.v (machine-level facts that hold for all programs).
   Two statements are false as written (counterexamples below, checked by vm_compute); for those the closest
   true variant is proved under the name <name>_partial_proof. *)
From Coq Require Import NArith ZArith List Bool Lia ZifyBool ZifyN ZifyNat FMapPositive.
From Lug Require Import Gen.Consts Gen.UcdTables Utf8.Utf8Model Ucd.Lookup Ucd.RuneSet VM.Instr Lang.Core Lang.Elab VM.Machine Proofs.MachineStmt.
Import ListNotations.
Local Open Scope N_scope.

(* ------------------------------------------------------------------ record simplification *)
Ltac st := cbn [upd_pc upd_sr upd_mr upd_rc upd_cd upd_ci upd_ri upd_eh upd_rh upd_rr upd_frames upd_resp
                upd_src upd_conds upd_syms upd_cache upd_success upd_fmode add_log
                pc sr mr rc cd cic cutf accf rid rinh eh rh rr frames resp buf pending alive interactive conds syms
                foldcache success fmode log].
Ltac st_in H := cbn [upd_pc upd_sr upd_mr upd_rc upd_cd upd_ci upd_ri upd_eh upd_rh upd_rr upd_frames upd_resp
                upd_src upd_conds upd_syms upd_cache upd_success upd_fmode add_log
                pc sr mr rc cd cic cutf accf rid rinh eh rh rr frames resp buf pending alive interactive conds syms
                foldcache success fmode log] in H.
Ltac st_all := cbn [upd_pc upd_sr upd_mr upd_rc upd_cd upd_ci upd_ri upd_eh upd_rh upd_rr upd_frames upd_resp
                upd_src upd_conds upd_syms upd_cache upd_success upd_fmode add_log
                pc sr mr rc cd cic cutf accf rid rinh eh rh rr frames resp buf pending alive interactive conds syms
                foldcache success fmode log] in *.

Lemma lenN_app {A} (l l' : list A) : lenN (l ++ l') = lenN l + lenN l'.
Proof. unfold lenN. rewrite app_length. lia. Qed.
Lemma lenN_cons {A} (x : A) l : lenN (x :: l) = 1 + lenN l.
Proof. unfold lenN. cbn [length]. lia. Qed.
Lemma lenN_nil {A} : lenN (@nil A) = 0.
Proof. reflexivity. Qed.

(* ------------------------------------------------------------------ C08: deferred *)
Theorem C08_deferred_proof : stmt_C08_deferred.
Proof.
  intros s H. unfold accept_or_drain_if_deferred.
  destruct (N.eqb_spec (cic s) 0); [contradiction|reflexivity].
Qed.

(* ------------------------------------------------------------------ C08: running the responses *)
Definition set_log (l : list event) (s : mstate) : mstate :=
  {| pc := pc s; sr := sr s; mr := mr s; rc := rc s; cd := cd s; cic := cic s; cutf := cutf s; accf := accf s;
     rid := rid s; rinh := rinh s; eh := eh s; rh := rh s; rr := rr s; frames := frames s; resp := resp s;
     buf := buf s; pending := pending s; alive := alive s; interactive := interactive s; conds := conds s; syms := syms s;
     foldcache := foldcache s; success := success s; fmode := fmode s; log := l |}.

Lemma set_log_add_log l e s : set_log l (add_log e s) = set_log l s.
Proof. reflexivity. Qed.

Lemma run_responses_ok m rs : forall s, caps_ok m rs ->
  run_responses m rs s = (true, set_log (rev (events_of m rs) ++ log s) s).
Proof.
  induction rs as [|r rs IH]; intros s H.
  - cbn [run_responses events_of map rev app]. destruct s; reflexivity.
  - inversion H as [|x l Hr Hrs]; subst. cbn [run_responses events_of map rev].
    fold (events_of m rs). rewrite <- app_assoc. cbn [app].
    destruct (r_kind r) as [id|id start size].
    + rewrite IH by exact Hrs. rewrite set_log_add_log. reflexivity.
    + replace (lenN m <? start) with false by lia.
      rewrite IH by exact Hrs. rewrite set_log_add_log. reflexivity.
Qed.

Theorem C08_commit_when_zero_proof : stmt_C08_commit_when_zero.
Proof.
  intros s Hc Hcut Hsucc Hle Hpos Hcaps.
  unfold accept_or_drain_if_deferred, do_accept, subject_ok.
  rewrite Hc, Hcut. st. rewrite Hsucc. cbn [N.eqb orb andb].
  replace (sr s <=? lenN (buf s)) with true by lia. cbn [negb].
  rewrite run_responses_ok by (st; exact Hcaps).
  unfold drain. st. unfold set_log. st.
  replace (0 <? sr s) with true by lia. st.
  eexists. split; [reflexivity|]. st. repeat split; reflexivity.
Qed.

Theorem C08_accept_when_zero_proof : stmt_C08_accept_when_zero.
Proof.
  intros s Hc Hcut Hacc Hle Hcaps.
  unfold accept_or_drain_if_deferred, do_accept, subject_ok.
  rewrite Hc, Hcut, Hacc. st. cbn [N.eqb orb andb].
  replace (sr s <=? lenN (buf s)) with true by lia. cbn [negb].
  rewrite run_responses_ok by (st; exact Hcaps).
  unfold set_log. st.
  eexists. split; [reflexivity|]. st. repeat split; reflexivity.
Qed.

Theorem C08_tombstone_skipped_proof : stmt_C08_tombstone_skipped.
Proof. intros cb s c d i p rest H. unfold fail_one. rewrite H. reflexivity. Qed.

(* ------------------------------------------------------------------ C03 *)
Lemma pop_responses_after_fields n s :
  let s' := pop_responses_after n s in
  pc s' = pc s /\ sr s' = sr s /\ rc s' = rc s /\ frames s' = frames s /\ cic s' = cic s /\ rr s' = rr s /\
  cutf s' = cutf s /\ accf s' = accf s /\ success s' = success s /\ fmode s' = fmode s /\ log s' = log s /\ cd s' = cd s /\
  buf s' = buf s /\ mr s' = mr s.
Proof. unfold pop_responses_after. destruct (n <? lenN (resp s)); st; repeat split; reflexivity. Qed.

(* the first half of stmt_C03_growth_strict (growing) holds as stated *)
Lemma C03_grow cb s srr sra prec pcr pca rcr saved rest :
  frames s = FLr srr sra prec pcr pca rcr saved :: rest ->
  match sra with None => True | Some a => a < sr s end ->
  exists s', do_ret cb s = Running s' /\
             frames s' = FLr srr (Some (sr s)) prec pcr pca rcr (skipnN rcr (resp s)) :: rest /\
             sr s' = srr /\ pc s' = pca /\ rc s' = rcr.
Proof.
  intros Hf Hs. unfold do_ret. rewrite Hf.
  replace (match sra with None => true | Some a => a <? sr s end) with true by (destruct sra; lia).
  eexists. split; [reflexivity|]. st. repeat split; reflexivity.
Qed.

(* the machine after a finishing `ret` on a memo frame, before the deferred accept/cut is looked at *)
Definition lr_finish (s : mstate) (a : N) (pcr : Z) (rcr : N) (saved : list response) (rest : list frame) : mstate :=
  upd_frames rest (restore_responses_after rcr saved
    (upd_pc pcr (upd_sr a (upd_ci (cic s - 1) (cutf s) (accf s) (upd_cd (cd s - 1) s))))).

Lemma lr_finish_fields s a pcr rcr saved rest :
  let s' := lr_finish s a pcr rcr saved rest in
  frames s' = rest /\ sr s' = a /\ pc s' = pcr /\ cic s' = cic s - 1 /\ cutf s' = cutf s /\ accf s' = accf s.
Proof.
  unfold lr_finish, restore_responses_after. st.
  destruct (pop_responses_after_fields rcr (upd_pc pcr (upd_sr a (upd_ci (cic s - 1) (cutf s) (accf s) (upd_cd (cd s - 1) s)))))
    as (H1 & H2 & H3 & H4 & H5 & H6 & H7 & H8 & _).
  st_in H1. st_in H2. st_in H5. st_in H7. st_in H8. repeat split; assumption.
Qed.

Lemma do_ret_finish cb s srr a prec pcr pca rcr saved rest :
  frames s = FLr srr (Some a) prec pcr pca rcr saved :: rest -> sr s <= a ->
  do_ret cb s = accept_or_drain_if_deferred (lr_finish s a pcr rcr saved rest).
Proof.
  intros Hf Hs. unfold do_ret. rewrite Hf. replace (a <? sr s) with false by lia. reflexivity.
Qed.

Lemma run_responses_fields m rs : forall s ok s1, run_responses m rs s = (ok, s1) ->
  s1 = set_log (log s1) s.
Proof.
  induction rs as [|r rs IH]; intros s ok s1 H; cbn [run_responses] in H.
  - inversion H; subst. destruct s1; reflexivity.
  - destruct (r_kind r) as [id|id start size].
    + apply IH in H. rewrite set_log_add_log in H. exact H.
    + destruct (lenN m <? start).
      * inversion H; subst. destruct s1; reflexivity.
      * apply IH in H. rewrite set_log_add_log in H. exact H.
Qed.

(* what accept_or_drain_if_deferred can do to frames / sr / pc *)
Lemma aod_shape s s' : accept_or_drain_if_deferred s = Running s' ->
  pc s' = pc s /\
  ((frames s' = frames s /\ sr s' = sr s) \/
   (cic s = 0 /\ cutf s = true /\ 0 < sr s /\ frames s' = map (tombstone (sr s)) (frames s) /\ sr s' = 0)).
Proof.
  unfold accept_or_drain_if_deferred. intros H.
  destruct (cic s =? 0) eqn:Ec; [|inversion H; subst; auto].
  destruct (cutf s || accf s) eqn:Ef; [|inversion H; subst; auto].
  st_in H. unfold subject_ok in H. st_in H.
  destruct (negb (sr s <=? lenN (buf s))); [discriminate|].
  set (s2 := upd_mr (N.max (mr s) (sr s)) (upd_ci 0 false false s)) in *.
  assert (forall s3, (if (cutf s && success s) || accf s then do_accept s2 else Running s2) = Running s3 ->
                     pc s3 = pc s /\ frames s3 = frames s /\ sr s3 = sr s) as HP.
  { intros s3. destruct ((cutf s && success s) || accf s).
    - unfold do_accept. destruct (run_responses (firstnN (sr s2) (buf s2)) (resp s2) s2) as [ok s1] eqn:Er.
      apply run_responses_fields in Er. destruct ok; [|discriminate].
      intros E; inversion E; subst s3. rewrite Er. unfold set_log, s2. st. auto.
    - intros E; inversion E; subst s3. unfold s2. st. auto. }
  destruct (if (cutf s && success s) || accf s then do_accept s2 else Running s2) as [s3| |] eqn:H3; try discriminate.
  destruct (HP s3 eq_refl) as (P1 & P2 & P3).
  injection H as H; subst s'.
  destruct (cutf s) eqn:Ecut.
  - unfold drain. destruct (0 <? sr s3) eqn:E0.
    + st. rewrite P1, P2, P3. split; [reflexivity|]. right. repeat split; try reflexivity; lia.
    + auto.
  - auto.
Qed.

(* Counterexample to the second half of stmt_C03_growth_strict: a finishing `ret` that brings the counter to 0
   while a cut is pending drains at once: sr becomes 0 (not the memoised answer) and older backtrack frames are
   tombstoned. *)
Definition cex_growth : mstate :=
  upd_ci 1 true false (upd_sr 1 (upd_frames [FLr 0 (Some 1) 1 0%Z 0%Z 0 []; FBack (Some 0) 0 0 false 7%Z]
    (init_state_with [65] [] false false [] []))).
Definition dummy_cb : callbacks := {| cb_pred := fun _ _ => true; cb_handler := fun _ _ _ _ _ => 0 |}.

Lemma cex_growth_run :
  exists s', do_ret dummy_cb cex_growth = Running s' /\ sr s' = 0 /\ frames s' = [FBack None 0 0 false 7%Z].
Proof. eexists. split; [vm_compute; reflexivity|]. split; reflexivity. Qed.

Theorem C03_growth_strict_false : ~ stmt_C03_growth_strict.
Proof.
  intros H.
  destruct (H dummy_cb cex_growth 0 (Some 1) 1 0%Z 0%Z 0 [] [FBack (Some 0) 0 0 false 7%Z] eq_refl) as [_ H2].
  destruct cex_growth_run as (s' & Hr & Hsr & _).
  destruct (H2 1 eq_refl ltac:(vm_compute; discriminate) s' Hr) as (_ & Hs & _).
  rewrite Hsr in Hs. discriminate.
Qed.

(* closest true variant: the second half needs "no cut pending, or another capture / recursion / recovery still
   open"; without it the general shape is given by C03_finish_general below. *)
Definition stmt_C03_growth_strict_partial : Prop :=
  forall cb s srr sra prec pcr pca rcr saved rest,
    frames s = FLr srr sra prec pcr pca rcr saved :: rest ->
    (match sra with None => True | Some a => a < sr s end ->
       exists s', do_ret cb s = Running s' /\
                  frames s' = FLr srr (Some (sr s)) prec pcr pca rcr (skipnN rcr (resp s)) :: rest /\
                  sr s' = srr /\ pc s' = pca /\ rc s' = rcr) /\
    (forall a, sra = Some a -> sr s <= a -> (cutf s = false \/ 1 < cic s) ->
       forall s', do_ret cb s = Running s' -> frames s' = rest /\ sr s' = a /\ pc s' = pcr).

Theorem C03_growth_strict_partial_proof : stmt_C03_growth_strict_partial.
Proof.
  intros cb s srr sra prec pcr pca rcr saved rest Hf. split.
  - eapply C03_grow. exact Hf.
  - intros a -> Hs Hside s' Hr.
    rewrite (do_ret_finish cb s srr a prec pcr pca rcr saved rest Hf Hs) in Hr.
    destruct (lr_finish_fields s a pcr rcr saved rest) as (F1 & F2 & F3 & F4 & F5 & F6).
    apply aod_shape in Hr. destruct Hr as (Hpc & [(Hfr & Hsr)|(Hc & Hcut & _)]).
    + rewrite Hpc, Hfr, Hsr. auto.
    + rewrite F4 in Hc. rewrite F5 in Hcut. destruct Hside; [congruence|lia].
Qed.

(* without the side condition: either as stated, or the deferred cut fired *)
Theorem C03_finish_general cb s srr a prec pcr pca rcr saved rest s' :
  frames s = FLr srr (Some a) prec pcr pca rcr saved :: rest -> sr s <= a -> do_ret cb s = Running s' ->
  pc s' = pcr /\
  ((frames s' = rest /\ sr s' = a) \/
   (cic s <= 1 /\ cutf s = true /\ 0 < a /\ frames s' = map (tombstone a) rest /\ sr s' = 0)).
Proof.
  intros Hf Hs Hr.
  rewrite (do_ret_finish cb s srr a prec pcr pca rcr saved rest Hf Hs) in Hr.
  destruct (lr_finish_fields s a pcr rcr saved rest) as (F1 & F2 & F3 & F4 & F5 & F6).
  apply aod_shape in Hr. destruct Hr as (Hpc & [(Hfr & Hsr)|(Hc & Hcut & Hpos & Hfr & Hsr)]).
  - rewrite Hpc, Hfr, Hsr. auto.
  - rewrite Hpc. split; [assumption|]. right. rewrite F4 in Hc. rewrite F5 in Hcut. rewrite F2 in *. rewrite F1 in Hfr.
    repeat split; try assumption. lia.
Qed.

Theorem C03_prec_filter_proof : stmt_C03_prec_filter.
Proof.
  intros s prec off srr sra mprec pcr pca rcr saved Hp Hm Hside.
  unfold call_into. replace (prec =? 0) with false by lia. rewrite Hm.
  destruct sra as [a|]; [|reflexivity].
  destruct Hside as [H|H]; [discriminate|]. replace (prec <? mprec) with true by lia. reflexivity.
Qed.

Theorem C03_memo_answer_proof : stmt_C03_memo_answer.
Proof.
  intros s prec off srr a mprec pcr pca rcr saved Hp Hm Hle.
  unfold call_into. replace (prec =? 0) with false by lia. rewrite Hm.
  replace (prec <? mprec) with false by lia.
  eexists. split; [reflexivity|]. unfold restore_responses_after. st.
  destruct (pop_responses_after_fields (rc s) (upd_sr a s)) as (H1 & H2 & H3 & H4 & _).
  st_in H1. st_in H2. st_in H4. auto.
Qed.

(* ------------------------------------------------------------------ C05 *)
Theorem C05_raise_pushes_proof : stmt_C05_raise_pushes.
Proof.
  intros ucd cb s label Hi. cbn [exec]. rewrite Hi. unfold start_fail.
  destruct (rh s) as [t|]; eexists; (split; [reflexivity|]); st; repeat split; reflexivity.
Qed.

Lemma fail_one_plain cb s f rest :
  frames s = f :: rest -> plain_frame f = true ->
  exists e s1, fail_one cb s = inr (e, s1) /\ (e = BACKTRACK \/ e = ACCEPT) /\
    frames s1 = rest /\ log s1 = log s /\ success s1 = success s /\ resp s1 = resp s /\ fmode s1 = fmode s /\
    mr s1 = mr s /\ buf s1 = buf s /\ pending s1 = pending s /\ alive s1 = alive s.
Proof.
  intros Hf Hp. unfold fail_one. rewrite Hf.
  destruct f as [[x|] c d i p|p|x|nm old|srr sra prec pcr pca rcr saved|label x c h p|h|h|nm x|t]; try discriminate Hp;
    do 2 eexists; (split; [reflexivity|]); st; repeat split; auto.
Qed.

Lemma unwind_plain cb below : forall above s,
  forallb plain_frame above = true -> frames s = above ++ below ->
  exists s', unwind cb (length above) s = Running s' /\
    frames s' = below /\ log s' = log s /\ success s' = success s /\ resp s' = resp s /\ fmode s' = fmode s /\
    mr s' = mr s /\ buf s' = buf s /\ pending s' = pending s /\ alive s' = alive s.
Proof.
  induction above as [|f above IH]; intros s Hp Hf.
  - exists s. cbn [length unwind]. repeat split; auto.
  - cbn [forallb] in Hp. apply andb_prop in Hp. destruct Hp as [Hp1 Hp2]. cbn [app] in Hf.
    destruct (fail_one_plain cb s f (above ++ below) Hf Hp1) as (e & s1 & H1 & He & F1 & F2 & F3 & F4 & F5 & F6 & F7 & F8 & F9).
    cbn [length unwind]. rewrite H1.
    assert ((e =? HALT) = false) as -> by (destruct He; subst e; reflexivity).
    assert ((e <? ACCEPT) = false) as -> by (destruct He; subst e; reflexivity).
    destruct (IH s1 Hp2 F1) as (s' & G0 & G1 & G2 & G3 & G4 & G5 & G6 & G7 & G8 & G9).
    exists s'. split; [exact G0|]. repeat split; congruence.
Qed.

Theorem C05_inhibited_raise_proof : stmt_C05_inhibited_raise.
Proof.
  intros ucd cb s label above below Hi Hfm Hf Hlen Hp.
  cbn [exec]. rewrite Hi.
  assert (N.to_nat (lenN (frames s) - rid s) = length above) as ->.
  { rewrite Hf, lenN_app, <- Hlen. unfold lenN. lia. }
  destruct (unwind_plain cb below above (upd_mr (N.max (mr s) (sr s)) s) Hp Hf)
    as (s' & G0 & G1 & G2 & G3 & G4 & G5 & _).
  rewrite G0. unfold start_fail. eexists. split; [reflexivity|]. st. st_in G2. st_in G3. st_in G4. auto.
Qed.

(* ------------------------------------------------------------------ C20 *)
Lemma available_loop_S f i nreq nmax s :
  available_loop (S f) i nreq nmax s =
  if (i <? lenN (buf s)) && (nmax <=? lenN (buf s) - i) then (true, s)
  else if (i <? lenN (buf s)) && interactive s then (nreq <=? lenN (buf s) - i, s)
  else if (i <? lenN (buf s)) && (nreq <=? lenN (buf s) - i)
  then (true, snd (fill_buffer 0 (nmax - (lenN (buf s) - i)) s))
  else let '(ok, s') := fill_buffer (nreq - (lenN (buf s) - i)) (nmax - (lenN (buf s) - i)) s in
       if ok then available_loop f i nreq nmax s' else (false, s').
Proof. reflexivity. Qed.

(* enough buffered input: the answer is yes whatever the fuel (the state may still be topped up) *)
Lemma available_loop_hit fuel i nreq nmax s :
  (i <? lenN (buf s)) && (nreq <=? lenN (buf s) - i) = true -> fst (available_loop fuel i nreq nmax s) = true.
Proof.
  intros H. apply andb_prop in H. destruct H as [H1 H2].
  destruct fuel; cbn [available_loop]; rewrite H1, H2; cbn [andb];
    destruct (nmax <=? lenN (buf s) - i); try reflexivity; destruct (interactive s); reflexivity.
Qed.

Theorem C20_no_poll_while_unread_proof : stmt_C20_no_poll_while_unread.
Proof.
  intros i n d s Hi Hlt. unfold available. rewrite available_loop_S, Hi.
  replace (i <? lenN (buf s)) with true by lia. cbn [andb].
  destruct (N.max n d <=? lenN (buf s) - i); reflexivity.
Qed.

(* ------------------------------------------------------------------ C09 *)
(* the state with the input source and the log blanked: what polling cannot change *)
Definition iocore (s : mstate) : mstate := set_log [] (upd_src [] [] false s).

Lemma poll_iocore s : iocore (poll s) = iocore s.
Proof. unfold poll. destruct (pending s); reflexivity. Qed.
Lemma poll_all_input s : all_input (poll s) = all_input s.
Proof.
  unfold poll, all_input. destruct (pending s) as [|c r]; st; [reflexivity|].
  cbn [concat]. rewrite app_assoc. reflexivity.
Qed.

Lemma fill_loop_keeps fuel d : forall s, iocore (fill_loop fuel d s) = iocore s /\ all_input (fill_loop fuel d s) = all_input s.
Proof.
  induction fuel as [|f IH]; intros s; cbn [fill_loop]; [auto|].
  destruct (alive s && (lenN (buf s) <? d)); [|auto].
  destruct (IH (poll s)) as [H1 H2]. rewrite H1, H2, poll_iocore, poll_all_input. auto.
Qed.

Lemma fill_buffer_keeps r d s : iocore (snd (fill_buffer r d s)) = iocore s /\ all_input (snd (fill_buffer r d s)) = all_input s.
Proof. unfold fill_buffer. destruct (negb (alive s)); cbn [snd]; [auto|]. apply fill_loop_keeps. Qed.

Lemma available_loop_keeps fuel i nreq nmax : forall s,
  iocore (snd (available_loop fuel i nreq nmax s)) = iocore s /\ all_input (snd (available_loop fuel i nreq nmax s)) = all_input s.
Proof.
  induction fuel as [|f IH]; intros s.
  - cbn [available_loop]. destruct ((i <? lenN (buf s)) && (nmax <=? lenN (buf s) - i)); [auto|].
    destruct ((i <? lenN (buf s)) && interactive s); [auto|].
    destruct ((i <? lenN (buf s)) && (nreq <=? lenN (buf s) - i)); [|auto].
    cbn [snd]. apply fill_buffer_keeps.
  - rewrite available_loop_S. destruct ((i <? lenN (buf s)) && (nmax <=? lenN (buf s) - i)); [auto|].
    destruct ((i <? lenN (buf s)) && interactive s); [auto|].
    destruct ((i <? lenN (buf s)) && (nreq <=? lenN (buf s) - i)); [cbn [snd]; apply fill_buffer_keeps|].
    pose proof (fill_buffer_keeps (nreq - (lenN (buf s) - i)) (nmax - (lenN (buf s) - i)) s) as HF.
    destruct (fill_buffer (nreq - (lenN (buf s) - i)) (nmax - (lenN (buf s) - i)) s) as [ok s1]. cbn [snd] in HF.
    destruct HF as [H1 H2]. destruct ok; [|cbn [snd]; auto].
    destruct (IH s1) as [K1 K2]. rewrite K1, K2. auto.
Qed.

Lemma available_keeps i n d s :
  iocore (snd (available i n d s)) = iocore s /\ all_input (snd (available i n d s)) = all_input s.
Proof. apply available_loop_keeps. Qed.

Theorem C09_available_preserves_input_proof : stmt_C09_available_preserves_input.
Proof.
  intros i n d s s'. destruct (available_keeps i n d s) as [H1 H2]. fold s' in H1, H2.
  split; [exact H2|].
  repeat split.
  - exact (f_equal frames H1).
  - exact (f_equal sr H1).
  - exact (f_equal resp H1).
  - exact (f_equal conds H1).
  - exact (f_equal syms H1).
Qed.

Definition src_ok (s : mstate) : Prop := alive s = false -> pending s = [].

Lemma fill_loop_dead fuel d s : alive s = false -> fill_loop fuel d s = s.
Proof. intros H. destruct fuel; cbn [fill_loop]; [reflexivity|]. rewrite H. reflexivity. Qed.

Lemma fill_loop_spec fuel d : forall s, src_ok s -> (length (pending s) < fuel)%nat ->
  let s' := fill_loop fuel d s in
  lenN (buf s) <= lenN (buf s') /\ (d <= lenN (buf s') \/ (alive s' = false /\ pending s' = [])).
Proof.
  induction fuel as [|f IH]; intros s Hok Hlt; [lia|]. cbn [fill_loop].
  destruct (alive s) eqn:Ea; cbn [andb].
  - destruct (lenN (buf s) <? d) eqn:Ed; [|cbv zeta; split; [lia|left; lia]].
    destruct (pending s) as [|c r] eqn:Ep.
    + assert (alive (poll s) = false /\ pending (poll s) = [] /\ buf (poll s) = buf s) as (P1 & P2 & P3)
        by (unfold poll; rewrite Ep; st; auto).
      rewrite fill_loop_dead by exact P1. cbv zeta. rewrite P3. split; [lia|right; auto].
    + assert (alive (poll s) = true /\ pending (poll s) = r /\ buf (poll s) = buf s ++ c) as (P1 & P2 & P3)
        by (unfold poll; rewrite Ep; st; auto).
      assert (src_ok (poll s)) as Hok' by (intros E; congruence).
      specialize (IH (poll s) Hok'). rewrite P2 in IH. cbn [length] in Hlt. specialize (IH ltac:(lia)).
      cbv zeta in IH |- *. rewrite P3, lenN_app in IH. destruct IH as [I1 I2]. split; [lia|exact I2].
  - cbv zeta. split; [lia|]. right. split; [exact Ea|exact (Hok Ea)].
Qed.

Lemma lenN_all_input s : lenN (all_input s) = lenN (buf s) + lenN (concat (pending s)).
Proof. unfold all_input. apply lenN_app. Qed.

Theorem C09_available_total_proof : stmt_C09_available_total.
Proof.
  intros i n d s Hint Hn Hi Hok. unfold available. rewrite available_loop_S.
  pose proof (lenN_all_input s) as HL.
  destruct ((i <? lenN (buf s)) && (N.max n d <=? lenN (buf s) - i)) eqn:E0; [cbn [fst]; lia|].
  rewrite Hint, andb_false_r.
  destruct ((i <? lenN (buf s)) && (n <=? lenN (buf s) - i)) eqn:E1; [cbn [fst]; lia|].
  set (rem := lenN (buf s) - i) in *. set (nmax := N.max n d) in *.
  pose proof (fill_loop_spec (S (length (pending s))) (lenN (buf s) + (nmax - rem)) s Hok ltac:(lia)) as HS.
  unfold fill_buffer. destruct (alive s) eqn:Ea; cbn [negb].
  - pose proof (fill_loop_keeps (S (length (pending s))) (lenN (buf s) + (nmax - rem)) s) as [_ HK].
    set (s1 := fill_loop (S (length (pending s))) (lenN (buf s) + (nmax - rem)) s) in *. cbv zeta in HS.
    pose proof (lenN_all_input s1) as HL1. rewrite HK in HL1.
    destruct HS as [S1 S2].
    destruct (lenN (buf s) + (n - rem) <=? lenN (buf s1)) eqn:E2.
    + rewrite available_loop_hit by lia. lia.
    + cbn [fst]. destruct S2 as [S2|[_ S2]]; [lia|]. rewrite S2 in HL1. cbn [concat] in HL1. rewrite lenN_nil in HL1. lia.
  - cbn [fst]. rewrite (Hok eq_refl) in HL. cbn [concat] in HL. rewrite lenN_nil in HL. lia.
Qed.

(* ------------------------------------------------------------------ C18 *)
Theorem C18_reset_total_proof : stmt_C18_reset_total.
Proof.
  intros prev. unfold reset_state, init_state_with. destruct (0 <? sr prev) eqn:E; st.
  - reflexivity.
  - replace (sr prev) with 0 by lia. reflexivity.
Qed.

Theorem C18_reset_agree_proof : stmt_C18_reset_agree.
Proof.
  intros p1 p2 H1 H2 H3 H4 H5 H6. rewrite !C18_reset_total_proof. congruence.
Qed.

(* ------------------------------------------------------------------ C08: the counter invariant *)
Definition k3 (s : mstate) : list frame * N * N := (frames s, cic s, rr s).
Definition inv (s : mstate) : Prop := ci_inv s /\ rr s < RETHROW.

Lemma inv_k3 s s' : k3 s' = k3 s -> inv s -> inv s'.
Proof. unfold k3, inv, ci_inv. intros H. injection H as H1 H2 H3. rewrite H1, H2, H3. auto. Qed.

Lemma count_ci_cons f fs : count_ci (f :: fs) = (if postpones f then 1 else 0) + count_ci fs.
Proof. unfold count_ci. cbn [filter]. destruct (postpones f); cbn [length]; lia. Qed.
Lemma count_ci_nil : count_ci [] = 0.
Proof. reflexivity. Qed.
Lemma postpones_tombstone n f : postpones (tombstone n f) = postpones f.
Proof. destruct f as [[x|] c d i p| | | | | | | | |]; try reflexivity. cbn [tombstone]. destruct (x <? n); reflexivity. Qed.
Lemma count_ci_tombstone n fs : count_ci (map (tombstone n) fs) = count_ci fs.
Proof.
  induction fs as [|f fs IH]; [reflexivity|]. cbn [map]. rewrite !count_ci_cons, IH, postpones_tombstone. reflexivity.
Qed.

Lemma resume_lt : RESUME < RETHROW. Proof. reflexivity. Qed.

Definition not_running (r : result) : Prop := match r with Running _ => False | _ => True end.
Definition mres {A} (s : mstate) (x : result + (A * mstate)) : Prop :=
  match x with inl r => not_running r | inr (_, s1) => k3 s1 = k3 s end.
Lemma mres_k3 {A} s s1 (x : result + (A * mstate)) : k3 s1 = k3 s -> mres s1 x -> mres s x.
Proof. intros H. destruct x as [r|[a s2]]; cbn [mres]; [auto|]. congruence. Qed.

(* --- input and matchers leave frames, counter and rr alone *)
Lemma available_k3 i n d s : k3 (snd (available i n d s)) = k3 s.
Proof. destruct (available_keeps i n d s) as [H _]. exact (f_equal k3 H). Qed.

Lemma m_any_k3 flags s : k3 (snd (m_any flags s)) = k3 s.
Proof.
  unfold m_any. destruct (negb (flags =? 0) && interactive s); [reflexivity|].
  pose proof (available_k3 (sr s) 1 max_rune_units s) as H. destruct (available (sr s) 1 max_rune_units s) as [ok s1]. cbn [snd] in H.
  destruct ok; [|exact H]. destruct (subject_from (sr s1) s1); exact H.
Qed.
Lemma m_eol_k3 s : k3 (snd (m_eol s)) = k3 s.
Proof.
  unfold m_eol.
  pose proof (available_k3 (sr s) 1 max_eol_units s) as H. destruct (available (sr s) 1 max_eol_units s) as [ok s1]. cbn [snd] in H.
  destruct ok; [|exact H]. destruct (utf8_match_eol (subject_from (sr s1) s1) =? 0); exact H.
Qed.
Lemma m_octet_k3 b s : k3 (snd (m_octet b s)) = k3 s.
Proof.
  unfold m_octet.
  pose proof (available_k3 (sr s) 1 0 s) as H. destruct (available (sr s) 1 0 s) as [ok s1]. cbn [snd] in H.
  destruct ok; [|exact H]. destruct (subject_from (sr s1) s1) as [|c r]; [exact H|]. destruct (c =? b); exact H.
Qed.
Lemma m_rune_res ucd test s : mres s (m_rune ucd test s).
Proof.
  unfold m_rune.
  pose proof (available_k3 (sr s) 1 max_rune_units s) as H. destruct (available (sr s) 1 max_rune_units s) as [ok s1]. cbn [snd] in H.
  destruct ok; [|exact H]. destruct (decode_rune_w (subject_from (sr s1) s1)) as [n rune].
  destruct n; [exact H|]. destruct (test rune) as [[|]|]; cbn [mres not_running]; auto.
Qed.
Lemma casefold_compare_at_k3 ucd i n str s b s2 : casefold_compare_at ucd i n str s = Some (b, s2) -> k3 s2 = k3 s.
Proof.
  unfold casefold_compare_at.
  destruct (fst match cache_get (foldcache s) i with Some v => v | None => (0, []) end <? n).
  - destruct (utf8_tocasefold ucd (firstnN n (subject_from i s))); [|discriminate].
    intros E; injection E as _ <-. reflexivity.
  - intros E; injection E as _ <-. destruct (cache_get (foldcache s) i); reflexivity.
Qed.
Lemma m_seq_at_res ucd cf str i s : mres s (m_seq_at ucd cf str i s).
Proof.
  unfold m_seq_at. destruct (lenN str =? 0); [reflexivity|].
  pose proof (available_k3 i (lenN str) 0 s) as H. destruct (available i (lenN str) 0 s) as [ok s1]. cbn [snd] in H.
  destruct ok; [|exact H]. destruct cf.
  - destruct (casefold_compare_at ucd i (lenN str) str s1) as [[[|] s2]|] eqn:E; cbn [mres not_running]; auto;
      apply casefold_compare_at_k3 in E; congruence.
  - destruct (compare_at i (lenN str) str s1); exact H.
Qed.
Lemma m_seq_res ucd cf str s : mres s (m_seq ucd cf str s).
Proof.
  unfold m_seq. pose proof (m_seq_at_res ucd cf str (sr s) s) as H.
  destruct (m_seq_at ucd cf str (sr s) s) as [r|[[j|] s1]]; exact H.
Qed.
Lemma m_sym_all_res ucd cf vals : forall i s, mres s (m_sym_all ucd cf vals i s).
Proof.
  induction vals as [|v rest IH]; intros i s; cbn [m_sym_all]; [reflexivity|].
  destruct (sym_mod ucd cf v) as [v'|]; [|exact I].
  pose proof (m_seq_at_res ucd cf v' i s) as H.
  destruct (m_seq_at ucd cf v' i s) as [r|[[j|] s1]]; [exact H| |exact H].
  eapply mres_k3; [exact H|apply IH].
Qed.
Lemma m_sym_any_res ucd cf vals : forall i s, mres s (m_sym_any ucd cf vals i s).
Proof.
  induction vals as [|v rest IH]; intros i s; cbn [m_sym_any]; [reflexivity|].
  destruct (sym_mod ucd cf v) as [v'|]; [|exact I].
  pose proof (m_seq_at_res ucd cf v' i s) as H.
  destruct (m_seq_at ucd cf v' i s) as [r|[[j|] s1]]; [exact H|exact H|].
  eapply mres_k3; [exact H|apply IH].
Qed.
Lemma m_symbol_res ucd k cf nm idx s : mres s (m_symbol ucd k cf nm idx s).
Proof.
  unfold m_symbol.
  match goal with |- mres s (match ?r with _ => _ end) => assert (mres s r) as H; [|destruct r as [x|[[j|] s1]]; exact H] end.
  destruct k.
  - apply m_sym_all_res.
  - apply m_sym_any_res.
  - destruct (nth_error (get_symbols (syms s) nm) (N.to_nat idx)) as [v|]; [|reflexivity].
    destruct (sym_mod ucd cf v); [apply m_seq_at_res|exact I].
  - destruct (idx <? lenN (get_symbols (syms s) nm)); [|reflexivity].
    destruct (nth_error (get_symbols (syms s) nm) (N.to_nat (lenN (get_symbols (syms s) nm) - idx - 1))) as [v|]; [|reflexivity].
    destruct (sym_mod ucd cf v); [apply m_seq_at_res|exact I].
Qed.

Lemma start_fail_inv n s s' : inv s -> start_fail n s = Running s' -> inv s'.
Proof. unfold start_fail. intros Hi E. injection E as <-. exact Hi. Qed.

Lemma after_match_inv s x s' : k3 (snd x) = k3 s -> inv s -> after_match x = Running s' -> inv s'.
Proof.
  destruct x as [b s1]. cbn [snd after_match]. intros Hk Hi.
  destruct b; [apply start_fail_inv|intros E; injection E as <-]; exact (inv_k3 _ _ Hk Hi).
Qed.
Lemma after_match'_inv s x s' : mres s x -> inv s -> after_match' x = Running s' -> inv s'.
Proof.
  destruct x as [r|[b s1]]; cbn [mres after_match'].
  - intros Hn _ ->. contradiction.
  - intros Hk. apply (after_match_inv s (b, s1)). exact Hk.
Qed.

(* --- responses *)
Lemma pop_k3 n s : k3 (pop_responses_after n s) = k3 s.
Proof. unfold pop_responses_after. destruct (n <? lenN (resp s)); reflexivity. Qed.
Lemma restore_k3 n sv s : k3 (restore_responses_after n sv s) = k3 s.
Proof. unfold restore_responses_after. exact (pop_k3 n s). Qed.
Lemma push_k3 r s : k3 (push_response r s) = k3 s.
Proof. reflexivity. Qed.
Lemma pop_frames n s : frames (pop_responses_after n s) = frames s.
Proof. exact (f_equal (fun t => fst (fst t)) (pop_k3 n s)). Qed.
Lemma pop_cic n s : cic (pop_responses_after n s) = cic s.
Proof. exact (f_equal (fun t => snd (fst t)) (pop_k3 n s)). Qed.
Lemma pop_rr n s : rr (pop_responses_after n s) = rr s.
Proof. exact (f_equal snd (pop_k3 n s)). Qed.
Lemma restore_frames n sv s : frames (restore_responses_after n sv s) = frames s.
Proof. exact (f_equal (fun t => fst (fst t)) (restore_k3 n sv s)). Qed.
Lemma restore_cic n sv s : cic (restore_responses_after n sv s) = cic s.
Proof. exact (f_equal (fun t => snd (fst t)) (restore_k3 n sv s)). Qed.
Lemma restore_rr n sv s : rr (restore_responses_after n sv s) = rr s.
Proof. exact (f_equal snd (restore_k3 n sv s)). Qed.
Ltac rsp := rewrite ?restore_frames, ?restore_cic, ?restore_rr, ?pop_frames, ?pop_cic, ?pop_rr.

(* --- the deferred accept / cut *)
Lemma aod_k3 s s' : accept_or_drain_if_deferred s = Running s' ->
  cic s' = cic s /\ rr s' = rr s /\ count_ci (frames s') = count_ci (frames s).
Proof.
  unfold accept_or_drain_if_deferred. intros H.
  destruct (cic s =? 0) eqn:Ec; [|injection H as <-; auto].
  destruct (cutf s || accf s) eqn:Ef; [|injection H as <-; auto].
  st_in H. unfold subject_ok in H. st_in H.
  destruct (negb (sr s <=? lenN (buf s))); [discriminate|].
  set (s2 := upd_mr (N.max (mr s) (sr s)) (upd_ci 0 false false s)) in *.
  assert (forall s3, (if (cutf s && success s) || accf s then do_accept s2 else Running s2) = Running s3 ->
                     k3 s3 = (frames s, 0, rr s)) as HP.
  { intros s3. destruct ((cutf s && success s) || accf s).
    - unfold do_accept. destruct (run_responses (firstnN (sr s2) (buf s2)) (resp s2) s2) as [ok s1] eqn:Er.
      apply run_responses_fields in Er. destruct ok; [|discriminate].
      intros E; injection E as <-. rewrite Er. reflexivity.
    - intros E; injection E as <-. reflexivity. }
  destruct (if (cutf s && success s) || accf s then do_accept s2 else Running s2) as [s3| |] eqn:H3; try discriminate.
  specialize (HP s3 eq_refl). unfold k3 in HP. injection HP as P1 P2 P3.
  injection H as <-.
  assert (cic s = 0) as Hc0 by lia.
  destruct (cutf s).
  - unfold drain. destruct (0 <? sr s3).
    + st. rewrite count_ci_tombstone, P1, P2, P3, Hc0. auto.
    + rewrite P1, P2, P3, Hc0. auto.
  - rewrite P1, P2, P3, Hc0. auto.
Qed.

Lemma aod_inv s s' : inv s -> accept_or_drain_if_deferred s = Running s' -> inv s'.
Proof.
  intros [Hc Hr] H. apply aod_k3 in H. destruct H as (H1 & H2 & H3). unfold inv, ci_inv in *.
  rewrite H1, H2, H3. auto.
Qed.

(* --- recovery *)
Lemma default_recovery_loop_k3 fuel : forall i s, k3 (snd (default_recovery_loop fuel i s)) = k3 s.
Proof.
  induction fuel as [|f IH]; intros i s; cbn [default_recovery_loop];
    (destruct (find_ws (subject_from i s)); [reflexivity|]); [reflexivity|].
  pose proof (available_k3 (lenN (buf s)) 1 0 s) as H. destruct (available (lenN (buf s)) 1 0 s) as [ok s1]. cbn [snd] in H.
  destruct ok; [|exact H]. rewrite IH. exact H.
Qed.
Lemma match_default_recovery_k3 s : k3 (match_default_recovery s) = k3 s.
Proof.
  unfold match_default_recovery.
  pose proof (available_k3 (sr s) 1 0 s) as H. destruct (available (sr s) 1 0 s) as [ok s1]. cbn [snd] in H.
  destruct ok; [|exact H].
  pose proof (default_recovery_loop_k3 (S (S (length (pending s1)))) (sr s1) s1) as H2.
  destruct (default_recovery_loop (S (S (length (pending s1)))) (sr s1) s1) as [i s2]. cbn [snd] in H2.
  destruct (sr s2 <? i); (etransitivity; [exact H2|exact H]).
Qed.

Lemma halt_ne : HALT <> RETHROW. Proof. discriminate. Qed.

Lemma handler_chain_spec cb fuel : forall h below label index size incoming s e s1,
  handler_chain cb fuel h below label index size incoming s = (e, s1) ->
  k3 s1 = k3 s /\ cd s1 = cd s /\ cutf s1 = cutf s /\ accf s1 = accf s /\ (incoming <> RETHROW -> e <> RETHROW).
Proof.
  induction fuel as [|f IH]; intros h below label index size incoming s e s1 H.
  - destruct h as [hid|]; cbn [handler_chain] in H.
    + destruct (cb_handler cb hid label index size incoming =? RETHROW) eqn:E; injection H as <- <-;
        repeat split; auto using halt_ne. intros _. lia.
    + injection H as <- <-. auto.
  - destruct h as [hid|]; cbn [handler_chain] in H.
    + destruct (cb_handler cb hid label index size incoming =? RETHROW) eqn:E.
      * destruct (next_report below) as [[[h'|] rest]|].
        -- apply IH in H. exact H.
        -- injection H as <- <-. repeat split; auto using halt_ne.
        -- injection H as <- <-. repeat split; auto using halt_ne.
      * injection H as <- <-. repeat split; auto. intros _. lia.
    + injection H as <- <-. auto.
Qed.

Lemma rfr_spec cb label fsr frc feh fpc s :
  match return_from_raise cb label fsr frc feh fpc s with
  | inl r => not_running r
  | inr (e, s1) => frames s1 = frames s /\ cic s1 = cic s - 1 /\ rr s1 = RESUME /\ (rr s < RETHROW -> e <> RETHROW)
  end.
Proof.
  unfold return_from_raise.
  set (p := if Z.eqb (pc (upd_rr RESUME s)) fpc then (HALT, match_default_recovery (upd_sr fsr (upd_rr RESUME s)))
            else (rr s, upd_rr RESUME s)).
  assert (k3 (snd p) = (frames s, cic s, RESUME) /\ (rr s < RETHROW -> fst p <> RETHROW)) as [Hp1 Hp2].
  { unfold p. destruct (Z.eqb (pc (upd_rr RESUME s)) fpc); cbn [fst snd].
    - rewrite match_default_recovery_k3. split; [reflexivity|]. intros _. exact halt_ne.
    - split; [reflexivity|]. lia. }
  destruct p as [rec_res s1]. cbn [fst snd] in Hp1, Hp2.
  set (s2 := upd_mr (N.max (mr s1) (sr s1)) s1).
  destruct (negb (subject_ok s2)); [exact I|].
  match goal with |- context [handler_chain cb ?a ?b ?c ?d ?e ?f ?g ?h] =>
    destruct (handler_chain cb a b c d e f g h) as [err s3] eqn:Eh end.
  apply handler_chain_spec in Eh. destruct Eh as (K & _ & _ & _ & Hne).
  assert (k3 s3 = (frames s, cic s, RESUME)) as K' by (rewrite K; exact Hp1).
  unfold k3 in K'. injection K' as K1 K2 K3.
  destruct (BACKTRACK <=? err); st; rewrite K1, K2, K3; repeat split; auto.
Qed.

(* --- failure *)
Lemma fail_one_spec cb s :
  match fail_one cb s with
  | inl r => not_running r
  | inr (e, s1) => inv s -> inv s1
  end.
Proof.
  unfold fail_one. destruct (frames s) as [|f rest] eqn:Hf; [auto|].
  destruct f as [[x|] c d i p|p|x|nm old|srr sra prec pcr pca rcr saved|label x c h p|h|h|nm x|t];
    try (intros [Hc Hr]; unfold inv, ci_inv in *; st; rewrite Hf, count_ci_cons in Hc; cbn [postpones] in Hc;
         split; [lia|exact Hr]).
  - (* FLr *)
    destruct sra as [a|]; intros [Hc Hr]; unfold inv, ci_inv in *; rewrite Hf, count_ci_cons in Hc; cbn [postpones] in Hc.
    + st. rsp. st. split; [lia|exact Hr].
    + st. split; [lia|exact Hr].
  - (* FRaise *)
    pose proof (rfr_spec cb label x c h p (upd_pc p (upd_rc c (upd_sr x s)))) as H.
    destruct (return_from_raise cb label x c h p (upd_pc p (upd_rc c (upd_sr x s)))) as [r|[e s1]]; [exact H|].
    st_in H. destruct H as (H1 & H2 & H3 & _). intros [Hc Hr]. unfold inv, ci_inv in *. st.
    rewrite H1, H2, H3, Hf. cbn [tl]. rewrite Hf, count_ci_cons in Hc; cbn [postpones] in Hc.
    split; [lia|exact resume_lt].
Qed.

Lemma success_k3 b s : k3 (upd_success b s) = k3 s. Proof. reflexivity. Qed.

Lemma unwind_inv cb k : forall s s', inv s -> unwind cb k s = Running s' -> inv s'.
Proof.
  induction k as [|k IH]; intros s s' Hi H; cbn [unwind] in H.
  - injection H as <-. exact Hi.
  - pose proof (fail_one_spec cb s) as HF. destruct (fail_one cb s) as [r|[e s1]].
    + subst r. contradiction.
    + destruct (e =? HALT); [discriminate|]. specialize (HF Hi).
      apply IH in H; [exact H|]. destruct (e <? ACCEPT); [exact (inv_k3 _ _ (success_k3 false s1) HF)|exact HF].
Qed.

Lemma fail_step_inv cb s s' : inv s -> fail_step cb s = Running s' -> inv s'.
Proof.
  intros Hi H. unfold fail_step in H.
  pose proof (fail_one_spec cb s) as HF. destruct (fail_one cb s) as [r|[e s1]].
  - subst r. contradiction.
  - specialize (HF Hi). destruct (BACKTRACK <=? e); [injection H as <-; exact HF|].
    destruct (e =? HALT); [discriminate|].
    set (s2 := if e <? ACCEPT then upd_success false s1 else s1) in *.
    assert (inv s2) as H2 by (unfold s2; destruct (e <? ACCEPT); [exact (inv_k3 _ _ (success_k3 false s1) HF)|exact HF]).
    destruct (fmode s2 - 1 =? 0).
    + apply aod_inv in H; [exact H|]. eapply inv_k3; [apply pop_k3|]. exact H2.
    + injection H as <-. exact H2.
Qed.

(* --- calls and returns *)
Ltac fin Hi :=
  let Hc := fresh "Hc" in let Hr := fresh "Hr" in
  destruct Hi as [Hc Hr]; unfold inv, ci_inv in *; st; rsp; st;
  try match goal with Hf : frames _ = _ |- _ => rewrite Hf in Hc end;
  rewrite ?count_ci_cons in *; cbn [postpones] in *;
  split; [lia | first [exact Hr | exact resume_lt | lia]].

Lemma call_into_inv prec off s s' : inv s -> call_into prec off s = Running s' -> inv s'.
Proof.
  intros Hi H. unfold call_into in H. destruct (prec =? 0).
  - injection H as <-. fin Hi.
  - destruct (find_memo (frames s) (sr s) (pc s + off)%Z) as [f|].
    + destruct f as [| | | |srr sra mprec pcr pca rcr saved| | | | |]; try discriminate.
      destruct sra as [a|]; [|exact (start_fail_inv _ _ _ Hi H)].
      destruct (prec <? mprec); [exact (start_fail_inv _ _ _ Hi H)|].
      injection H as <-. eapply inv_k3; [apply restore_k3|]. exact Hi.
    + injection H as <-. fin Hi.
Qed.

Lemma do_ret_inv cb s s' : inv s -> do_ret cb s = Running s' -> inv s'.
Proof.
  intros Hi H. unfold do_ret in H. destruct (frames s) as [|f rest] eqn:Hf; [discriminate|].
  destruct f as [|p| | |srr sra prec pcr pca rcr saved|label x c h p| | | |]; try discriminate.
  - injection H as <-. fin Hi.
  - destruct (match sra with None => true | Some a => a <? sr s end).
    + injection H as <-. fin Hi.
    + apply aod_inv in H; [exact H|]. fin Hi.
  - pose proof (rfr_spec cb label x c h p s) as R.
    destruct (return_from_raise cb label x c h p s) as [r|[e s1]]; [subst r; contradiction|].
    destruct R as (R1 & R2 & R3 & R4). destruct Hi as [Hc Hr]. specialize (R4 Hr).
    replace (e =? RETHROW) with false in H by lia.
    assert (inv (upd_frames (tl (frames s1)) s1)) as I2.
    { unfold inv, ci_inv in *. st. rewrite R1, R2, R3, Hf. cbn [tl]. rewrite Hf, count_ci_cons in Hc. cbn [postpones] in Hc.
      split; [lia|exact resume_lt]. }
    destruct (BACKTRACK <=? e); [exact (start_fail_inv _ _ _ I2 H)|].
    destruct (accept_or_drain_if_deferred (upd_frames (tl (frames s1)) s1)) as [s3| |] eqn:Ea; try discriminate.
    apply aod_inv in Ea; [|exact I2]. destruct (e =? HALT); [discriminate|]. injection H as <-.
    destruct (e <? ACCEPT); [exact (inv_k3 _ _ (success_k3 false s3) Ea)|exact Ea].
Qed.

Lemma raise_inv cb label (h : option Z) s1 s' : inv s1 ->
  (if rinh s1 then
     match unwind cb (N.to_nat (lenN (frames s1) - rid s1)) (upd_mr (N.max (mr s1) (sr s1)) s1) with
     | Running s2 => start_fail 1 s2
     | other => other
     end
   else
     match h with
     | None => start_fail 1 (upd_ci (cic s1 + 1) (cutf s1) (accf s1) (upd_cd (cd s1 + 1)
                        (upd_frames (FRaise label (sr s1) (rc s1) (eh s1) (pc s1) :: frames s1) s1)))
     | Some target => Running (upd_pc target (upd_rr RESUME (upd_ci (cic s1 + 1) (cutf s1) (accf s1) (upd_cd (cd s1 + 1)
                        (upd_frames (FRaise label (sr s1) (rc s1) (eh s1) (pc s1) :: frames s1) s1)))))
     end) = Running s' -> inv s'.
Proof.
  intros Hi H. destruct (rinh s1).
  - destruct (unwind cb (N.to_nat (lenN (frames s1) - rid s1)) (upd_mr (N.max (mr s1) (sr s1)) s1)) as [s2| |] eqn:Eu;
      try discriminate.
    apply unwind_inv in Eu; [|exact Hi]. exact (start_fail_inv _ _ _ Eu H).
  - destruct h as [t|]; [|unfold start_fail in H]; injection H as <-; fin Hi.
Qed.

(* --- one instruction.  Two instructions need a side condition: `recover_resp r` must not install rethrow, and
   `commit` (which pops whatever frame is on top) must not be executed on top of a postponing frame. *)
Lemma exec_inv ucd cb i s s' :
  inv s ->
  (forall r, i = IRecoverResp r -> r < RETHROW) ->
  (forall off f rest, i = ICommit off -> frames s = f :: rest -> postpones f = false) ->
  exec ucd cb i s = Running s' -> inv s'.
Proof.
  intros Hi Hrr Hcm H. destruct i; cbn [exec] in H.
  - (* jump *) injection H as <-. exact Hi.
  - (* choice *) injection H as <-. destruct pred; fin Hi.
  - (* commit *)
    destruct (frames s) as [|f rest] eqn:Hf; [discriminate|]. injection H as <-.
    pose proof (Hcm off f rest eq_refl eq_refl) as Hp.
    destruct Hi as [Hc Hr]. unfold inv, ci_inv in *. st. rewrite Hf, count_ci_cons, Hp in Hc. split; [lia|exact Hr].
  - (* commit_back *)
    destruct (frames s) as [|f rest] eqn:Hf; [discriminate|]. destruct f; try discriminate. injection H as <-. fin Hi.
  - (* commit_partial *)
    destruct (frames s) as [|f rest] eqn:Hf; [discriminate|]. destruct f; try discriminate. injection H as <-. fin Hi.
  - (* accept *) apply aod_inv in H; [exact H|]. fin Hi.
  - (* call *) exact (call_into_inv _ _ _ _ Hi H).
  - (* ret *) exact (do_ret_inv _ _ _ Hi H).
  - (* fail *) destruct (n =? 0); [injection H as <-; exact Hi|exact (start_fail_inv _ _ _ Hi H)].
  - (* recover_push *) injection H as <-. fin Hi.
  - (* recover_pop *)
    destruct (frames s) as [|f rest] eqn:Hf; [discriminate|]. destruct f; try discriminate. injection H as <-. fin Hi.
  - (* recover_resp *) injection H as <-. pose proof (Hrr r eq_refl). fin Hi.
  - (* report_push *) injection H as <-. fin Hi.
  - (* report_pop *)
    destruct (frames s) as [|f rest] eqn:Hf; [discriminate|]. destruct f; try discriminate. injection H as <-. fin Hi.
  - (* predicate *)
    destruct (negb (subject_ok (upd_mr (N.max (mr s) (sr s)) s))); [discriminate|].
    match type of H with (if _ then Running ?x else _) = _ => assert (inv x) as I2 by (eapply inv_k3; [apply pop_k3|exact Hi]) end.
    destruct (cb_pred cb p (sr (upd_mr (N.max (mr s) (sr s)) s))); [injection H as <-; exact I2|exact (start_fail_inv _ _ _ I2 H)].
  - (* action *) injection H as <-. exact Hi.
  - (* capture_start *) injection H as <-. fin Hi.
  - (* capture_end *)
    destruct (frames s) as [|f rest] eqn:Hf; [discriminate|]. destruct f; try discriminate.
    assert (inv (upd_ci (cic s - 1) (cutf s) (accf s) (upd_frames rest s))) as I2 by fin Hi.
    match type of H with (if ?b then _ else _) = _ => destruct b end; [exact (start_fail_inv _ _ _ I2 H)|].
    apply aod_inv in H; [exact H|]. exact I2.
  - (* condition_pop *)
    destruct (frames s) as [|f rest] eqn:Hf; [discriminate|]. destruct f; try discriminate. injection H as <-. fin Hi.
  - (* symbol_end *)
    destruct (frames s) as [|f rest] eqn:Hf; [discriminate|]. destruct f; try discriminate.
    assert (inv (upd_frames rest s)) as I2 by fin Hi.
    match type of H with (if ?b then _ else _) = _ => destruct b end; [exact (start_fail_inv _ _ _ I2 H)|].
    injection H as <-. exact I2.
  - (* symbol_pop *)
    destruct (frames s) as [|f rest] eqn:Hf; [discriminate|]. destruct f; try discriminate. injection H as <-. fin Hi.
  - (* match_any *) exact (after_match_inv s _ s' (m_any_k3 flags s) Hi H).
  - (* match_eol *) exact (after_match_inv s _ s' (m_eol_k3 s) Hi H).
  - (* match_octet *) exact (after_match_inv s _ s' (m_octet_k3 b s) Hi H).
  - (* match_set *) exact (after_match'_inv s _ s' (m_rune_res _ _ s) Hi H).
  - (* match_class *) exact (after_match'_inv s _ s' (m_rune_res _ _ s) Hi H).
  - (* match *) exact (after_match'_inv s _ s' (m_seq_res _ _ _ s) Hi H).
  - (* match_cf *) exact (after_match'_inv s _ s' (m_seq_res _ _ _ s) Hi H).
  - (* condition_test *)
    destruct (Bool.eqb (has_cond (conds s) nm) v); [injection H as <-; exact Hi|exact (start_fail_inv _ _ _ Hi H)].
  - (* condition_push *) injection H as <-. fin Hi.
  - (* symbol_exists *)
    destruct (Bool.eqb (has_symbol (syms s) nm) v); [injection H as <-; exact Hi|exact (start_fail_inv _ _ _ Hi H)].
  - (* symbol_match *) exact (after_match'_inv s _ s' (m_symbol_res _ _ _ _ _ s) Hi H).
  - (* symbol_start *) injection H as <-. fin Hi.
  - (* symbol_push *)
    injection H as <-. destruct (kind =? 1); [fin Hi|]. destruct (kind =? 2); fin Hi.
  - (* raise *)
    destruct flag.
    + destruct (frames s) as [|f rest] eqn:Hf; [discriminate|]. destruct f; try discriminate.
      apply (raise_inv cb label (rh s) (upd_frames rest (upd_rh frh s))) in H; [exact H|]. fin Hi.
    + apply (raise_inv cb label (rh s) s) in H; [exact H|exact Hi].
Qed.

(* Counterexample to stmt_C08_ci_counts: `commit` pops whatever frame is on top of the stack without looking at
   its kind (lug.hpp: opcode::commit just pops), so a program executing it on top of a capture frame drops a
   postponing frame without decrementing the counter. *)
Definition ucd0 : ucd_table :=
  {| t_stage1 := PositiveMap.empty N; t_stage2 := PositiveMap.empty N;
     t_records := PositiveMap.empty raw_record; t_nrecords := 0 |}.
Definition cex_commit : mstate :=
  upd_ci 1 false false (upd_frames [FCapture 0] (init_state_with [] [] false false [] [])).

Lemma cex_commit_step :
  step ucd0 dummy_cb [ICommit 0%Z] cex_commit = Running (upd_pc 1%Z (upd_frames [] cex_commit)).
Proof. vm_compute. reflexivity. Qed.

Theorem C08_ci_counts_false : ~ stmt_C08_ci_counts.
Proof.
  intros H.
  assert (no_rethrow_resp [ICommit 0%Z]) as Hn.
  { intros a r Ha. destruct a as [|[|a]]; cbn in Ha; discriminate. }
  destruct (H ucd0 dummy_cb [ICommit 0%Z] cex_commit _ Hn eq_refl eq_refl cex_commit_step) as [Hc _].
  vm_compute in Hc. discriminate.
Qed.

(* closest true variant: the step is not a `commit` over a postponing frame (compiled programs only execute
   `commit` on top of the backtrack frame pushed by the matching `choice`) *)
Definition commit_ok (prog : list sinstr) (s : mstate) : Prop :=
  forall off f rest, fmode s = 0 -> fetch prog (pc s) = Some (ICommit off) -> frames s = f :: rest -> postpones f = false.

Definition stmt_C08_ci_counts_partial : Prop :=
  forall ucd cb prog s s', no_rethrow_resp prog -> rr s < RETHROW -> commit_ok prog s ->
    ci_inv s -> step ucd cb prog s = Running s' -> ci_inv s' /\ rr s' < RETHROW.

Theorem C08_ci_counts_partial_proof : stmt_C08_ci_counts_partial.
Proof.
  intros ucd cb prog s s' Hnr Hr Hcm Hc H.
  assert (inv s) as Hi by (split; assumption).
  unfold step in H. destruct (0 <? fmode s) eqn:Ef.
  - exact (fail_step_inv cb s s' Hi H).
  - destruct (fetch prog (pc s)) as [i|] eqn:Efetch.
    + apply (exec_inv ucd cb i (upd_pc (pc s + 1)%Z s)) in H; [exact H|exact Hi| |].
      * intros r ->. unfold fetch in Efetch. destruct (pc s <? 0)%Z; [discriminate|]. exact (Hnr _ _ Efetch).
      * intros off f rest -> Hf. apply (Hcm off f rest); [lia|exact Efetch|exact Hf].
    + destruct (success s); [|discriminate]. destruct (final_accept s); discriminate.
Qed.

(* ------------------------------------------------------------------ axioms *)
Print Assumptions C08_ci_counts_false.
Print Assumptions C08_ci_counts_partial_proof.
Print Assumptions C08_deferred_proof.
Print Assumptions C08_commit_when_zero_proof.
Print Assumptions C08_accept_when_zero_proof.
Print Assumptions C08_tombstone_skipped_proof.
Print Assumptions C03_growth_strict_false.
Print Assumptions C03_growth_strict_partial_proof.
Print Assumptions C03_finish_general.
Print Assumptions C03_prec_filter_proof.
Print Assumptions C03_memo_answer_proof.
Print Assumptions C05_inhibited_raise_proof.
Print Assumptions C05_raise_pushes_proof.
Print Assumptions C20_no_poll_while_unread_proof.
Print Assumptions C09_available_preserves_input_proof.
Print Assumptions C09_available_total_proof.
Print Assumptions C18_reset_total_proof.
Print Assumptions C18_reset_agree_proof.
