(* Proofs of the C04 statements (Proofs/ElabStmt.v): where the encoder's mode machine puts
   implicit-whitespace blocks, and what they do on input without whitespace. *)
From Coq Require Import NArith ZArith List Bool Lia FMapPositive.
From Lug Require Import Gen.Consts Gen.UcdTables Utf8.Utf8Model Ucd.Lookup Ucd.RuneSet VM.Instr Lang.Expr Lang.Elab Lang.Bre
  Lang.Codegen VM.Machine Spec.Peg Proofs.ElabStmt.
Import ListNotations.
Local Open Scope N_scope.

Ltac brk H :=
  repeat (match type of H with
          | Err _ = OK _ => discriminate H
          | context [match ?x with _ => _ end] => destruct x eqn:?
          end).

(* ------------------------------------------------------------------ shapes *)

(* what the two elaboration statements say about a tree; [nn] = the noskip bit is being kept *)
Definition res_ok (nn : bool) (p : pexp) : Prop :=
  skips_only_before_rules p = true /\ (nn = true -> own_skips p = 0%nat).

Lemma own0_sobr : forall p, own_skips p = 0%nat -> skips_only_before_rules p = true.
Proof.
  induction p; cbn [own_skips]; intros H; try reflexivity; try discriminate H;
    try (cbn [skips_only_before_rules]; auto; fail).
  - assert (own_skips p1 = 0%nat /\ own_skips p2 = 0%nat) as [H1 H2] by lia.
    specialize (IHp1 H1). specialize (IHp2 H2).
    destruct p1; try discriminate H1; cbn [skips_only_before_rules] in *; rewrite ?IHp1, ?IHp2; reflexivity.
  - assert (own_skips p1 = 0%nat /\ own_skips p2 = 0%nat) as [H1 H2] by lia.
    cbn [skips_only_before_rules]. rewrite IHp1, IHp2 by assumption. reflexivity.
  - assert (own_skips p1 = 0%nat /\ own_skips p2 = 0%nat) as [H1 H2] by lia.
    cbn [skips_only_before_rules]. rewrite IHp1, IHp2 by assumption. reflexivity.
Qed.

Lemma res_of_own0 nn p : own_skips p = 0%nat -> res_ok nn p.
Proof. intros H. split; [apply own0_sobr; exact H | intros _; exact H]. Qed.

Lemma res_seq nn a b : res_ok nn a -> res_ok nn b -> res_ok nn (PSeq a b).
Proof.
  intros [Ha Ha'] [Hb Hb']. split.
  - destruct a; try discriminate Ha; cbn [skips_only_before_rules] in *; rewrite ?Ha, ?Hb; reflexivity.
  - intros Hn. cbn [own_skips]. rewrite (Ha' Hn), (Hb' Hn). reflexivity.
Qed.

Lemma res_seqp nn a b : res_ok nn a -> res_ok nn b -> res_ok nn (seqp a b).
Proof.
  intros Ha Hb. destruct a; try exact Hb; destruct b; try exact Ha; cbn [seqp]; apply res_seq; assumption.
Qed.

Lemma res_alt nn a b : res_ok nn a -> res_ok nn b -> res_ok nn (PAlt a b).
Proof.
  intros [Ha Ha'] [Hb Hb']. split.
  - cbn [skips_only_before_rules]. rewrite Ha, Hb. reflexivity.
  - intros Hn. cbn [own_skips]. rewrite (Ha' Hn), (Hb' Hn). reflexivity.
Qed.

Lemma res_recexpr nn a b : res_ok nn a -> res_ok nn b -> res_ok nn (PRecExpr a b).
Proof.
  intros [Ha Ha'] [Hb Hb']. split.
  - cbn [skips_only_before_rules]. rewrite Ha, Hb. reflexivity.
  - intros Hn. cbn [own_skips]. rewrite (Ha' Hn), (Hb' Hn). reflexivity.
Qed.

Lemma res_star nn a : res_ok nn a -> res_ok nn (PStar a).          Proof. intros H; exact H. Qed.
Lemma res_not nn a : res_ok nn a -> res_ok nn (PNot a).            Proof. intros H; exact H. Qed.
Lemma res_and nn a : res_ok nn a -> res_ok nn (PAnd a).            Proof. intros H; exact H. Qed.
Lemma res_rep nn n m a : res_ok nn a -> res_ok nn (PRep n m a).    Proof. intros H; exact H. Qed.
Lemma res_wrap nn x a y : res_ok nn a -> res_ok nn (PWrap x a y).  Proof. intros H; exact H. Qed.
Lemma res_recrule nn r m a : res_ok nn a -> res_ok nn (PRecRule r m a).   Proof. intros H; exact H. Qed.
Lemma res_raiseexpr nn l a : res_ok nn a -> res_ok nn (PRaiseExpr l a).   Proof. intros H; exact H. Qed.

(* ------------------------------------------------------------------ the bre compiler emits no whitespace block *)

Lemma seqp_own a b : own_skips a = 0%nat -> own_skips b = 0%nat -> own_skips (seqp a b) = 0%nat.
Proof. intros Ha Hb. destruct a; try exact Hb; destruct b; try exact Ha; cbn [seqp own_skips] in *; lia. Qed.

Lemma gen_match_own ucd caseless s p : gen_match ucd caseless s = OK p -> own_skips p = 0%nat.
Proof. unfold gen_match. intros H. brk H; inversion H; subst; reflexivity. Qed.

Lemma bracket_commit_own neg st : own_skips (bracket_commit neg st) = 0%nat.
Proof.
  unfold bracket_commit. cbv zeta.
  repeat match goal with
         | |- context [if ?c then _ else _] => destruct c
         end; reflexivity.
Qed.

Lemma gen_item_own ucd caseless it p : gen_item ucd caseless it = OK p -> own_skips p = 0%nat.
Proof.
  destruct it as [|t|neg es]; cbn [gen_item]; intros H.
  - inversion H; subst. reflexivity.
  - exact (gen_match_own _ _ _ _ H).
  - destruct (apply_elems ucd caseless _ es) as [st|w]; [|discriminate].
    inversion H; subst. apply bracket_commit_own.
Qed.

Lemma gen_items_own ucd caseless : forall its p, gen_items ucd caseless its = OK p -> own_skips p = 0%nat.
Proof.
  induction its as [|it r IH]; intros p H; cbn [gen_items] in H.
  - inversion H; subst. reflexivity.
  - destruct (gen_item ucd caseless it) as [a|w] eqn:Ha.
    + destruct (gen_items ucd caseless r) as [b|w] eqn:Hb; [|discriminate].
      inversion H; subst. apply seqp_own; [exact (gen_item_own _ _ _ _ Ha)|exact (IH _ eq_refl)].
    + destruct (gen_items ucd caseless r); discriminate.
Qed.

Lemma compile_bre_own ucd caseless pattern p c : compile_bre ucd caseless pattern = OK (p, c) -> own_skips p = 0%nat.
Proof.
  unfold compile_bre. intros H.
  destruct (parse_bre pattern) as [its|]; [|discriminate].
  destruct its as [|it r].
  - inversion H; subst. reflexivity.
  - destruct (gen_items ucd caseless (it :: r)) as [q|w] eqn:Hq; [|discriminate].
    inversion H; subst. exact (gen_items_own _ _ _ _ Hq).
Qed.

(* ------------------------------------------------------------------ mode bits *)

Lemma has_bits_spec m k : has_bits m k = true <-> (forall n, N.testbit k n = true -> N.testbit m n = true).
Proof.
  unfold has_bits. rewrite N.eqb_eq. split.
  - intros H n Hk. rewrite <- H in Hk. rewrite N.land_spec in Hk. apply andb_prop in Hk. tauto.
  - intros H. apply N.bits_inj. intros n. rewrite N.land_spec.
    destruct (N.testbit k n) eqn:Hk; [rewrite (H n Hk); reflexivity | apply andb_false_r].
Qed.

Lemma land0_bit a b n : N.land a b = 0 -> N.testbit b n = true -> N.testbit a n = false.
Proof.
  intros H Hb. assert (Hx : N.testbit (N.land a b) n = false) by (rewrite H; apply N.bits_0).
  rewrite N.land_spec, Hb, andb_true_r in Hx. exact Hx.
Qed.

Lemma land_neq_bit a b c n :
  N.testbit a n = true -> N.testbit b n = true -> N.testbit c n = false -> (N.land a b =? c) = false.
Proof.
  intros Ha Hb Hc. apply N.eqb_neq. intros E.
  assert (Hx : N.testbit (N.land a b) n = N.testbit c n) by (rewrite E; reflexivity).
  rewrite N.land_spec, Ha, Hb, Hc in Hx. discriminate Hx.
Qed.

Section Modes.
Variable nn : bool.                       (* true: keep = lexeme|noskip; false: keep = lexeme *)
Definition keepb : N := if nn then N.lor L Nn else L.
Definition good (m : N) : Prop := N.testbit m 2 = true /\ (nn = true -> N.testbit m 3 = true).
Definition sall (st : est) : Prop := Forall good (modes st) /\ modes st <> [].

Lemma has_bits_good m : has_bits m keepb = true <-> good m.
Proof.
  rewrite has_bits_spec. unfold good, keepb. destruct nn.
  - split.
    + intros H. split; [apply H; reflexivity | intros _; apply H; reflexivity].
    + intros [H2 H3] n Hn. specialize (H3 eq_refl).
      change (N.lor L Nn) with (N.lor (2^2) (2^3)) in Hn. rewrite N.lor_spec, !N.pow2_bits_eqb in Hn.
      apply orb_prop in Hn. destruct Hn as [Hn|Hn]; apply N.eqb_eq in Hn; subst n; assumption.
  - split.
    + intros H. split; [apply H; reflexivity | discriminate].
    + intros [H2 _] n Hn. change L with (2^2) in Hn. rewrite N.pow2_bits_eqb in Hn.
      apply N.eqb_eq in Hn; subst n; assumption.
Qed.

Lemma stack_all_sall st : stack_all keepb st <-> sall st.
Proof.
  unfold stack_all, sall. split; intros [H1 H2]; (split; [|exact H2]);
    (eapply Forall_impl; [|exact H1]); intros a; apply has_bits_good.
Qed.

Lemma keepb_2 : N.testbit keepb 2 = true.
Proof. unfold keepb; destruct nn; reflexivity. Qed.
Lemma keepb_3 : nn = true -> N.testbit keepb 3 = true.
Proof. intros H. unfold keepb. rewrite H. reflexivity. Qed.

Lemma good_next t cm : good t -> good (nand t (N.land cm E)).
Proof.
  intros [H2 H3]. split; [|intros Hn; specialize (H3 Hn)]; unfold nand; rewrite N.ldiff_spec, N.land_spec.
  - rewrite H2. replace (N.testbit E 2) with false by reflexivity. rewrite andb_false_r. reflexivity.
  - rewrite H3. replace (N.testbit E 3) with false by reflexivity. rewrite andb_false_r. reflexivity.
Qed.

Lemma good_push t en dis : good t -> N.land dis keepb = 0 -> good (N.lor (nand t dis) en).
Proof.
  intros [H2 H3] Hd. split; [|intros Hn; specialize (H3 Hn)]; unfold nand; rewrite N.lor_spec, N.ldiff_spec.
  - rewrite H2, (land0_bit _ _ _ Hd keepb_2). reflexivity.
  - rewrite H3, (land0_bit _ _ _ Hd (keepb_3 Hn)). reflexivity.
Qed.

Lemma good_pop anc prev relay :
  good anc -> N.testbit relay 2 = false -> N.testbit relay 3 = false ->
  good (N.lor (nand anc relay) (N.land prev relay)).
Proof.
  intros [H2 H3] R2 R3. split; [|intros Hn; specialize (H3 Hn)]; unfold nand; rewrite N.lor_spec, N.ldiff_spec.
  - rewrite H2, R2. reflexivity.
  - rewrite H3, R3. reflexivity.
Qed.

Variable dosp : spacefn.
(* the whitespace expression is only ever consulted when the noskip bit is not kept; then it must
   leave the rest of the mode stack alone *)
Hypothesis Hdosp : nn = true \/ (forall st p st', dosp st = OK (p, st') -> tl (modes st') = tl (modes st)).

Lemma skip_inv cm cs st p st' :
  sall st -> cs = L \/ cs = Nn -> skip dosp cm cs st = OK (p, st') ->
  sall st' /\ length (modes st') = length (modes st) /\
  (p = PEmpty \/ (cs = Nn /\ nn = false /\ exists sp, p = PSkip sp)).
Proof.
  intros [Hall Hne] Hcs H. destruct st as [ms en]. cbn [modes] in *.
  destruct ms as [|t ms]; [congruence|]. inversion Hall as [|? ? Ht Hms]; subst.
  unfold skip in H. cbv zeta in H. unfold top in H. cbn [modes hd entry] in H.
  match type of H with context [do_skip dosp ?s] => set (st1 := s) in H end.
  assert (Hst1 : modes st1 = t :: ms) by (subst st1; destruct (en =? 0); reflexivity).
  destruct (N.land (N.lor t cm) (N.lor cs P) =? P) eqn:Htest.
  - assert (Hc : cs = Nn /\ nn = false).
    { destruct Hcs; subst cs.
      - exfalso. rewrite (land_neq_bit _ _ _ 2) in Htest; [discriminate| | reflexivity | reflexivity].
        rewrite N.lor_spec, (proj1 Ht). reflexivity.
      - split; [reflexivity|]. destruct nn eqn:Hn; [|reflexivity]. exfalso.
        rewrite (land_neq_bit _ _ _ 3) in Htest; [discriminate| | reflexivity | reflexivity].
        rewrite N.lor_spec, (proj2 Ht Hn). reflexivity. }
    destruct Hc as [-> Hn].
    unfold bind2, do_skip in H. destruct (dosp _) as [[sp st2]|] eqn:Hd; [|discriminate].
    inversion H; subst p st'. clear H.
    destruct Hdosp as [Hn'|Hd']; [congruence|]. apply Hd' in Hd.
    unfold set_top in Hd. cbn [modes tl] in Hd. rewrite Hst1 in Hd. cbn [tl] in Hd.
    unfold set_top. cbn [modes]. rewrite Hd. repeat split.
    + constructor; [apply good_next; exact Ht | exact Hms].
    + discriminate.
    + right. repeat split; eauto.
  - inversion H; subst p st'. clear H. unfold set_top. cbn [modes]. rewrite Hst1. cbn [tl]. repeat split.
    + constructor; [apply good_next; exact Ht | exact Hms].
    + discriminate.
    + left; reflexivity.
Qed.

Lemma skip_L_inv cm st p st' :
  sall st -> skip dosp cm L st = OK (p, st') -> p = PEmpty /\ sall st' /\ length (modes st') = length (modes st).
Proof.
  intros Hs H. destruct (skip_inv _ _ _ _ _ Hs (or_introl eq_refl) H) as (H1 & H2 & [H3|(H3 & _)]).
  - auto.
  - discriminate H3.
Qed.

Lemma dpop_inv relay st p st' :
  sall st -> (2 <= length (modes st))%nat -> N.testbit relay 2 = false -> N.testbit relay 3 = false ->
  dpop dosp relay st = OK (p, st') ->
  p = PEmpty /\ sall st' /\ S (length (modes st')) = length (modes st).
Proof.
  intros [Hall Hne] Hlen R2 R3 H. destruct st as [ms en]. cbn [modes] in *.
  destruct ms as [|prev [|anc ms]]; cbn [length] in Hlen; try lia.
  inversion Hall as [|? ? Hp Hall']; subst. inversion Hall' as [|? ? Ha Hms]; subst.
  unfold dpop in H. cbv zeta in H. unfold top, pop_mode in H. cbn [modes hd tl entry] in H.
  rewrite (land_neq_bit prev _ Q 2), andb_false_r in H; [| exact (proj1 Hp) | reflexivity | reflexivity].
  inversion H; subst p st'. clear H. unfold set_top. cbn [modes tl length]. repeat split.
  - constructor; [apply good_pop; assumption | exact Hms].
  - discriminate.
Qed.

Lemma sall_dpsh en dis st : sall st -> N.land dis keepb = 0 -> sall (dpsh en dis st).
Proof.
  intros [Hall Hne] Hd. unfold dpsh, push_mode, sall. cbn [modes]. split; [|discriminate].
  constructor; [|exact Hall]. apply good_push; [|exact Hd].
  unfold top. destruct (modes st) as [|t ms]; [congruence|]. inversion Hall; subst. assumption.
Qed.

(* ------------------------------------------------------------------ the invariant through elab *)
Variable ucd : ucd_table.
Variable rules : nat -> rinfo.
Variable self : option nat.

Definition post (st : est) (p : pexp) (st' : est) : Prop :=
  res_ok nn p /\ sall st' /\ length (modes st') = length (modes st).

Ltac step :=
  match goal with
  | Hd : _ && _ = true |- _ => apply andb_prop in Hd; destruct Hd
  | Hs : sall ?st, Hx : skip dosp _ L ?st = OK _ |- _ =>
      apply (skip_L_inv _ _ _ _ Hs) in Hx; destruct Hx as (-> & ? & ?)
  | Hx : compile_bre _ _ _ = OK (_, _) |- _ => apply compile_bre_own in Hx; apply (res_of_own0 nn) in Hx
  | IH : (forall st p st', dirs_ok keepb ?a = true -> sall st -> elab _ _ _ _ ?a st = OK (p, st') -> post st p st'),
    Hd : dirs_ok keepb ?a = true, Hs : sall ?st, Hx : elab _ _ _ _ ?a ?st = OK _ |- _ =>
      apply (IH _ _ _ Hd Hs) in Hx; destruct Hx as (? & ? & ?)
  end.

Ltac fin H :=
  inversion H; subst; split;
  [ repeat first [ assumption | apply res_seqp | apply res_alt | apply res_recexpr | apply res_star | apply res_not
                 | apply res_and | apply res_rep | apply res_wrap | apply res_recrule | apply res_raiseexpr
                 | (apply res_of_own0; reflexivity) ]
  | split; [assumption | congruence] ].

Lemma elab_str_inv s st p st' : sall st -> elab_str ucd dosp s st = OK (p, st') -> post st p st'.
Proof. unfold elab_str, bind2. intros Hs H. brk H; repeat step; fin H. Qed.

Lemma elab_range_inv a b st p st' : sall st -> elab_range ucd dosp a b st = OK (p, st') -> post st p st'.
Proof. unfold elab_range, bind2. intros Hs H. brk H; repeat step; fin H. Qed.

Lemma elab_call_inv r prec st p st' : sall st -> elab_call rules self dosp r prec st = OK (p, st') -> post st p st'.
Proof.
  unfold elab_call, bind2. intros Hs H. brk H;
    match goal with Hx : skip dosp _ Nn _ = OK _ |- _ =>
      destruct (skip_inv _ _ _ _ _ Hs (or_intror eq_refl) Hx) as (Hs' & Hl & [->|(_ & Hn & sp & ->)]) end;
    inversion H; subst; (split; [|split; assumption]); cbn [seqp];
    try (apply res_of_own0; reflexivity);
    (split; [reflexivity | intros Hn'; congruence]).
Qed.

Lemma elab_inv : forall e st p st',
  dirs_ok keepb e = true -> sall st -> elab ucd rules self dosp e st = OK (p, st') -> post st p st'.
Proof.
  induction e; intros st0 p0 st0' Hd Hs H; cbn [elab] in H; cbn [dirs_ok] in Hd; try discriminate H; try discriminate Hd;
    try (apply elab_str_inv in H; assumption);
    try (apply elab_range_inv in H; assumption);
    try (apply elab_call_inv in H; assumption);
    try (unfold bind2 in H; brk H; repeat step; fin H; fail).
  (* EDir *)
  unfold bind2 in H. destruct (elab _ _ _ _ e _) as [[pa st1]|] eqn:He; [|discriminate].
  destruct (dpop dosp relay st1) as [[sk st2]|] eqn:Hp; [|discriminate]. inversion H; subst p0 st0'. clear H.
  apply andb_prop in Hd. destruct Hd as [Hd Hda]. apply andb_prop in Hd. destruct Hd as [Hr Hdis].
  apply N.eqb_eq in Hr. apply N.eqb_eq in Hdis.
  pose proof (sall_dpsh en dis _ Hs Hdis) as Hs1.
  destruct (IHe _ _ _ Hda Hs1 He) as (Hres & Hs2 & Hl).
  assert (Hl2 : (2 <= length (modes st1))%nat).
  { rewrite Hl. unfold dpsh, push_mode. cbn [modes length]. destruct Hs as [_ Hne].
    destruct (modes st0); [congruence|cbn [length]; lia]. }
  destruct (dpop_inv _ _ _ _ Hs2 Hl2 (land0_bit _ _ 2 Hr eq_refl) (land0_bit _ _ 3 Hr eq_refl) Hp) as (-> & Hs3 & Hl3).
  split; [|split; [exact Hs3|]].
  - apply res_seqp; [exact Hres | apply res_of_own0; reflexivity].
  - rewrite Hl in Hl3. unfold dpsh, push_mode in Hl3. cbn [modes length] in Hl3. lia.
Qed.

End Modes.

(* ------------------------------------------------------------------ C04: noskip[e] *)
Theorem C04_noskip_no_skip_proof : stmt_C04_noskip_no_skip.
Proof.
  intros ucd rules self dosp e st p st' Hd Hs H.
  change (N.lor L Nn) with (keepb true) in *. apply stack_all_sall in Hs.
  destruct (elab_inv true dosp (or_introl eq_refl) ucd rules self e st p st' Hd Hs H) as ((_ & Ho) & Hs' & _).
  split; [exact (Ho eq_refl) | apply stack_all_sall; exact Hs'].
Qed.

(* ------------------------------------------------------------------ C04: lexeme[e] *)
(* As stated the property does not hold: [dosp] is arbitrary, and [skip] rebuilds the mode stack from
   whatever state [dosp] returned. *)
Definition C04_lexeme_cex_dosp : spacefn := fun st => OK (PEmpty, {| modes := [0; 0]; entry := entry st |}).
Definition C04_lexeme_cex_rules : nat -> rinfo :=
  fun _ => {| r_body := PEmpty; r_len := 0; r_objects := 0; r_has_callees := false; r_entry := E; r_defined := true |}.
Definition C04_lexeme_cex_st : est := {| modes := [N.lor L P]; entry := 1 |}.

Lemma C04_lexeme_cex_run :
  forall ucd, elab ucd C04_lexeme_cex_rules None C04_lexeme_cex_dosp (ERef 0) C04_lexeme_cex_st
              = OK (PSeq (PSkip PEmpty) (PCall 0 0 20), {| modes := [20; 0]; entry := 1 |}).
Proof. intros ucd. vm_compute. reflexivity. Qed.

Definition C04_cex_ucd : ucd_table :=
  {| t_stage1 := PositiveMap.empty N; t_stage2 := PositiveMap.empty N; t_records := PositiveMap.empty raw_record; t_nrecords := 0 |}.

Theorem C04_lexeme_skips_only_before_rules_false : ~ stmt_C04_lexeme_skips_only_before_rules.
Proof.
  intros Hst.
  assert (Hs : stack_all L C04_lexeme_cex_st).
  { split; [repeat constructor | discriminate]. }
  destruct (Hst C04_cex_ucd _ _ _ (ERef 0) _ _ _ eq_refl Hs (C04_lexeme_cex_run C04_cex_ucd)) as [_ [Hall _]].
  cbn [modes] in Hall. inversion Hall as [|? ? _ Hall']; subst. inversion Hall' as [|? ? Hbad _]; subst.
  discriminate Hbad.
Qed.

(* the corrected statement: the whitespace expression leaves the rest of the mode stack alone *)
Definition stmt_C04_lexeme_skips_only_before_rules_partial : Prop :=
  forall ucd rules self dosp e st p st',
    (forall st p st', dosp st = OK (p, st') -> tl (modes st') = tl (modes st)) ->
    dirs_ok L e = true -> stack_all L st ->
    elab ucd rules self dosp e st = OK (p, st') ->
    skips_only_before_rules p = true /\ stack_all L st'.

Theorem C04_lexeme_skips_only_before_rules_partial : stmt_C04_lexeme_skips_only_before_rules_partial.
Proof.
  intros ucd rules self dosp e st p st' Hdosp Hd Hs H.
  change L with (keepb false) in Hd, Hs |- *. apply stack_all_sall in Hs.
  destruct (elab_inv false dosp (or_intror Hdosp) ucd rules self e st p st' Hd Hs H) as ((Ho & _) & Hs' & _).
  split; [exact Ho | apply stack_all_sall; exact Hs'].
Qed.

(* without the hypothesis on [dosp] the first conjunct fails as well: the stack tail returned by [dosp]
   becomes the current mode once the enclosing directive is popped *)
Definition C04_lexeme_cex_dosp2 : spacefn := fun st => OK (PEmpty, {| modes := [0; P]; entry := entry st |}).
Lemma C04_lexeme_cex_run2 :
  forall ucd, elab ucd C04_lexeme_cex_rules None C04_lexeme_cex_dosp2 (ESeq (EDir 0 0 0 (ERef 0)) EAny) C04_lexeme_cex_st
              = OK (PSeq (PSeq (PSkip PEmpty) (PCall 0 0 20)) (PSeq (PSkip PEmpty) (PInstr (IMatchAny 0))),
                    {| modes := [16; 16]; entry := 1 |}).
Proof. intros ucd. vm_compute. reflexivity. Qed.

(* the hypothesis of the corrected statement holds for the space function the encoder really uses
   (Lang/Link.v: spacefn_for = the whitespace expression elaborated with [no_space]): elaboration only
   ever rewrites the top of the mode stack *)
Section Tail.
Variable dosp : spacefn.
Hypothesis Hdosp : forall st p st', dosp st = OK (p, st') -> tl (modes st') = tl (modes st).
Variable ucd : ucd_table.
Variable rules : nat -> rinfo.
Variable self : option nat.

Lemma skip_tail cm cs st p st' : skip dosp cm cs st = OK (p, st') -> tl (modes st') = tl (modes st).
Proof.
  unfold skip, do_skip, bind2. cbv zeta. intros H. brk H; inversion H; subst; unfold set_top; cbn [modes tl];
    try reflexivity;
    match goal with Hx : dosp _ = OK _ |- _ =>
      apply Hdosp in Hx; unfold set_top in Hx; cbn [modes tl] in Hx; rewrite Hx; destruct (entry _ =? 0); reflexivity end.
Qed.

Lemma dpop_tail relay st p st' : dpop dosp relay st = OK (p, st') -> tl (modes st') = tl (tl (modes st)).
Proof.
  unfold dpop, do_skip, bind2. cbv zeta. intros H. brk H; inversion H; subst; unfold set_top, pop_mode in *; cbn [modes tl] in *;
    try reflexivity;
    match goal with Hx : dosp _ = OK _ |- _ => apply Hdosp in Hx; cbn [modes tl] in Hx; exact Hx end.
Qed.

Ltac tails :=
  repeat match goal with
         | Hx : skip dosp _ _ _ = OK _ |- _ => apply skip_tail in Hx
         | Hx : dpop dosp _ _ = OK _ |- _ => apply dpop_tail in Hx
         | IH : (forall st p st', elab _ _ _ _ ?a st = OK (p, st') -> _), Hx : elab _ _ _ _ ?a _ = OK (_, _) |- _ => apply IH in Hx
         end.

Lemma elab_str_tail s st p st' : elab_str ucd dosp s st = OK (p, st') -> tl (modes st') = tl (modes st).
Proof. unfold elab_str, bind2. intros H. brk H; tails; inversion H; subst; congruence. Qed.
Lemma elab_range_tail a b st p st' : elab_range ucd dosp a b st = OK (p, st') -> tl (modes st') = tl (modes st).
Proof. unfold elab_range, bind2. intros H. brk H; tails; inversion H; subst; congruence. Qed.
Lemma elab_call_tail r prec st p st' : elab_call rules self dosp r prec st = OK (p, st') -> tl (modes st') = tl (modes st).
Proof. unfold elab_call, bind2. intros H. brk H; tails; inversion H; subst; congruence. Qed.

Lemma elab_tail : forall e st p st', elab ucd rules self dosp e st = OK (p, st') -> tl (modes st') = tl (modes st).
Proof.
  induction e; intros st0 p0 st0' H; cbn [elab] in H; try discriminate H;
    try (apply elab_str_tail in H; exact H);
    try (apply elab_range_tail in H; exact H);
    try (apply elab_call_tail in H; exact H);
    unfold bind2 in H; brk H; tails; inversion H; subst;
    unfold dpsh, push_mode in *; cbn [modes tl] in *; congruence.
Qed.
End Tail.

Lemma real_space_keeps_tail ucd rules self space st p st' :
  elab ucd rules self no_space space st = OK (p, st') -> tl (modes st') = tl (modes st).
Proof. apply elab_tail. intros ? ? ? Hx. discriminate Hx. Qed.

(* ------------------------------------------------------------------ C04: captures *)
Lemma skip_shape dosp cm cs st p st' : skip dosp cm cs st = OK (p, st') -> p = PEmpty \/ exists sp, p = PSkip sp.
Proof.
  unfold skip, bind2. cbv zeta. intros H. brk H; inversion H; subst; eauto.
Qed.

Theorem C04_capture_skip_outside_proof : stmt_C04_capture_skip_outside.
Proof.
  intros ucd rules self dosp id a st p st' H. cbn [elab] in H. unfold bind2 in H.
  destruct (skip dosp E L st) as [[sk st1]|] eqn:Hsk; [|discriminate].
  destruct (elab ucd rules self dosp a st1) as [[pa st2]|] eqn:Ha; [|discriminate].
  inversion H; subst. exists sk, pa. split; [reflexivity|]. exact (skip_shape _ _ _ _ _ _ Hsk).
Qed.

(* ------------------------------------------------------------------ C04: input without whitespace *)
Lemma same_succ j t f o : same_result (Succ j t f) o -> exists f', o = Succ j t f'.
Proof. destruct o; cbn; [intros [-> ->]; eauto | contradiction]. Qed.
Lemma same_fail f o : same_result (Fail f) o -> exists f', o = Fail f'.
Proof. destruct o; cbn; [contradiction | eauto]. Qed.

(* kept local (same scheme and determinism proof as BlockLemmas.v / TopLaws.v) so that this file depends on the
   statement file only *)
Scheme elab_peg_mind := Minimality for peg Sort Prop
  with elab_peg_rep_mind := Minimality for peg_rep Sort Prop.
Combined Scheme elab_peg_mutind from elab_peg_mind, elab_peg_rep_mind.

Ltac det_ih :=
  match goal with
  | IH : (forall o2, peg _ _ _ ?a ?i o2 -> ?o = o2), H : peg _ _ _ ?a ?i ?o' |- _ =>
      lazymatch o' with o => fail | _ => idtac end;
      let E := fresh "E" in pose proof (IH _ H) as E; clear IH;
      first [ subst o' | subst o | (inversion E; subst; clear E) ]
  | IH : (forall o2, peg_rep _ _ _ ?n ?k ?a ?i o2 -> ?o = o2), H : peg_rep _ _ _ ?n ?k ?a ?i ?o' |- _ =>
      lazymatch o' with o => fail | _ => idtac end;
      let E := fresh "E" in pose proof (IH _ H) as E; clear IH;
      first [ subst o' | subst o | (inversion E; subst; clear E) ]
  end.

Ltac same_body :=
  match goal with
  | H1 : ?G ?r = Some ?b, H2 : ?G ?r = Some ?b' |- _ =>
      lazymatch b' with b => fail | _ => idtac end;
      rewrite H1 in H2; injection H2 as <-
  end.

Lemma elab_peg_det (ucd : ucd_table) (inp : list N) (G : nat -> option pexp) :
  (forall p i o1, peg ucd inp G p i o1 -> forall o2, peg ucd inp G p i o2 -> o1 = o2) /\
  (forall n k a i o1, peg_rep ucd inp G n k a i o1 -> forall o2, peg_rep ucd inp G n k a i o2 -> o1 = o2).
Proof.
  apply elab_peg_mutind; intros;
    match goal with
    | H2 : peg _ _ _ _ _ ?o2 |- _ = ?o2 => inversion H2; subst; clear H2
    | H2 : peg_rep _ _ _ _ _ _ _ ?o2 |- _ = ?o2 => inversion H2; subst; clear H2
    end;
    try same_body; repeat det_ih; try reflexivity; try congruence; try discriminate.
Qed.

Section NoWs.
Variable ucd : ucd_table.
Variable inp : list N.
Variable G : nat -> option pexp.
Variable sp0 : pexp.
Hypothesis Hsp : forall i', exists f, peg ucd inp G sp0 i' (Succ i' [] f).
Hypothesis HG : forall r body, G r = Some body -> skips_are sp0 body.
Let G' := fun r => option_map strip_skips (G r).

Ltac use_ih :=
  repeat match goal with
  | H : _ /\ _ |- _ => destruct H
  | IH : ?A -> exists o', _ /\ same_result (Succ _ _ _) o', Hs : ?A |- _ =>
      let Hsr := fresh "Hsr" in destruct (IH Hs) as (? & ? & Hsr); clear IH; apply same_succ in Hsr; destruct Hsr as (? & ->)
  | IH : ?A -> exists o', _ /\ same_result (Fail _) o', Hs : ?A |- _ =>
      let Hsr := fresh "Hsr" in destruct (IH Hs) as (? & ? & Hsr); clear IH; apply same_fail in Hsr; destruct Hsr as (? & ->)
  | IH : ?A -> exists o', _ /\ same_result _ o', Hs : ?A |- _ =>
      destruct (IH Hs) as (? & ? & ?); clear IH
  end.

Lemma strip_all :
  (forall p i o, peg ucd inp G p i o -> skips_are sp0 p -> exists o', peg ucd inp G' (strip_skips p) i o' /\ same_result o o') /\
  (forall n k a i o, peg_rep ucd inp G n k a i o -> skips_are sp0 a -> exists o', peg_rep ucd inp G' n k (strip_skips a) i o' /\ same_result o o').
Proof.
  apply elab_peg_mutind; intros; cbn [skips_are strip_skips] in *.
  all: try (use_ih; eexists; split; [econstructor; eassumption | cbn; auto]; fail).
  - (* call *)
    match goal with Hg : G _ = Some _, IH : skips_are _ _ -> _ |- _ =>
      destruct (IH (HG _ _ Hg)) as (o' & Hp & Hs); exists o'; split; [|exact Hs];
      eapply peg_call; [|exact Hp]; unfold G'; rewrite Hg; reflexivity end.
  - (* an emitted whitespace block matches the empty string *)
    match goal with Hk : ?sp = sp0, Hp : peg _ _ _ ?sp ?i _ |- _ =>
      subst sp; destruct (Hsp i) as [f Hf]; pose proof (proj1 (elab_peg_det ucd inp G) _ _ _ Hp _ Hf) as -> end.
    exists (Succ i [] 0). split; [constructor | cbn; auto].
  - (* a mandatory repetition *)
    match goal with
    | IHa : ?A -> exists o', peg _ _ _ _ _ o' /\ same_result (Succ _ _ _) o',
      IHr : ?A -> exists o', peg_rep _ _ _ _ _ _ _ o' /\ _, Hs : ?A |- _ =>
        destruct (IHa Hs) as (oa & Hpa & Hsa); apply same_succ in Hsa; destruct Hsa as (fa & ->);
        destruct (IHr Hs) as (o' & Hpr & Hsr)
    end.
    eexists. split; [eapply rep_must_ok; eassumption|].
    destruct o; [apply same_succ in Hsr | apply same_fail in Hsr]; destruct Hsr as (? & ->); cbn; auto.
Qed.

End NoWs.

Theorem C04_no_whitespace_input_proof : stmt_C04_no_whitespace_input.
Proof.
  intros ucd inp G sp0 p i o Hsp HG Hp H.
  exact (proj1 (strip_all ucd inp G sp0 Hsp HG) p i o H Hp).
Qed.

Print Assumptions C04_noskip_no_skip_proof.
Print Assumptions C04_lexeme_skips_only_before_rules_false.
Print Assumptions C04_lexeme_skips_only_before_rules_partial.
Print Assumptions real_space_keeps_tail.
Print Assumptions C04_capture_skip_outside_proof.
Print Assumptions C04_no_whitespace_input_proof.
