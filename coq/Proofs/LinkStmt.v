(* Statement of the layout lemma for start(): where each rule's code ends up in the linked program
   and how its calls are resolved, for grammars in which no call was marked left-recursive. *)
From Coq Require Import NArith ZArith List Bool.
From Lug Require Import Gen.Consts Gen.UcdTables Ucd.Lookup VM.Instr Lang.Expr Lang.Elab Lang.Codegen Lang.Link VM.Machine Spec.Peg Proofs.BlockDefs.
Import ListNotations.
Local Open Scope Z_scope.

(* the result of the layout loop of start(), exposed so that statements can talk about it *)
Definition link_layout (ucd : ucd_table) (space : expr) (rt : rtable) (start_rule : nat) : err (pexp * lstate) :=
  let st0 := {| modes := [N.lor E P]; entry := 0%N |} in
  match skip (spacefn_for ucd space rt None) (r_entry (rt_get rt start_rule)) Nn st0 with
  | Err w => Err w
  | OK (sk, _) =>
      let pre := cg sk ++ [TCall start_rule 0 0; TI (IJump 0)] in
      let s0 := {| l_code := pre; l_addrs := []; l_lrec := []; l_halt := Some (len (cg sk) + 1);
                   l_work := [([(start_rule, false)], start_rule)] |} in
      match link_loop (S (S (total_callees rt + length rt))) rt s0 with
      | None => Err e_limit
      | Some s => OK (sk, s)
      end
  end.

Definition addr_of (s : lstate) (r : nat) : Z := match assoc_find (l_addrs s) r with Some a => a | None => -1 end.
Definition placed (s : lstate) (r : nat) : bool := match assoc_find (l_addrs s) r with Some _ => true | None => false end.

Definition stmt_link_layout : Prop :=
  forall ucd space rt start_rule sk s prog,
    link_layout ucd space rt start_rule = OK (sk, s) ->
    start ucd space rt start_rule = OK prog ->
    l_lrec s = [] ->
    (* the prologue: whitespace block, call of the start rule, jump to the end of the program *)
    at_ prog (addr_of s) 0 (cg sk ++ [TCall start_rule 0 0; TI (IJump (len prog - (len (cg sk) + 1) - 1))]) /\
    placed s start_rule = true /\
    (* every placed rule: its body followed by ret, at its address *)
    (forall r, placed s r = true -> at_ prog (addr_of s) (addr_of s r) (cg (r_body (rt_get rt r)) ++ [TI IRet])) /\
    (* closure: everything a placed rule calls is placed *)
    (forall r r' prec mode, placed s r = true -> In (TCall r' prec mode) (cg (r_body (rt_get rt r))) -> placed s r' = true).
