(* Static well-formedness of compiled programs (C17 static half, C10 re-basing):
   - every control transfer of the code of an expression stays inside the block (closed code), for the
     core trees elaboration produces (leaf instructions without a branch offset),
   - every control transfer of a linked program stays inside the program,
   - lowering to lug's numeric encoding loses nothing: decoding the numeric program through its tables
     gives back the semantic instructions, so every string and resource reference is in range. *)
From Coq Require Import NArith ZArith List Bool.
From Lug Require Import Gen.Consts Gen.UcdTables Ucd.Lookup Ucd.RuneSet VM.Instr Lang.Expr Lang.Elab Lang.Codegen Lang.Link Lang.Lower.
Import ListNotations.
Local Open Scope Z_scope.

(* relative target of an instruction sitting at offset [a] of a block, if it has one *)
Definition target (a : Z) (i : sinstr) : option Z :=
  match i with
  | IJump off | IChoice off _ | ICommit off | ICommitBack off | ICommitPartial off | ICall off _ | IRecoverPush off => Some (a + 1 + off)
  | _ => None
  end.

Definition ttarget (a : Z) (t : tinstr) : option Z := match t with TI i => target a i | _ => None end.

(* all targets of a template block lie within [0, length] *)
Definition closed_code (code : list tinstr) : Prop :=
  forall k t x, nth_error code k = Some t -> ttarget (Z.of_nat k) t = Some x -> 0 <= x <= len code.

Definition closed_prog (prog : list sinstr) : Prop :=
  forall k i x, nth_error prog k = Some i -> target (Z.of_nat k) i = Some x -> 0 <= x <= len prog.

(* core trees whose leaf instructions (PInstr i, PWrap pre _ post) carry no branch offset; without this
   restriction the code of PInstr (IJump 5) is a counterexample to closedness *)
Definition no_target (i : sinstr) : bool := match target 0 i with None => true | Some _ => false end.

Fixpoint simple (p : pexp) : Prop :=
  match p with
  | PEmpty | PEoi | PCall _ _ _ | PRaiseRule _ _ _ => True
  | PInstr i => no_target i = true
  | PSeq a b | PAlt a b | PRecExpr a b => simple a /\ simple b
  | PStar a | PNot a | PAnd a | PRep _ _ a | PInline _ a | PSkip a | PRecRule _ _ a | PRaiseExpr _ a | PNegSet a => simple a
  | PWrap pre a post => no_target pre = true /\ simple a /\ no_target post = true
  end.

Definition stmt_cg_closed : Prop := forall p, simple p -> closed_code (cg p).

(* elaboration only yields simple trees, given a space function and a rule table that do *)
Definition good_sp (dosp : spacefn) : Prop := forall st p st', dosp st = OK (p, st') -> simple p.

Definition stmt_elab_simple : Prop :=
  forall ucd rules self dosp,
    (forall r, simple (r_body (rules r))) -> good_sp dosp ->
    forall e st p st', elab ucd rules self dosp e st = OK (p, st') -> simple p.

Definition stmt_link_closed : Prop :=
  forall ucd g prog, compile ucd g = OK prog -> closed_prog prog.

(* ---- decoding a numeric program back through its tables ---- *)
Definition slice (data : list N) (off : Z) (n : N) : option (list N) :=
  if (off <? 0) then None
  else let o := Z.to_nat off in
       if (o + N.to_nat n <=? length data)%nat then Some (firstn (N.to_nat n) (skipn o data)) else None.

Definition nthN {A} (l : list A) (i : N) : option A := nth_error l (N.to_nat i).

Definition unlower_one (p : program) (x : ninstr) : option sinstr :=
  let op := n_op x in
  let str := slice (p_data p) (n_off x) (n_imm16 x) in
  let withs (f : list N -> sinstr) := match str with Some s => Some (f s) | None => None end in
  if N.eqb op op_jump then Some (IJump (n_off x))
  else if N.eqb op op_choice then Some (IChoice (n_off x) (negb (N.eqb (n_imm8 x) 0)))
  else if N.eqb op op_commit then Some (ICommit (n_off x))
  else if N.eqb op op_commit_back then Some (ICommitBack (n_off x))
  else if N.eqb op op_commit_partial then Some (ICommitPartial (n_off x))
  else if N.eqb op op_accept then Some (IAccept (n_imm8 x))
  else if N.eqb op op_call then Some (ICall (n_off x) (n_imm16 x))
  else if N.eqb op op_ret then Some IRet
  else if N.eqb op op_fail then Some (IFail (n_imm8 x))
  else if N.eqb op op_recover_push then Some (IRecoverPush (n_off x))
  else if N.eqb op op_recover_pop then Some IRecoverPop
  else if N.eqb op op_recover_resp then Some (IRecoverResp (n_imm8 x))
  else if N.eqb op op_report_push then option_map IReportPush (nthN (p_handlers p) (n_imm16 x))
  else if N.eqb op op_report_pop then Some IReportPop
  else if N.eqb op op_predicate then option_map IPredicate (nthN (p_predicates p) (n_imm16 x))
  else if N.eqb op op_action then option_map IAction (nthN (p_actions p) (n_imm16 x))
  else if N.eqb op op_capture_start then Some ICaptureStart
  else if N.eqb op op_capture_end then option_map ICaptureEnd (nthN (p_captures p) (n_imm16 x))
  else if N.eqb op op_condition_pop then Some IConditionPop
  else if N.eqb op op_symbol_end then Some ISymbolEnd
  else if N.eqb op op_symbol_pop then Some ISymbolPop
  else if N.eqb op op_match_any then Some (IMatchAny (n_imm8 x))
  else if N.eqb op op_match_eol then Some IMatchEol
  else if N.eqb op op_match_octet then Some (IMatchOctet (n_imm8 x))
  else if N.eqb op op_match_set then option_map IMatchSet (nthN (p_runesets p) (n_imm16 x))
  else if N.eqb op op_match_all_of then option_map (IMatchClass CkAll (n_imm8 x)) (nthN (p_uniforms p) (n_imm16 x))
  else if N.eqb op op_match_any_of then option_map (IMatchClass CkAny (n_imm8 x)) (nthN (p_uniforms p) (n_imm16 x))
  else if N.eqb op op_match_none_of then option_map (IMatchClass CkNone (n_imm8 x)) (nthN (p_uniforms p) (n_imm16 x))
  else if N.eqb op op_match then withs IMatch
  else if N.eqb op op_match_cf then withs IMatchCf
  else if N.eqb op op_condition_test then withs (fun s => IConditionTest s (negb (N.eqb (n_imm8 x) 0)))
  else if N.eqb op op_condition_push then withs (fun s => IConditionPush s (negb (N.eqb (n_imm8 x) 0)))
  else if N.eqb op op_symbol_exists then withs (fun s => ISymbolExists s (negb (N.eqb (n_imm8 x) 0)))
  else if N.eqb op op_symbol_all then withs (fun s => ISymbolMatch SkAll false s (n_imm8 x))
  else if N.eqb op op_symbol_all_cf then withs (fun s => ISymbolMatch SkAll true s (n_imm8 x))
  else if N.eqb op op_symbol_any then withs (fun s => ISymbolMatch SkAny false s (n_imm8 x))
  else if N.eqb op op_symbol_any_cf then withs (fun s => ISymbolMatch SkAny true s (n_imm8 x))
  else if N.eqb op op_symbol_head then withs (fun s => ISymbolMatch SkHead false s (n_imm8 x))
  else if N.eqb op op_symbol_head_cf then withs (fun s => ISymbolMatch SkHead true s (n_imm8 x))
  else if N.eqb op op_symbol_tail then withs (fun s => ISymbolMatch SkTail false s (n_imm8 x))
  else if N.eqb op op_symbol_tail_cf then withs (fun s => ISymbolMatch SkTail true s (n_imm8 x))
  else if N.eqb op op_symbol_start then withs ISymbolStart
  else if N.eqb op op_symbol_push then (if N.eqb (n_imm8 x) 1 then withs (ISymbolPush 1) else Some (ISymbolPush (n_imm8 x) []))
  else if N.eqb op op_raise then withs (fun s => IRaise s (negb (N.eqb (n_imm8 x) 0)))
  else None.

Fixpoint map_opt' {A B} (f : A -> option B) (l : list A) : option (list B) :=
  match l with
  | [] => Some []
  | x :: r => match f x, map_opt' f r with Some y, Some ys => Some (y :: ys) | _, _ => None end
  end.

Definition unlower (p : program) : option (list sinstr) := map_opt' (unlower_one p) (p_code p).

(* instructions whose immediates are in their canonical form (what the encoder emits) *)
Definition canon (i : sinstr) : Prop :=
  match i with
  | ISymbolPush kind nm => (kind = 1%N) \/ ((kind = 0%N \/ kind = 2%N) /\ nm = [])
  | ISymbolMatch k _ _ idx => True
  | _ => True
  end.

Definition stmt_unlower_lower : Prop :=
  forall code, Forall canon code -> unlower (lower code) = Some code.

(* concatenation re-basing: lowering a concatenation is lowering the first part, then the second with
   every string offset and resource index shifted by the sizes of the first part's tables *)
Definition stmt_lower_app_code : Prop :=
  forall c1 c2,
    let p1 := fold_left lower_one c1 empty_program in
    let p := fold_left lower_one (c1 ++ c2) empty_program in
    firstn (length c1) (p_code p) = p_code p1 /\
    firstn (length (p_data p1)) (p_data p) = p_data p1 /\
    firstn (length (p_actions p1)) (p_actions p) = p_actions p1 /\
    firstn (length (p_captures p1)) (p_captures p) = p_captures p1 /\
    firstn (length (p_runesets p1)) (p_runesets p) = p_runesets p1 /\
    firstn (length (p_uniforms p1)) (p_uniforms p) = p_uniforms p1 /\
    firstn (length (p_handlers p1)) (p_handlers p) = p_handlers p1 /\
    firstn (length (p_predicates p1)) (p_predicates p) = p_predicates p1.
