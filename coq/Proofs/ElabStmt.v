(* Statements for C04: where the encoder's mode machine puts implicit-whitespace blocks. *)
From Coq Require Import NArith ZArith List Bool.
From Lug Require Import Gen.Consts Gen.UcdTables Ucd.Lookup Ucd.RuneSet VM.Instr Lang.Expr Lang.Elab Lang.Codegen VM.Machine Spec.Peg.
Import ListNotations.
Local Open Scope N_scope.

(* whitespace blocks emitted for this expression itself (not those inside the bodies of inlined rules,
   which were compiled in their own rule's context) *)
Fixpoint own_skips (p : pexp) : nat :=
  match p with
  | PSkip _ => 1
  | PSeq a b | PAlt a b | PRecExpr a b => own_skips a + own_skips b
  | PStar a | PNot a | PAnd a | PRep _ _ a | PWrap _ a _ | PRecRule _ _ a | PRaiseExpr _ a | PNegSet a => own_skips a
  | _ => 0
  end.

Definition has_bits (m bits : N) : bool := N.land m bits =? bits.
Definition stack_all (bits : N) (st : est) : Prop := Forall (fun m => has_bits m bits = true) (modes st) /\ modes st <> [].

(* directive nodes as the DSL builds them: they relay at most the eps bit; `keeps bits` additionally says
   that no directive inside switches the given mode bits off again (no skip[...] inside noskip[...]) *)
Fixpoint dirs_ok (keep : N) (e : expr) : bool :=
  match e with
  | EDir en dis relay a => (N.land relay (N.lnot E 8) =? 0) && (N.land dis keep =? 0) && dirs_ok keep a
  | ESeq a b | EAlt a b | EList a b | EExpectExpr a _ b | ERecExpr a b => dirs_ok keep a && dirs_ok keep b
  | EStar a | EPlus a | EOpt a | ENot a | EAnd a | ERep _ _ a | EAct _ a | ECap _ a | ESym _ a | EBlock a | ELocal a
  | ELocalTo _ a | ECond _ _ a | EExpect a _ | EExpectRule a _ _ | ERaiseExpr _ a | ERecRule _ a | EReport _ a => dirs_ok keep a
  | ECased _ | ECaseless _ | ELexeme _ | ENoskip _ | ESkip _ | ECutBefore _ | ECutAfter _ | ERespond _ _ => false  (* surface forms: desugar first *)
  | _ => true
  end.

(* noskip[e]: no whitespace block at all is emitted for e, not even in front of it *)
Definition stmt_C04_noskip_no_skip : Prop :=
  forall ucd rules self dosp e st p st',
    dirs_ok (N.lor L Nn) e = true -> stack_all (N.lor L Nn) st ->
    elab ucd rules self dosp e st = OK (p, st') ->
    own_skips p = 0%nat /\ stack_all (N.lor L Nn) st'.

(* lexeme[e]: whitespace blocks are emitted only in front of rule references (calls and inlined rules) *)
Fixpoint skips_only_before_rules (p : pexp) : bool :=
  match p with
  | PSkip _ => false
  | PSeq (PSkip _) (PCall _ _ _) | PSeq (PSkip _) (PInline _ _) => true
  | PSeq a b | PAlt a b | PRecExpr a b => skips_only_before_rules a && skips_only_before_rules b
  | PStar a | PNot a | PAnd a | PRep _ _ a | PWrap _ a _ | PRecRule _ _ a | PRaiseExpr _ a | PNegSet a => skips_only_before_rules a
  | _ => true
  end.
Definition stmt_C04_lexeme_skips_only_before_rules : Prop :=
  forall ucd rules self dosp e st p st',
    dirs_ok L e = true -> stack_all L st ->
    elab ucd rules self dosp e st = OK (p, st') ->
    skips_only_before_rules p = true /\ stack_all L st'.

(* the whitespace block of a capture is emitted in front of capture_start *)
Definition stmt_C04_capture_skip_outside : Prop :=
  forall ucd rules self dosp id a st p st',
    elab ucd rules self dosp (ECap id a) st = OK (p, st') ->
    exists sk pa, p = seqp sk (PWrap ICaptureStart pa (ICaptureEnd id)) /\ (sk = PEmpty \/ exists sp, sk = PSkip sp).

(* On input on which the whitespace rule matches nothing anywhere, a grammar behaves as it does with all
   whitespace blocks removed (success, consumed prefix and callbacks; the farthest-failure offset may differ) *)
Fixpoint strip_skips (p : pexp) : pexp :=
  match p with
  | PSkip _ => PEmpty
  | PSeq a b => PSeq (strip_skips a) (strip_skips b)
  | PAlt a b => PAlt (strip_skips a) (strip_skips b)
  | PStar a => PStar (strip_skips a)
  | PNot a => PNot (strip_skips a)
  | PAnd a => PAnd (strip_skips a)
  | PRep n m a => PRep n m (strip_skips a)
  | PInline r a => PInline r (strip_skips a)
  | PWrap pre a post => PWrap pre (strip_skips a) post
  | _ => p
  end.

Fixpoint skips_are (sp0 : pexp) (p : pexp) : Prop :=
  match p with
  | PSkip sp => sp = sp0
  | PSeq a b | PAlt a b => skips_are sp0 a /\ skips_are sp0 b
  | PStar a | PNot a | PAnd a | PRep _ _ a | PInline _ a | PWrap _ a _ => skips_are sp0 a
  | _ => True
  end.

Definition same_result (o1 o2 : out) : Prop :=
  match o1, o2 with
  | Succ j t _, Succ j' t' _ => j = j' /\ t = t'
  | Fail _, Fail _ => True
  | _, _ => False
  end.

Definition stmt_C04_no_whitespace_input : Prop :=
  forall ucd inp G sp0 p i o,
    (forall i', exists f, peg ucd inp G sp0 i' (Succ i' [] f)) ->       (* the whitespace rule matches only the empty string, everywhere *)
    (forall r body, G r = Some body -> skips_are sp0 body) -> skips_are sp0 p ->
    peg ucd inp G p i o ->
    exists o', peg ucd inp (fun r => option_map strip_skips (G r)) (strip_skips p) i o' /\ same_result o o'.
