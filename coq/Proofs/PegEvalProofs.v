(* The fuelled evaluator of Spec/PegEval.v is sound and complete for the relation of Spec/Peg.v. *)
From Coq Require Import NArith ZArith List Bool Lia Arith.
From Lug Require Import Gen.UcdTables Utf8.Utf8Model Ucd.Lookup Ucd.RuneSet VM.Instr Lang.Elab VM.Machine Spec.Peg Spec.PegEval.
Import ListNotations.
Local Open Scope N_scope.

Scheme peg_ev_mind := Minimality for peg Sort Prop
  with peg_rep_ev_mind := Minimality for peg_rep Sort Prop.
Combined Scheme peg_ev_mutind from peg_ev_mind, peg_rep_ev_mind.

(* break the nested matches of an evaluator equation *)
Ltac brk :=
  repeat match goal with
  | H : Some _ = Some _ |- _ => inversion H; subst; clear H
  | H : None = Some _ |- _ => discriminate H
  | H : match ?x with _ => _ end = Some _ |- _ => destruct x eqn:?
  | H : (if ?x then _ else _) = Some _ |- _ => destruct x eqn:?
  end.

Section Proofs.
Variable ucd : ucd_table.
Variable inp : list N.
Variable G : nat -> option pexp.

Notation peg_eval := (peg_eval ucd inp G).
Notation peg := (peg ucd inp G).
Notation peg_rep := (peg_rep ucd inp G).

(* unfolding equations of rep_eval *)
Lemma rep_eval_00 ev i : rep_eval ev 0 0 i = Some (Succ i [] 0).
Proof. reflexivity. Qed.

Lemma rep_eval_0S ev k i :
  rep_eval ev 0 (S k) i =
  match ev i with
  | Some (Succ j t1 f1) =>
      match rep_eval ev 0 k j with
      | Some (Succ j' t2 f2) => Some (Succ j' (t1 ++ t2) (N.max f1 f2))
      | other => other
      end
  | Some (Fail f) => Some (Succ i [] f)
  | None => None
  end.
Proof. reflexivity. Qed.

Lemma rep_eval_S ev n k i :
  rep_eval ev (S n) k i =
  match ev i with
  | Some (Succ j t1 f1) =>
      match rep_eval ev n k j with
      | Some (Succ j' t2 f2) => Some (Succ j' (t1 ++ t2) (N.max f1 f2))
      | Some (Fail f2) => Some (Fail (N.max f1 f2))
      | None => None
      end
  | Some (Fail f) => Some (Fail f)
  | None => None
  end.
Proof. reflexivity. Qed.

(* ---------- soundness ---------- *)

Lemma rep_eval_sound (ev : N -> option out) (a : pexp) :
  (forall i o, ev i = Some o -> peg a i o) ->
  forall n k i o, rep_eval ev n k i = Some o -> peg_rep n k a i o.
Proof.
  intros Hev. induction n as [|n IHn].
  - induction k as [|k IHk]; intros i o H.
    + rewrite rep_eval_00 in H. inversion H; subst. constructor.
    + rewrite rep_eval_0S in H.
      destruct (ev i) as [[j t1 f1|f]|] eqn:E1; [| |discriminate].
      * apply Hev in E1.
        destruct (rep_eval ev 0 k j) as [[j' t2 f2|f2]|] eqn:E2; [| |discriminate].
        -- apply IHk in E2. inversion H; subst. eapply rep_opt_ok; eassumption.
        -- apply IHk in E2. inversion E2.
      * apply Hev in E1. inversion H; subst. apply rep_opt_stop; assumption.
  - intros k i o H. rewrite rep_eval_S in H.
    destruct (ev i) as [[j t1 f1|f]|] eqn:E1; [| |discriminate].
    + apply Hev in E1.
      destruct (rep_eval ev n k j) as [[j' t2 f2|f2]|] eqn:E2; [| |discriminate].
      * apply IHn in E2. inversion H; subst.
        exact (rep_must_ok ucd inp G n k a i j t1 f1 (Succ j' t2 f2) E1 E2).
      * apply IHn in E2. inversion H; subst.
        exact (rep_must_ok ucd inp G n k a i j t1 f1 (Fail f2) E1 E2).
    + apply Hev in E1. inversion H; subst. apply rep_must_ko; assumption.
Qed.

Lemma peg_eval_sound : forall fuel p i o, peg_eval fuel p i = Some o -> peg p i o.
Proof.
  induction fuel as [|fu IH]; intros p i o H; [discriminate H|].
  destruct p; cbn [PegEval.peg_eval] in H.
  - (* PEmpty *) brk. constructor.
  - (* PInstr *)
    destruct (is_terminal i0) eqn:Et.
    + destruct (tmatch ucd inp i0 i) as [j|] eqn:Em; inversion H; subst.
      * apply peg_term_ok; assumption.
      * apply peg_term_ko; assumption.
    + destruct i0; try discriminate H. inversion H; subst. constructor.
  - (* PSeq *)
    brk; repeat match goal with E : peg_eval fu _ _ = Some _ |- _ => apply IH in E end.
    + eapply peg_seq_ok; eassumption.
    + eapply peg_seq_ko2; eassumption.
    + eapply peg_seq_ko1; eassumption.
  - (* PAlt *)
    brk; repeat match goal with E : peg_eval fu _ _ = Some _ |- _ => apply IH in E end.
    + eapply peg_alt_l; eassumption.
    + eapply peg_alt_r_ok; eassumption.
    + eapply peg_alt_r_ko; eassumption.
  - (* PStar *)
    brk; repeat match goal with E : peg_eval fu _ _ = Some _ |- _ => apply IH in E end.
    + eapply peg_star_more; eassumption.
    + eapply peg_star_done; eassumption.
  - (* PNot *)
    brk; repeat match goal with E : peg_eval fu _ _ = Some _ |- _ => apply IH in E end.
    + eapply peg_not_ko; eassumption.
    + eapply peg_not_ok; eassumption.
  - (* PAnd *)
    brk; repeat match goal with E : peg_eval fu _ _ = Some _ |- _ => apply IH in E end.
    + eapply peg_and_ok; eassumption.
    + eapply peg_and_ko; eassumption.
  - (* PEoi *)
    destruct (tmatch ucd inp (IMatchAny 1) i) as [j|] eqn:Em; inversion H; subst.
    + apply peg_eoi_ko; assumption.
    + apply peg_eoi_ok; assumption.
  - (* PRep *)
    apply peg_repeat. eapply rep_eval_sound; [|exact H]. intros; apply IH; assumption.
  - (* PCall *)
    destruct (G r) as [body|] eqn:Eg; [|discriminate H].
    eapply peg_call; [exact Eg|]. apply IH; assumption.
  - (* PInline *) apply peg_inline. apply IH; assumption.
  - (* PSkip *) apply peg_skip. apply IH; assumption.
  - (* PWrap *)
    destruct pre; try discriminate H. destruct post; try discriminate H.
    brk; repeat match goal with E : peg_eval fu _ _ = Some _ |- _ => apply IH in E end.
    + eapply peg_capture_ok; eassumption.
    + eapply peg_capture_ko; eassumption.
  - discriminate H.
  - discriminate H.
  - discriminate H.
  - discriminate H.
  - (* PNegSet: outside the PEG fragment, no evaluation rule *) discriminate H.
Qed.

(* ---------- monotonicity ---------- *)

Lemma rep_eval_mono (ev ev' : N -> option out) :
  (forall i o, ev i = Some o -> ev' i = Some o) ->
  forall n k i o, rep_eval ev n k i = Some o -> rep_eval ev' n k i = Some o.
Proof.
  intros Hev. induction n as [|n IHn].
  - induction k as [|k IHk]; intros i o H.
    + exact H.
    + rewrite rep_eval_0S in H |- *.
      destruct (ev i) as [[j t1 f1|f]|] eqn:E1; [| |discriminate].
      * rewrite (Hev _ _ E1).
        destruct (rep_eval ev 0 k j) as [[j' t2 f2|f2]|] eqn:E2; [| |discriminate];
          rewrite (IHk _ _ E2); exact H.
      * rewrite (Hev _ _ E1). exact H.
  - intros k i o H. rewrite rep_eval_S in H |- *.
    destruct (ev i) as [[j t1 f1|f]|] eqn:E1; [| |discriminate].
    + rewrite (Hev _ _ E1).
      destruct (rep_eval ev n k j) as [[j' t2 f2|f2]|] eqn:E2; [| |discriminate];
        rewrite (IHn _ _ _ E2); exact H.
    + rewrite (Hev _ _ E1). exact H.
Qed.

Lemma peg_eval_mono : forall fuel p i o, peg_eval fuel p i = Some o ->
  forall fuel', (fuel <= fuel')%nat -> peg_eval fuel' p i = Some o.
Proof.
  induction fuel as [|fu IH]; intros p i o H fuel' Hle; [discriminate H|].
  destruct fuel' as [|fu']; [lia|].
  assert (IH' : forall p i o, peg_eval fu p i = Some o -> peg_eval fu' p i = Some o).
  { intros q i' o' Hq. apply (IH q i' o' Hq). lia. }
  clear IH Hle.
  destruct p; cbn [PegEval.peg_eval] in H |- *;
    try (eapply rep_eval_mono; [|exact H]; intros; apply IH'; assumption);
    try (brk;
         repeat match goal with E : peg_eval fu _ _ = Some _ |- _ => rewrite (IH' _ _ _ E); clear E end;
         reflexivity).
Qed.

(* ---------- completeness ---------- *)

Ltac ex := repeat match goal with H : exists _, _ |- _ => destruct H as [? H] end.

Ltac solve_c :=
  ex;
  first
  [ match goal with
    | E1 : peg_eval ?n1 ?p1 ?i1 = Some ?o1, E2 : peg_eval ?n2 ?p2 ?i2 = Some ?o2 |- _ =>
      exists (S (Nat.max n1 n2)); cbn [PegEval.peg_eval];
      rewrite (peg_eval_mono n1 p1 i1 o1 E1 (Nat.max n1 n2)) by lia;
      rewrite (peg_eval_mono n2 p2 i2 o2 E2 (Nat.max n1 n2)) by lia; reflexivity
    end
  | match goal with
    | E1 : peg_eval ?n1 ?p1 ?i1 = Some ?o1 |- _ =>
      exists (S n1); cbn [PegEval.peg_eval];
      try match goal with Hg : G _ = Some _ |- _ => rewrite Hg end;
      rewrite E1; reflexivity
    end ].

Lemma peg_eval_complete_both :
  (forall p i o, peg p i o -> exists fuel, peg_eval fuel p i = Some o) /\
  (forall n k a i o, peg_rep n k a i o -> exists fuel, rep_eval (peg_eval fuel a) n k i = Some o).
Proof.
  apply peg_ev_mutind; intros.
  - exists 1%nat; reflexivity.
  - exists 1%nat; cbn [PegEval.peg_eval]. rewrite H, H0. reflexivity.
  - exists 1%nat; cbn [PegEval.peg_eval]. rewrite H, H0. reflexivity.
  - exists 1%nat; reflexivity.
  - solve_c.
  - solve_c.
  - solve_c.
  - solve_c.
  - solve_c.
  - solve_c.
  - solve_c.
  - solve_c.
  - solve_c.
  - solve_c.
  - solve_c.
  - solve_c.
  - exists 1%nat; cbn [PegEval.peg_eval]. rewrite H. reflexivity.
  - exists 1%nat; cbn [PegEval.peg_eval]. rewrite H. reflexivity.
  - (* PRep *) ex. exists (S x). exact H0.
  - solve_c.
  - solve_c.
  - solve_c.
  - solve_c.
  - solve_c.
  - (* rep_done *) exists 0%nat. reflexivity.
  - (* rep_must_ok *)
    destruct H0 as [n1 E1]. destruct H2 as [n2 E2].
    exists (Nat.max n1 n2). rewrite rep_eval_S.
    rewrite (peg_eval_mono n1 _ _ _ E1 (Nat.max n1 n2)) by lia.
    rewrite (rep_eval_mono (peg_eval n2 a) (peg_eval (Nat.max n1 n2) a)
               (fun i' o' Hq => peg_eval_mono n2 a i' o' Hq (Nat.max n1 n2) (Nat.le_max_r n1 n2))
               _ _ _ _ E2).
    destruct o; reflexivity.
  - (* rep_must_ko *)
    destruct H0 as [n1 E1]. exists n1. rewrite rep_eval_S, E1. reflexivity.
  - (* rep_opt_ok *)
    destruct H0 as [n1 E1]. destruct H2 as [n2 E2].
    exists (Nat.max n1 n2). rewrite rep_eval_0S.
    rewrite (peg_eval_mono n1 _ _ _ E1 (Nat.max n1 n2)) by lia.
    rewrite (rep_eval_mono (peg_eval n2 a) (peg_eval (Nat.max n1 n2) a)
               (fun i' o' Hq => peg_eval_mono n2 a i' o' Hq (Nat.max n1 n2) (Nat.le_max_r n1 n2))
               _ _ _ _ E2).
    reflexivity.
  - (* rep_opt_stop *)
    destruct H0 as [n1 E1]. exists n1. rewrite rep_eval_0S, E1. reflexivity.
Qed.

End Proofs.

Theorem peg_eval_sound_proof : stmt_peg_eval_sound.
Proof. unfold stmt_peg_eval_sound. intros. eapply peg_eval_sound; eassumption. Qed.

Theorem peg_eval_complete_proof : stmt_peg_eval_complete.
Proof.
  unfold stmt_peg_eval_complete. intros ucd inp G p i o H.
  exact (proj1 (peg_eval_complete_both ucd inp G) p i o H).
Qed.

Print Assumptions peg_eval_sound_proof.
Print Assumptions peg_eval_complete_proof.
