(* Static well-formedness of compiled programs: the proofs of the statements of Proofs/StaticStmt.v.
   The work is in Proofs/StaticClosed.v (closed code, elaboration, linking) and Proofs/StaticLower.v
   (lowering). *)
From Coq Require Import NArith ZArith List Bool.
From Lug Require Import Gen.UcdTables Ucd.Lookup VM.Instr Lang.Expr Lang.Elab Lang.Codegen Lang.Link Lang.Lower.
From Lug Require Import Proofs.StaticStmt Proofs.StaticClosed Proofs.StaticLower.
Import ListNotations.

Theorem cg_closed_proof : stmt_cg_closed.
Proof. exact cg_closed_simple. Qed.

Theorem elab_simple_proof : stmt_elab_simple.
Proof. exact elab_simple. Qed.

(* every rule body in a compiled rule table is simple, hence its code is closed *)
Theorem cg_closed_compiled ucd space defs rt :
  compile_defs ucd space [] defs = OK rt -> forall r, closed_code (cg (r_body (rt_get rt r))).
Proof.
  intros H r. apply cg_closed_simple.
  exact (compile_defs_ok ucd space defs [] rt (fun _ => I) H r).
Qed.

Theorem link_closed_proof : stmt_link_closed.
Proof. exact StaticClosed.link_closed_proof. Qed.

Theorem unlower_lower_proof : stmt_unlower_lower.
Proof. exact StaticLower.unlower_lower_proof. Qed.

Theorem lower_app_code_proof : stmt_lower_app_code.
Proof. exact StaticLower.lower_app_code_proof. Qed.

Print Assumptions cg_closed_proof.
Print Assumptions elab_simple_proof.
Print Assumptions cg_closed_compiled.
Print Assumptions link_closed_proof.
Print Assumptions unlower_lower_proof.
Print Assumptions lower_app_code_proof.
