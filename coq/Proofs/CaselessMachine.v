(* Proofs of the C15 statements about the caseless literal step (Ucd/CaselessSpec.v, part 4):
   utf8_tocasefold on encoded texts, the fold cache invariant, and the exactness theorem. *)
From Coq Require Import NArith ZArith List Bool Lia ZifyBool ZifyN.
From Lug Require Import Gen.UcdTables Utf8.Utf8Model Utf8.Utf8Spec Utf8.Utf8Stmts Utf8.Utf8Proofs
  Ucd.Lookup Ucd.RuneSet Ucd.UcdSpec Lang.Core VM.Machine Ucd.CaselessSpec.
Import ListNotations.
Local Open Scope N_scope.

Strategy opaque [decompress_table].

(* ---------------------------------------------------------------- decode_all on encoded texts *)

Lemma decode_all_fuel_nil : forall f, decode_all_fuel f [] = [].
Proof. intro f. destruct f; reflexivity. Qed.

Lemma decode_all_fuel_S : forall f b l,
  decode_all_fuel (S f) (b :: l) =
  (let '(n, r) := decode_rune (b :: l) in r :: decode_all_fuel f (skipn (Nat.max n 1) (b :: l))).
Proof. reflexivity. Qed.

Lemma decode_all_fuel_enough : forall f1 f2 l,
  (length l <= f1)%nat -> (length l <= f2)%nat -> decode_all_fuel f1 l = decode_all_fuel f2 l.
Proof.
  induction f1 as [| f1 IH]; intros f2 l H1 H2.
  - destruct l as [| b l]; [| cbn [length] in H1; lia].
    rewrite !decode_all_fuel_nil. reflexivity.
  - destruct l as [| b l]; [rewrite !decode_all_fuel_nil; reflexivity |].
    destruct f2 as [| f2]; [cbn [length] in H2; lia |].
    rewrite !decode_all_fuel_S.
    destruct (decode_rune (b :: l)) as [n r].
    f_equal.
    pose proof (skipn_length (Nat.max n 1) (b :: l)) as Hl.
    cbn [length] in H1, H2, Hl.
    apply IH; lia.
Qed.

Lemma decode_all_nil : decode_all [] = [].
Proof. reflexivity. Qed.

Definition scalars (rs : list N) : Prop := Forall (fun r => is_scalar r = true) rs.

Lemma utf8_len_pos : forall r, (1 <= utf8_len r)%nat.
Proof.
  intro r. unfold utf8_len.
  destruct (r <? 128); [lia |]. destruct (r <? 2048); [lia |]. destruct (r <? 65536); lia.
Qed.

Lemma decode_all_cons : forall r rest, is_scalar r = true -> bytes_ok rest ->
  decode_all (fst (encode_rune r) ++ rest) = r :: decode_all rest.
Proof.
  intros r rest Hs Hrest.
  pose proof (C13_roundtrip_proof r rest Hs Hrest) as Hrt.
  destruct (C13_encode_scalar_proof r rest Hs) as [_ [Hlen _]].
  pose proof (utf8_len_pos r) as Hpos.
  set (enc := fst (encode_rune r)) in *.
  unfold decode_all.
  destruct (enc ++ rest) as [| b l] eqn:Hl.
  - apply (f_equal (@length N)) in Hl. rewrite app_length in Hl. cbn [length] in Hl. lia.
  - cbn [length]. rewrite decode_all_fuel_S. rewrite Hrt.
    rewrite Nat.max_l by lia.
    rewrite <- Hl. rewrite <- Hlen. rewrite skipn_app, skipn_all, Nat.sub_diag. cbn [skipn app].
    f_equal.
    apply decode_all_fuel_enough; [| lia].
    apply (f_equal (@length N)) in Hl. rewrite app_length in Hl. cbn [length] in Hl. lia.
Qed.

Lemma encode_all_nil : encode_all [] = [].
Proof. reflexivity. Qed.

Lemma encode_all_cons : forall r rs, encode_all (r :: rs) = fst (encode_rune r) ++ encode_all rs.
Proof. reflexivity. Qed.

Lemma encode_all_app : forall a b, encode_all (a ++ b) = encode_all a ++ encode_all b.
Proof. intros a b. unfold encode_all. rewrite map_app, concat_app. reflexivity. Qed.

Lemma bytes_ok_encode_all : forall rs, scalars rs -> bytes_ok (encode_all rs).
Proof.
  intros rs H. induction H as [| r rs Hr _ IH].
  - constructor.
  - rewrite encode_all_cons. apply Forall_app. split; [| exact IH].
    destruct (C13_encode_scalar_proof r [] Hr) as [_ [_ [Hok _]]]. exact Hok.
Qed.

Lemma decode_all_encode_all : forall rs rest, scalars rs -> bytes_ok rest ->
  decode_all (encode_all rs ++ rest) = rs ++ decode_all rest.
Proof.
  intros rs rest H Hrest. induction H as [| r rs Hr Hrs IH].
  - reflexivity.
  - rewrite encode_all_cons, <- app_assoc.
    rewrite decode_all_cons; [| exact Hr |].
    + rewrite IH. reflexivity.
    + apply Forall_app. split; [apply bytes_ok_encode_all; exact Hrs | exact Hrest].
Qed.

Lemma encode_all_inj : forall a b, scalars a -> scalars b -> encode_all a = encode_all b -> a = b.
Proof.
  intros a b Ha Hb H.
  pose proof (decode_all_encode_all a [] Ha (Forall_nil _)) as Da.
  pose proof (decode_all_encode_all b [] Hb (Forall_nil _)) as Db.
  rewrite H in Da. rewrite Da in Db. rewrite decode_all_nil, !app_nil_r in Db. exact Db.
Qed.

(* byte length of an encoded text *)
Fixpoint blen (rs : list N) : nat :=
  match rs with [] => O | r :: rs' => (utf8_len r + blen rs')%nat end.

Lemma length_encode_all : forall rs, scalars rs -> length (encode_all rs) = blen rs.
Proof.
  intros rs H. induction H as [| r rs Hr _ IH].
  - reflexivity.
  - rewrite encode_all_cons, app_length, IH. cbn [blen].
    destruct (C13_encode_scalar_proof r [] Hr) as [_ [Hlen _]]. rewrite Hlen. reflexivity.
Qed.

Lemma blen_pos : forall rs, rs <> [] -> (1 <= blen rs)%nat.
Proof.
  intros rs H. destruct rs as [| r rs]; [exfalso; apply H; reflexivity |].
  cbn [blen]. pose proof (utf8_len_pos r). lia.
Qed.

(* ---------------------------------------------------------------- utf8_tocasefold on encoded texts *)

Lemma map_opt_app : forall (f : N -> option N) l1 l2,
  map_opt f (l1 ++ l2) =
  match map_opt f l1, map_opt f l2 with Some a, Some b => Some (a ++ b) | _, _ => None end.
Proof.
  intros f l1 l2. induction l1 as [| x l1 IH].
  - cbn [app map_opt]. destruct (map_opt f l2); reflexivity.
  - cbn [app map_opt]. rewrite IH.
    destruct (f x); [| reflexivity].
    destruct (map_opt f l1); [| reflexivity].
    destruct (map_opt f l2); reflexivity.
Qed.

Lemma tocasefold_encoded : forall t rs fs rest, scalars rs -> bytes_ok rest ->
  map_opt (tocasefold t) rs = Some fs ->
  utf8_tocasefold t (encode_all rs ++ rest) =
  match utf8_tocasefold t rest with Some v => Some (encode_all fs ++ v) | None => None end.
Proof.
  intros t rs fs rest Hrs Hrest Hfs. unfold utf8_tocasefold.
  rewrite (decode_all_encode_all rs rest Hrs Hrest). rewrite map_opt_app, Hfs.
  destruct (map_opt (tocasefold t) (decode_all rest)) as [gs |]; [| reflexivity].
  f_equal. fold (encode_all (fs ++ gs)). rewrite encode_all_app. reflexivity.
Qed.

Lemma tocasefold_nil : forall t, utf8_tocasefold t [] = Some [].
Proof. reflexivity. Qed.

Lemma tocasefold_encoded_exact : forall t rs fs, scalars rs ->
  map_opt (tocasefold t) rs = Some fs -> utf8_tocasefold t (encode_all rs) = Some (encode_all fs).
Proof.
  intros t rs fs Hrs Hfs.
  pose proof (tocasefold_encoded t rs fs [] Hrs (Forall_nil _) Hfs) as H.
  rewrite tocasefold_nil, !app_nil_r in H. exact H.
Qed.

(* the foldings of a list of length-preserved scalars *)
Lemma folds_exist : forall t rs, Forall (fold_len_preserved t) rs ->
  scalars rs /\ exists fs, map_opt (tocasefold t) rs = Some fs /\ scalars fs /\ blen fs = blen rs.
Proof.
  intros t rs H. induction H as [| r rs [Hr [f [Hf [Hfs Hfl]]]] _ [IHs [fs [IH1 [IH2 IH3]]]]].
  - split; [constructor |]. exists []. split; [reflexivity |]. split; [constructor | reflexivity].
  - split; [constructor; assumption |].
    exists (f :: fs). split.
    + cbn [map_opt]. rewrite Hf, IH1. reflexivity.
    + split; [constructor; assumption |]. cbn [blen]. rewrite Hfl, IH3. reflexivity.
Qed.

(* equal fold lists <-> pointwise fold-equal *)
Lemma folds_eq_Forall2 : forall t rs rs' fs,
  map_opt (tocasefold t) rs = Some fs -> map_opt (tocasefold t) rs' = Some fs ->
  Forall2 (fold_eq t) rs rs'.
Proof.
  intros t rs. induction rs as [| r rs IH]; intros rs' fs H H'.
  - cbn [map_opt] in H. injection H as <-.
    destruct rs' as [| r' rs']; [constructor |].
    cbn [map_opt] in H'. destruct (tocasefold t r'); [| discriminate H'].
    destruct (map_opt (tocasefold t) rs'); discriminate H'.
  - cbn [map_opt] in H.
    destruct (tocasefold t r) as [f |] eqn:Hf; [| discriminate H].
    destruct (map_opt (tocasefold t) rs) as [gs |] eqn:Hgs; [| discriminate H].
    injection H as <-.
    destruct rs' as [| r' rs']; [cbn [map_opt] in H'; discriminate H' |].
    cbn [map_opt] in H'.
    destruct (tocasefold t r') as [f' |] eqn:Hf'; [| discriminate H'].
    destruct (map_opt (tocasefold t) rs') as [gs' |] eqn:Hgs'; [| discriminate H'].
    injection H' as -> ->.
    constructor.
    + exists f. split; [exact Hf | exact Hf'].
    + exact (IH rs' gs eq_refl Hgs').
Qed.

Lemma Forall2_folds_eq : forall t rs rs' fs fs', Forall2 (fold_eq t) rs rs' ->
  map_opt (tocasefold t) rs = Some fs -> map_opt (tocasefold t) rs' = Some fs' -> fs = fs'.
Proof.
  intros t rs rs' fs fs' H. revert fs fs'.
  induction H as [| r r' rs rs' [f [Hf Hf']] _ IH]; intros fs fs' H1 H2.
  - cbn [map_opt] in H1, H2. injection H1 as <-. injection H2 as <-. reflexivity.
  - cbn [map_opt] in H1, H2. rewrite Hf in H1. rewrite Hf' in H2.
    destruct (map_opt (tocasefold t) rs) as [gs |]; [| discriminate H1].
    destruct (map_opt (tocasefold t) rs') as [gs' |]; [| discriminate H2].
    injection H1 as <-. injection H2 as <-. f_equal. exact (IH gs gs' eq_refl eq_refl).
Qed.

(* ---------------------------------------------------------------- small list facts *)

Lemma list_eqb_eq : forall a b, list_eqb a b = true <-> a = b.
Proof.
  induction a as [| x a IH]; intros b; destruct b as [| y b]; cbn [list_eqb].
  - split; reflexivity.
  - split; intro H; discriminate H.
  - split; intro H; discriminate H.
  - rewrite andb_true_iff, N.eqb_eq, IH. split.
    + intros [-> ->]. reflexivity.
    + intro H. injection H as -> ->. split; reflexivity.
Qed.

Lemma firstnN_app_exact : forall (x rest : list N) n, n = lenN x -> firstnN n (x ++ rest) = x.
Proof.
  intros x rest n ->. unfold firstnN, lenN. rewrite Nat2N.id.
  rewrite firstn_app, Nat.sub_diag, firstn_all. cbn [firstn]. apply app_nil_r.
Qed.

Lemma firstnN_app_more : forall (x rest : list N) n, lenN x <= n ->
  firstnN n (x ++ rest) = x ++ firstn (N.to_nat n - length x) rest.
Proof.
  intros x rest n H. unfold firstnN, lenN in *. rewrite firstn_app.
  rewrite firstn_all2 by lia. reflexivity.
Qed.

Lemma bytes_ok_firstn : forall k s, bytes_ok s -> bytes_ok (firstn k s).
Proof.
  induction k as [| k IH]; intros s H; [constructor |].
  destruct s as [| b s]; [constructor |].
  inversion H as [| b0 s0 Hb Hs]. subst b0 s0. cbn [firstn]. constructor; [exact Hb | exact (IH s Hs)].
Qed.

Lemma bytes_ok_app_r : forall a b, bytes_ok (a ++ b) -> bytes_ok b.
Proof. intros a b H. unfold bytes_ok in H. apply Forall_app in H. exact (proj2 H). Qed.

(* ---------------------------------------------------------------- the cache *)

Lemma cache_get_filter : forall c k k', (k =? k') = false ->
  cache_get (filter (fun kv => negb (fst kv =? k)) c) k' = cache_get c k'.
Proof.
  intros c k k' Hne. induction c as [| [k0 v0] c IH].
  - reflexivity.
  - cbn [filter fst]. destruct (N.eqb_spec k0 k) as [-> | Hk0].
    + cbn [negb cache_get]. rewrite Hne. exact IH.
    + cbn [negb cache_get]. rewrite IH. reflexivity.
Qed.

Lemma cache_get_set : forall c k v k',
  cache_get (cache_set c k v) k' = if k =? k' then Some v else cache_get c k'.
Proof.
  intros c k v k'. unfold cache_set. cbn [cache_get].
  destruct (k =? k') eqn:He; [reflexivity |]. apply cache_get_filter. exact He.
Qed.

Lemma cache_sound_upd_cache : forall ucd s i n v,
  cache_sound ucd s -> i + n <= lenN (buf s) ->
  utf8_tocasefold ucd (firstnN n (subject_from i s)) = Some v ->
  cache_sound ucd (upd_cache (cache_set (foldcache s) i (n, v)) s).
Proof.
  intros ucd s i n v Hs Hb Hv k m w Hget.
  change (foldcache (upd_cache (cache_set (foldcache s) i (n, v)) s)) with (cache_set (foldcache s) i (n, v)) in Hget.
  change (buf (upd_cache (cache_set (foldcache s) i (n, v)) s)) with (buf s).
  change (subject_from k (upd_cache (cache_set (foldcache s) i (n, v)) s)) with (subject_from k s).
  rewrite cache_get_set in Hget.
  destruct (N.eqb_spec i k) as [<- | Hne].
  - injection Hget as <- <-. split; [exact Hb | exact Hv].
  - exact (Hs k m w Hget).
Qed.

Lemma C15_cache_sound_init_proof : stmt_C15_cache_sound_init.
Proof.
  intros ucd input chunks inter conds0 syms0 i n v H.
  cbn [init_state foldcache cache_get] in H. discriminate H.
Qed.

Lemma C15_cache_sound_preserved_proof : stmt_C15_cache_sound_preserved.
Proof.
  intros ucd i n str s r s' Hs Hb H. unfold casefold_compare_at in H.
  destruct (fst match cache_get (foldcache s) i with Some v => v | None => (0, []) end <? n).
  - destruct (utf8_tocasefold ucd (firstnN n (subject_from i s))) as [f |] eqn:Hf; [| discriminate H].
    injection H as _ <-.
    split; [exact (cache_sound_upd_cache ucd s i n f Hs Hb Hf) |]. split; reflexivity.
  - injection H as _ <-.
    destruct (cache_get (foldcache s) i) as [v |] eqn:Hget.
    + split; [exact Hs |]. split; reflexivity.
    + split; [| split; reflexivity].
      apply cache_sound_upd_cache; [exact Hs | lia | reflexivity].
Qed.

Lemma skipn_app_short : forall (k : nat) (a b : list N), (k <= length a)%nat -> skipn k (a ++ b) = skipn k a ++ b.
Proof.
  intros k a b H. rewrite skipn_app. replace (k - length a)%nat with O by lia. reflexivity.
Qed.

Lemma firstn_app_short : forall (k : nat) (a b : list N), (k <= length a)%nat -> firstn k (a ++ b) = firstn k a.
Proof.
  intros k a b H. rewrite firstn_app. replace (k - length a)%nat with O by lia.
  cbn [firstn]. apply app_nil_r.
Qed.

Lemma cache_sound_append : forall ucd s s' c,
  cache_sound ucd s -> foldcache s' = foldcache s -> buf s' = buf s ++ c -> cache_sound ucd s'.
Proof.
  intros ucd s s' c Hs Hc Hbuf i n v Hget. rewrite Hc in Hget.
  destruct (Hs i n v Hget) as [Hb Hv].
  unfold subject_from, skipnN, firstnN, lenN in *. rewrite Hbuf.
  split; [rewrite app_length; lia |].
  rewrite skipn_app_short by lia.
  rewrite firstn_app_short; [exact Hv |].
  rewrite skipn_length. lia.
Qed.

Lemma C15_cache_sound_poll_proof : stmt_C15_cache_sound_poll.
Proof.
  intros ucd s Hs. unfold poll.
  destruct (pending s) as [| c r].
  - apply (cache_sound_append ucd s _ []); [exact Hs | reflexivity |].
    cbn [add_log upd_src buf]. symmetry. apply app_nil_r.
  - apply (cache_sound_append ucd s _ c); [exact Hs | reflexivity | reflexivity].
Qed.

(* ---------------------------------------------------------------- available with enough bytes buffered *)

Lemma available_enough : forall i n d s, 1 <= n -> i + N.max n d <= lenN (buf s) -> available i n d s = (true, s).
Proof.
  intros i n d s Hn Hb. unfold available. cbn [available_loop].
  assert (H1 : (i <? lenN (buf s)) = true) by lia.
  assert (H2 : (N.max n d <=? lenN (buf s) - i) = true) by lia.
  rewrite H1, H2. reflexivity.
Qed.

(* ---------------------------------------------------------------- casefold_compare on an encoded input text *)

Lemma cfc_exact : forall ucd i n str s rs' fs' rest,
  cache_sound ucd s -> i + n <= lenN (buf s) ->
  subject_from i s = encode_all rs' ++ rest -> bytes_ok rest ->
  scalars rs' -> map_opt (tocasefold ucd) rs' = Some fs' ->
  length (encode_all fs') = length (encode_all rs') ->
  n = lenN (encode_all rs') ->
  exists s', casefold_compare_at ucd i n str s = Some (list_eqb (encode_all fs') str, s') /\
             cache_sound ucd s' /\ buf s' = buf s /\ sr s' = sr s.
Proof.
  intros ucd i n str s rs' fs' rest Hs Hb Hsub Hrest Hrs' Hfs' Hlen Hn.
  assert (Hfold : utf8_tocasefold ucd (firstnN n (subject_from i s)) = Some (encode_all fs')).
  { rewrite Hsub, (firstnN_app_exact _ rest n Hn). exact (tocasefold_encoded_exact ucd rs' fs' Hrs' Hfs'). }
  assert (Hn' : n = lenN (encode_all fs')) by (unfold lenN in *; lia).
  destruct (casefold_compare_at ucd i n str s) as [[r s'] |] eqn:Hc.
  - destruct (C15_cache_sound_preserved_proof ucd i n str s r s' Hs Hb Hc) as [Hs' [Hbuf Hsr]].
    exists s'. split; [| split; [exact Hs' | split; [exact Hbuf | exact Hsr]]].
    f_equal. f_equal.
    unfold casefold_compare_at in Hc.
    destruct (cache_get (foldcache s) i) as [[n0 v0] |] eqn:Hget; cbn [fst snd] in Hc.
    + destruct (N.ltb_spec n0 n) as [Hlt | Hge].
      * rewrite Hfold in Hc. injection Hc as <- _.
        rewrite <- (app_nil_r (encode_all fs')) at 1. rewrite (firstnN_app_exact _ [] n Hn'). reflexivity.
      * injection Hc as <- _.
        destruct (Hs i n0 v0 Hget) as [_ Hv0].
        rewrite Hsub in Hv0. rewrite firstnN_app_more in Hv0 by lia.
        rewrite (tocasefold_encoded ucd rs' fs' _ Hrs' (bytes_ok_firstn _ _ Hrest) Hfs') in Hv0.
        destruct (utf8_tocasefold ucd (firstn (N.to_nat n0 - length (encode_all rs')) rest)) as [v |]; [| discriminate Hv0].
        injection Hv0 as <-. rewrite (firstnN_app_exact _ v n Hn'). reflexivity.
    + destruct (N.ltb_spec 0 n) as [Hlt | Hge].
      * rewrite Hfold in Hc. injection Hc as <- _.
        rewrite <- (app_nil_r (encode_all fs')) at 1. rewrite (firstnN_app_exact _ [] n Hn'). reflexivity.
      * injection Hc as <- _.
        assert (E : encode_all fs' = []).
        { destruct (encode_all fs') as [| b l]; [reflexivity |]. unfold lenN in Hn'. cbn [length] in Hn'. lia. }
        rewrite E. unfold firstnN. rewrite firstn_nil. reflexivity.
  - exfalso. unfold casefold_compare_at in Hc.
    destruct (fst match cache_get (foldcache s) i with Some v => v | None => (0, []) end <? n).
    + rewrite Hfold in Hc. discriminate Hc.
    + discriminate Hc.
Qed.

(* ---------------------------------------------------------------- the step *)

Lemma cache_sound_upd_sr : forall ucd j s, cache_sound ucd s -> cache_sound ucd (upd_sr j s).
Proof. intros ucd j s H. exact H. Qed.

Lemma subject_bound : forall i s (x rest : list N), subject_from i s = x ++ rest -> x <> [] ->
  i + lenN x <= lenN (buf s).
Proof.
  intros i s x rest H Hx. unfold subject_from, skipnN, lenN in *.
  pose proof (skipn_length (N.to_nat i) (buf s)) as Hl. rewrite H, app_length in Hl.
  destruct x as [| b x]; [exfalso; apply Hx; reflexivity |]. cbn [length] in *. lia.
Qed.

(* the outcome of the step as a function of the comparison of the two folded texts *)
Lemma literal_step : forall ucd rs rs' str s,
  Forall (fold_len_preserved ucd) rs -> Forall (fold_len_preserved ucd) rs' ->
  literal_setting ucd rs rs' str s ->
  lenN (encode_all rs') = lenN (encode_all rs) ->
  exists fs fs', map_opt (tocasefold ucd) rs = Some fs /\ map_opt (tocasefold ucd) rs' = Some fs' /\
    scalars fs /\ scalars fs' /\ str = encode_all fs /\
    exists s2, cache_sound ucd s2 /\ buf s2 = buf s /\ sr s2 = sr s /\
      m_seq ucd true str s =
      if list_eqb (encode_all fs') str then inr (false, upd_sr (sr s + lenN (encode_all rs')) s2) else inr (true, s2).
Proof.
  intros ucd rs rs' str s Hrs Hrs' [Hne [Hstr [[rest Hsub] [Hbuf Hcache]]]] Hbytes.
  destruct (folds_exist ucd rs Hrs) as [Hsc [fs [Hfs [Hfsc Hfl]]]].
  destruct (folds_exist ucd rs' Hrs') as [Hsc' [fs' [Hfs' [Hfsc' Hfl']]]].
  exists fs, fs'. split; [exact Hfs |]. split; [exact Hfs' |]. split; [exact Hfsc |]. split; [exact Hfsc' |].
  rewrite (tocasefold_encoded_exact ucd rs fs Hsc Hfs) in Hstr. injection Hstr as <-.
  split; [reflexivity |].
  pose proof (length_encode_all rs Hsc) as L1. pose proof (length_encode_all rs' Hsc') as L2.
  pose proof (length_encode_all fs Hfsc) as L3. pose proof (length_encode_all fs' Hfsc') as L4.
  pose proof (blen_pos rs Hne) as Hpos.
  assert (Hn : lenN (encode_all fs) = lenN (encode_all rs')) by (unfold lenN in *; lia).
  assert (Hne' : encode_all rs' <> []).
  { intro E. rewrite E in Hbytes. unfold lenN in Hbytes. cbn [length] in Hbytes. lia. }
  pose proof (subject_bound (sr s) s _ rest Hsub Hne') as Hb.
  assert (Hrest : bytes_ok rest).
  { apply (bytes_ok_app_r (encode_all rs')). rewrite <- Hsub. unfold subject_from, skipnN.
    apply bytes_ok_skipn. exact Hbuf. }
  destruct (cfc_exact ucd (sr s) (lenN (encode_all fs)) (encode_all fs) s rs' fs' rest Hcache)
    as [s2 [Hc [Hs2 [Hbuf2 Hsr2]]]];
    [rewrite Hn; exact Hb | exact Hsub | exact Hrest | exact Hsc' | exact Hfs' | lia | exact Hn |].
  exists s2. split; [exact Hs2 |]. split; [exact Hbuf2 |]. split; [exact Hsr2 |].
  unfold m_seq, m_seq_at.
  assert (Hnz : (lenN (encode_all fs) =? 0) = false) by (unfold lenN in *; lia).
  rewrite Hnz.
  rewrite (available_enough (sr s) (lenN (encode_all fs)) 0 s) by (unfold lenN in *; lia).
  rewrite Hc. rewrite Hn.
  destruct (list_eqb (encode_all fs') (encode_all fs)); reflexivity.
Qed.

Lemma C15_literal_partial_proof : stmt_C15_literal_partial.
Proof.
  intros ucd rs rs' str s Hrs Hrs' Hset Hbytes.
  destruct (literal_step ucd rs rs' str s Hrs Hrs' Hset Hbytes)
    as [fs [fs' [Hfs [Hfs' [Hfsc [Hfsc' [Hstr [s2 [Hs2 [Hbuf2 [Hsr2 Hm]]]]]]]]]]].
  destruct (list_eqb (encode_all fs') str) eqn:Heq.
  - (* accepted *)
    assert (Hacc : lit_accepts ucd str s (lenN (encode_all rs'))).
    { exists (upd_sr (sr s + lenN (encode_all rs')) s2). split; [exact Hm |].
      split; [reflexivity |]. split; [exact Hbuf2 | exact (cache_sound_upd_sr ucd _ s2 Hs2)]. }
    split; [left; exact Hacc |].
    split; [intros _ | intros _; exact Hacc].
    apply list_eqb_eq in Heq. rewrite Hstr in Heq.
    apply (encode_all_inj fs' fs Hfsc' Hfsc) in Heq. subst fs'.
    exact (folds_eq_Forall2 ucd rs rs' fs Hfs Hfs').
  - (* rejected *)
    split.
    + right. exists s2. split; [exact Hm |]. split; [exact Hsr2 |]. split; [exact Hbuf2 | exact Hs2].
    + split.
      * intros [s' [Hm' _]]. rewrite Hm in Hm'. discriminate Hm'.
      * intro HF2. exfalso.
        pose proof (Forall2_folds_eq ucd rs rs' fs fs' HF2 Hfs Hfs') as E. subst fs'.
        rewrite Hstr in Heq.
        assert (Ht : list_eqb (encode_all fs) (encode_all fs) = true) by (apply list_eqb_eq; reflexivity).
        rewrite Ht in Heq. discriminate Heq.
Qed.

Lemma C15_literal_accepts_proof : stmt_C15_literal_accepts.
Proof.
  intros ucd rs rs' str s Hrs Hrs' Hset HF2.
  apply (C15_literal_partial_proof ucd rs rs' str s Hrs Hrs' Hset); [| exact HF2].
  destruct (folds_exist ucd rs Hrs) as [Hsc [fs [Hfs [_ Hfl]]]].
  destruct (folds_exist ucd rs' Hrs') as [Hsc' [fs' [Hfs' [_ Hfl']]]].
  pose proof (Forall2_folds_eq ucd rs rs' fs fs' HF2 Hfs Hfs') as E. subst fs'.
  unfold lenN. rewrite (length_encode_all rs Hsc), (length_encode_all rs' Hsc'). lia.
Qed.
