(* Laws of the semantics with environment (Spec/PegEnv.v): scope blocks restore the table, expressions
   without unscoped definitions leave it alone, a failing expression may leave a definition behind, and
   the fuelled evaluator is sound.  Statements: Proofs/BlockEnvDefs.v. *)
From Coq Require Import NArith ZArith List Bool Lia Arith FMapPositive.
From Lug Require Import Gen.UcdTables Utf8.Utf8Model Ucd.Lookup Ucd.RuneSet VM.Instr Lang.Elab Lang.Codegen VM.Machine
  Spec.Peg Spec.PegEnv Spec.PegEnvEval Proofs.BlockDefs Proofs.BlockEnvDefs.
Import ListNotations.
Local Open Scope N_scope.

Scheme pegE_mind := Minimality for pegE Sort Prop
  with pegE_rep_mind := Minimality for pegE_rep Sort Prop.
Combined Scheme pegE_mutind from pegE_mind, pegE_rep_mind.

(* ------------------------------------------------------------------ scopes restore *)
Lemma scope_restores : stmt_scope_restores.
Proof.
  intros ucd inp G c kind nm a i s o H. inversion H; subst; reflexivity.
Qed.

(* ------------------------------------------------------------------ no unscoped definition: table unchanged *)
Section Unchanged.
Variable ucd : ucd_table.
Variable inp : list N.
Variable G : nat -> option pexp.
Hypothesis HG : forall r body, G r = Some body -> defs_scoped body = true.

Lemma defs_scoped_wrap pre a post :
  defs_scoped (PWrap pre a post) = true ->
  (forall nm, pre = ISymbolStart nm -> post = ISymbolEnd -> False) /\
  ((exists kind nm, pre = ISymbolPush kind nm /\ post = ISymbolPop) \/ defs_scoped a = true).
Proof.
  intros H. split.
  - intros nm -> ->. discriminate H.
  - destruct pre; try (right; exact H).
    + destruct post; try (right; exact H). discriminate H.
    + destruct post; try (right; exact H). left. eauto.
Qed.

Lemma table_unchanged_both :
  (forall c p i s o, pegE ucd inp G c p i s o -> defs_scoped p = true -> table_of o = s) /\
  (forall c n k p i s o, pegE_rep ucd inp G c n k p i s o -> defs_scoped p = true -> table_of o = s).
Proof.
  apply pegE_mutind; intros; cbn [table_of] in *; try reflexivity;
    try (match goal with H : defs_scoped (PSeq _ _) = true |- _ => cbn [defs_scoped] in H; apply andb_prop in H as [? ?] end);
    try (match goal with H : defs_scoped (PAlt _ _) = true |- _ => cbn [defs_scoped] in H; apply andb_prop in H as [? ?] end);
    try (match goal with H : defs_scoped (PStar _) = true |- _ => pose proof H; cbn [defs_scoped] in H end);
    try (match goal with H : defs_scoped (PNot _) = true |- _ => cbn [defs_scoped] in H end);
    try (match goal with H : defs_scoped (PAnd _) = true |- _ => cbn [defs_scoped] in H end);
    try (match goal with H : defs_scoped (PRep _ _ _) = true |- _ => cbn [defs_scoped] in H end);
    try (match goal with H : defs_scoped (PInline _ _) = true |- _ => cbn [defs_scoped] in H end);
    try (match goal with H : defs_scoped (PSkip _) = true |- _ => cbn [defs_scoped] in H end);
    try (match goal with H : defs_scoped (PWrap ICaptureStart _ (ICaptureEnd _)) = true |- _ => cbn [defs_scoped] in H end);
    try (match goal with H : defs_scoped (PWrap (IConditionPush _ _) _ IConditionPop) = true |- _ => cbn [defs_scoped] in H end);
    try (match goal with H : defs_scoped (PWrap (ISymbolStart _) _ ISymbolEnd) = true |- _ => discriminate H end);
    repeat match goal with
           | IH : defs_scoped ?p = true -> _, H : defs_scoped ?p = true |- _ => specialize (IH H)
           end;
    try congruence.
  - (* call *) match goal with Hg : G _ = Some _ |- _ => apply HG in Hg end. auto.
  - (* rep must ok *) destruct o; cbn [table_of] in *; congruence.
Qed.
End Unchanged.

Lemma table_unchanged_partial : stmt_table_unchanged_partial.
Proof.
  intros ucd inp G c p i s o HG Hp H.
  exact (proj1 (table_unchanged_both ucd inp G HG) c p i s o H Hp).
Qed.

(* ------------------------------------------------------------------ a failure that leaves a definition behind *)
Definition triv_ucd : ucd_table :=
  {| t_stage1 := PositiveMap.empty N; t_stage2 := PositiveMap.empty N; t_records := PositiveMap.empty raw_record; t_nrecords := 0 |}.

Definition wit : pexp :=
  PSeq (PWrap (ISymbolStart [120]) (PInstr (IMatchOctet 97)) ISymbolEnd) (PInstr (IMatchOctet 88)).

Lemma failure_leaves_table_refuted : stmt_failure_leaves_table_refuted.
Proof.
  intros H.
  assert (D : pegE triv_ucd [97; 98] (fun _ => None) [] wit 0 []
                (FailE (N.max 0 1) (add_symbol [] [120] (firstnN (1 - 0) (skipnN 0 [97; 98]))))).
  { unfold wit. eapply pe_seq_ko2.
    - apply pe_symdef_ok. apply (pe_term_ok triv_ucd [97; 98] (fun _ => None) [] (IMatchOctet 97) 0 1 []); reflexivity.
    - apply pe_term_ko; reflexivity. }
  assert (F : fragE wit = true) by reflexivity.
  specialize (H _ _ _ _ _ _ _ _ _ F D). discriminate H.
Qed.

(* ------------------------------------------------------------------ the evaluator is sound *)
Ltac brk :=
  repeat match goal with
  | H : Some _ = Some _ |- _ => inversion H; subst; clear H
  | H : None = Some _ |- _ => discriminate H
  | H : match ?x with _ => _ end = Some _ |- _ => destruct x eqn:?
  | H : (if ?x then _ else _) = Some _ |- _ => destruct x eqn:?
  end.

Section Eval.
Variable ucd : ucd_table.
Variable inp : list N.
Variable G : nat -> option pexp.

Notation pegE_eval := (pegE_eval ucd inp G).
Notation pegE := (pegE ucd inp G).
Notation pegE_rep := (pegE_rep ucd inp G).

Lemma repE_eval_00 ev i s : repE_eval ev 0 0 i s = Some (SuccE i [] 0 s).
Proof. reflexivity. Qed.

Lemma repE_eval_0S ev k i s :
  repE_eval ev 0 (S k) i s =
  match ev i s with
  | Some (SuccE j t1 f1 s1) =>
      match repE_eval ev 0 k j s1 with
      | Some (SuccE j' t2 f2 s2) => Some (SuccE j' (t1 ++ t2) (N.max f1 f2) s2)
      | other => other
      end
  | Some (FailE f s1) => Some (SuccE i [] f s1)
  | None => None
  end.
Proof. reflexivity. Qed.

Lemma repE_eval_S ev n k i s :
  repE_eval ev (S n) k i s =
  match ev i s with
  | Some (SuccE j t1 f1 s1) =>
      match repE_eval ev n k j s1 with
      | Some (SuccE j' t2 f2 s2) => Some (SuccE j' (t1 ++ t2) (N.max f1 f2) s2)
      | Some (FailE f2 s2) => Some (FailE (N.max f1 f2) s2)
      | None => None
      end
  | Some (FailE f s1) => Some (FailE f s1)
  | None => None
  end.
Proof. reflexivity. Qed.

Lemma repE_eval_sound (ev : N -> symtab -> option oute) (c : list name) (a : pexp) :
  (forall i s o, ev i s = Some o -> pegE c a i s o) ->
  forall n k i s o, repE_eval ev n k i s = Some o -> pegE_rep c n k a i s o.
Proof.
  intros Hev. induction n as [|n IHn].
  - induction k as [|k IHk]; intros i s o H.
    + rewrite repE_eval_00 in H. inversion H; subst. constructor.
    + rewrite repE_eval_0S in H.
      destruct (ev i s) as [[j t1 f1 s1|f s1]|] eqn:E1; [| |discriminate].
      * apply Hev in E1.
        destruct (repE_eval ev 0 k j s1) as [[j' t2 f2 s2|f2 s2]|] eqn:E2; [| |discriminate].
        -- apply IHk in E2. inversion H; subst. eapply pr_opt_ok; eassumption.
        -- apply IHk in E2. inversion E2.
      * apply Hev in E1. inversion H; subst. apply pr_opt_stop; assumption.
  - intros k i s o H. rewrite repE_eval_S in H.
    destruct (ev i s) as [[j t1 f1 s1|f s1]|] eqn:E1; [| |discriminate].
    + apply Hev in E1.
      destruct (repE_eval ev n k j s1) as [[j' t2 f2 s2|f2 s2]|] eqn:E2; [| |discriminate].
      * apply IHn in E2. inversion H; subst.
        exact (pr_must_ok ucd inp G c n k a i s j t1 f1 s1 (SuccE j' t2 f2 s2) E1 E2).
      * apply IHn in E2. inversion H; subst.
        exact (pr_must_ok ucd inp G c n k a i s j t1 f1 s1 (FailE f2 s2) E1 E2).
    + apply Hev in E1. inversion H; subst. apply pr_must_ko; assumption.
Qed.

Lemma pegE_eval_sound : forall fuel c p i s o, pegE_eval fuel c p i s = Some o -> pegE c p i s o.
Proof.
  induction fuel as [|fu IH]; intros c p i s o H; [discriminate H|].
  destruct p; cbn [PegEnvEval.pegE_eval] in H.
  - (* PEmpty *) brk. constructor.
  - (* PInstr *)
    destruct (is_terminal i0) eqn:Et.
    + destruct (tmatch ucd inp i0 i) as [j|] eqn:Em; inversion H; subst.
      * apply pe_term_ok; assumption.
      * apply pe_term_ko; assumption.
    + destruct i0; try discriminate H.
      * inversion H; subst. constructor.
      * destruct (Bool.eqb (has_cond c nm) v) eqn:E; inversion H; subst.
        -- apply pe_when_ok. apply eqb_prop. exact E.
        -- apply pe_when_ko. intros E'. rewrite E', eqb_reflx in E. discriminate E.
      * destruct (Bool.eqb (has_symbol s nm) v) eqn:E; inversion H; subst.
        -- apply pe_exists_ok. apply eqb_prop. exact E.
        -- apply pe_exists_ko. intros E'. rewrite E', eqb_reflx in E. discriminate E.
      * destruct cf; [discriminate H|].
        destruct (sym_match inp k (get_symbols s nm) idx i) as [j|] eqn:E; inversion H; subst.
        -- apply pe_symmatch_ok. exact E.
        -- apply pe_symmatch_ko. exact E.
  - (* PSeq *)
    brk; repeat match goal with E : pegE_eval fu _ _ _ _ = Some _ |- _ => apply IH in E end.
    + eapply pe_seq_ok; eassumption.
    + eapply pe_seq_ko2; eassumption.
    + eapply pe_seq_ko1; eassumption.
  - (* PAlt *)
    brk; repeat match goal with E : pegE_eval fu _ _ _ _ = Some _ |- _ => apply IH in E end.
    + eapply pe_alt_l; eassumption.
    + eapply pe_alt_r_ok; eassumption.
    + eapply pe_alt_r_ko; eassumption.
  - (* PStar *)
    brk; repeat match goal with E : pegE_eval fu _ _ _ _ = Some _ |- _ => apply IH in E end.
    + eapply pe_star_more; eassumption.
    + eapply pe_star_done; eassumption.
  - (* PNot *)
    brk; repeat match goal with E : pegE_eval fu _ _ _ _ = Some _ |- _ => apply IH in E end.
    + eapply pe_not_ko; eassumption.
    + eapply pe_not_ok; eassumption.
  - (* PAnd *)
    brk; repeat match goal with E : pegE_eval fu _ _ _ _ = Some _ |- _ => apply IH in E end.
    + eapply pe_and_ok; eassumption.
    + eapply pe_and_ko; eassumption.
  - (* PEoi *)
    destruct (tmatch ucd inp (IMatchAny 1) i) as [j|] eqn:Em; inversion H; subst.
    + apply pe_eoi_ko; assumption.
    + apply pe_eoi_ok; assumption.
  - (* PRep *)
    apply pe_repeat. eapply repE_eval_sound; [|exact H]. intros; apply IH; assumption.
  - (* PCall *)
    destruct (G r) as [body|] eqn:Eg; [|discriminate H].
    eapply pe_call; [exact Eg|]. apply IH; assumption.
  - (* PInline *) apply pe_inline. apply IH; assumption.
  - (* PSkip *) apply pe_skip. apply IH; assumption.
  - (* PWrap *)
    destruct pre; try discriminate H; destruct post; try discriminate H.
    + (* capture *)
      brk; repeat match goal with E : pegE_eval fu _ _ _ _ = Some _ |- _ => apply IH in E end.
      * eapply pe_capture_ok; eassumption.
      * eapply pe_capture_ko; eassumption.
    + (* condition block *) apply pe_cond. apply IH; assumption.
    + (* symbol definition *)
      brk; repeat match goal with E : pegE_eval fu _ _ _ _ = Some _ |- _ => apply IH in E end.
      * eapply pe_symdef_ok; eassumption.
      * eapply pe_symdef_ko; eassumption.
    + (* scope *)
      brk; repeat match goal with E : pegE_eval fu _ _ _ _ = Some _ |- _ => apply IH in E end.
      * eapply pe_scope_ok; eassumption.
      * eapply pe_scope_ko; eassumption.
  - discriminate H.
  - discriminate H.
  - discriminate H.
  - discriminate H.
  - discriminate H.
Qed.
End Eval.

Lemma pegE_eval_sound_all : stmt_pegE_eval_sound.
Proof. unfold stmt_pegE_eval_sound. intros. eapply pegE_eval_sound; eassumption. Qed.
