(* Closed code: every control transfer of the code of an expression stays inside its block, elaboration
   only produces trees to which that applies, and every control transfer of a linked program stays
   inside the program (statements in Proofs/StaticStmt.v). *)
From Coq Require Import NArith ZArith List Bool Lia ZifyBool ZifyN ZifyNat.
From Lug Require Import Gen.Consts Gen.UcdTables Ucd.Lookup Ucd.RuneSet VM.Instr Lang.Expr Lang.Elab Lang.Bre Lang.Codegen Lang.Link Lang.Lower.
From Lug Require Import Proofs.StaticStmt Proofs.LinkStmt Proofs.LinkProofs.
Import ListNotations.
Local Open Scope Z_scope.

(* ---- lengths ---- *)

Lemma len_nil {A} : len (@nil A) = 0.
Proof. reflexivity. Qed.
Lemma len_cons {A} (x : A) l : len (x :: l) = 1 + len l.
Proof. unfold len. cbn [length]. lia. Qed.
Lemma len_app {A} (l1 l2 : list A) : len (l1 ++ l2) = len l1 + len l2.
Proof. unfold len. rewrite app_length. lia. Qed.
Lemma len_nonneg {A} (l : list A) : 0 <= len l.
Proof. unfold len. lia. Qed.

Lemma Some_inj {A} (a b : A) : Some a = Some b -> a = b.
Proof. congruence. Qed.

Global Hint Rewrite @len_app @len_cons : lens.
Ltac lens := autorewrite with lens in *; change (len (@nil tinstr)) with 0 in *.

(* ---- closedness of a fragment sitting at [base] inside a block of length [total] ---- *)

Definition closed_at (base total : Z) (code : list tinstr) : Prop :=
  forall k t x, nth_error code k = Some t -> ttarget (base + Z.of_nat k) t = Some x -> 0 <= x <= total.

Lemma closed_code_at c : closed_code c <-> closed_at 0 (len c) c.
Proof.
  unfold closed_code, closed_at. split; intros H k t x Hk Ht.
  - apply (H k t x Hk). replace (Z.of_nat k) with (0 + Z.of_nat k) by lia. exact Ht.
  - apply (H k t x Hk). replace (0 + Z.of_nat k) with (Z.of_nat k) by lia. exact Ht.
Qed.

Lemma closed_at_nil b T : closed_at b T [].
Proof. intros k t x Hk. destruct k; discriminate. Qed.

Lemma closed_at_cons b T t c :
  (forall x, ttarget b t = Some x -> 0 <= x <= T) -> closed_at (b + 1) T c -> closed_at b T (t :: c).
Proof.
  intros Ht Hc k t' x Hk Hx. destruct k as [|k].
  - cbn in Hk. injection Hk as <-. apply Ht. replace (b + Z.of_nat 0) with b in Hx by lia. exact Hx.
  - cbn [nth_error] in Hk. apply (Hc k t' x Hk).
    replace (b + 1 + Z.of_nat k) with (b + Z.of_nat (S k)) by lia. exact Hx.
Qed.

Lemma closed_at_app b T c1 c2 :
  closed_at b T c1 -> closed_at (b + len c1) T c2 -> closed_at b T (c1 ++ c2).
Proof.
  intros H1 H2 k t x Hk Hx.
  destruct (lt_dec k (length c1)) as [Hlt|Hge].
  - rewrite nth_error_app1 in Hk by exact Hlt. exact (H1 k t x Hk Hx).
  - rewrite nth_error_app2 in Hk by lia. apply (H2 _ t x Hk).
    replace (b + len c1 + Z.of_nat (k - length c1)) with (b + Z.of_nat k) by (unfold len; lia). exact Hx.
Qed.

Lemma closed_at_mono b T T' c : T <= T' -> closed_at b T c -> closed_at b T' c.
Proof. intros HT H k t x Hk Hx. specialize (H k t x Hk Hx). lia. Qed.

Lemma target_shift a d i x : target (a + d) i = Some x -> target a i = Some (x - d).
Proof. destruct i; cbn [target]; intros H; try discriminate; injection H as <-; f_equal; lia. Qed.

Lemma ttarget_shift a d t x : ttarget (a + d) t = Some x -> ttarget a t = Some (x - d).
Proof. destruct t; cbn [ttarget]; [apply target_shift|discriminate|discriminate]. Qed.

Lemma closed_at_shift b T c : closed_code c -> 0 <= b -> b + len c <= T -> closed_at b T c.
Proof.
  intros Hc Hb HT k t x Hk Hx.
  replace (b + Z.of_nat k) with (Z.of_nat k + b) in Hx by lia.
  apply ttarget_shift in Hx. specialize (Hc k t _ Hk Hx). lia.
Qed.

Lemma closed_code_app c1 c2 : closed_code c1 -> closed_code c2 -> closed_code (c1 ++ c2).
Proof.
  intros H1 H2. apply closed_code_at. rewrite len_app.
  pose proof (len_nonneg c1). pose proof (len_nonneg c2).
  apply closed_at_app; apply closed_at_shift; try assumption; lia.
Qed.

(* ---- leaf instructions without a branch offset ---- *)

Lemma no_target_any i b : no_target i = true -> target b i = None.
Proof. destruct i; cbn; intros H; try reflexivity; discriminate. Qed.

Lemma leaf_ok i b T : no_target i = true -> forall x, ttarget b (TI i) = Some x -> 0 <= x <= T.
Proof. intros H x Hx. cbn [ttarget] in Hx. rewrite (no_target_any _ _ H) in Hx. discriminate. Qed.

Ltac explicit_instr :=
  let x := fresh "x" in let Hx := fresh "Hx" in
  intros x Hx; cbn [ttarget target] in Hx; first [discriminate Hx | apply Some_inj in Hx; lia].

(* ---- repetition tails ---- *)

Lemma rep_calls_len : forall k f, len (rep_calls k f) = Z.of_nat k.
Proof. induction k as [|k IH]; intros f; cbn [rep_calls]; lens; [reflexivity|]. rewrite IH. lia. Qed.

Lemma rep_calls_closed : forall k f T, 1 <= T -> closed_at f T (rep_calls k f).
Proof.
  induction k as [|k IH]; intros f T HT; cbn [rep_calls]; [apply closed_at_nil|].
  apply closed_at_cons; [|apply IH; exact HT].
  intros x Hx. cbn [ttarget target] in Hx. apply Some_inj in Hx. lia.
Qed.

Lemma rep_opts_len : forall k a e, len (rep_opts k a e) = 3 * Z.of_nat k.
Proof. induction k as [|k IH]; intros a e; cbn [rep_opts]; lens; [reflexivity|]. rewrite IH. lia. Qed.

Lemma rep_opts_closed : forall k a e T,
  1 <= T -> 0 <= e <= T -> 0 <= a -> a + 3 * Z.of_nat k <= T -> closed_at a T (rep_opts k a e).
Proof.
  induction k as [|k IH]; intros a e T HT He Ha Hk; cbn [rep_opts]; [apply closed_at_nil|].
  apply closed_at_cons; [explicit_instr|].
  apply closed_at_cons; [explicit_instr|].
  apply closed_at_cons; [explicit_instr|].
  replace (a + 1 + 1 + 1) with (a + 3) by lia. apply IH; lia.
Qed.

(* ---- code generation yields closed code ---- *)

Ltac sub_block IH := apply closed_at_shift; [exact IH | lia | lia].

Theorem cg_closed_simple : forall p, simple p -> closed_code (cg p).
Proof.
  induction p as [ |i|a IHa b IHb|a IHa b IHb|a IHa|a IHa|a IHa| |n m a IHa|r prec mode|r body IHb|sp IHs
                 |pre a IHa post|r mode a IHa|rec IHr a IHa|l r mode|l rec IHr|a IHa];
    intros Hs; cbn [simple] in Hs; cbn [cg].
  - intros k t x Hk. destruct k; discriminate.
  - apply closed_code_at. apply closed_at_cons; [apply leaf_ok; exact Hs|apply closed_at_nil].
  - destruct Hs as [Ha Hb]. apply closed_code_app; auto.
  - destruct Hs as [Ha Hb]. specialize (IHa Ha). specialize (IHb Hb).
    pose proof (len_nonneg (cg a)). pose proof (len_nonneg (cg b)).
    apply closed_code_at. lens.
    apply closed_at_cons; [explicit_instr|].
    apply closed_at_app; [sub_block IHa|].
    apply closed_at_cons; [explicit_instr|]. sub_block IHb.
  - specialize (IHa Hs). pose proof (len_nonneg (cg a)).
    apply closed_code_at. lens.
    apply closed_at_cons; [explicit_instr|].
    apply closed_at_app; [sub_block IHa|].
    apply closed_at_cons; [explicit_instr|apply closed_at_nil].
  - specialize (IHa Hs). pose proof (len_nonneg (cg a)).
    apply closed_code_at. lens.
    apply closed_at_cons; [explicit_instr|].
    apply closed_at_app; [sub_block IHa|].
    apply closed_at_cons; [explicit_instr|apply closed_at_nil].
  - specialize (IHa Hs). pose proof (len_nonneg (cg a)).
    apply closed_code_at. lens.
    apply closed_at_cons; [explicit_instr|].
    apply closed_at_app; [sub_block IHa|].
    apply closed_at_cons; [explicit_instr|].
    apply closed_at_cons; [explicit_instr|apply closed_at_nil].
  - apply closed_code_at. lens.
    apply closed_at_cons; [explicit_instr|].
    apply closed_at_cons; [explicit_instr|].
    apply closed_at_cons; [explicit_instr|apply closed_at_nil].
  - specialize (IHa Hs). pose proof (len_nonneg (cg a)). cbv zeta.
    set (nn := N.to_nat n). set (k := (N.to_nat m - nn)%nat).
    apply closed_code_at. lens. rewrite rep_calls_len, rep_opts_len.
    apply closed_at_cons; [explicit_instr|].
    apply closed_at_app; [sub_block IHa|].
    apply closed_at_cons; [explicit_instr|].
    apply closed_at_app.
    + replace (0 + 1 + len (cg a) + 1) with (len (cg a) + 2) by lia. apply rep_calls_closed. lia.
    + rewrite rep_calls_len.
      replace (0 + 1 + len (cg a) + 1 + Z.of_nat nn) with (len (cg a) + 2 + Z.of_nat nn) by lia.
      apply rep_opts_closed; lia.
  - apply closed_code_at. apply closed_at_cons; [explicit_instr|apply closed_at_nil].
  - exact (IHb Hs).
  - exact (IHs Hs).
  - destruct Hs as (Hpre & Ha & Hpost). specialize (IHa Ha). pose proof (len_nonneg (cg a)).
    apply closed_code_at. lens.
    apply closed_at_cons; [apply leaf_ok; exact Hpre|].
    apply closed_at_app; [sub_block IHa|].
    apply closed_at_cons; [apply leaf_ok; exact Hpost|apply closed_at_nil].
  - specialize (IHa Hs). pose proof (len_nonneg (cg a)).
    apply closed_code_at. lens.
    apply closed_at_cons; [explicit_instr|].
    apply closed_at_app; [sub_block IHa|].
    apply closed_at_cons; [explicit_instr|apply closed_at_nil].
  - destruct Hs as [Hr Ha]. specialize (IHa Ha). specialize (IHr Hr).
    pose proof (len_nonneg (cg a)). pose proof (len_nonneg (cg rec)).
    apply closed_code_at. lens.
    apply closed_at_cons; [explicit_instr|].
    apply closed_at_app; [sub_block IHa|].
    apply closed_at_cons; [explicit_instr|].
    apply closed_at_cons; [explicit_instr|].
    apply closed_at_app; [sub_block IHr|].
    apply closed_at_cons; [explicit_instr|apply closed_at_nil].
  - apply closed_code_at. lens.
    apply closed_at_cons; [explicit_instr|].
    apply closed_at_cons; [explicit_instr|apply closed_at_nil].
  - specialize (IHr Hs). pose proof (len_nonneg (cg rec)).
    apply closed_code_at. lens.
    apply closed_at_cons; [explicit_instr|].
    apply closed_at_cons; [explicit_instr|].
    apply closed_at_cons; [explicit_instr|].
    apply closed_at_app; [sub_block IHr|].
    apply closed_at_cons; [explicit_instr|apply closed_at_nil].
  - specialize (IHa Hs). pose proof (len_nonneg (cg a)).
    apply closed_code_at. lens.
    apply closed_at_cons; [explicit_instr|].
    apply closed_at_app; [sub_block IHa|].
    apply closed_at_cons; [explicit_instr|].
    apply closed_at_cons; [explicit_instr|].
    apply closed_at_cons; [explicit_instr|apply closed_at_nil].
Qed.

(* ---- elaboration only produces simple trees ---- *)

Ltac brk H :=
  repeat (match type of H with
          | Err _ = OK _ => discriminate H
          | context [match ?x with _ => _ end] => destruct x eqn:?
          end).

Lemma no_space_good : good_sp no_space.
Proof. intros st p st' H. discriminate. Qed.

Lemma seqp_simple a b : simple a -> simple b -> simple (seqp a b).
Proof. intros Ha Hb. destruct a; try exact Hb; destruct b; try exact Ha; cbn [seqp simple]; split; assumption. Qed.

(* ---- the bre compiler only produces simple trees ---- *)

Lemma gen_match_simple ucd caseless s p : gen_match ucd caseless s = OK p -> simple p.
Proof. unfold gen_match. intros H. brk H; inversion H; subst; reflexivity. Qed.

Lemma bracket_commit_simple neg st : simple (bracket_commit neg st).
Proof.
  unfold bracket_commit. cbv zeta.
  repeat match goal with
         | |- context [if ?c then _ else _] => destruct c
         end; cbn [seqp simple]; repeat split; reflexivity || exact I.
Qed.

Lemma gen_item_simple ucd caseless it p : gen_item ucd caseless it = OK p -> simple p.
Proof.
  destruct it as [|t|neg es]; cbn [gen_item]; intros H.
  - inversion H; subst. reflexivity.
  - exact (gen_match_simple _ _ _ _ H).
  - destruct (apply_elems ucd caseless _ es) as [st|w]; [|discriminate].
    inversion H; subst. apply bracket_commit_simple.
Qed.

Lemma gen_items_simple ucd caseless : forall its p, gen_items ucd caseless its = OK p -> simple p.
Proof.
  induction its as [|it r IH]; intros p H; cbn [gen_items] in H.
  - inversion H; subst. exact I.
  - destruct (gen_item ucd caseless it) as [a|w] eqn:Ha.
    + destruct (gen_items ucd caseless r) as [b|w] eqn:Hb; [|discriminate].
      inversion H; subst. apply seqp_simple; [exact (gen_item_simple _ _ _ _ Ha)|exact (IH _ eq_refl)].
    + destruct (gen_items ucd caseless r); discriminate.
Qed.

Lemma compile_bre_simple ucd caseless pattern p c : compile_bre ucd caseless pattern = OK (p, c) -> simple p.
Proof.
  unfold compile_bre. intros H.
  destruct (parse_bre pattern) as [its|]; [|discriminate].
  destruct its as [|it r].
  - inversion H; subst. reflexivity.
  - destruct (gen_items ucd caseless (it :: r)) as [q|w] eqn:Hq; [|discriminate].
    inversion H; subst. exact (gen_items_simple _ _ _ _ Hq).
Qed.

Section ElabSimple.
Variable ucd : ucd_table.
Variable rules : nat -> rinfo.
Variable self : option nat.
Variable dosp : spacefn.
Hypothesis Hrules : forall r, simple (r_body (rules r)).
Hypothesis Hdosp : good_sp dosp.

Lemma skip_simple cm cs st p st' : skip dosp cm cs st = OK (p, st') -> simple p.
Proof.
  unfold skip, do_skip, bind2. intros H. brk H; inversion H; subst; cbn [simple]; try exact I;
  match goal with Hx : dosp _ = OK _ |- _ => exact (Hdosp _ _ _ Hx) end.
Qed.

Lemma dpop_simple relay st p st' : dpop dosp relay st = OK (p, st') -> simple p.
Proof.
  unfold dpop, do_skip, bind2. intros H. brk H; inversion H; subst; cbn [simple]; try exact I;
  match goal with Hx : dosp _ = OK _ |- _ => exact (Hdosp _ _ _ Hx) end.
Qed.

Ltac use_skip :=
  repeat match goal with
         | Hx : skip dosp _ _ _ = OK _ |- _ => apply skip_simple in Hx
         | Hx : dpop dosp _ _ = OK _ |- _ => apply dpop_simple in Hx
         end.

Ltac fin H := inversion H; subst; repeat (apply seqp_simple || assumption || reflexivity || (cbn [simple]; split) || exact I || apply Hrules).

Lemma elab_str_simple s st p st' : elab_str ucd dosp s st = OK (p, st') -> simple p.
Proof. unfold elab_str, bind2. intros H. brk H; use_skip; fin H. Qed.

Lemma elab_range_simple a b st p st' : elab_range ucd dosp a b st = OK (p, st') -> simple p.
Proof. unfold elab_range, bind2. intros H. brk H; use_skip; fin H. Qed.

Lemma elab_call_simple r prec st p st' : elab_call rules self dosp r prec st = OK (p, st') -> simple p.
Proof. unfold elab_call, bind2. intros H. brk H; use_skip; fin H. Qed.

Lemma elab_simple : forall e st p st', elab ucd rules self dosp e st = OK (p, st') -> simple p.
Proof.
  induction e; intros st0 p0 st0' H; cbn [elab] in H; try discriminate H;
    try (apply elab_str_simple in H; exact H);
    try (apply elab_range_simple in H; exact H);
    try (apply elab_call_simple in H; exact H);
    unfold bind2 in H; brk H; use_skip;
    repeat match goal with
           | Hx : compile_bre _ _ _ = OK (_, _) |- _ => apply compile_bre_simple in Hx
           end;
    repeat match goal with
           | IH : (forall st p st', elab _ _ _ _ ?a st = OK (p, st') -> simple p), Hx : elab _ _ _ _ ?a _ = OK (_, _) |- _ => apply IH in Hx
           end;
    fin H.
Qed.

End ElabSimple.

(* ---- the rule table only holds simple bodies ---- *)

Definition rt_ok (rt : rtable) : Prop := forall r, simple (r_body (rt_get rt r)).

Lemma spacefn_good ucd space rt self : rt_ok rt -> good_sp (spacefn_for ucd space rt self).
Proof.
  intros Hrt st p st' H. unfold spacefn_for in H.
  exact (elab_simple ucd (rt_get rt) self no_space Hrt no_space_good _ _ _ _ H).
Qed.

Lemma compile_rule_simple ucd space rt r d ri :
  rt_ok rt -> compile_rule ucd space rt r d = OK ri -> simple (r_body ri).
Proof.
  intros Hrt H. unfold compile_rule, bind2 in H. destruct d as [e|src].
  - destruct (elab ucd (rt_get rt) (Some r) (spacefn_for ucd space rt (Some r)) (desugar e) _) as [[body st]|w] eqn:He; [|discriminate].
    injection H as <-. cbn [rinfo_of r_body].
    exact (elab_simple _ _ _ _ Hrt (spacefn_good _ _ _ _ Hrt) _ _ _ _ He).
  - destruct (elab_call (rt_get rt) (Some r) (spacefn_for ucd space rt (Some r)) src 1 _) as [[body st]|w] eqn:He; [|discriminate].
    injection H as <-. cbn [rinfo_of r_body].
    exact (elab_call_simple _ _ _ Hrt (spacefn_good _ _ _ _ Hrt) _ _ _ _ _ He).
Qed.

Lemma compile_defs_ok ucd space : forall defs rt rt', rt_ok rt -> compile_defs ucd space rt defs = OK rt' -> rt_ok rt'.
Proof.
  induction defs as [|[r d] rest IH]; intros rt rt' Hrt H; cbn [compile_defs] in H.
  - injection H as <-. exact Hrt.
  - destruct (compile_rule ucd space rt r d) as [ri|w] eqn:Hr; [|discriminate].
    apply (fun Hx => IH _ _ Hx H). intros r'. unfold rt_set. cbn [rt_get]. destruct (Nat.eqb r r'); [|apply Hrt].
    exact (compile_rule_simple _ _ _ _ _ _ Hrt Hr).
Qed.

(* ---- the layout loop keeps the code closed and the recorded addresses inside it ---- *)

Section LInv.
Variable rt : rtable.
Hypothesis Hrt : rt_ok rt.
Variable h : option Z.

Definition linv (s : lstate) : Prop :=
  l_halt s = h /\ closed_code (l_code s) /\
  forall r a, assoc_find (l_addrs s) r = Some a -> 0 <= a <= len (l_code s).

Lemma ret_closed : closed_code [TI IRet].
Proof. apply closed_code_at. apply closed_at_cons; [explicit_instr|apply closed_at_nil]. Qed.

Lemma linv_step s : linv s -> linv (link_step rt s).
Proof.
  intros (Hh & Hc & Ha). unfold link_step.
  destruct (rev (l_work s)) as [|[callstack r] rest_rev]; [exact (conj Hh (conj Hc Ha))|].
  destruct (assoc_find (l_addrs s) r) as [a0|] eqn:Hf; [exact (conj Hh (conj Hc Ha))|].
  destruct (expand_callees (callees_of (cg (r_body (rt_get rt r))) 0) callstack (l_lrec s)) as [lr pushes].
  unfold linv. cbn [l_code l_addrs l_halt].
  split; [exact Hh|]. split.
  - apply closed_code_app; [exact Hc|]. apply closed_code_app; [|exact ret_closed].
    apply cg_closed_simple. apply Hrt.
  - intros r1 a1 Hfind. cbn [assoc_find] in Hfind. rewrite len_app.
    pose proof (len_nonneg (l_code s)). pose proof (len_nonneg (cg (r_body (rt_get rt r)) ++ [TI IRet])).
    destruct (Nat.eqb r r1).
    + injection Hfind as <-. lia.
    + specialize (Ha _ _ Hfind). lia.
Qed.

Lemma linv_loop : forall fuel s s', linv s -> link_loop fuel rt s = Some s' -> linv s'.
Proof.
  induction fuel as [|f IH]; intros s s' Hinv Hl.
  - cbn [link_loop] in Hl. destruct (l_work s); [|discriminate]. injection Hl as <-. exact Hinv.
  - cbn [link_loop] in Hl. destruct (l_work s) eqn:Hw.
    + injection Hl as <-. exact Hinv.
    + apply (IH _ _ (linv_step _ Hinv) Hl).
Qed.

End LInv.

(* ---- resolving keeps every target inside the program ---- *)

Lemma resolve_closed s prog :
  closed_code (l_code s) ->
  (forall r a, assoc_find (l_addrs s) r = Some a -> 0 <= a <= len (l_code s)) ->
  resolve_code s (l_code s) 0 (len (l_code s)) = OK prog -> closed_prog prog.
Proof.
  intros Hc Ha Hres. destruct (resolve_code_nth _ _ _ _ _ Hres) as [Hlen Hn].
  assert (HL : len prog = len (l_code s)) by (unfold len; rewrite Hlen; reflexivity).
  intros k i x Hk Hx. rewrite HL.
  assert (Hkl : (k < length (l_code s))%nat) by (rewrite <- Hlen; apply nth_error_Some; congruence).
  destruct (nth_error (l_code s) k) as [t|] eqn:Ht; [|apply nth_error_None in Ht; lia].
  destruct (Hn _ _ Ht) as [i' [Hi1 Hi2]]. rewrite Hk in Hi1. injection Hi1 as <-.
  replace (0 + Z.of_nat k) with (Z.of_nat k) in Hi2 by lia.
  pose proof (len_nonneg (l_code s)) as Hnn.
  destruct t as [j|r prec m|r m].
  - assert (Hcase : i = j \/ i = IJump (len (l_code s) - Z.of_nat k - 1)).
    { destruct j; cbn [resolve1] in Hi2; try (injection Hi2 as <-; left; reflexivity).
      destruct off; try (injection Hi2 as <-; left; reflexivity).
      destruct (match l_halt s with Some h => Z.eqb h (Z.of_nat k) | None => false end);
        injection Hi2 as <-; [right|left]; reflexivity. }
    destruct Hcase as [->| ->].
    + exact (Hc k (TI j) x Ht Hx).
    + cbn [target] in Hx. apply Some_inj in Hx. lia.
  - cbn [resolve1] in Hi2.
    destruct (assoc_find (l_addrs s) r) as [tg|] eqn:Hf; [|discriminate].
    specialize (Ha _ _ Hf). cbv zeta in Hi2.
    destruct (_ && _) in Hi2; injection Hi2 as <-; cbn [target] in Hx; apply Some_inj in Hx; lia.
  - cbn [resolve1] in Hi2.
    destruct (assoc_find (l_addrs s) r) as [tg|] eqn:Hf; [|discriminate].
    specialize (Ha _ _ Hf).
    injection Hi2 as <-; cbn [target] in Hx; apply Some_inj in Hx; lia.
Qed.

Theorem link_closed_proof : stmt_link_closed.
Proof.
  intros ucd g prog H. unfold compile in H.
  set (space := match g_space g with Some e => desugar e | None => default_space_expr end) in H.
  destruct (compile_defs ucd space [] (g_defs g)) as [rt|w] eqn:Hdefs; [|discriminate].
  assert (Hrt : rt_ok rt).
  { apply (compile_defs_ok _ _ _ [] _ (fun r => I) Hdefs). }
  unfold start, bind2 in H.
  destruct (skip (spacefn_for ucd space rt None) (r_entry (rt_get rt (g_start g))) Nn
              {| modes := [N.lor E P]; entry := 0%N |}) as [[sk st']|w] eqn:Hsk; [|discriminate].
  cbv zeta in H.
  destruct (link_loop (S (S (total_callees rt + length rt))) rt _) as [s|] eqn:Hloop; [|discriminate].
  assert (Hsks : simple sk) by exact (skip_simple _ (spacefn_good _ _ _ _ Hrt) _ _ _ _ _ Hsk).
  assert (Hinv : linv (Some (len (cg sk) + 1)) s).
  { eapply (linv_loop rt Hrt); [|exact Hloop].
    split; [reflexivity|]. cbn [l_code l_addrs]. split; [|intros r a Hf; discriminate].
    apply closed_code_app; [apply cg_closed_simple; exact Hsks|].
    apply closed_code_at. lens.
    apply closed_at_cons; [explicit_instr|].
    apply closed_at_cons; [explicit_instr|apply closed_at_nil]. }
  destruct Hinv as (_ & Hc & Ha).
  exact (resolve_closed _ _ Hc Ha H).
Qed.

Print Assumptions cg_closed_simple.
Print Assumptions link_closed_proof.
