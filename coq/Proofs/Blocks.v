(* The block theorem: a derivation of the reference semantics is simulated by the parsing machine
   running the generated code (statement: Proofs/BlockDefs.v, [stmt_block]). *)
From Coq Require Import NArith ZArith List Bool Lia ZifyBool ZifyN ZifyNat.
From Lug Require Import Gen.Consts Gen.UcdTables Utf8.Utf8Model Ucd.Lookup Ucd.RuneSet VM.Instr Lang.Elab Lang.Codegen
  VM.Machine Spec.Peg Proofs.BlockDefs Proofs.BlockLemmas.
Import ListNotations.
Local Open Scope Z_scope.

(* equality of canonical states, componentwise *)
Ltac seq :=
  rewrite ?len_cons, ?len_app, ?len_nil, ?len_rep_calls, ?len_rep_opts;
  first [ reflexivity | lia | (rewrite ?app_nil_r, <- ?app_assoc; reflexivity)
        | match goal with
          | |- core _ _ _ _ _ _ _ = core _ _ _ _ _ _ _ => f_equal; seq
          | |- failing _ _ _ _ _ _ _ _ = failing _ _ _ _ _ _ _ _ => f_equal; seq
          | |- upd_fmode _ _ = upd_fmode _ _ => f_equal; seq
          | |- (_ :: _) = (_ :: _) => f_equal; seq
          | |- FBack _ _ _ _ _ = FBack _ _ _ _ _ => f_equal; seq
          | |- FCall _ = FCall _ => f_equal; seq
          | |- Some _ = Some _ => f_equal; seq
          | |- lenN _ = lenN _ => f_equal; seq
          end ].

Section Block.
Variable ucd : ucd_table.
Variable cb : callbacks.
Variable prog : list sinstr.
Variable addr : nat -> Z.
Variable inp : list N.
Variable G : nat -> option pexp.
Hypothesis Htot : ucd_total ucd.
Hypothesis Hrules : forall r body, G r = Some body -> frag body = true /\ at_ prog addr (addr r) (cg body ++ [TI IRet]).

Notation at_ := (at_ prog addr).
Notation step := (step ucd cb prog).
Notation exec := (exec ucd cb).
Notation runs_to := (runs_to ucd cb prog).
Notation base_ok := (base_ok inp).
Notation peg := (peg ucd inp G).
Notation peg_rep := (peg_rep ucd inp G).

(* ------------------------------------------------------------------ small kit *)
Lemma runs_eq s s' res : runs_to s res -> s = s' -> runs_to s' res.
Proof. intros H <-. exact H. Qed.

Lemma run_instr b a i m k r d ins s' res :
  base_ok b -> fetch prog a = Some ins -> exec ins (core b (a + 1) i m k r d) = Running s' ->
  runs_to s' res -> runs_to (core b a i m k r d) res.
Proof.
  intros Hb Hf He H. eapply runs_step; [|exact H].
  rewrite (step_core ucd cb prog b a i m k r d ins) by (try apply Hb; exact Hf). exact He.
Qed.

Lemma core_ri_id b a i m k r d : core (upd_ri (rid b) (rinh b) b) a i m k r d = core b a i m k r d.
Proof. reflexivity. Qed.
Lemma core_ri_ri b x y x' y' a i m k r d : core (upd_ri x y (upd_ri x' y' b)) a i m k r d = core (upd_ri x y b) a i m k r d.
Proof. reflexivity. Qed.
Lemma failing_ri_id b a i m k r c d : failing (upd_ri (rid b) (rinh b) b) a i m k r c d = failing b a i m k r c d.
Proof. reflexivity. Qed.
Lemma failing_ri_ri b x y x' y' a i m k r c d :
  failing (upd_ri x y (upd_ri x' y' b)) a i m k r c d = failing (upd_ri x y b) a i m k r c d.
Proof. reflexivity. Qed.

Lemma base_ok_ri b x y : base_ok b -> base_ok (upd_ri x y b).
Proof. intros H. exact H. Qed.
Lemma base_ok_ci b x : base_ok b -> base_ok (upd_ci x (cutf b) (accf b) b).
Proof. intros H. exact H. Qed.

Definition tail_ok (k : list frame) (e : Z) : Prop := fetch prog e = Some IRet -> ret_safe k.

Lemma tail_ok_eq k e e' : e = e' -> tail_ok k e -> tail_ok k e'.
Proof. intros <- H. exact H. Qed.

Lemma tail_ti k e x c : at_ e (TI x :: c) -> x <> IRet -> tail_ok k e.
Proof. intros Hat Hx Hf. rewrite (at_fetch_ti _ _ _ _ _ Hat) in Hf. congruence. Qed.

(* the first instruction of a block of the fragment is never a `ret` *)
Lemma frag_first p : frag p = true -> forall t c, cg p = t :: c -> forall a, res_instr prog addr a t IRet -> False.
Proof.
  induction p as [ | ins | p1 IH1 p2 IH2 | p1 IH1 p2 IH2 | p1 IH1 | p1 IH1 | p1 IH1 | | n m p1 IH1 | r prec mode
                 | r p1 IH1 | p1 IH1 | pre p1 IH1 post | r mode p1 IH1 | p1 IH1 p2 IH2 | l r mode | l p1 IH1 | p1 IH1 ];
    cbn [frag cg]; intros Hf t c E a Hr; try discriminate.
  - injection E as <- <-. cbn in Hr. subst ins. discriminate Hf.
  - apply andb_prop in Hf as [Hf1 Hf2]. destruct (cg p1) as [|t1 c1] eqn:E1; cbn [app] in E.
    + eapply IH2; eauto.
    + injection E as -> _. eapply IH1; eauto.
  - injection E as <- _. discriminate Hr.
  - injection E as <- _. discriminate Hr.
  - injection E as <- _. discriminate Hr.
  - injection E as <- _. discriminate Hr.
  - injection E as <- _. discriminate Hr.
  - injection E as <- _. discriminate Hr.
  - injection E as <- _. cbn in Hr. destruct Hr as [Hr|[Hr _]]; discriminate Hr.
  - eapply IH1; eauto.
  - eapply IH1; eauto.
  - destruct pre; try discriminate Hf. injection E as <- _. discriminate Hr.
Qed.

Lemma tail_seq k e pb : frag pb = true -> at_ e (cg pb) -> tail_ok k (e + len (cg pb)) -> tail_ok k e.
Proof.
  intros Hf Hat Ht. destruct (cg pb) as [|t c] eqn:E.
  - rewrite len_nil, Z.add_0_r in Ht. exact Ht.
  - intros Hfe. exfalso. destruct (at_head _ _ _ _ _ Hat) as (x & Hx & Hr). rewrite Hfe in Hx. injection Hx as <-.
    eapply frag_first; eauto.
Qed.

(* ------------------------------------------------------------------ the statement, per outcome *)
(* from the start state [S] the machine behaves as from the end of the block at [e], or as from failure *)
Definition outS (o : out) (S : mstate) (b : mstate) (e : Z) (k : list frame) (m0 : N) (r0 : list response) (d : N) : Prop :=
  match o with
  | Succ j t f =>
      exists r', kinds r' = t /\
        forall res, runs_to (core b e j (N.max m0 f) k (r0 ++ r') d) res -> runs_to S res
  | Fail f =>
      exists junk a' i' c',
        forall res, runs_to (failing b a' i' (N.max m0 f) k (r0 ++ junk) c' d) res -> runs_to S res
  end.

Definition blockP (p : pexp) (i : N) (o : out) : Prop :=
  forall b a k m0 r0 d, base_ok b -> at_ a (cg p) -> tail_ok k (a + len (cg p)) ->
    outS o (core b a i m0 k r0 d) b (a + len (cg p)) k m0 r0 d.

(* inside a star: just after the choice / a commit_partial *)
Definition loopP (pa : pexp) (i : N) (o : out) : Prop :=
  forall b a k m0 r0 d, base_ok b -> at_ a (cg (PStar pa)) ->
    outS o (core b (a + 1) i m0 (FBack (Some i) (lenN r0) (rid b) (rinh b) (a + len (cg pa) + 2) :: k) r0 d)
         b (a + len (cg pa) + 2) k m0 r0 d.

(* inside a repeat block at [A]: [n] mandatory calls left at [c], then [kk] optional groups, end at [E] *)
Definition repP (n kk : nat) (pa : pexp) (i : N) (o : out) : Prop :=
  forall b A c E k m0 r0 d, base_ok b ->
    at_ (A + 1) (cg pa ++ [TI IRet]) ->
    at_ c (rep_calls n (c - A) ++ rep_opts kk (c - A + Z.of_nat n) (E - A)) ->
    E = c + Z.of_nat n + 3 * Z.of_nat kk ->
    outS o (core b c i m0 k r0 d) b E k m0 r0 d.

(* ------------------------------------------------------------------ leaves *)
Lemma case_empty i : blockP PEmpty i (Succ i [] 0).
Proof.
  intros b a k m0 r0 d Hb Hat Ht. exists []. split; [reflexivity|]. intros res H.
  eapply runs_eq; [exact H|]. cbn [cg]. seq.
Qed.

Lemma case_term_ok ins i j : is_terminal ins = true -> tmatch ucd inp ins i = Some j -> blockP (PInstr ins) i (Succ j [] 0).
Proof.
  intros Hterm Hm b a k m0 r0 d Hb Hat Ht. cbn [cg] in *. exists []. split; [reflexivity|]. intros res H.
  eapply runs_step; [eapply step_term_ok; eauto using at_fetch_ti|].
  eapply runs_eq; [exact H|]. seq.
Qed.

Lemma case_term_ko ins i : is_terminal ins = true -> tmatch ucd inp ins i = None -> blockP (PInstr ins) i (Fail i).
Proof.
  intros Hterm Hm b a k m0 r0 d Hb Hat Ht. cbn [cg] in *. exists [], (a + 1), i, (lenN r0). intros res H.
  eapply runs_step; [eapply step_term_ko; eauto using at_fetch_ti|].
  eapply runs_eq; [exact H|]. seq.
Qed.

Lemma case_action id i : blockP (PInstr (IAction id)) i (Succ i [TrAct id] 0).
Proof.
  intros b a k m0 r0 d Hb Hat Ht. cbn [cg] in *. exists [{| r_depth := d; r_kind := RAct id |}]. split; [reflexivity|].
  intros res H.
  eapply run_instr; [exact Hb|eapply at_fetch_ti; exact Hat|apply exec_action|].
  eapply runs_eq; [exact H|]. seq.
Qed.

(* ------------------------------------------------------------------ sequence *)
Lemma seq_tails k a pa pb : frag pb = true -> at_ a (cg pa ++ cg pb) -> tail_ok k (a + len (cg pa ++ cg pb)) ->
  tail_ok k (a + len (cg pa)) /\ tail_ok k (a + len (cg pa) + len (cg pb)).
Proof.
  intros Hf Hat Ht. assert (T2 : tail_ok k (a + len (cg pa) + len (cg pb))).
  { eapply tail_ok_eq; [|exact Ht]. rewrite len_app. lia. }
  split; [|exact T2]. eapply tail_seq; eauto using at_app_r.
Qed.

Lemma case_seq_ok pa pb i j t1 f1 j' t2 f2 :
  frag pb = true -> blockP pa i (Succ j t1 f1) -> blockP pb j (Succ j' t2 f2) ->
  blockP (PSeq pa pb) i (Succ j' (t1 ++ t2) (N.max f1 f2)).
Proof.
  intros Hfb IH1 IH2 b a k m0 r0 d Hb Hat Ht. cbn [cg] in *.
  destruct (seq_tails k a pa pb Hfb Hat Ht) as [T1 T2].
  destruct (IH1 b a k m0 r0 d Hb (at_app_l _ _ _ _ _ Hat) T1) as (r1 & K1 & R1).
  destruct (IH2 b (a + len (cg pa)) k (N.max m0 f1) (r0 ++ r1) d Hb (at_app_r _ _ _ _ _ Hat) T2) as (r2 & K2 & R2).
  exists (r1 ++ r2). split; [rewrite kinds_app; congruence|]. intros res H.
  apply R1, R2. eapply runs_eq; [exact H|]. seq.
Qed.

Lemma case_seq_ko2 pa pb i j t1 f1 f2 :
  frag pb = true -> blockP pa i (Succ j t1 f1) -> blockP pb j (Fail f2) ->
  blockP (PSeq pa pb) i (Fail (N.max f1 f2)).
Proof.
  intros Hfb IH1 IH2 b a k m0 r0 d Hb Hat Ht. cbn [cg] in *.
  destruct (seq_tails k a pa pb Hfb Hat Ht) as [T1 T2].
  destruct (IH1 b a k m0 r0 d Hb (at_app_l _ _ _ _ _ Hat) T1) as (r1 & K1 & R1).
  destruct (IH2 b (a + len (cg pa)) k (N.max m0 f1) (r0 ++ r1) d Hb (at_app_r _ _ _ _ _ Hat) T2) as (junk & a' & i' & c' & R2).
  exists (r1 ++ junk), a', i', c'. intros res H.
  apply R1, R2. eapply runs_eq; [exact H|]. seq.
Qed.

Lemma case_seq_ko1 pa pb i f1 :
  frag pb = true -> blockP pa i (Fail f1) -> blockP (PSeq pa pb) i (Fail f1).
Proof.
  intros Hfb IH1 b a k m0 r0 d Hb Hat Ht. cbn [cg] in *.
  destruct (seq_tails k a pa pb Hfb Hat Ht) as [T1 T2].
  exact (IH1 b a k m0 r0 d Hb (at_app_l _ _ _ _ _ Hat) T1).
Qed.

(* ------------------------------------------------------------------ ordered choice *)
Lemma case_alt_l pa pb i j t f : blockP pa i (Succ j t f) -> blockP (PAlt pa pb) i (Succ j t f).
Proof.
  intros IH1 b a k m0 r0 d Hb Hat Ht. cbn [cg] in *.
  pose proof (at_cons _ _ _ _ _ Hat) as Hat1.
  pose proof (at_app_l _ _ _ _ _ Hat1) as HatA. pose proof (at_app_r _ _ _ _ _ Hat1) as HatC.
  set (F := FBack (Some i) (lenN r0) (rid b) (rinh b) (a + 1 + (len (cg pa) + 1))).
  destruct (IH1 b (a + 1) (F :: k) m0 r0 d Hb HatA) as (r1 & K1 & R1).
  { eapply tail_ti; [exact HatC|discriminate]. }
  exists r1. split; [exact K1|]. intros res H.
  eapply run_instr; [exact Hb|eapply at_fetch_ti; exact Hat|apply exec_choice|]. apply R1.
  eapply run_instr; [exact Hb|eapply at_fetch_ti; exact HatC|apply exec_commit|].
  eapply runs_eq; [exact H|]. seq.
Qed.

Lemma case_alt_r pa pb i f1 o :
  blockP pa i (Fail f1) -> blockP pb i o ->
  blockP (PAlt pa pb) i (match o with Succ j t f2 => Succ j t (N.max f1 f2) | Fail f2 => Fail (N.max f1 f2) end).
Proof.
  intros IH1 IH2 b a k m0 r0 d Hb Hat Ht. cbn [cg] in *.
  pose proof (at_cons _ _ _ _ _ Hat) as Hat1.
  pose proof (at_app_l _ _ _ _ _ Hat1) as HatA. pose proof (at_app_r _ _ _ _ _ Hat1) as HatC.
  pose proof (at_cons _ _ _ _ _ HatC) as HatB.
  set (F := FBack (Some i) (lenN r0) (rid b) (rinh b) (a + 1 + (len (cg pa) + 1))).
  destruct (IH1 b (a + 1) (F :: k) m0 r0 d Hb HatA) as (junk & a' & i' & c' & R1).
  { eapply tail_ti; [exact HatC|discriminate]. }
  assert (T2 : tail_ok k (a + 1 + len (cg pa) + 1 + len (cg pb))).
  { eapply tail_ok_eq; [|exact Ht]. rewrite !len_cons, len_app, len_cons. lia. }
  pose proof (IH2 b (a + 1 + len (cg pa) + 1) k (N.max m0 f1) r0 d Hb HatB T2) as O2.
  assert (Start : forall res, runs_to (core b (a + 1 + len (cg pa) + 1) i (N.max m0 f1) k r0 d) res ->
                              runs_to (core b a i m0 k r0 d) res).
  { intros res H.
    eapply run_instr; [exact Hb|eapply at_fetch_ti; exact Hat|apply exec_choice|]. apply R1.
    eapply runs_step; [apply step_fail_own; apply Hb|]. rewrite core_ri_id.
    eapply runs_eq; [exact H|]. seq. }
  destruct o as [j t f2|f2].
  - destruct O2 as (r2 & K2 & R2). exists r2. split; [exact K2|]. intros res H.
    apply Start, R2. eapply runs_eq; [exact H|]. seq.
  - destruct O2 as (junk2 & a2 & i2 & c2 & R2). exists junk2, a2, i2, c2. intros res H.
    apply Start, R2. eapply runs_eq; [exact H|]. seq.
Qed.

(* ------------------------------------------------------------------ star *)
Lemma len_star pa : len (cg (PStar pa)) = len (cg pa) + 2.
Proof. cbn [cg]. rewrite len_cons, len_app, len_cons, len_nil. lia. Qed.

Lemma case_star_more_loop pa i j t1 f1 j' t2 f2 :
  blockP pa i (Succ j t1 f1) -> loopP pa j (Succ j' t2 f2) -> loopP pa i (Succ j' (t1 ++ t2) (N.max f1 f2)).
Proof.
  intros IH1 IH2 b a k m0 r0 d Hb Hat.
  pose proof Hat as Hat0. cbn [cg] in Hat0.
  pose proof (at_cons _ _ _ _ _ Hat0) as Hat1.
  pose proof (at_app_l _ _ _ _ _ Hat1) as HatA. pose proof (at_app_r _ _ _ _ _ Hat1) as HatP.
  set (E := a + len (cg pa) + 2).
  destruct (IH1 b (a + 1) (FBack (Some i) (lenN r0) (rid b) (rinh b) E :: k) m0 r0 d Hb HatA) as (r1 & K1 & R1).
  { eapply tail_ti; [exact HatP|discriminate]. }
  destruct (IH2 b a k (N.max m0 f1) (r0 ++ r1) d Hb Hat) as (r2 & K2 & R2). fold E in R2.
  exists (r1 ++ r2). split; [rewrite kinds_app; congruence|]. intros res H.
  apply R1.
  eapply run_instr; [exact Hb|eapply at_fetch_ti; exact HatP|apply exec_commit_partial|].
  eapply runs_eq; [apply R2; eapply runs_eq; [exact H|]; seq|]. seq.
Qed.

Lemma case_star_done_loop pa i f : blockP pa i (Fail f) -> loopP pa i (Succ i [] f).
Proof.
  intros IH1 b a k m0 r0 d Hb Hat.
  pose proof Hat as Hat0. cbn [cg] in Hat0.
  pose proof (at_cons _ _ _ _ _ Hat0) as Hat1.
  pose proof (at_app_l _ _ _ _ _ Hat1) as HatA. pose proof (at_app_r _ _ _ _ _ Hat1) as HatP.
  set (E := a + len (cg pa) + 2).
  destruct (IH1 b (a + 1) (FBack (Some i) (lenN r0) (rid b) (rinh b) E :: k) m0 r0 d Hb HatA) as (junk & a' & i' & c' & R1).
  { eapply tail_ti; [exact HatP|discriminate]. }
  exists []. split; [reflexivity|]. intros res H.
  apply R1. eapply runs_step; [apply step_fail_own; apply Hb|]. rewrite core_ri_id.
  eapply runs_eq; [exact H|]. seq.
Qed.

Lemma star_block pa i j t f : loopP pa i (Succ j t f) -> blockP (PStar pa) i (Succ j t f).
Proof.
  intros L b a k m0 r0 d Hb Hat Ht.
  destruct (L b a k m0 r0 d Hb Hat) as (r' & K & R). exists r'. split; [exact K|]. intros res H.
  pose proof Hat as Hat0. cbn [cg] in Hat0.
  eapply run_instr; [exact Hb|eapply at_fetch_ti; exact Hat0|apply exec_choice|].
  eapply runs_eq; [apply R; eapply runs_eq; [exact H|]; rewrite len_star; seq|]. seq.
Qed.

(* ------------------------------------------------------------------ predicates *)
Lemma case_not_ok pa i f : blockP pa i (Fail f) -> blockP (PNot pa) i (Succ i [] f).
Proof.
  intros IH1 b a k m0 r0 d Hb Hat Ht. cbn [cg] in *.
  pose proof (at_cons _ _ _ _ _ Hat) as Hat1.
  pose proof (at_app_l _ _ _ _ _ Hat1) as HatA. pose proof (at_app_r _ _ _ _ _ Hat1) as HatP.
  set (F := FBack (Some i) (lenN r0) (rid b) (rinh b) (a + 1 + (len (cg pa) + 1))).
  set (b' := upd_ri (lenN (F :: k)) true b).
  destruct (IH1 b' (a + 1) (F :: k) m0 r0 d (base_ok_ri _ _ _ Hb) HatA) as (junk & a' & i' & c' & R1).
  { eapply tail_ti; [exact HatP|discriminate]. }
  exists []. split; [reflexivity|]. intros res H.
  eapply run_instr; [exact Hb|eapply at_fetch_ti; exact Hat|apply exec_choice_pred|]. apply R1.
  eapply runs_step; [apply step_fail_own; apply Hb|]. unfold b'. rewrite core_ri_ri, core_ri_id.
  eapply runs_eq; [exact H|]. seq.
Qed.

Lemma case_not_ko pa i j t f : blockP pa i (Succ j t f) -> blockP (PNot pa) i (Fail (N.max f j)).
Proof.
  intros IH1 b a k m0 r0 d Hb Hat Ht. cbn [cg] in *.
  pose proof (at_cons _ _ _ _ _ Hat) as Hat1.
  pose proof (at_app_l _ _ _ _ _ Hat1) as HatA. pose proof (at_app_r _ _ _ _ _ Hat1) as HatP.
  set (F := FBack (Some i) (lenN r0) (rid b) (rinh b) (a + 1 + (len (cg pa) + 1))).
  set (b' := upd_ri (lenN (F :: k)) true b).
  destruct (IH1 b' (a + 1) (F :: k) m0 r0 d (base_ok_ri _ _ _ Hb) HatA) as (r1 & K1 & R1).
  { eapply tail_ti; [exact HatP|discriminate]. }
  exists r1, (a + 1 + (len (cg pa) + 1)), i, (lenN r0). intros res H.
  eapply run_instr; [exact Hb|eapply at_fetch_ti; exact Hat|apply exec_choice_pred|]. apply R1.
  eapply run_instr; [exact (base_ok_ri _ _ _ Hb)|eapply at_fetch_ti; exact HatP|apply exec_fail2|].
  eapply runs_step; [apply step_fail2_own|]. unfold b'. rewrite failing_ri_ri, failing_ri_id.
  eapply runs_eq; [exact H|]. seq.
Qed.

Lemma case_and_ok pa i j t f : blockP pa i (Succ j t f) -> blockP (PAnd pa) i (Succ i t f).
Proof.
  intros IH1 b a k m0 r0 d Hb Hat Ht. cbn [cg] in *.
  pose proof (at_cons _ _ _ _ _ Hat) as Hat1.
  pose proof (at_app_l _ _ _ _ _ Hat1) as HatA. pose proof (at_app_r _ _ _ _ _ Hat1) as HatP.
  set (F := FBack (Some i) (lenN r0) (rid b) (rinh b) (a + 1 + (len (cg pa) + 1))).
  set (b' := upd_ri (lenN (F :: k)) true b).
  destruct (IH1 b' (a + 1) (F :: k) m0 r0 d (base_ok_ri _ _ _ Hb) HatA) as (r1 & K1 & R1).
  { eapply tail_ti; [exact HatP|discriminate]. }
  exists r1. split; [exact K1|]. intros res H.
  eapply run_instr; [exact Hb|eapply at_fetch_ti; exact Hat|apply exec_choice_pred|]. apply R1.
  eapply run_instr; [exact (base_ok_ri _ _ _ Hb)|eapply at_fetch_ti; exact HatP|apply exec_commit_back|].
  unfold b'. rewrite core_ri_ri, core_ri_id.
  eapply runs_eq; [exact H|]. seq.
Qed.

Lemma case_and_ko pa i f : blockP pa i (Fail f) -> blockP (PAnd pa) i (Fail (N.max f i)).
Proof.
  intros IH1 b a k m0 r0 d Hb Hat Ht. cbn [cg] in *.
  pose proof (at_cons _ _ _ _ _ Hat) as Hat1.
  pose proof (at_app_l _ _ _ _ _ Hat1) as HatA. pose proof (at_app_r _ _ _ _ _ Hat1) as HatP.
  pose proof (at_cons _ _ _ _ _ HatP) as HatQ.
  set (F := FBack (Some i) (lenN r0) (rid b) (rinh b) (a + 1 + (len (cg pa) + 1))).
  set (b' := upd_ri (lenN (F :: k)) true b).
  destruct (IH1 b' (a + 1) (F :: k) m0 r0 d (base_ok_ri _ _ _ Hb) HatA) as (junk & a' & i' & c' & R1).
  { eapply tail_ti; [exact HatP|discriminate]. }
  exists [], (a + 1 + len (cg pa) + 1 + 1), i, (lenN r0). intros res H.
  eapply run_instr; [exact Hb|eapply at_fetch_ti; exact Hat|apply exec_choice_pred|]. apply R1.
  eapply runs_step; [apply step_fail_own; apply Hb|]. unfold b'. rewrite core_ri_ri, core_ri_id.
  apply (runs_eq (core b (a + 1 + len (cg pa) + 1) i (N.max m0 f) k r0 d)); [|seq].
  eapply run_instr; [exact Hb|eapply at_fetch_ti; exact HatQ|apply exec_fail1|].
  eapply runs_eq; [exact H|]. seq.
Qed.

Lemma case_eoi_ok i : tmatch ucd inp (IMatchAny 1) i = None -> blockP PEoi i (Succ i [] i).
Proof.
  intros Hm b a k m0 r0 d Hb Hat Ht. cbn [cg] in *.
  pose proof (at_cons _ _ _ _ _ Hat) as Hat1.
  exists []. split; [reflexivity|]. intros res H.
  eapply run_instr; [exact Hb|eapply at_fetch_ti; exact Hat|apply exec_choice|].
  eapply runs_step; [eapply step_term_ko; eauto using at_fetch_ti|].
  eapply runs_eq; [eapply runs_step; [apply (step_fail_own ucd cb prog b (a + 1 + 1) i (N.max m0 i) i (rid b) (rinh b) (a + 1 + 2) k r0 [] (lenN r0) d); apply Hb|]|].
  - rewrite core_ri_id. eapply runs_eq; [exact H|]. seq.
  - seq.
Qed.

Lemma case_eoi_ko i j : tmatch ucd inp (IMatchAny 1) i = Some j -> blockP PEoi i (Fail j).
Proof.
  intros Hm b a k m0 r0 d Hb Hat Ht. cbn [cg] in *.
  pose proof (at_cons _ _ _ _ _ Hat) as Hat1. pose proof (at_cons _ _ _ _ _ Hat1) as Hat2.
  exists [], (a + 1 + 2), i, (lenN r0). intros res H.
  eapply run_instr; [exact Hb|eapply at_fetch_ti; exact Hat|apply exec_choice|].
  eapply runs_step; [eapply step_term_ok; eauto using at_fetch_ti|].
  eapply run_instr; [exact Hb|eapply at_fetch_ti; exact Hat2|apply exec_fail2|].
  eapply runs_step; [apply step_fail2_own|]. rewrite failing_ri_id.
  eapply runs_eq; [exact H|]. seq.
Qed.

(* ------------------------------------------------------------------ rule calls *)
Lemma case_call r prec mode body i o :
  G r = Some body -> blockP body i o -> blockP (PCall r prec mode) i o.
Proof.
  intros HG IH b a k m0 r0 d Hb Hat Ht. cbn [cg] in *.
  destruct (Hrules r body HG) as [Hfb Hbody].
  pose proof (at_app_l _ _ _ _ _ Hbody) as HatB. pose proof (at_app_r _ _ _ _ _ Hbody) as HatR.
  destruct (at_head _ _ _ _ _ Hat) as (x & Hfx & Hr). cbn in Hr.
  assert (Elen : a + len [TCall r prec mode] = a + 1) by (rewrite len_cons, len_nil; lia).
  destruct Hr as [->|[-> Hret]].
  - (* a real call *)
    assert (T : tail_ok (FCall (a + 1) :: k) (addr r + len (cg body))) by (intros _; exact I).
    pose proof (IH b (addr r) (FCall (a + 1) :: k) m0 r0 (d + 1)%N Hb HatB T) as O.
    assert (Start : forall res, runs_to (core b (addr r) i m0 (FCall (a + 1) :: k) r0 (d + 1)) res ->
                                runs_to (core b a i m0 k r0 d) res).
    { intros res H. eapply run_instr; [exact Hb|exact Hfx|apply exec_call|]. eapply runs_eq; [exact H|]. seq. }
    destruct o as [j t f|f].
    + destruct O as (r1 & K1 & R1). exists r1. split; [exact K1|]. intros res H.
      apply Start, R1.
      eapply run_instr; [exact Hb|eapply at_fetch_ti; exact HatR|apply exec_ret|].
      eapply runs_eq; [exact H|]. rewrite Elen. reflexivity.
    + destruct O as (junk & a' & i' & c' & R1). exists junk, a', i', c'. intros res H.
      apply Start, R1. eapply runs_step; [apply step_fail_call|]. exact H.
  - (* a tail call: jump, and the callee's ret stands in for ours *)
    assert (Hsafe : ret_safe k) by (apply Ht; rewrite Elen; exact Hret).
    assert (T : tail_ok k (addr r + len (cg body))) by (intros _; exact Hsafe).
    pose proof (IH b (addr r) k m0 r0 d Hb HatB T) as O.
    assert (Start : forall res, runs_to (core b (addr r) i m0 k r0 d) res -> runs_to (core b a i m0 k r0 d) res).
    { intros res H. eapply run_instr; [exact Hb|exact Hfx|apply exec_jump|]. eapply runs_eq; [exact H|]. seq. }
    destruct o as [j t f|f].
    + destruct O as (r1 & K1 & R1). exists r1. split; [exact K1|]. intros res H.
      apply Start, R1. rewrite Elen in H.
      eapply runs_same_step; [|exact H].
      rewrite (step_core ucd cb prog b (a + 1) j (N.max m0 f) k (r0 ++ r1) d IRet) by (try apply Hb; exact Hret).
      rewrite (step_core ucd cb prog b (addr r + len (cg body)) j (N.max m0 f) k (r0 ++ r1) d IRet)
        by (try apply Hb; eapply at_fetch_ti; exact HatR).
      apply exec_ret_any_pc. exact Hsafe.
    + destruct O as (junk & a' & i' & c' & R1). exists junk, a', i', c'. intros res H.
      apply Start, R1. exact H.
Qed.

(* ------------------------------------------------------------------ captures *)
Lemma case_capture_ok c pa i j t f :
  (i <= j)%N -> blockP pa i (Succ j t f) ->
  blockP (PWrap ICaptureStart pa (ICaptureEnd c)) i (Succ j (t ++ [TrCap c i (j - i)]) f).
Proof.
  intros Hle IH1 b a k m0 r0 d Hb Hat Ht. cbn [cg] in *.
  pose proof (at_cons _ _ _ _ _ Hat) as Hat1.
  pose proof (at_app_l _ _ _ _ _ Hat1) as HatA. pose proof (at_app_r _ _ _ _ _ Hat1) as HatP.
  set (b' := upd_ci (cic b + 1) (cutf b) (accf b) b).
  destruct (IH1 b' (a + 1) (FCapture i :: k) m0 r0 d (base_ok_ci _ _ Hb) HatA) as (r1 & K1 & R1).
  { eapply tail_ti; [exact HatP|discriminate]. }
  exists (r1 ++ [{| r_depth := d; r_kind := RCap c i (j - i) |}]). split; [rewrite kinds_app, K1; reflexivity|].
  intros res H.
  eapply run_instr; [exact Hb|eapply at_fetch_ti; exact Hat|apply exec_capture_start|]. apply R1.
  eapply run_instr; [exact (base_ok_ci _ _ Hb)|eapply at_fetch_ti; exact HatP|apply exec_capture_end; [apply Hb|apply Hb|exact Hle]|].
  eapply runs_eq; [exact H|]. seq.
Qed.

Lemma case_capture_ko c pa i f :
  blockP pa i (Fail f) -> blockP (PWrap ICaptureStart pa (ICaptureEnd c)) i (Fail f).
Proof.
  intros IH1 b a k m0 r0 d Hb Hat Ht. cbn [cg] in *.
  pose proof (at_cons _ _ _ _ _ Hat) as Hat1.
  pose proof (at_app_l _ _ _ _ _ Hat1) as HatA. pose proof (at_app_r _ _ _ _ _ Hat1) as HatP.
  set (b' := upd_ci (cic b + 1) (cutf b) (accf b) b).
  destruct (IH1 b' (a + 1) (FCapture i :: k) m0 r0 d (base_ok_ci _ _ Hb) HatA) as (junk & a' & i' & c' & R1).
  { eapply tail_ti; [exact HatP|discriminate]. }
  exists junk, a', i', c'. intros res H.
  eapply run_instr; [exact Hb|eapply at_fetch_ti; exact Hat|apply exec_capture_start|]. apply R1.
  eapply runs_step; [apply step_fail_capture|]. exact H.
Qed.

(* ------------------------------------------------------------------ repeat(n, m) *)
Lemma at_eq a a' c c' : a = a' -> c = c' -> at_ a c -> at_ a' c'.
Proof. intros <- <- H. exact H. Qed.

(* one call of the subroutine at [A + 1] from the call instruction at [q] *)
Lemma sub_call pa i o :
  blockP pa i o -> forall b A q off k m0 r0 d, base_ok b -> at_ (A + 1) (cg pa ++ [TI IRet]) ->
  fetch prog q = Some (ICall off 0) -> q + 1 + off = A + 1 ->
  outS o (core b q i m0 k r0 d) b (q + 1) k m0 r0 d.
Proof.
  intros IH b A q off k m0 r0 d Hb HatS Hfq Hoff.
  pose proof (at_app_l _ _ _ _ _ HatS) as HatB. pose proof (at_app_r _ _ _ _ _ HatS) as HatR.
  assert (T : tail_ok (FCall (q + 1) :: k) (A + 1 + len (cg pa))) by (intros _; exact I).
  pose proof (IH b (A + 1) (FCall (q + 1) :: k) m0 r0 (d + 1)%N Hb HatB T) as O.
  assert (Start : forall res, runs_to (core b (A + 1) i m0 (FCall (q + 1) :: k) r0 (d + 1)) res ->
                              runs_to (core b q i m0 k r0 d) res).
  { intros res H. eapply run_instr; [exact Hb|exact Hfq|apply exec_call|]. eapply runs_eq; [exact H|]. seq. }
  destruct o as [j t f|f].
  - destruct O as (r1 & K1 & R1). exists r1. split; [exact K1|]. intros res H.
    apply Start, R1.
    eapply run_instr; [exact Hb|eapply at_fetch_ti; exact HatR|apply exec_ret|]. exact H.
  - destruct O as (junk & a' & i' & c' & R1). exists junk, a', i', c'. intros res H.
    apply Start, R1. eapply runs_step; [apply step_fail_call|]. exact H.
Qed.

Lemma case_rep_done pa i : repP 0 0 pa i (Succ i [] 0).
Proof.
  intros b A c E k m0 r0 d Hb HatS HatC HE. exists []. split; [reflexivity|]. intros res H.
  eapply runs_eq; [exact H|]. subst E. seq.
Qed.

Lemma case_rep_must_ok n kk pa i j t1 f1 o :
  blockP pa i (Succ j t1 f1) -> repP n kk pa j o ->
  repP (S n) kk pa i (match o with Succ j' t2 f2 => Succ j' (t1 ++ t2) (N.max f1 f2) | Fail f2 => Fail (N.max f1 f2) end).
Proof.
  intros IH1 IH2 b A c E k m0 r0 d Hb HatS HatC HE. cbn [rep_calls app] in HatC.
  destruct (sub_call pa i _ IH1 b A c (- (c - A)) k m0 r0 d Hb HatS (at_fetch_ti _ _ _ _ _ HatC)) as (r1 & K1 & R1); [lia|].
  assert (HatN : at_ (c + 1) (rep_calls n (c + 1 - A) ++ rep_opts kk (c + 1 - A + Z.of_nat n) (E - A))).
  { eapply at_eq; [reflexivity| |exact (at_cons _ _ _ _ _ HatC)]. f_equal; f_equal; lia. }
  pose proof (IH2 b A (c + 1) E k (N.max m0 f1) (r0 ++ r1) d Hb HatS HatN) as O.
  destruct o as [j' t2 f2|f2].
  - destruct O as (r2 & K2 & R2); [lia|]. exists (r1 ++ r2). split; [rewrite kinds_app; congruence|]. intros res H.
    apply R1, R2. eapply runs_eq; [exact H|]. seq.
  - destruct O as (junk & a' & i' & c' & R2); [lia|]. exists (r1 ++ junk), a', i', c'. intros res H.
    apply R1, R2. eapply runs_eq; [exact H|]. seq.
Qed.

Lemma case_rep_must_ko n kk pa i f : blockP pa i (Fail f) -> repP (S n) kk pa i (Fail f).
Proof.
  intros IH1 b A c E k m0 r0 d Hb HatS HatC HE. cbn [rep_calls app] in HatC.
  apply (sub_call pa i _ IH1 b A c (- (c - A)) k m0 r0 d Hb HatS (at_fetch_ti _ _ _ _ _ HatC)). lia.
Qed.

Lemma case_rep_opt_ok kk pa i j t1 f1 j' t2 f2 :
  blockP pa i (Succ j t1 f1) -> repP 0 kk pa j (Succ j' t2 f2) ->
  repP 0 (S kk) pa i (Succ j' (t1 ++ t2) (N.max f1 f2)).
Proof.
  intros IH1 IH2 b A c E k m0 r0 d Hb HatS HatC HE. cbn [rep_calls rep_opts app Z.of_nat] in HatC.
  pose proof (at_cons _ _ _ _ _ HatC) as HatC1. pose proof (at_cons _ _ _ _ _ HatC1) as HatC2.
  pose proof (at_cons _ _ _ _ _ HatC2) as HatC3.
  set (F := FBack (Some i) (lenN r0) (rid b) (rinh b) (c + 1 + (E - A - (c - A + 0) - 1))).
  destruct (sub_call pa i _ IH1 b A (c + 1) (- (c - A + 0 + 1)) (F :: k) m0 r0 d Hb HatS (at_fetch_ti _ _ _ _ _ HatC1))
    as (r1 & K1 & R1); [lia|].
  assert (HatN : at_ (c + 3) (rep_calls 0 (c + 3 - A) ++ rep_opts kk (c + 3 - A + Z.of_nat 0) (E - A))).
  { eapply at_eq; [| |exact HatC3]; [lia|]. cbn [rep_calls app Z.of_nat]. f_equal; lia. }
  destruct (IH2 b A (c + 3) E k (N.max m0 f1) (r0 ++ r1) d Hb HatS HatN) as (r2 & K2 & R2); [lia|].
  exists (r1 ++ r2). split; [rewrite kinds_app; congruence|]. intros res H.
  eapply run_instr; [exact Hb|eapply at_fetch_ti; exact HatC|apply exec_choice|]. apply R1.
  eapply run_instr; [exact Hb|eapply at_fetch_ti; exact HatC2|apply exec_commit|].
  eapply runs_eq; [apply R2; eapply runs_eq; [exact H|]; seq|]. seq.
Qed.

Lemma case_rep_opt_stop kk pa i f : blockP pa i (Fail f) -> repP 0 (S kk) pa i (Succ i [] f).
Proof.
  intros IH1 b A c E k m0 r0 d Hb HatS HatC HE. cbn [rep_calls rep_opts app Z.of_nat] in HatC.
  pose proof (at_cons _ _ _ _ _ HatC) as HatC1.
  set (F := FBack (Some i) (lenN r0) (rid b) (rinh b) (c + 1 + (E - A - (c - A + 0) - 1))).
  destruct (sub_call pa i _ IH1 b A (c + 1) (- (c - A + 0 + 1)) (F :: k) m0 r0 d Hb HatS (at_fetch_ti _ _ _ _ _ HatC1))
    as (junk & a' & i' & c' & R1); [lia|].
  exists []. split; [reflexivity|]. intros res H.
  eapply run_instr; [exact Hb|eapply at_fetch_ti; exact HatC|apply exec_choice|]. apply R1.
  eapply runs_step; [apply step_fail_own; apply Hb|]. rewrite core_ri_id.
  eapply runs_eq; [exact H|]. seq.
Qed.

Lemma app_cons_assoc {A} (l : list A) x r : l ++ x :: r = (l ++ [x]) ++ r.
Proof. rewrite <- app_assoc. reflexivity. Qed.

Lemma case_repeat n m pa i o :
  repP (N.to_nat n) (N.to_nat m - N.to_nat n) pa i o -> blockP (PRep n m pa) i o.
Proof.
  intros IH b a k m0 r0 d Hb Hat Ht. cbn [cg] in *.
  set (nn := N.to_nat n) in *. set (kk := (N.to_nat m - nn)%nat) in *. set (la := len (cg pa)) in *.
  pose proof (at_cons _ _ _ _ _ Hat) as Hat1. rewrite app_cons_assoc in Hat1.
  pose proof (at_app_l _ _ _ _ _ Hat1) as HatS. pose proof (at_app_r _ _ _ _ _ Hat1) as HatC.
  set (c := a + la + 2). set (E := c + Z.of_nat nn + 3 * Z.of_nat kk).
  assert (HatN : at_ c (rep_calls nn (c - a) ++ rep_opts kk (c - a + Z.of_nat nn) (E - a))).
  { eapply at_eq; [| |exact HatC].
    - rewrite len_app, len_cons, len_nil. unfold c, la. lia.
    - unfold E, c. f_equal; f_equal; lia. }
  pose proof (IH b a c E k m0 r0 d Hb HatS HatN eq_refl) as O.
  assert (Start : forall res, runs_to (core b c i m0 k r0 d) res -> runs_to (core b a i m0 k r0 d) res).
  { intros res H. eapply run_instr; [exact Hb|eapply at_fetch_ti; exact Hat|apply exec_jump|].
    eapply runs_eq; [exact H|]. unfold c. seq. }
  destruct o as [j t f|f].
  - destruct O as (r1 & K1 & R1). exists r1. split; [exact K1|]. intros res H.
    apply Start, R1. eapply runs_eq; [exact H|]. unfold E, c, la. seq.
  - destruct O as (junk & a' & i' & c' & R1). exists junk, a', i', c'. intros res H.
    apply Start, R1. exact H.
Qed.

(* ------------------------------------------------------------------ the induction *)
Definition P (p : pexp) (i : N) (o : out) : Prop :=
  frag p = true -> blockP p i o /\ match p with PStar pa => loopP pa i o | _ => True end.
Definition P0 (n kk : nat) (pa : pexp) (i : N) (o : out) : Prop := frag pa = true -> repP n kk pa i o.

Lemma block_all :
  (forall p i o, peg p i o -> P p i o) /\ (forall n kk pa i o, peg_rep n kk pa i o -> P0 n kk pa i o).
Proof.
  apply (peg_mutind ucd inp G P P0); unfold P, P0.
  - (* empty *) intros i _. split; [apply case_empty|exact I].
  - (* term ok *) intros ins i j Ht Hm _. split; [apply case_term_ok; assumption|exact I].
  - (* term ko *) intros ins i Ht Hm _. split; [apply case_term_ko; assumption|exact I].
  - (* action *) intros id i _. split; [apply case_action|exact I].
  - (* seq ok *) intros pa pb i j t1 f1 j' t2 f2 _ IH1 _ IH2 Hf. cbn [frag] in Hf. apply andb_prop in Hf as [Hfa Hfb].
    split; [|exact I]. apply case_seq_ok with (j := j); [exact Hfb|exact (proj1 (IH1 Hfa))|exact (proj1 (IH2 Hfb))].
  - (* seq ko2 *) intros pa pb i j t1 f1 f2 _ IH1 _ IH2 Hf. cbn [frag] in Hf. apply andb_prop in Hf as [Hfa Hfb].
    split; [|exact I]. eapply case_seq_ko2; [exact Hfb|exact (proj1 (IH1 Hfa))|exact (proj1 (IH2 Hfb))].
  - (* seq ko1 *) intros pa pb i f1 _ IH1 Hf. cbn [frag] in Hf. apply andb_prop in Hf as [Hfa Hfb].
    split; [|exact I]. apply case_seq_ko1; [exact Hfb|exact (proj1 (IH1 Hfa))].
  - (* alt l *) intros pa pb i j t f _ IH1 Hf. cbn [frag] in Hf. apply andb_prop in Hf as [Hfa Hfb].
    split; [|exact I]. apply case_alt_l. exact (proj1 (IH1 Hfa)).
  - (* alt r ok *) intros pa pb i f1 j t f2 _ IH1 _ IH2 Hf. cbn [frag] in Hf. apply andb_prop in Hf as [Hfa Hfb].
    split; [|exact I]. exact (case_alt_r pa pb i f1 (Succ j t f2) (proj1 (IH1 Hfa)) (proj1 (IH2 Hfb))).
  - (* alt r ko *) intros pa pb i f1 f2 _ IH1 _ IH2 Hf. cbn [frag] in Hf. apply andb_prop in Hf as [Hfa Hfb].
    split; [|exact I]. exact (case_alt_r pa pb i f1 (Fail f2) (proj1 (IH1 Hfa)) (proj1 (IH2 Hfb))).
  - (* star more *) intros pa i j t1 f1 j' t2 f2 _ IH1 _ IH2 Hf. cbn [frag] in Hf.
    pose proof (case_star_more_loop pa i j t1 f1 j' t2 f2 (proj1 (IH1 Hf)) (proj2 (IH2 Hf))) as L.
    split; [apply star_block|]; exact L.
  - (* star done *) intros pa i f _ IH1 Hf. cbn [frag] in Hf.
    pose proof (case_star_done_loop pa i f (proj1 (IH1 Hf))) as L.
    split; [apply star_block|]; exact L.
  - (* not ok *) intros pa i f _ IH1 Hf. cbn [frag] in Hf. split; [|exact I]. apply case_not_ok. exact (proj1 (IH1 Hf)).
  - (* not ko *) intros pa i j t f _ IH1 Hf. cbn [frag] in Hf. split; [|exact I]. apply case_not_ko with (t := t) (j := j). exact (proj1 (IH1 Hf)).
  - (* and ok *) intros pa i j t f _ IH1 Hf. cbn [frag] in Hf. split; [|exact I]. apply case_and_ok with (j := j). exact (proj1 (IH1 Hf)).
  - (* and ko *) intros pa i f _ IH1 Hf. cbn [frag] in Hf. split; [|exact I]. apply case_and_ko. exact (proj1 (IH1 Hf)).
  - (* eoi ok *) intros i Hm _. split; [apply case_eoi_ok; exact Hm|exact I].
  - (* eoi ko *) intros i j Hm _. split; [apply case_eoi_ko; exact Hm|exact I].
  - (* repeat *) intros n m pa i o _ IH Hf. cbn [frag] in Hf. split; [|exact I]. apply case_repeat. exact (IH Hf).
  - (* call *) intros r prec mode body i o HG _ IH Hf. destruct (Hrules r body HG) as [Hfb _].
    split; [|exact I]. eapply case_call; [exact HG|exact (proj1 (IH Hfb))].
  - (* inline *) intros r body i o _ IH Hf. cbn [frag] in Hf. split; [exact (proj1 (IH Hf))|exact I].
  - (* skip *) intros sp i o _ IH Hf. cbn [frag] in Hf. split; [exact (proj1 (IH Hf))|exact I].
  - (* capture ok *) intros c pa i j t f Hpeg IH Hf. cbn [frag] in Hf. split; [|exact I].
    apply case_capture_ok; [exact (proj1 (peg_mono ucd inp G) _ _ _ Hpeg)|exact (proj1 (IH Hf))].
  - (* capture ko *) intros c pa i f _ IH Hf. cbn [frag] in Hf. split; [|exact I].
    apply case_capture_ko. exact (proj1 (IH Hf)).
  - (* rep done *) intros pa i _. apply case_rep_done.
  - (* rep must ok *) intros n kk pa i j t1 f1 o _ IH1 _ IH2 Hf. apply case_rep_must_ok with (j := j); [exact (proj1 (IH1 Hf))|exact (IH2 Hf)].
  - (* rep must ko *) intros n kk pa i f _ IH1 Hf. apply case_rep_must_ko. exact (proj1 (IH1 Hf)).
  - (* rep opt ok *) intros kk pa i j t1 f1 j' t2 f2 _ IH1 _ IH2 Hf. eapply case_rep_opt_ok; [exact (proj1 (IH1 Hf))|exact (IH2 Hf)].
  - (* rep opt stop *) intros kk pa i f _ IH1 Hf. apply case_rep_opt_stop. exact (proj1 (IH1 Hf)).
Qed.

End Block.

Theorem block_proof : stmt_block.
Proof.
  intros ucd cb prog addr inp G Htot Hrules p i o Hpeg Hfrag b a k m0 r0 d Hb Hat Ht.
  exact (proj1 (proj1 (block_all ucd cb prog addr inp G Htot Hrules) p i o Hpeg Hfrag) b a k m0 r0 d Hb Hat Ht).
Qed.

Print Assumptions block_proof.
