From Coq Require Import List Arith.
Search skipn.
