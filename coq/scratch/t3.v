From Coq Require Import NArith List. Import ListNotations.
From Lug Require Import Gen.UcdTables Ucd.Rle Ucd.Lookup Ucd.UcdSpec.
Local Open Scope N_scope.
Time Eval vm_compute in match decompress_table with Some t => (forall_cp t chk_annexC, forall_cp t chk_derived, forall_cp t chk_constants, forall_cp t (chk_block_aligned t), forall_cp t (chk_indices t)) | None => (false,false,false,false,false) end.
