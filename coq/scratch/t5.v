From Coq Require Import NArith List Bool Lia ZifyBool ZifyN PeanoNat.
From Lug Require Import Gen.Utf8Tables Utf8.Utf8Model Utf8.Utf8Spec Utf8.Utf8Stmts Utf8.Utf8Proofs.
Import ListNotations.
Local Open Scope N_scope.

Definition opt_eqb (o : option (nat * N)) (n : nat) (r : N) : bool :=
  match o with Some (n', r') => Nat.eqb n' n && (r' =? r) | None => false end.

Definition enc_chk (r : N) : bool :=
  if is_scalar r then
    let e := encode_rune r in
    snd e && Nat.eqb (length (fst e)) (utf8_len r) && forallb (fun b => b <? 256) (fst e) &&
    opt_eqb (wf_prefix (fst e)) (utf8_len r) r
  else true.

Lemma enc_sweep : range_check enc_chk 21 0 = true.
Proof. Time vm_compute. reflexivity. Time Qed.
