From Coq Require Import NArith List Bool Lia ZifyBool ZifyN.
Local Open Scope N_scope.
Goal forall a b, (a <? 128) = false -> ((194 <=? a) && (a <=? 223)) = true -> (b =? 3) = false -> (a - 192) * 64 + b <> 3 + 64* (a - 192) .
Proof. intros. lia. Qed.
