From Coq Require Import ZArith List Bool Arith Lia.
From Lug Require Import Attr.AttrModel Attr.AttrSpec Attr.AttrProofs.
From Lug Require Import scratch.c07shapes.
Import ListNotations.

Lemma chain_balanced : forall t d, fdepth (opsKb t) d = Some d.
Proof.
  induction t as [z|z t IHt]; intros d; cbn [opsKb fdepth].
  - reflexivity.
  - rewrite fdepth_app, IHt. reflexivity.
Qed.

Lemma chain_body : forall t st,
  post (opsKb t) st (fun st' =>
    vars st' k_acc = VInt (evK t) /\ results st' = results st /\ frames st' = frames st /\
    marks st' = marks st /\ (forall x, 1 < x -> vars st' x = vars st x)).
Proof.
  induction t as [z|z t IHt]; intros st; cbn [opsKb evK].
  - apply post_user. eapply post_assign; [reflexivity|]. apply post_user. apply post_nil.
    cbn. repeat split; try reflexivity.
    intros x Hx. unfold k_acc, k_c. rewrite !upd_other by lia. reflexivity.
  - apply post_user. eapply post_assign; [reflexivity|].
    apply post_bracket_popuser; [apply chain_balanced|].
    eapply post_conseq; [apply IHt|].
    intros st2 (Hacc & Hr & Hf & Hm & Hx) st3 Hin Hout Hf3 Hr3 Hm3.
    apply post_nil.
    assert (Hc : vars st3 k_c = VInt z).
    { rewrite Hin by (left; reflexivity). cbn. reflexivity. }
    assert (Ha : vars st3 k_acc = VInt (evK t)).
    { rewrite Hout by (cbn; unfold k_acc, k_c; lia). exact Hacc. }
    cbn [step_user u_bin vars frames results marks fst snd push_opt].
    split; [rewrite upd_same, Ha, Hc; reflexivity|].
    split; [rewrite Hr3, Hr; reflexivity|].
    split; [rewrite Hf3; reflexivity|].
    split; [rewrite Hm3, Hm; reflexivity|].
    intros x H1. rewrite upd_other by (unfold k_acc; lia).
    rewrite Hout by (cbn; unfold k_c; lia). rewrite Hx by exact H1.
    cbn. unfold k_c. rewrite upd_other by lia. reflexivity.
Qed.

Lemma C07_chain_proof : stmt_C07_chain.
Proof.
  intros t st. unfold opsK. apply post_app.
  eapply post_conseq; [apply chain_body|].
  intros st1 (Hacc & Hr & Hf & Hm & Hx). apply post_user. apply post_nil.
  cbn. rewrite Hacc, Hr. auto.
Qed.
