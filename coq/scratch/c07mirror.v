From Coq Require Import ZArith List Bool Arith Lia.
From Lug Require Import Attr.AttrModel Attr.AttrSpec Attr.AttrProofs.
From Lug Require Import scratch.c07shapes.
Import ListNotations.

Lemma post_synth : forall n mk rest st args rs Q,
  results st = rev args ++ rs -> length args = n ->
  post rest (mkSt (vars st) (frames st) (mk args :: rs) (marks st)) Q ->
  post (ASynth n mk :: rest) st Q.
Proof.
  intros n mk rest st args rs Q Hr Hl H. eapply post_cons; [|exact H].
  cbn [step]. rewrite Hr.
  assert (Hlen : length (rev args) = n) by (rewrite rev_length; exact Hl).
  destruct (Nat.ltb_spec (length (rev args ++ rs)) n) as [Hlt|_]; [rewrite app_length in Hlt; lia|].
  rewrite firstn_app, skipn_app, Hlen, Nat.sub_diag. cbn [firstn skipn].
  rewrite <- Hlen, firstn_all, skipn_all, app_nil_r, rev_involutive. reflexivity.
Qed.

Lemma mirror_balanced : forall t d, fdepth (opsM t) d = Some d.
Proof.
  induction t as [z|a IHa b IHb]; intros d; cbn [opsM fdepth].
  - reflexivity.
  - rewrite fdepth_app, IHa. cbn [obind fdepth]. rewrite fdepth_app, IHb. reflexivity.
Qed.

Lemma C07_mirror_proof : stmt_C07_mirror.
Proof.
  intros t. induction t as [z|a IHa b IHb]; intros st; cbn [opsM evM].
  - apply post_user. apply (post_synth 1 VList [] _ [VInt z] (results st)); [reflexivity | reflexivity|].
    apply post_nil. cbn. auto.
  - apply post_app. eapply post_conseq; [apply IHa|].
    intros st1 (Hr1 & Hf1 & Hm1 & Hx1).
    eapply post_assign; [exact Hr1|].
    apply post_bracket_popassign; [apply mirror_balanced|].
    eapply post_conseq; [apply IHb|].
    intros st2 (Hr2 & Hf2 & Hm2 & Hx2).
    exists (evM b), (results st). split; [exact Hr2|].
    intros st3 Hb Hin Hout Hf3 Hr3 Hm3.
    assert (Ha : vars st3 m_a = evM a).
    { rewrite Hin; [|unfold m_a, m_b; lia|left; reflexivity]. cbn. reflexivity. }
    apply post_user. apply post_user.
    apply (post_synth 2 VList [] _ [evM b; evM a] (results st)).
    + cbn. rewrite Ha, Hb, Hr3. reflexivity.
    + reflexivity.
    + apply post_nil. cbn.
      split; [reflexivity|]. split; [rewrite Hf3; cbn; exact Hf1|]. split; [rewrite Hm3, Hm2; cbn; exact Hm1|].
      intros x H1. rewrite Hout; [|unfold m_b; lia|cbn; unfold m_a; lia].
      rewrite Hx2 by exact H1. cbn. rewrite upd_other by (unfold m_a; lia). apply Hx1; exact H1.
Qed.
