From Coq Require Import ZArith List Bool Arith Lia.
From Lug Require Import Attr.AttrModel Attr.AttrSpec Attr.AttrProofs.
Import ListNotations.

(* ------------------------------------------------------------------ (c) a small program logic *)

Definition post (ops : list aop) (st : astate) (Q : astate -> Prop) : Prop :=
  exists st', exec ops st = Some st' /\ Q st'.

Lemma post_nil : forall st (Q : astate -> Prop), Q st -> post [] st Q.
Proof. intros st Q H. exists st. split; [reflexivity | exact H]. Qed.

Lemma post_cons : forall op rest st st1 Q,
  step op st = Some st1 -> post rest st1 Q -> post (op :: rest) st Q.
Proof.
  intros op rest st st1 Q Hs (st' & He & HQ). exists st'. split; [|exact HQ].
  cbn [exec]. rewrite Hs. exact He.
Qed.

Lemma post_app : forall a b st Q, post a st (fun st1 => post b st1 Q) -> post (a ++ b) st Q.
Proof.
  intros a b st Q (st1 & Ha & st' & Hb & HQ). exists st'. split; [|exact HQ].
  rewrite exec_app, Ha. exact Hb.
Qed.

Lemma post_conseq : forall ops st (Q Q' : astate -> Prop),
  post ops st Q -> (forall s, Q s -> Q' s) -> post ops st Q'.
Proof. intros ops st Q Q' (st' & He & HQ) Himp. exists st'. split; [exact He | apply Himp; exact HQ]. Qed.

Lemma post_user : forall id f rest st Q,
  post rest (step_user f st) Q -> post (AUser id f :: rest) st Q.
Proof. intros id f rest st Q H. apply (post_cons _ _ _ (step_user f st)); [reflexivity | exact H]. Qed.

Lemma post_assign : forall x rest st v rs Q,
  results st = v :: rs ->
  post rest (mkSt (upd (vars st) x v) (frames st) rs (marks st)) Q -> post (AAssign x :: rest) st Q.
Proof.
  intros x rest st v rs Q Hr H. eapply post_cons; [|exact H].
  cbn [step]. unfold step_assign. rewrite Hr. reflexivity.
Qed.

(* push V; body; pop V -- the three forms the encoder emits.  All three rest on C07_frame_locality (via
   bracket_core): the continuation only learns that the variables of V are what they were before the push. *)
Lemma post_bracket_pop : forall V body rest st Q,
  balanced body ->
  post body (step_push_frame V st) (fun st2 =>
    forall st3, (forall y, In y V -> vars st3 y = vars st y) ->
                (forall y, ~ In y V -> vars st3 y = vars st2 y) ->
                frames st3 = frames st -> results st3 = results st2 -> marks st3 = marks st2 ->
                post rest st3 Q) ->
  post (APushFrame V :: body ++ APopFrame V :: rest) st Q.
Proof.
  intros V body rest st Q Hb (st2 & Hbody & Hk).
  destruct (bracket_core V body st st2 Hb Hbody) as (st3 & Hpop & Hin & Hout & Hf & Hr & Hm).
  destruct (Hk st3 Hin Hout Hf Hr Hm) as (st' & He & HQ).
  exists st'. split; [|exact HQ].
  cbn [exec step]. rewrite exec_app, Hbody. cbn [obind exec step]. rewrite Hpop. exact He.
Qed.

Lemma post_bracket_popassign : forall V x body rest st Q,
  balanced body ->
  post body (step_push_frame V st) (fun st2 =>
    exists v rs, results st2 = v :: rs /\
    forall st3, vars st3 x = v ->
                (forall y, y <> x -> In y V -> vars st3 y = vars st y) ->
                (forall y, y <> x -> ~ In y V -> vars st3 y = vars st2 y) ->
                frames st3 = frames st -> results st3 = rs -> marks st3 = marks st2 ->
                post rest st3 Q) ->
  post (APushFrame V :: body ++ APopAssign V x :: rest) st Q.
Proof.
  intros V x body rest st Q Hb (st2 & Hbody & v & rs & Hres & Hk).
  destruct (bracket_core V body st st2 Hb Hbody) as (st3 & Hpop & Hin & Hout & Hf & Hr & Hm).
  set (st4 := mkSt (upd (vars st3) x v) (frames st3) rs (marks st3)).
  destruct (Hk st4) as (st' & He & HQ).
  - apply upd_same.
  - intros y Hne Hy. cbn [st4 vars]. rewrite upd_other by exact Hne. apply Hin; exact Hy.
  - intros y Hne Hy. cbn [st4 vars]. rewrite upd_other by exact Hne. apply Hout; exact Hy.
  - exact Hf.
  - reflexivity.
  - exact Hm.
  - exists st'. split; [|exact HQ].
    cbn [exec step]. rewrite exec_app, Hbody. cbn [obind exec step]. rewrite Hpop. cbn [obind].
    unfold step_assign. rewrite Hr, Hres. exact He.
Qed.

Lemma post_bracket_popuser : forall V id f body rest st Q,
  balanced body ->
  post body (step_push_frame V st) (fun st2 =>
    forall st3, (forall y, In y V -> vars st3 y = vars st y) ->
                (forall y, ~ In y V -> vars st3 y = vars st2 y) ->
                frames st3 = frames st -> results st3 = results st2 -> marks st3 = marks st2 ->
                post rest (step_user f st3) Q) ->
  post (APushFrame V :: body ++ APopUser V id f :: rest) st Q.
Proof.
  intros V id f body rest st Q Hb (st2 & Hbody & Hk).
  destruct (bracket_core V body st st2 Hb Hbody) as (st3 & Hpop & Hin & Hout & Hf & Hr & Hm).
  destruct (Hk st3 Hin Hout Hf Hr Hm) as (st' & He & HQ).
  exists st'. split; [|exact HQ].
  cbn [exec step]. rewrite exec_app, Hbody. cbn [obind exec step]. rewrite Hpop. cbn [obind]. exact He.
Qed.
