
(* ------------------------------------------------------------------------------------------------ *)
(* Characterisation of decode_rune against the specification                                         *)
(* ------------------------------------------------------------------------------------------------ *)

Lemma decode_char s : bytes_ok s ->
  match wf_prefix s with
  | Some (n, r) => decode_rune s = (n, r)
  | None => snd (decode_rune s) = 65533
  end.
Proof.
  intros Hok. destruct s as [|b1 t]; [reflexivity|].
  inversion Hok as [|? ? Hb1 Ht]; subst.
  pose proof (first_ok b1 Hb1) as F. unfold first_chk in F.
  unfold decode_rune, wf_prefix. change st_accept with 0.
  destruct (b1 <? 128) eqn:E1.
  { apply andb_true_iff in F. destruct F as [F1 F2]. apply N.eqb_eq in F1, F2.
    rewrite (loop_acc0 _ _ _ _ F1), F2. reflexivity. }
  destruct (in_range b1 194 223) eqn:E2.
  { apply andb_true_iff in F. destruct F as [F1 F2]. apply N.eqb_eq in F1, F2.
    assert (Hna : na (nxt 0 b1) = true) by (rewrite F1; reflexivity).
    rewrite (loop_cont0 _ _ _ _ Hna), F1, F2.
    assert (Hr : b1 - 192 < 67108864) by lia.
    pose proof (tail1 t (b1 - 192) 1 Ht Hr) as T.
    destruct t as [|b2 t2]; [exact T|].
    destruct (is_cont b2); exact T. }
  destruct (in_range b1 224 239) eqn:E3.
  { apply andb_true_iff in F. destruct F as [F F2]. apply andb_true_iff in F. destruct F as [Hna F1].
    apply N.eqb_eq in F2.
    rewrite (loop_cont0 _ _ _ _ Hna), F2.
    destruct t as [|b2 t2]; [reflexivity|].
    inversion Ht as [|? ? Hb2 Ht2]; subst.
    pose proof (second_ok b1 b2 Hb1 Hb2) as S2. unfold second_chk in S2. rewrite E3 in S2.
    apply N.eqb_eq in S2.
    destruct (in_range b2 (lo2 b1) (hi2 b1)) eqn:E4.
    - assert (Hna2 : na (nxt (nxt 0 b1) b2) = true) by (rewrite S2; reflexivity).
      pose proof (range2_cont _ _ E4) as Hc2.
      rewrite (loop_contK _ _ _ _ _ Hna Hna2), S2, runeK_cont by (assumption || lia).
      assert (Hr : (b1 - 224) * 64 + (b2 - 128) < 67108864) by lia.
      pose proof (tail1 t2 _ 2 Ht2 Hr) as T.
      destruct t2 as [|b3 t3]; [exact T|]. cbn [andb].
      destruct (is_cont b3); [|exact T]. rewrite T. f_equal. lia.
    - rewrite (loop_rejK _ _ _ _ _ Hna S2).
      destruct t2 as [|b3 t3]; reflexivity. }
  destruct (in_range b1 240 244) eqn:E5.
  { apply andb_true_iff in F. destruct F as [F F2]. apply andb_true_iff in F. destruct F as [Hna F1].
    apply N.eqb_eq in F2.
    rewrite (loop_cont0 _ _ _ _ Hna), F2.
    destruct t as [|b2 t2]; [reflexivity|].
    inversion Ht as [|? ? Hb2 Ht2]; subst.
    pose proof (second_ok b1 b2 Hb1 Hb2) as S2. unfold second_chk in S2. rewrite E3, E5 in S2.
    apply N.eqb_eq in S2.
    destruct (in_range b2 (lo2 b1) (hi2 b1)) eqn:E4.
    - assert (Hna2 : na (nxt (nxt 0 b1) b2) = true) by (rewrite S2; reflexivity).
      pose proof (range2_cont _ _ E4) as Hc2.
      rewrite (loop_contK _ _ _ _ _ Hna Hna2), S2, runeK_cont by (assumption || lia).
      assert (Hr : (b1 - 240) * 64 + (b2 - 128) < 1048576) by lia.
      pose proof (tail2 t2 _ 2 Ht2 Hr) as T.
      destruct t2 as [|b3 [|b4 t4]]; [exact T|exact T|]. cbn [andb].
      destruct (is_cont b3 && is_cont b4); [|exact T]. rewrite T. f_equal. lia.
    - rewrite (loop_rejK _ _ _ _ _ Hna S2).
      destruct t2 as [|b3 [|b4 t4]]; reflexivity. }
  apply N.eqb_eq in F. rewrite (loop_rej0 _ _ _ _ F). reflexivity.
Qed.

Lemma C13_decode_wellformed_proof : stmt_C13_decode_wellformed.
Proof.
  intros s n r Hok Hwf. pose proof (decode_char s Hok) as H. rewrite Hwf in H. exact H.
Qed.

Lemma C13_ascii_proof : stmt_C13_ascii.
Proof.
  intros b rest Hb. assert (Hb' : b < 256) by lia.
  pose proof (first_ok b Hb') as F. unfold first_chk in F.
  assert (E : (b <? 128) = true) by lia. rewrite E in F.
  apply andb_true_iff in F. destruct F as [F1 F2]. apply N.eqb_eq in F1, F2.
  unfold decode_rune. change st_accept with 0. rewrite (loop_acc0 _ _ _ _ F1), F2. reflexivity.
Qed.
