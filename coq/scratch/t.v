From Coq Require Import NArith List. Import ListNotations.
From Lug Require Import Utf8.Utf8Model Utf8.Utf8Spec.
Local Open Scope N_scope.
Eval vm_compute in map decode_rune [[195;97];[195;195;169];[224;128;128;97];[128;128;97];[195;169;1];[240;159;152;128];[237;160;128];[244;144;128;128];[226;130];[97]].
Eval vm_compute in map wf_prefix [[195;97];[195;195;169];[224;128;128;97];[128;128;97];[195;169;1];[240;159;152;128];[237;160;128];[244;144;128;128];[226;130];[97]].
Eval vm_compute in map encode_rune [65;233;8364;128512;55296;1114112;65533].
Eval vm_compute in count_runes [195;97;226;130;172;128;128].
