From Coq Require Import NArith List Bool.
From Lug Require Import Ucd.Lookup Pos.PosModel Pos.PosSpec.
Import ListNotations.
Local Open Scope N_scope.
Definition go (h : list hop) := match decompress_table with Some t => (option_map snd (run t (init_state 8 8) (lower [] true h)), expected t 8 8 [] [] true h) | None => (None, []) end.
Eval vm_compute in go [HText [97;13;10;98]; HQuery 4].
Eval vm_compute in go [HText [97;13;10;98]; HQuery 3].
Eval vm_compute in go [HText [97;13;10;98]; HQuery 2; HQuery 4].
Eval vm_compute in go [HText [97;13]; HDrain; HText [10;98]; HQuery 2].
Eval vm_compute in go [HText [97;9;4352;768;133;98]; HQuery 6; HQuery 4; HQuery 2;HQuery 3].
