From Coq Require Import ZArith List Bool Arith Lia.
From Lug Require Import Attr.AttrModel Attr.AttrSpec Attr.AttrProofs.
From Lug Require Import scratch.c07shapes.
Import ListNotations.

Ltac simp_st := cbn [vars frames results marks step_user step_push_frame u_ret u_push u_bin u_copy u_nest fst snd push_opt].

Ltac simp_in H := cbn [vars frames results marks step_user step_push_frame u_ret u_push u_bin u_copy u_nest fst snd push_opt] in H.

Scheme lseq_mind := Induction for lseq Sort Prop
with litem_mind := Induction for litem Sort Prop.
Combined Scheme list_mutind from lseq_mind, litem_mind.

Lemma post_collect_finish : forall mk rest st vs rs ms Q,
  results st = rev vs ++ rs -> marks st = length rs :: ms ->
  post rest (mkSt (vars st) (frames st) (mk vs :: rs) ms) Q ->
  post (ACollectFinish 1 mk :: rest) st Q.
Proof.
  intros mk rest st vs rs ms Q Hr Hm H. eapply post_cons; [|exact H].
  cbn [step]. rewrite Hm, Hr, app_length.
  replace (length (rev vs) + length rs - length rs) with (length (rev vs)) by lia.
  destruct (Nat.ltb_spec (length (rev vs) + length rs) (length rs)) as [Hlt|_]; [lia|].
  rewrite Nat.mod_1_r. cbn [orb Nat.eqb negb].
  rewrite firstn_app, skipn_app, Nat.sub_diag, firstn_all, skipn_all. cbn [firstn skipn].
  rewrite app_nil_r, rev_involutive. reflexivity.
Qed.

Lemma zlist_ints : forall l, zlist (VList (map VInt l)) = l.
Proof.
  intros l. cbn [zlist]. induction l as [|z l IHl]; cbn [map zof]; [reflexivity | rewrite IHl; reflexivity].
Qed.

Lemma list_balanced :
  (forall s d, fdepth (opsS s) d = Some d) /\
  (forall i d, fdepth (opsI i) d = Some d).
Proof.
  apply list_mutind.
  - intros i IHi d. cbn [opsS]. rewrite fdepth_app, IHi. reflexivity.
  - intros i IHi s IHs d. cbn [opsS]. rewrite fdepth_app, IHi. cbn [obind fdepth].
    rewrite fdepth_app, IHs. reflexivity.
  - intros z d. reflexivity.
  - intros s IHs k IHk d. cbn [opsI fdepth]. rewrite fdepth_app, IHs. cbn [obind fdepth].
    rewrite fdepth_app, IHk. reflexivity.
Qed.

Definition list_keeps (st s : astate) : Prop :=
  frames s = frames st /\ marks s = marks st /\ (forall y, 2 < y -> vars s y = vars st y).

Lemma list_main :
  (forall s st, post (opsS s) st (fun s' => results s' = rev (map VInt (evS s)) ++ results st /\ list_keeps st s')) /\
  (forall i st, post (opsI i) st (fun s' => results s' = VInt (evI i) :: results st /\ list_keeps st s')).
Proof.
  apply list_mutind.
  - (* LOne *)
    intros i IHi st. cbn [opsS evS]. apply post_app.
    eapply post_conseq; [apply IHi|].
    intros s1 (Hr1 & Hf1 & Hm1 & Hx1).
    eapply post_assign; [exact Hr1|]. apply post_user. apply post_nil.
    unfold list_keeps; simp_st.
    split; [rewrite upd_same; reflexivity|]. split; [exact Hf1|]. split; [exact Hm1|].
    intros y Hy. rewrite upd_other by (unfold l_x; lia). apply Hx1; exact Hy.
  - (* LCons *)
    intros i IHi s IHs st. cbn [opsS evS]. apply post_app.
    eapply post_conseq; [apply IHi|].
    intros s1 (Hr1 & Hf1 & Hm1 & Hx1).
    eapply post_assign; [exact Hr1|].
    apply post_bracket_pop; [apply (proj1 list_balanced)|].
    eapply post_conseq; [apply IHs|].
    intros s2 (Hr2 & Hf2 & Hm2 & Hx2) s3 Hin Hout Hf3 Hr3 Hm3.
    apply post_user. apply post_nil.
    unfold list_keeps; simp_st.
    split.
    { rewrite Hin by (left; reflexivity). simp_st. rewrite upd_same, Hr3, Hr2. simp_st.
      rewrite map_app, rev_app_distr. reflexivity. }
    split; [rewrite Hf3; exact Hf1|].
    split; [rewrite Hm3, Hm2; exact Hm1|].
    intros y Hy. rewrite Hout by (cbn; unfold l_x; lia). rewrite Hx2 by exact Hy. simp_st.
    rewrite upd_other by (unfold l_x; lia). apply Hx1; exact Hy.
  - (* LNum *)
    intros z st. cbn [opsI evI]. apply post_user. apply post_nil.
    unfold list_keeps; simp_st. auto.
  - (* LNest *)
    intros s IHs k IHk st. cbn [opsI evI].
    eapply post_cons; [reflexivity|]. apply post_app.
    eapply post_conseq; [apply IHs|].
    intros s1 (Hr1 & Hf1 & Hm1 & Hx1). simp_in Hr1. simp_in Hf1. simp_in Hm1. simp_in Hx1.
    eapply post_collect_finish; [exact Hr1 | exact Hm1|].
    eapply post_assign; [reflexivity|].
    apply post_bracket_popassign; [apply (proj2 list_balanced)|].
    eapply post_conseq; [apply IHk|].
    intros s2 (Hr2 & Hf2 & Hm2 & Hx2).
    exists (VInt (evI k)), (results st). split; [exact Hr2|].
    intros s3 Hv Hin Hout Hf3 Hr3 Hm3.
    apply post_user. apply post_nil.
    assert (Hxs : vars s3 l_xs = VList (map VInt (evS s))).
    { rewrite Hin; [|unfold l_xs, l_k; lia|left; reflexivity]. simp_st. apply upd_same. }
    unfold list_keeps; simp_st.
    split; [rewrite Hxs, Hv, zlist_ints, Hr3; reflexivity|].
    split; [rewrite Hf3; exact Hf1|].
    split; [rewrite Hm3, Hm2; reflexivity|].
    intros y Hy. rewrite Hout; [|unfold l_k; lia|cbn; unfold l_xs; lia].
    rewrite Hx2 by exact Hy. simp_st. rewrite upd_other by (unfold l_xs; lia). apply Hx1; exact Hy.
Qed.

Lemma C07_list_proof : stmt_C07_list.
Proof.
  intros i st. destruct (proj2 list_main i st) as (st' & He & Hr & Hf & Hm & Hx). exists st'. auto.
Qed.

Lemma C07_list_seq_proof : stmt_C07_list_seq.
Proof.
  intros s st. destruct (proj1 list_main s st) as (st' & He & Hr & Hf & Hm & Hx). exists st'. auto.
Qed.
