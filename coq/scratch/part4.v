
(* ------------------------------------------------------------------------------------------------ *)
(* Progress, and what an ill-formed sequence swallows                                                *)
(* ------------------------------------------------------------------------------------------------ *)

Lemma skip_trail_inv l : bytes_ok l ->
  (skip_trail l <= length l)%nat /\
  forall j, (j < skip_trail l)%nat -> is_cont (nth j l 0) = true.
Proof.
  induction l as [|b r IH]; intros Hok.
  - split; [apply Nat.le_refl|]. intros j Hj. cbn in Hj. lia.
  - inversion Hok as [|? ? Hb Hr]; subst. destruct (IH Hr) as [IH1 IH2].
    cbn [skip_trail length]. destruct (cont_facts b Hb) as (_ & _ & E & _). rewrite E.
    destruct (is_cont b) eqn:Ec; cbn [negb].
    + split; [lia|]. intros j Hj. destruct j as [|j]; [exact Ec|]. cbn [nth]. apply IH2. lia.
    + split; [lia|]. intros j Hj. lia.
Qed.

Lemma loop_inv l : forall rune st c, bytes_ok l -> na st = true ->
  (c <= fst (decode_loop l rune st c) <= c + length l)%nat /\
  forall j, (j < fst (decode_loop l rune st c) - c)%nat -> is_cont (nth j l 0) = true.
Proof.
  induction l as [|b r IH]; intros rune st c Hok Hst.
  - rewrite loop_nil. cbn [fst length]. split; [lia|]. intros j Hj. lia.
  - inversion Hok as [|? ? Hb Hr]; subst.
    destruct (cont_facts b Hb) as (_ & _ & _ & _ & Htri & Hcont).
    specialize (Htri st Hst). specialize (Hcont st Hst).
    destruct Htri as [H0|[H12|Hna]].
    + rewrite (loop_accK _ _ _ _ _ Hst H0). cbn [fst length]. split; [lia|].
      intros j Hj. assert (j = O) by lia. subst j. cbn [nth]. apply Hcont. lia.
    + rewrite (loop_rejK _ _ _ _ _ Hst H12). cbn [fst].
      destruct (skip_trail_inv (b :: r) Hok) as [S1 S2]. split; [lia|].
      intros j Hj. apply S2. lia.
    + rewrite (loop_contK _ _ _ _ _ Hst Hna).
      destruct (IH (runeK rune b) (nxt st b) (S c) Hr Hna) as [I1 I2].
      cbn [length]. split; [lia|].
      intros j Hj. destruct j as [|j].
      * cbn [nth]. apply Hcont. pose proof (na_not12 _ Hna). lia.
      * cbn [nth]. apply I2. lia.
Qed.

Lemma first_tri b : b < 256 -> nxt 0 b = 0 \/ nxt 0 b = 12 \/ na (nxt 0 b) = true.
Proof.
  intros Hb. pose proof (first_ok b Hb) as F. unfold first_chk in F.
  destruct (b <? 128).
  { apply andb_true_iff in F. destruct F as [F _]. apply N.eqb_eq in F. auto. }
  destruct (in_range b 194 223).
  { apply andb_true_iff in F. destruct F as [F _]. apply N.eqb_eq in F.
    right; right. rewrite F. reflexivity. }
  destruct (in_range b 224 239).
  { apply andb_true_iff in F. destruct F as [F _]. apply andb_true_iff in F. destruct F as [F _]. auto. }
  destruct (in_range b 240 244).
  { apply andb_true_iff in F. destruct F as [F _]. apply andb_true_iff in F. destruct F as [F _]. auto. }
  apply N.eqb_eq in F. auto.
Qed.

Lemma decode_rune_inv s : bytes_ok s -> s <> [] ->
  (1 <= fst (decode_rune s) <= length s)%nat /\
  forall j, (1 <= j < fst (decode_rune s))%nat -> is_cont (nth j s 0) = true.
Proof.
  intros Hok Hne. destruct s as [|b t]; [contradiction|].
  inversion Hok as [|? ? Hb Ht]; subst.
  unfold decode_rune. change st_accept with 0. cbn [length].
  destruct (first_tri b Hb) as [H0|[H12|Hna]].
  - rewrite (loop_acc0 _ _ _ _ H0). cbn [fst]. split; [lia|]. intros j Hj. lia.
  - rewrite (loop_rej0 _ _ _ _ H12). cbn [fst].
    destruct (skip_trail_inv t Ht) as [S1 S2]. split; [lia|].
    intros j Hj. destruct j as [|j]; [lia|]. cbn [nth]. apply S2. lia.
  - rewrite (loop_cont0 _ _ _ _ Hna).
    destruct (loop_inv t (rune0 b) (nxt 0 b) 1 Ht Hna) as [I1 I2]. split; [lia|].
    intros j Hj. destruct j as [|j]; [lia|]. cbn [nth]. apply I2. lia.
Qed.

Lemma C13_progress_proof : stmt_C13_progress.
Proof. intros s Hok Hne. apply (decode_rune_inv s Hok Hne). Qed.

Lemma skipn_nth (s : list N) : forall j, (j < length s)%nat ->
  skipn j s = nth j s 0 :: skipn (S j) s.
Proof.
  induction s as [|b r IH]; intros j Hj.
  - cbn in Hj. lia.
  - destruct j as [|j]; [reflexivity|]. cbn [length] in Hj.
    change (skipn (S j) (b :: r)) with (skipn j r). change (nth (S j) (b :: r) 0) with (nth j r 0).
    rewrite (IH j) by lia. reflexivity.
Qed.

Lemma wf_prefix_cont x l : is_cont x = true -> wf_prefix (x :: l) = None.
Proof.
  intros Hc. unfold is_cont, in_range in Hc. unfold wf_prefix, in_range.
  assert (E1 : (x <? 128) = false) by lia. rewrite E1.
  assert (E2 : ((194 <=? x) && (x <=? 223)) = false) by lia. rewrite E2.
  assert (E3 : ((224 <=? x) && (x <=? 239)) = false) by lia. rewrite E3.
  assert (E4 : ((240 <=? x) && (x <=? 244)) = false) by lia. rewrite E4.
  reflexivity.
Qed.

Lemma C13_decode_illformed_proof : stmt_C13_decode_illformed.
Proof.
  intros s Hok Hne Hwf.
  pose proof (decode_char s Hok) as Hc. rewrite Hwf in Hc.
  destruct (decode_rune_inv s Hok Hne) as [I1 I2].
  split; [exact Hc|]. split; [exact I1|].
  intros j Hj. rewrite skipn_nth by lia. apply wf_prefix_cont. apply I2. exact Hj.
Qed.
