From Coq Require Import NArith List Bool Lia ZifyBool ZifyN PeanoNat.
From Lug Require Import Gen.Utf8Tables Utf8.Utf8Model Utf8.Utf8Spec Utf8.Utf8Stmts Utf8.Utf8Proofs.
Import ListNotations.
Local Open Scope N_scope.

Lemma lor_low x r : x < 64 -> N.lor x (N.shiftl r 6) = r * 64 + x.
Proof.
  intros Hx.
  assert (Hd : N.land x (N.shiftl r 6) = 0).
  { rewrite <- (N.mod_small x (2 ^ 6)) by (change (2 ^ 6) with 64; lia).
    rewrite <- N.land_ones, <- N.land_assoc, (N.land_comm (N.ones 6)), N.land_ones.
    rewrite N.shiftl_mul_pow2, N.mod_mul by (change (2 ^ 6) with 64; lia).
    apply N.land_0_r. }
  rewrite <- N.lxor_lor by exact Hd.
  rewrite <- N.add_nocarry_lxor by exact Hd.
  rewrite N.shiftl_mul_pow2. change (2 ^ 6) with 64. lia.
Qed.

Lemma runeK_cont rune b : b < 256 -> is_cont b = true -> rune < 67108864 ->
  runeK rune b = rune * 64 + (b - 128).
Proof.
  intros Hb Hc Hr. unfold runeK.
  pose proof (cont_ok b Hb) as H. unfold cont_chk in H. rewrite Hc in H.
  repeat (apply andb_true_iff in H; destruct H as [H ?]).
  match goal with H : (N.land b 63 =? b - 128) = true |- _ => apply N.eqb_eq in H; rewrite H end.
  unfold is_cont, in_range in Hc.
  rewrite lor_low by lia. apply N.mod_small. unfold two32. lia.
Qed.
