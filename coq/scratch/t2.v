From Coq Require Import NArith List. Import ListNotations.
From Lug Require Import Ucd.RuneSet Ucd.RuneSetSpec.
Local Open Scope N_scope.
Definition s1 := mkset [(200,300);(250,400);(128,130);(500,500);(131,140)] 5.
Eval vm_compute in sort_and_optimize s1.
Eval vm_compute in negate (sort_and_optimize s1).
Eval vm_compute in map (fun r => (contains (negate (sort_and_optimize s1)) r, negb (contains (sort_and_optimize s1) r))) [0;1;2;127;128;130;131;140;141;199;200;400;401;499;500;501;4294967295].
