From Coq Require Import NArith ZArith List Bool.
From Lug Require Import Gen.UcdTables Ucd.Lookup Ucd.RuneSet VM.Instr Lang.Elab Lang.Codegen VM.Machine Spec.Peg Proofs.BlockDefs.
Import ListNotations.
Section CX.
Variable ucd : ucd_table.
Variable cb : callbacks.
Definition prog := [IJump 1; IRet; IRet].
Definition b0 := init_state [] [] false [] [].
Definition k0 := [FRaise [] 0%N 0%N None 2%Z].
Definition sstart := core b0 0 0 0 k0 [] 0.
Definition send := core b0 1 0 0 k0 [] 0.
Eval cbv in (run ucd cb prog 5 sstart).
Eval cbv in (run ucd cb prog 5 send).
End CX.
