From Coq Require Import ZArith List Bool Arith Lia.
From Lug Require Import Attr.AttrModel Attr.AttrSpec Attr.AttrProofs.
From Lug Require Import scratch.c07shapes.
Import ListNotations.

Scheme cexpr_mind := Induction for cexpr Sort Prop
with cterm_mind := Induction for cterm Sort Prop
with cfac_mind := Induction for cfac Sort Prop.
Combined Scheme calc_mutind from cexpr_mind, cterm_mind, cfac_mind.

Lemma calc_balanced :
  (forall e d, fdepth (opsEb e) d = Some d) /\
  (forall t d, fdepth (opsTb t) d = Some d) /\
  (forall f d, fdepth (opsF f) d = Some d).
Proof.
  apply calc_mutind.
  - intros t IHt d. cbn [opsEb]. rewrite !fdepth_app, IHt. reflexivity.
  - intros e IHe t IHt d. cbn [opsEb]. rewrite fdepth_app, IHe. cbn [obind fdepth].
    rewrite !fdepth_app, IHt. reflexivity.
  - intros e IHe t IHt d. cbn [opsEb]. rewrite fdepth_app, IHe. cbn [obind fdepth].
    rewrite !fdepth_app, IHt. reflexivity.
  - intros f IHf d. cbn [opsTb]. rewrite fdepth_app, IHf. reflexivity.
  - intros t IHt f IHf d. cbn [opsTb]. rewrite fdepth_app, IHt. cbn [obind fdepth].
    rewrite fdepth_app, IHf. reflexivity.
  - intros k d. reflexivity.
  - intros e IHe d. cbn [opsF fdepth]. rewrite !fdepth_app, IHe. reflexivity.
Qed.

Ltac simp_st := cbn [vars frames results marks step_user step_push_frame u_ret u_push u_bin u_copy fst snd push_opt].

Definition calc_keeps (st s : astate) : Prop :=
  frames s = frames st /\ marks s = marks st /\ (forall y, 3 < y -> vars s y = vars st y).

Lemma ret_wrap : forall body id x z st,
  post body st (fun s => vars s x = VInt z /\ results s = results st /\ calc_keeps st s) ->
  post (body ++ [AUser id (u_ret x)]) st (fun s => results s = VInt z :: results st /\ calc_keeps st s).
Proof.
  intros body id x z st H. apply post_app. eapply post_conseq; [exact H|].
  intros s (Hx & Hr & Hk). apply post_user. apply post_nil.
  simp_st. rewrite Hx, Hr. split; [reflexivity | exact Hk].
Qed.

Lemma calc_main :
  (forall e st, post (opsEb e) st (fun s => vars s c_l = VInt (evE e) /\ results s = results st /\ calc_keeps st s)) /\
  (forall t st, post (opsTb t) st (fun s => vars s c_l = VInt (evT t) /\ results s = results st /\ calc_keeps st s)) /\
  (forall f st, post (opsF f) st (fun s => results s = VInt (evF f) :: results st /\ calc_keeps st s)).
Proof.
  apply calc_mutind.
  - (* CTerm *)
    intros t IHt st. cbn [opsEb evE]. apply post_app.
    eapply post_conseq; [apply ret_wrap, IHt|].
    intros s1 (Hr1 & Hf1 & Hm1 & Hx1).
    eapply post_assign; [exact Hr1|]. apply post_nil. simp_st.
    split; [apply upd_same|]. split; [reflexivity|]. split; [exact Hf1|]. split; [exact Hm1|].
    intros y Hy. simp_st. rewrite upd_other by (unfold c_l; lia). apply Hx1; exact Hy.
  - (* CAdd *)
    intros e IHe t IHt st. cbn [opsEb evE]. apply post_app.
    eapply post_conseq; [apply IHe|].
    intros s1 (Hl1 & Hr1 & Hf1 & Hm1 & Hx1).
    apply post_bracket_popassign.
    { unfold balanced. rewrite fdepth_app, (proj1 (proj2 calc_balanced)). reflexivity. }
    eapply post_conseq; [apply ret_wrap, IHt|].
    intros s2 (Hr2 & Hf2 & Hm2 & Hx2).
    exists (VInt (evT t)), (results s1). split; [exact Hr2|].
    intros s3 Hv Hin Hout Hf3 Hr3 Hm3.
    apply post_user. apply post_nil.
    assert (Hl3 : vars s3 c_l = VInt (evE e)).
    { rewrite Hin; [exact Hl1 | unfold c_l, c_r; lia | left; reflexivity]. }
    unfold calc_keeps; simp_st.
    split; [rewrite upd_same, Hl3, Hv; reflexivity|].
    split; [rewrite Hr3; exact Hr1|].
    split; [rewrite Hf3; exact Hf1|].
    split; [rewrite Hm3, Hm2; exact Hm1|].
    intros y Hy. simp_st. rewrite upd_other by (unfold c_l; lia).
    rewrite Hout; [|unfold c_r; lia|cbn; unfold c_l; lia].
    rewrite Hx2 by exact Hy. apply Hx1; exact Hy.
  - (* CSub *)
    intros e IHe t IHt st. cbn [opsEb evE]. apply post_app.
    eapply post_conseq; [apply IHe|].
    intros s1 (Hl1 & Hr1 & Hf1 & Hm1 & Hx1).
    apply post_bracket_popassign.
    { unfold balanced. rewrite fdepth_app, (proj1 (proj2 calc_balanced)). reflexivity. }
    eapply post_conseq; [apply ret_wrap, IHt|].
    intros s2 (Hr2 & Hf2 & Hm2 & Hx2).
    exists (VInt (evT t)), (results s1). split; [exact Hr2|].
    intros s3 Hv Hin Hout Hf3 Hr3 Hm3.
    apply post_user. apply post_nil.
    assert (Hl3 : vars s3 c_l = VInt (evE e)).
    { rewrite Hin; [exact Hl1 | unfold c_l, c_r; lia | left; reflexivity]. }
    unfold calc_keeps; simp_st.
    split; [rewrite upd_same, Hl3, Hv; reflexivity|].
    split; [rewrite Hr3; exact Hr1|].
    split; [rewrite Hf3; exact Hf1|].
    split; [rewrite Hm3, Hm2; exact Hm1|].
    intros y Hy. simp_st. rewrite upd_other by (unfold c_l; lia).
    rewrite Hout; [|unfold c_r; lia|cbn; unfold c_l, c_r; lia].
    rewrite Hx2 by exact Hy. apply Hx1; exact Hy.
  - (* CFac *)
    intros f IHf st. cbn [opsTb evT]. apply post_app.
    eapply post_conseq; [apply IHf|].
    intros s1 (Hr1 & Hf1 & Hm1 & Hx1).
    eapply post_assign; [exact Hr1|]. apply post_nil. simp_st.
    split; [apply upd_same|]. split; [reflexivity|]. split; [exact Hf1|]. split; [exact Hm1|].
    intros y Hy. simp_st. rewrite upd_other by (unfold c_l; lia). apply Hx1; exact Hy.
  - (* CMul *)
    intros t IHt f IHf st. cbn [opsTb evT]. apply post_app.
    eapply post_conseq; [apply IHt|].
    intros s1 (Hl1 & Hr1 & Hf1 & Hm1 & Hx1).
    apply post_bracket_popassign.
    { apply (proj2 (proj2 calc_balanced)). }
    eapply post_conseq; [apply IHf|].
    intros s2 (Hr2 & Hf2 & Hm2 & Hx2).
    exists (VInt (evF f)), (results s1). split; [exact Hr2|].
    intros s3 Hv Hin Hout Hf3 Hr3 Hm3.
    apply post_user. apply post_nil.
    assert (Hl3 : vars s3 c_l = VInt (evT t)).
    { rewrite Hin; [exact Hl1 | unfold c_l, c_r; lia | left; reflexivity]. }
    unfold calc_keeps; simp_st.
    split; [rewrite upd_same, Hl3, Hv; reflexivity|].
    split; [rewrite Hr3; exact Hr1|].
    split; [rewrite Hf3; exact Hf1|].
    split; [rewrite Hm3, Hm2; exact Hm1|].
    intros y Hy. simp_st. rewrite upd_other by (unfold c_l; lia).
    rewrite Hout; [|unfold c_r; lia|cbn; unfold c_l; lia].
    rewrite Hx2 by exact Hy. apply Hx1; exact Hy.
  - (* CNum *)
    intros k st. cbn [opsF evF].
    apply post_user. eapply post_assign; [reflexivity|]. apply post_user. apply post_nil. simp_st.
    split; [rewrite upd_same; reflexivity|]. split; [reflexivity|]. split; [reflexivity|].
    intros y Hy. simp_st. rewrite upd_other by (unfold c_n; lia). reflexivity.
  - (* CPar *)
    intros e IHe st. cbn [opsF evF].
    apply post_bracket_popassign.
    { unfold balanced. rewrite fdepth_app, (proj1 calc_balanced). reflexivity. }
    eapply post_conseq; [apply ret_wrap, IHe|].
    intros s2 (Hr2 & Hf2 & Hm2 & Hx2).
    exists (VInt (evE e)), (results st). split; [exact Hr2|].
    intros s3 Hv Hin Hout Hf3 Hr3 Hm3.
    apply post_user. apply post_nil.
    unfold calc_keeps; simp_st.
    split; [rewrite Hv, Hr3; reflexivity|].
    split; [exact Hf3|].
    split; [rewrite Hm3; exact Hm2|].
    intros y Hy. simp_st. rewrite Hout; [|unfold c_e; lia|cbn; unfold c_n; lia].
    apply Hx2; exact Hy.
Qed.

Lemma C07_calc_proof : stmt_C07_calc.
Proof.
  intros e st. unfold opsE.
  destruct (ret_wrap (opsEb e) 7 c_l (evE e) st (proj1 calc_main e st)) as (st' & He & Hr & Hf & Hm & Hx).
  exists st'. auto.
Qed.
