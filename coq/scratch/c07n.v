From Coq Require Import ZArith List Bool Arith Lia.
From Lug Require Import Attr.AttrModel Attr.AttrSpec.
Import ListNotations.
Goal stmt_C07_frames_needed.
split.
- intro H. vm_compute in H. Show.
Abort.
