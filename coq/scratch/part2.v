
(* consequences of the sweeps, in usable form *)
Lemma na_cases st : na st = true ->
  st = 24 \/ st = 36 \/ st = 48 \/ st = 60 \/ st = 72 \/ st = 84 \/ st = 96.
Proof. unfold na. cbn [existsb]. lia. Qed.

Lemma na_not0 st : na st = true -> (st =? 0) = false.
Proof. intros H. apply na_cases in H. lia. Qed.

Lemma na_not12 st : na st = true -> (st =? 12) = false.
Proof. intros H. apply na_cases in H. lia. Qed.

Lemma cont_facts b : b < 256 ->
  nxt 24 b = (if is_cont b then 0 else 12) /\
  nxt 36 b = (if is_cont b then 24 else 12) /\
  is_lead_or_ascii b = negb (is_cont b) /\
  (is_cont b = true -> N.land b 63 = b - 128) /\
  (forall st, na st = true -> nxt st b = 0 \/ nxt st b = 12 \/ na (nxt st b) = true) /\
  (forall st, na st = true -> nxt st b <> 12 -> is_cont b = true).
Proof.
  intros Hb. pose proof (cont_ok b Hb) as H. unfold cont_chk in H.
  apply andb_true_iff in H. destruct H as [H H6].
  apply andb_true_iff in H. destruct H as [H H5].
  apply andb_true_iff in H. destruct H as [H H4].
  apply andb_true_iff in H. destruct H as [H H3].
  apply andb_true_iff in H. destruct H as [H1 H2].
  apply N.eqb_eq in H1. apply N.eqb_eq in H2. apply Bool.eqb_prop in H3.
  rewrite forallb_forall in H5, H6.
  repeat split.
  - exact H1.
  - exact H2.
  - exact H3.
  - intros Hc. rewrite Hc in H4. apply N.eqb_eq in H4. exact H4.
  - intros st Hst. assert (Hin : In st [24; 36; 48; 60; 72; 84; 96]).
    { apply na_cases in Hst. cbn [In]. intuition auto. }
    specialize (H5 st Hin). cbv beta in H5.
    apply orb_true_iff in H5. destruct H5 as [H5|H5]; [|right; right; exact H5].
    apply orb_true_iff in H5. destruct H5 as [H5|H5]; apply N.eqb_eq in H5; auto.
  - intros st Hst Hn. assert (Hin : In st [24; 36; 48; 60; 72; 84; 96]).
    { apply na_cases in Hst. cbn [In]. intuition auto. }
    specialize (H6 st Hin). cbv beta in H6.
    apply orb_true_iff in H6. destruct H6 as [H6|H6]; [|exact H6].
    apply N.eqb_eq in H6. contradiction.
Qed.

Lemma nxt24 b : b < 256 -> nxt 24 b = if is_cont b then 0 else 12.
Proof. intros Hb. apply (cont_facts b Hb). Qed.

Lemma nxt36 b : b < 256 -> nxt 36 b = if is_cont b then 24 else 12.
Proof. intros Hb. apply (cont_facts b Hb). Qed.

Lemma range2_cont b1 b2 : in_range b2 (lo2 b1) (hi2 b1) = true -> is_cont b2 = true.
Proof.
  unfold is_cont, in_range, lo2, hi2.
  destruct (b1 =? 224); destruct (b1 =? 240); destruct (b1 =? 237); destruct (b1 =? 244); lia.
Qed.

(* rune arithmetic *)
Lemma lor_low x r : x < 64 -> N.lor x (N.shiftl r 6) = r * 64 + x.
Proof.
  intros Hx.
  assert (Hd : N.land x (N.shiftl r 6) = 0).
  { rewrite <- (N.mod_small x (2 ^ 6)) by (change (2 ^ 6) with 64; lia).
    rewrite <- N.land_ones, <- N.land_assoc, (N.land_comm (N.ones 6)), N.land_ones.
    rewrite N.shiftl_mul_pow2, N.mod_mul by (change (2 ^ 6) with 64; lia).
    apply N.land_0_r. }
  rewrite <- N.lxor_lor by exact Hd.
  rewrite <- N.add_nocarry_lxor by exact Hd.
  rewrite N.shiftl_mul_pow2. change (2 ^ 6) with 64. lia.
Qed.

Lemma runeK_cont rune b : b < 256 -> is_cont b = true -> rune < 67108864 ->
  runeK rune b = rune * 64 + (b - 128).
Proof.
  intros Hb Hc Hr. unfold runeK.
  destruct (cont_facts b Hb) as (_ & _ & _ & H & _). rewrite (H Hc).
  unfold is_cont, in_range in Hc.
  rewrite lor_low by lia. apply N.mod_small. unfold two32. lia.
Qed.

(* one step of the loop, by kind of step *)
Lemma loop_acc0 b r rune c : nxt 0 b = 0 -> decode_loop (b :: r) rune 0 c = (S c, rune0 b).
Proof. intros H. rewrite loop_cons, H. reflexivity. Qed.

Lemma loop_accK b r rune st c : na st = true -> nxt st b = 0 ->
  decode_loop (b :: r) rune st c = (S c, runeK rune b).
Proof. intros Hs H. rewrite loop_cons, H, (na_not0 st Hs). reflexivity. Qed.

Lemma loop_rej0 b r rune c : nxt 0 b = 12 ->
  decode_loop (b :: r) rune 0 c = ((S c + skip_trail r)%nat, 65533).
Proof. intros H. rewrite loop_cons, H. reflexivity. Qed.

Lemma loop_rejK b r rune st c : na st = true -> nxt st b = 12 ->
  decode_loop (b :: r) rune st c = ((c + skip_trail (b :: r))%nat, 65533).
Proof. intros Hs H. rewrite loop_cons, H, (na_not0 st Hs). reflexivity. Qed.

Lemma loop_cont0 b r rune c : na (nxt 0 b) = true ->
  decode_loop (b :: r) rune 0 c = decode_loop r (rune0 b) (nxt 0 b) (S c).
Proof. intros H. rewrite loop_cons, (na_not0 _ H), (na_not12 _ H). reflexivity. Qed.

Lemma loop_contK b r rune st c : na st = true -> na (nxt st b) = true ->
  decode_loop (b :: r) rune st c = decode_loop r (runeK rune b) (nxt st b) (S c).
Proof. intros Hs H. rewrite loop_cons, (na_not0 _ H), (na_not12 _ H), (na_not0 st Hs). reflexivity. Qed.

Lemma na24 : na 24 = true. Proof. reflexivity. Qed.
Lemma na36 : na 36 = true. Proof. reflexivity. Qed.

(* the last one or two continuation bytes of a sequence *)
Lemma tail1 t rune c : bytes_ok t -> rune < 67108864 ->
  match t with
  | b :: _ => if is_cont b then decode_loop t rune 24 c = (S c, rune * 64 + (b - 128))
              else snd (decode_loop t rune 24 c) = 65533
  | [] => snd (decode_loop t rune 24 c) = 65533
  end.
Proof.
  intros Hok Hr. destruct t as [|b t]; [reflexivity|].
  inversion Hok as [|? ? Hb Ht]; subst.
  pose proof (nxt24 b Hb) as H. destruct (is_cont b) eqn:Ec.
  - rewrite (loop_accK _ _ _ _ _ na24 H). rewrite runeK_cont by assumption. reflexivity.
  - rewrite (loop_rejK _ _ _ _ _ na24 H). reflexivity.
Qed.

Lemma tail2 t rune c : bytes_ok t -> rune < 1048576 ->
  match t with
  | b :: b' :: _ =>
      if is_cont b && is_cont b'
      then decode_loop t rune 36 c = (S (S c), (rune * 64 + (b - 128)) * 64 + (b' - 128))
      else snd (decode_loop t rune 36 c) = 65533
  | _ => snd (decode_loop t rune 36 c) = 65533
  end.
Proof.
  intros Hok Hr. destruct t as [|b t]; [reflexivity|].
  inversion Hok as [|? ? Hb Ht]; subst.
  pose proof (nxt36 b Hb) as H. destruct (is_cont b) eqn:Ec.
  - assert (Hr' : rune * 64 + (b - 128) < 67108864) by (unfold is_cont, in_range in Ec; lia).
    pose proof (tail1 t (rune * 64 + (b - 128)) (S c) Ht Hr') as T.
    assert (Hna : na (nxt 36 b) = true) by (rewrite H; reflexivity).
    rewrite (loop_contK _ _ _ _ _ na36 Hna), H, runeK_cont by (assumption || lia).
    destruct t as [|b' t']; [exact T|]. cbn [andb]. exact T.
  - rewrite (loop_rejK _ _ _ _ _ na36 H). destruct t as [|b' t']; reflexivity.
Qed.
