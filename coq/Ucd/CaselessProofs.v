(* Proofs of the C15 statements about sets (Ucd/CaselessSpec.v, parts 1-3). *)
From Coq Require Import NArith ZArith List Bool Lia ZifyBool ZifyN.
From Lug Require Import Gen.UcdTables Ucd.Lookup Ucd.RuneSet Ucd.RuneSetSpec Ucd.RuneSetProofs
  Ucd.UcdSpec Ucd.UcdProofs Ucd.CaselessSpec.
Import ListNotations.
Local Open Scope N_scope.

Strategy opaque [decompress_table].

(* ---------------------------------------------------------------- images are 32-bit values *)

Lemma add_delta_le : forall r d, add_delta r d <= max_rune.
Proof.
  intros r d. unfold add_delta. rewrite max_rune_eq.
  pose proof (Z.mod_pos_bound (Z.of_N r + d) 4294967296 eq_refl) as Hb.
  lia.
Qed.

Lemma tocasefold_le : forall t r x, tocasefold t r = Some x -> x <= max_rune.
Proof.
  intros t r x H. unfold tocasefold in H.
  destruct (query t r) as [q |]; [| discriminate H].
  destruct (case_mapping (cfindex q)) as [d |]; [| discriminate H].
  injection H as <-. apply add_delta_le.
Qed.

Lemma tolower_le : forall t r x, tolower t r = Some x -> x <= max_rune.
Proof.
  intros t r x H. unfold tolower in H.
  destruct (query t r) as [q |]; [| discriminate H].
  destruct (case_mapping (clindex q)) as [d |]; [| discriminate H].
  injection H as <-. apply add_delta_le.
Qed.

Lemma toupper_le : forall t r x, toupper t r = Some x -> x <= max_rune.
Proof.
  intros t r x H. unfold toupper in H.
  destruct (query t r) as [q |]; [| discriminate H].
  destruct (case_mapping (cuindex q)) as [d |]; [| discriminate H].
  injection H as <-. apply add_delta_le.
Qed.

Lemma case_image_le : forall t r x, case_image t r x -> x <= max_rune.
Proof.
  intros t r x [H | [H | H]].
  - exact (tocasefold_le t r x H).
  - exact (tolower_le t r x H).
  - exact (toupper_le t r x H).
Qed.

(* ---------------------------------------------------------------- the empty set *)

Lemma set_ok_empty : set_ok rs_empty.
Proof. split; [constructor | cbn [rs_empty ascii]; lia]. Qed.

Lemma denotes_empty : forall x, denotes rs_empty x = false.
Proof.
  intro x. unfold denotes, rs_empty. cbn [ivs ascii].
  destruct (x <? ascii_limit); [apply N.bits_0 | reflexivity].
Qed.

(* ---------------------------------------------------------------- push_outside / pcr_one / pcr_loop *)

Lemma push_outside_spec : forall a b s m, set_ok s -> m <= max_rune ->
  set_ok (push_outside a b s m) /\
  forall x, denotes (push_outside a b s m) x = denotes s x || ((x =? m) && ((m <? a) || (b <? m))).
Proof.
  intros a b s m Hok Hm. unfold push_outside.
  destruct ((m <? a) || (b <? m)) eqn:Hout.
  - destruct (C16_push_rune_proof s m Hok Hm) as [Hok' Hden].
    split; [exact Hok' |]. intro x. rewrite Hden. rewrite andb_true_r. reflexivity.
  - split; [exact Hok |]. intro x. rewrite andb_false_r, orb_false_r. reflexivity.
Qed.

Definition outside (a b x : N) : Prop := x < a \/ b < x.

Lemma pcr_one_spec : forall t a b s rn s', set_ok s -> pcr_one t a b s rn = Some s' ->
  set_ok s' /\ forall x, denotes s' x = true <-> (denotes s x = true \/ (case_image t rn x /\ outside a b x)).
Proof.
  intros t a b s rn s' Hok H. unfold pcr_one in H.
  destruct (tocasefold t rn) as [f |] eqn:Hf; [| discriminate H].
  destruct (tolower t rn) as [l |] eqn:Hl; [| discriminate H].
  destruct (toupper t rn) as [u |] eqn:Hu; [| discriminate H].
  injection H as <-.
  pose proof (tocasefold_le _ _ _ Hf) as Hfle.
  pose proof (tolower_le _ _ _ Hl) as Hlle.
  pose proof (toupper_le _ _ _ Hu) as Hule.
  destruct (push_outside_spec a b s f Hok Hfle) as [Hok1 Hd1].
  destruct (push_outside_spec a b _ l Hok1 Hlle) as [Hok2 Hd2].
  destruct (push_outside_spec a b _ u Hok2 Hule) as [Hok3 Hd3].
  split; [exact Hok3 |].
  intro x. rewrite Hd3, Hd2, Hd1. unfold case_image, outside. rewrite Hf, Hl, Hu.
  assert (E : (Some f = Some x \/ Some l = Some x \/ Some u = Some x) <-> (x = f \/ x = l \/ x = u)).
  { split.
    - intros [E | [E | E]]; injection E as <-; auto.
    - intros [-> | [-> | ->]]; auto. }
  rewrite E. clear E Hd1 Hd2 Hd3. destruct (denotes s x); lia.
Qed.

Lemma pcr_loop_spec : forall t a b n rn s s', set_ok s -> pcr_loop t a b n rn s = Some s' ->
  set_ok s' /\
  forall x, denotes s' x = true <->
            (denotes s x = true \/ exists r, rn <= r /\ r < rn + N.of_nat n /\ case_image t r x /\ outside a b x).
Proof.
  intros t a b n. induction n as [| n IH]; intros rn s s' Hok H.
  - cbn [pcr_loop] in H. injection H as <-. split; [exact Hok |].
    intro x. split; [intro H; left; exact H |].
    intros [H | [r [H1 [H2 _]]]]; [exact H | lia].
  - cbn [pcr_loop] in H.
    destruct (pcr_one t a b s rn) as [s1 |] eqn:H1; [| discriminate H].
    destruct (pcr_one_spec t a b s rn s1 Hok H1) as [Hok1 Hd1].
    destruct (IH (rn + 1) s1 s' Hok1 H) as [Hok' Hd'].
    split; [exact Hok' |].
    intro x. rewrite Hd', Hd1. split.
    + intros [[Hs | [Hi Ho]] | [r [Hr1 [Hr2 [Hi Ho]]]]].
      * left; exact Hs.
      * right. exists rn. repeat split; [lia | lia | exact Hi | exact Ho].
      * right. exists r. repeat split; [lia | lia | exact Hi | exact Ho].
    + intros [Hs | [r [Hr1 [Hr2 [Hi Ho]]]]].
      * left; left; exact Hs.
      * destruct (N.eq_dec r rn) as [-> | Hne].
        -- left; right; split; [exact Hi | exact Ho].
        -- right. exists r. repeat split; [lia | lia | exact Hi | exact Ho].
Qed.

(* a failing loop failed at a lookup for one of the runes it visits *)
Lemma pcr_loop_none : forall t a b n rn s, pcr_loop t a b n rn s = None ->
  exists r, rn <= r /\ r < rn + N.of_nat n /\ (tocasefold t r = None \/ tolower t r = None \/ toupper t r = None).
Proof.
  intros t a b n. induction n as [| n IH]; intros rn s H.
  - cbn [pcr_loop] in H. discriminate H.
  - cbn [pcr_loop] in H.
    destruct (pcr_one t a b s rn) as [s1 |] eqn:H1.
    + destruct (IH (rn + 1) s1 H) as [r [Hr1 [Hr2 Hf]]].
      exists r. repeat split; [lia | lia | exact Hf].
    + exists rn. split; [lia |]. split; [lia |].
      unfold pcr_one in H1.
      destruct (tocasefold t rn); [| left; reflexivity].
      destruct (tolower t rn); [| right; left; reflexivity].
      destruct (toupper t rn); [discriminate H1 | right; right; reflexivity].
Qed.

Lemma pcr_loop_some : forall t a b n rn s,
  (forall r, tocasefold t r <> None /\ tolower t r <> None /\ toupper t r <> None) ->
  exists s', pcr_loop t a b n rn s = Some s'.
Proof.
  intros t a b n. induction n as [| n IH]; intros rn s Hall.
  - exists s. reflexivity.
  - cbn [pcr_loop]. unfold pcr_one.
    destruct (Hall rn) as [Hf [Hl Hu]].
    destruct (tocasefold t rn) as [f |]; [| exfalso; exact (Hf eq_refl)].
    destruct (tolower t rn) as [l |]; [| exfalso; exact (Hl eq_refl)].
    destruct (toupper t rn) as [u |]; [| exfalso; exact (Hu eq_refl)].
    apply IH. exact Hall.
Qed.

(* ---------------------------------------------------------------- 1. members of the range set *)

Lemma range_denotes : forall t a b s, b <= max_rune -> push_casefolded_range t rs_empty a b = RsOk s ->
  a <= b /\ set_ok s /\
  forall x, denotes s x = true <-> (in_rng a b x \/ exists r, in_rng a b r /\ case_image t r x).
Proof.
  intros t a b s Hb H. unfold push_casefolded_range, rs_bind in H.
  destruct (push_range rs_empty a b) as [s1 | |] eqn:Hpr; [| discriminate H | discriminate H].
  destruct (C16_push_range_proof rs_empty a b s1 set_ok_empty Hb Hpr) as [Hab [Hok1 Hd1]].
  destruct (pcr_loop t a b (N.to_nat (b - a + 1)) a s1) as [s2 |] eqn:Hloop; [| discriminate H].
  injection H as <-.
  destruct (pcr_loop_spec t a b _ a s1 s2 Hok1 Hloop) as [Hok2 Hd2].
  split; [exact Hab |]. split; [exact Hok2 |].
  intro x. rewrite Hd2, Hd1, denotes_empty. cbn [orb]. unfold in_rng, outside.
  split.
  - intros [Hin | [r [Hr1 [Hr2 [Hi Ho]]]]].
    + left. lia.
    + right. exists r. split; [lia | exact Hi].
  - intros [Hin | [r [Hr Hi]]].
    + left. lia.
    + destruct (N.le_gt_cases a x) as [Hax | Hax]; [destruct (N.le_gt_cases x b) as [Hxb | Hxb] |].
      * left. lia.
      * right. exists r. repeat split; [lia | lia | exact Hi | right; exact Hxb].
      * right. exists r. repeat split; [lia | lia | exact Hi | left; exact Hax].
Qed.

Lemma C15_range_members_proof : stmt_C15_range_members.
Proof.
  intros t a b s Hb H x.
  destruct (range_denotes t a b s Hb H) as [_ [Hok Hd]].
  destruct (C16_sort_optimize_proof s Hok) as [_ [_ Hc]].
  rewrite Hc. apply Hd.
Qed.

Lemma C15_range_reversed_proof : stmt_C15_range_reversed.
Proof.
  intros t s a b Hlt. unfold push_casefolded_range.
  rewrite (C16_push_range_reversed_proof s a b Hlt). reflexivity.
Qed.

Lemma C15_range_index_only_if_lookup_fails_proof : stmt_C15_range_index_only_if_lookup_fails.
Proof.
  intros t s a b H. unfold push_casefolded_range, rs_bind in H.
  unfold push_range in H.
  destruct (N.ltb_spec b a) as [Hba | Hab]; [discriminate H |].
  match type of H with context [pcr_loop ?t ?a ?b ?n ?rn ?s1] =>
    destruct (pcr_loop t a b n rn s1) as [s2 |] eqn:Hloop end; [discriminate H |].
  destruct (pcr_loop_none _ _ _ _ _ _ Hloop) as [r [Hr1 [Hr2 Hf]]].
  exists r. split; [unfold in_rng; lia | exact Hf].
Qed.

Lemma C15_range_total_on_shipped_table_proof : stmt_C15_range_total_on_shipped_table.
Proof.
  intros t Ht a b Hab.
  assert (Hall : forall r, tocasefold t r <> None /\ tolower t r <> None /\ toupper t r <> None).
  { intro r. destruct (C14_indices_in_range_proof t Ht r) as [q [_ H]]. exact H. }
  clear Ht.
  unfold push_casefolded_range, rs_bind, push_range.
  destruct (N.ltb_spec b a) as [Hba | _]; [lia |].
  match goal with |- context [pcr_loop ?t ?a ?b ?n ?rn ?s1] =>
    destruct (pcr_loop_some t a b n rn s1 Hall) as [s2 Hs2] end.
  rewrite Hs2. exists s2. reflexivity.
Qed.

(* ---------------------------------------------------------------- 2. the single-letter set *)

Lemma C15_letter_members_proof : stmt_C15_letter_members.
Proof.
  intros t b l u Hb Hl Hu x.
  pose proof (tolower_le _ _ _ Hl) as Hlle.
  pose proof (toupper_le _ _ _ Hu) as Hule.
  destruct (C16_push_rune_proof rs_empty b set_ok_empty Hb) as [Hok1 Hd1].
  destruct (C16_push_rune_proof _ l Hok1 Hlle) as [Hok2 Hd2].
  destruct (C16_push_rune_proof _ u Hok2 Hule) as [Hok3 Hd3].
  destruct (C16_sort_optimize_proof _ Hok3) as [_ [_ Hc]].
  unfold letter_set. rewrite Hc, Hd3, Hd2, Hd1, denotes_empty. lia.
Qed.

(* ---------------------------------------------------------------- 3. exactness for ranges *)

Lemma C15_range_exact_partial_proof : stmt_C15_range_exact_partial.
Proof.
  intros t a b s Hb H Hcons Hinv x Hx.
  rewrite (C15_range_members_proof t a b s Hb H x).
  split.
  - intros [Hin | [r [Hr Hi]]].
    + (* x itself is in the range: its folding exists because the loop visited it *)
      exists x. split; [exact Hin |].
      destruct (tocasefold t x) as [f |] eqn:Hf; [exists f; split; exact Hf |].
      exfalso.
      unfold push_casefolded_range, rs_bind, push_range in H.
      destruct (N.ltb_spec b a) as [Hba | Hab]; [discriminate H |].
      match type of H with context [pcr_loop ?t ?a ?b ?n ?rn ?s1] =>
        destruct (pcr_loop t a b n rn s1) as [s2 |] eqn:Hloop end; [| discriminate H].
      clear H.
      (* a successful loop looked up every member *)
      assert (G : forall n rn s0 s', pcr_loop t a b n rn s0 = Some s' ->
                  forall r, rn <= r -> r < rn + N.of_nat n -> tocasefold t r <> None).
      { clear. intros n. induction n as [| n IH]; intros rn s0 s' H r Hr1 Hr2; [lia |].
        cbn [pcr_loop] in H. destruct (pcr_one t a b s0 rn) as [s1 |] eqn:H1; [| discriminate H].
        destruct (N.eq_dec r rn) as [-> | Hne].
        - unfold pcr_one in H1. destruct (tocasefold t rn); [apply some_ne_none | discriminate H1].
        - apply (IH (rn + 1) s1 s' H); lia. }
      destruct Hin as [Hin1 Hin2].
      apply (G _ _ _ _ Hloop x Hin1); [lia | exact Hf].
    + exists r. split; [exact Hr | exact (Hcons r x Hr Hi)].
  - intros [r [Hr Hfe]]. exact (Hinv x r Hx Hr Hfe).
Qed.

Lemma C15_range_exact_needs_reachable_proof : stmt_C15_range_exact_needs_reachable.
Proof.
  intros t a b s Hb H Hex x r Hx Hr Hfe.
  apply (C15_range_members_proof t a b s Hb H x).
  apply (Hex x Hx). exists r. split; [exact Hr | exact Hfe].
Qed.
