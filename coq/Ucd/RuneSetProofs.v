(* Proofs of the C16 rune_set statements (Ucd/RuneSetSpec.v) about the model in Ucd/RuneSet.v. *)
From Lug Require Import Gen.UcdTables Ucd.Lookup Ucd.RuneSet Ucd.RuneSetSpec.
From Coq Require Import NArith List Bool Lia ZifyBool ZifyN.
Import ListNotations.
Local Open Scope N_scope.

(* ---------------------------------------------------------------- basics *)

Lemma ascii_limit_eq : ascii_limit = 128.
Proof. reflexivity. Qed.

Lemma max_rune_eq : max_rune = 4294967295.
Proof. reflexivity. Qed.

Lemma in_iv_eq : forall iv r, in_iv iv r = ((fst iv <=? r) && (r <=? snd iv)).
Proof. reflexivity. Qed.

Lemma in_ivs_nil : forall r, in_ivs [] r = false.
Proof. reflexivity. Qed.

Lemma in_ivs_cons : forall x l r, in_ivs (x :: l) r = in_iv x r || in_ivs l r.
Proof. reflexivity. Qed.

Lemma in_ivs_app : forall l1 l2 r, in_ivs (l1 ++ l2) r = in_ivs l1 r || in_ivs l2 r.
Proof. intros l1 l2 r. unfold in_ivs. apply existsb_app. Qed.

(* ---------------------------------------------------------------- bits *)

Lemma lt_pow2_bits : forall x n, x < 2 ^ n -> forall m, n <= m -> N.testbit x m = false.
Proof.
  intros x n Hlt m Hm.
  destruct (N.eq_dec x 0) as [Hz | Hnz].
  - subst x. apply N.bits_0.
  - apply N.bits_above_log2.
    assert (Hlog : N.log2 x < n) by (apply N.log2_lt_pow2; lia).
    lia.
Qed.

Lemma bits_lt_pow2 : forall x n, (forall m, n <= m -> N.testbit x m = false) -> x < 2 ^ n.
Proof.
  intros x n Hbits.
  assert (Hmod : x mod 2 ^ n = x).
  { apply N.bits_inj. intro m.
    destruct (N.lt_ge_cases m n) as [Hlt | Hge].
    - apply N.mod_pow2_bits_low. exact Hlt.
    - rewrite N.mod_pow2_bits_high by exact Hge. symmetry. apply Hbits. exact Hge. }
  rewrite <- Hmod. apply N.mod_lt. apply N.pow_nonzero. lia.
Qed.

Lemma bit_range_spec : forall lo hi m, lo <= hi ->
  N.testbit (bit_range lo hi) m = ((lo <=? m) && (m <=? hi)).
Proof.
  intros lo hi m Hle. unfold bit_range.
  destruct (N.lt_ge_cases m lo) as [Hlt | Hge].
  - rewrite N.shiftl_spec_low by exact Hlt. lia.
  - rewrite N.shiftl_spec_high' by exact Hge.
    destruct (N.lt_ge_cases (m - lo) (hi - lo + 1)) as [Hin | Hout].
    + rewrite N.ones_spec_low by exact Hin. lia.
    + rewrite N.ones_spec_high by exact Hout. lia.
Qed.

Lemma shiftl1_spec : forall x m, N.testbit (N.shiftl 1 x) m = (m =? x).
Proof.
  intros x m. rewrite N.shiftl_1_l. rewrite N.pow2_bits_eqb. apply N.eqb_sym.
Qed.

(* ---------------------------------------------------------------- push_range / push_rune *)

Lemma iv_ok_app_one : forall l iv, Forall iv_ok l -> iv_ok iv -> Forall iv_ok (l ++ [iv]).
Proof.
  intros l iv Hl Hiv. apply Forall_app. split; [exact Hl | constructor; [exact Hiv | constructor]].
Qed.

Lemma C16_push_range_reversed_proof : stmt_C16_push_range_reversed.
Proof.
  intros s a b Hlt. unfold push_range.
  destruct (N.ltb_spec b a) as [_ | Hge]; [reflexivity | lia].
Qed.

Lemma C16_push_range_proof : stmt_C16_push_range.
Proof.
  intros s a b s' [Hivs Hasc] Hb Hpush.
  unfold push_range in Hpush. rewrite ascii_limit_eq in Hpush.
  rewrite max_rune_eq in Hb.
  destruct (N.ltb_spec b a) as [Hba | Hab]; [discriminate Hpush |].
  injection Hpush as Hs'. subst s'.
  split; [exact Hab |].
  split.
  - (* set_ok *)
    split; cbn [ivs ascii].
    + destruct (N.leb_spec 128 b) as [Hb128 | Hb128]; [| exact Hivs].
      apply iv_ok_app_one; [exact Hivs |].
      unfold iv_ok. cbn [fst snd]. rewrite ascii_limit_eq, max_rune_eq. lia.
    + destruct (N.ltb_spec a 128) as [Ha128 | Ha128]; [| exact Hasc].
      apply bits_lt_pow2. intros m Hm.
      rewrite N.lor_spec.
      rewrite (lt_pow2_bits _ _ Hasc m Hm).
      rewrite bit_range_spec by lia. lia.
  - (* denotes *)
    intro r. unfold denotes. cbn [ivs ascii]. rewrite ascii_limit_eq.
    destruct (N.ltb_spec r 128) as [Hr | Hr].
    + destruct (N.ltb_spec a 128) as [Ha128 | Ha128].
      * rewrite N.lor_spec. rewrite bit_range_spec by lia. lia.
      * lia.
    + destruct (N.leb_spec 128 b) as [Hb128 | Hb128].
      * rewrite in_ivs_app, in_ivs_cons, in_ivs_nil, in_iv_eq. cbn [fst snd]. lia.
      * lia.
Qed.

Lemma C16_push_rune_proof : stmt_C16_push_rune.
Proof.
  intros s x [Hivs Hasc] Hx.
  rewrite max_rune_eq in Hx.
  unfold push_rune. rewrite ascii_limit_eq.
  destruct (N.ltb_spec x 128) as [Hx128 | Hx128].
  - split.
    + split; cbn [ivs ascii]; [exact Hivs |].
      apply bits_lt_pow2. intros m Hm.
      rewrite N.lor_spec, shiftl1_spec.
      rewrite (lt_pow2_bits _ _ Hasc m Hm). lia.
    + intro r. unfold denotes. cbn [ivs ascii]. rewrite ascii_limit_eq.
      destruct (N.ltb_spec r 128) as [Hr | Hr].
      * rewrite N.lor_spec, shiftl1_spec. reflexivity.
      * lia.
  - split.
    + split; cbn [ivs ascii]; [| exact Hasc].
      apply iv_ok_app_one; [exact Hivs |].
      unfold iv_ok. cbn [fst snd]. rewrite ascii_limit_eq, max_rune_eq. lia.
    + intro r. unfold denotes. cbn [ivs ascii]. rewrite ascii_limit_eq.
      destruct (N.ltb_spec r 128) as [Hr | Hr].
      * lia.
      * rewrite in_ivs_app, in_ivs_cons, in_ivs_nil, in_iv_eq. cbn [fst snd]. lia.
Qed.

(* ---------------------------------------------------------------- contains on sorted vectors *)

(* everything after the head of a sorted, disjoint vector lies strictly above the head's end *)
Lemma sd_tail_above : forall rest y r,
  sorted_disjoint (y :: rest) -> Forall iv_ok rest -> r <= snd y -> in_ivs rest r = false.
Proof.
  induction rest as [| z rest' IH]; intros y r Hsd Hok Hr.
  - reflexivity.
  - cbn [sorted_disjoint] in Hsd. destruct Hsd as [Hyz Hsd'].
    inversion Hok as [| z0 l0 Hz Hok']. subst z0 l0.
    rewrite in_ivs_cons, in_iv_eq.
    rewrite (IH z r).
    + lia.
    + cbn [sorted_disjoint]. exact Hsd'.
    + exact Hok'.
    + destruct Hz as [_ [Hz _]]. lia.
Qed.

Lemma sd_below_head : forall rest y r,
  sorted_disjoint (y :: rest) -> Forall iv_ok (y :: rest) -> r < fst y -> in_ivs (y :: rest) r = false.
Proof.
  intros rest y r Hsd Hok Hr.
  inversion Hok as [| y0 l0 Hy Hok']. subst y0 l0.
  rewrite in_ivs_cons, in_iv_eq.
  rewrite (sd_tail_above rest y r Hsd Hok').
  - lia.
  - destruct Hy as [_ [Hy _]]. lia.
Qed.

Definition cont (l : list (N * N)) (r : N) : bool :=
  match lower_bound_snd l r with
  | Some iv => (fst iv <=? r) && (r <=? snd iv)
  | None => false
  end.

Lemma cont_nil : forall r, cont [] r = false.
Proof. reflexivity. Qed.

Lemma cont_cons : forall x l r,
  cont (x :: l) r = if snd x <? r then cont l r else (fst x <=? r) && (r <=? snd x).
Proof.
  intros x l r. unfold cont. cbn [lower_bound_snd].
  destruct (snd x <? r); reflexivity.
Qed.

Lemma contains_cont : forall s r,
  contains s r = if r <? ascii_limit then N.testbit (ascii s) r else cont (ivs s) r.
Proof. reflexivity. Qed.

Lemma cont_sorted : forall l r, sorted_disjoint l -> Forall iv_ok l -> cont l r = in_ivs l r.
Proof.
  induction l as [| x rest IH]; intros r Hsd Hok.
  - reflexivity.
  - rewrite cont_cons, in_ivs_cons, in_iv_eq.
    inversion Hok as [| x0 l0 Hx Hok']. subst x0 l0.
    destruct (N.ltb_spec (snd x) r) as [Hlt | Hge].
    + rewrite IH.
      * lia.
      * cbn [sorted_disjoint] in Hsd. exact (proj2 Hsd).
      * exact Hok'.
    + rewrite (sd_tail_above rest x r Hsd Hok' Hge). lia.
Qed.

Lemma C16_contains_sorted_proof : stmt_C16_contains_sorted.
Proof.
  intros s r [Hok _] Hsd.
  rewrite contains_cont. unfold denotes.
  destruct (r <? ascii_limit); [reflexivity |].
  apply cont_sorted; assumption.
Qed.

(* ---------------------------------------------------------------- sort_and_optimize *)

(* sorted on the first component (all the merge loop needs from the lexicographic order) *)
Fixpoint fsorted (l : list (N * N)) : Prop :=
  match l with
  | [] => True
  | x :: rest => Forall (fun y => fst x <= fst y) rest /\ fsorted rest
  end.

Lemma Forall_iv_insert : forall (P : N * N -> Prop) x l,
  P x -> Forall P l -> Forall P (iv_insert x l).
Proof.
  intros P x l Hx. induction l as [| y rest IH]; intro Hl.
  - cbn [iv_insert]. constructor; [exact Hx | constructor].
  - cbn [iv_insert]. inversion Hl as [| y0 l0 Hy Hrest]. subst y0 l0.
    destruct (iv_ltb y x).
    + constructor; [exact Hy | exact (IH Hrest)].
    + constructor; [exact Hx | exact Hl].
Qed.

Lemma fsorted_iv_insert : forall x l, fsorted l -> fsorted (iv_insert x l).
Proof.
  intros x l. induction l as [| y rest IH]; intro Hs.
  - cbn [iv_insert fsorted]. split; [constructor | exact I].
  - cbn [iv_insert]. cbn [fsorted] in Hs. destruct Hs as [Hall Hs'].
    destruct (iv_ltb y x) eqn:Hlt.
    + cbn [fsorted]. split.
      * apply Forall_iv_insert; [| exact Hall].
        unfold iv_ltb in Hlt. lia.
      * exact (IH Hs').
    + cbn [fsorted]. split.
      * assert (Hxy : fst x <= fst y) by (unfold iv_ltb in Hlt; lia).
        constructor; [exact Hxy |].
        eapply Forall_impl; [| exact Hall].
        intros z Hz. cbn beta in Hz. lia.
      * split; [exact Hall | exact Hs'].
Qed.

Lemma in_ivs_iv_insert : forall x l r, in_ivs (iv_insert x l) r = in_iv x r || in_ivs l r.
Proof.
  intros x l r. induction l as [| y rest IH].
  - reflexivity.
  - cbn [iv_insert]. destruct (iv_ltb y x).
    + rewrite !in_ivs_cons, IH.
      destruct (in_iv y r); destruct (in_iv x r); reflexivity.
    + rewrite !in_ivs_cons. reflexivity.
Qed.

Lemma iv_sort_ok : forall l, Forall iv_ok l -> Forall iv_ok (iv_sort l).
Proof.
  induction l as [| x rest IH]; intro Hl.
  - constructor.
  - inversion Hl as [| x0 l0 Hx Hrest]. subst x0 l0.
    unfold iv_sort. cbn [fold_right]. apply Forall_iv_insert; [exact Hx | exact (IH Hrest)].
Qed.

Lemma iv_sort_fsorted : forall l, fsorted (iv_sort l).
Proof.
  induction l as [| x rest IH].
  - exact I.
  - unfold iv_sort. cbn [fold_right]. apply fsorted_iv_insert. exact IH.
Qed.

Lemma iv_sort_in_ivs : forall l r, in_ivs (iv_sort l) r = in_ivs l r.
Proof.
  induction l as [| x rest IH]; intro r.
  - reflexivity.
  - unfold iv_sort. cbn [fold_right]. rewrite in_ivs_iv_insert, in_ivs_cons.
    fold (iv_sort rest). rewrite IH. reflexivity.
Qed.

Lemma iv_sort_nonnil : forall x l, iv_sort (x :: l) <> [].
Proof.
  intros x l. unfold iv_sort. cbn [fold_right].
  destruct (fold_right iv_insert [] l) as [| y rest]; cbn [iv_insert].
  - discriminate.
  - destruct (iv_ltb y x); discriminate.
Qed.

(* the part of the accumulator below `out` is never touched again *)
Lemma optimize_loop_acc : forall rest out acc',
  optimize_loop rest (out :: acc') = rev acc' ++ optimize_loop rest [out].
Proof.
  induction rest as [| r rest' IH]; intros out acc'.
  - cbn [optimize_loop rev app]. reflexivity.
  - cbn [optimize_loop].
    destruct ((fst r <? fst out) || (snd out <? fst r)).
    + rewrite (IH r (out :: acc')). rewrite (IH r [out]).
      cbn [rev app]. rewrite <- app_assoc. reflexivity.
    + apply IH.
Qed.

Lemma optimize_loop_spec : forall rest out,
  iv_ok out -> Forall iv_ok rest -> Forall (fun y => fst out <= fst y) rest -> fsorted rest ->
  exists h tl,
    optimize_loop rest [out] = h :: tl /\ fst h = fst out /\
    sorted_disjoint (h :: tl) /\ Forall iv_ok (h :: tl) /\
    forall x, in_ivs (h :: tl) x = in_iv out x || in_ivs rest x.
Proof.
  induction rest as [| r rest' IH]; intros out Hout Hok Hge Hs.
  - exists out, []. cbn [optimize_loop rev app].
    split; [reflexivity |]. split; [reflexivity |].
    split; [cbn [sorted_disjoint]; split; exact I |].
    split; [constructor; [exact Hout | constructor] |].
    intro x. rewrite in_ivs_cons, in_ivs_nil. reflexivity.
  - inversion Hok as [| r0 l0 Hr Hok']. subst r0 l0.
    inversion Hge as [| r0 l0 Hor Hge']. subst r0 l0.
    cbn [fsorted] in Hs. destruct Hs as [Hrall Hs'].
    cbn [optimize_loop].
    destruct ((fst r <? fst out) || (snd out <? fst r)) eqn:Hc.
    + (* r starts a new interval *)
      assert (Hsep : snd out < fst r) by lia.
      rewrite (optimize_loop_acc rest' r [out]). cbn [rev app].
      destruct (IH r Hr Hok' Hrall Hs') as [h [tl [Heq [Hfst [Hsd [Hoks Hin]]]]]].
      exists out, (h :: tl).
      split; [rewrite Heq; reflexivity |]. split; [reflexivity |].
      split.
      * cbn [sorted_disjoint]. split; [rewrite Hfst; exact Hsep |].
        cbn [sorted_disjoint] in Hsd. exact Hsd.
      * split; [constructor; [exact Hout | exact Hoks] |].
        intro x. rewrite (in_ivs_cons out), Hin, in_ivs_cons. reflexivity.
    + (* r is merged into out *)
      set (m := (fst out, if snd out <? snd r then snd r else snd out)).
      assert (Hm : iv_ok m).
      { unfold iv_ok, m in *. cbn [fst snd]. destruct (N.ltb_spec (snd out) (snd r)); lia. }
      assert (Hgem : Forall (fun y => fst m <= fst y) rest').
      { unfold m. cbn [fst]. exact Hge'. }
      destruct (IH m Hm Hok' Hgem Hs') as [h [tl [Heq [Hfst [Hsd [Hoks Hin]]]]]].
      exists h, tl.
      split; [exact Heq |]. split; [rewrite Hfst; reflexivity |].
      split; [exact Hsd |]. split; [exact Hoks |].
      intro x. rewrite Hin, in_ivs_cons.
      assert (Hmx : in_iv m x = in_iv out x || in_iv r x).
      { rewrite !in_iv_eq. unfold m. cbn [fst snd]. cbn beta in Hor.
        destruct (N.ltb_spec (snd out) (snd r)); lia. }
      rewrite Hmx. rewrite orb_assoc. reflexivity.
Qed.

Lemma optimize_sorted_spec : forall l x l',
  Forall iv_ok l -> iv_sort l = x :: l' ->
  sorted_disjoint (optimize_loop (iv_sort l) []) /\
  Forall iv_ok (optimize_loop (iv_sort l) []) /\
  forall r, in_ivs (optimize_loop (iv_sort l) []) r = in_ivs l r.
Proof.
  intros l x l' Hok Heq.
  pose proof (iv_sort_ok l Hok) as Hsok.
  pose proof (iv_sort_fsorted l) as Hfs.
  pose proof (iv_sort_in_ivs l) as Hin.
  rewrite Heq in *. cbn [optimize_loop].
  inversion Hsok as [| x0 l0 Hx Hok']. subst x0 l0.
  cbn [fsorted] in Hfs. destruct Hfs as [Hall Hfs'].
  destruct (optimize_loop_spec l' x Hx Hok' Hall Hfs') as [h [tl [Heq' [_ [Hsd [Hoks Hin']]]]]].
  rewrite Heq'. split; [exact Hsd |]. split; [exact Hoks |].
  intro r. rewrite Hin', <- Hin, in_ivs_cons. reflexivity.
Qed.

Lemma C16_sort_optimize_proof : stmt_C16_sort_optimize.
Proof.
  intros s [Hok Hasc].
  unfold sort_and_optimize.
  destruct (ivs s) as [| x l] eqn:Hivs.
  - split; [split; [rewrite Hivs; constructor | exact Hasc] |].
    split; [rewrite Hivs; exact I |].
    intro r. rewrite contains_cont. unfold denotes. rewrite Hivs. reflexivity.
  - destruct (iv_sort (x :: l)) as [| y l'] eqn:Hsort.
    + exfalso. exact (iv_sort_nonnil x l Hsort).
    + destruct (optimize_sorted_spec (x :: l) y l' Hok Hsort) as [Hsd [Hoks Hin]].
      rewrite Hsort in Hsd, Hoks, Hin.
      cbn [ivs ascii].
      split; [split; [exact Hoks | exact Hasc] |].
      split; [exact Hsd |].
      intro r. rewrite contains_cont. unfold denotes. cbn [ivs ascii]. rewrite Hivs.
      destruct (r <? ascii_limit); [reflexivity |].
      rewrite cont_sorted by assumption. apply Hin.
Qed.

(* ---------------------------------------------------------------- negate *)

Definition back_of (b : N) : list (N * N) :=
  if b <? max_rune then [(b + 1, max_rune)] else [].

Lemma negate_gaps_one : forall x, negate_gaps [x] = [].
Proof. reflexivity. Qed.

Lemma negate_gaps_cons2 : forall x y l,
  negate_gaps (x :: y :: l) =
  ((snd x + 1) mod 4294967296, (fst y + 4294967295) mod 4294967296) :: negate_gaps (y :: l).
Proof. reflexivity. Qed.

Lemma last_cons2 : forall (x y : N * N) l d, last (x :: y :: l) d = last (y :: l) d.
Proof. reflexivity. Qed.

Lemma gap_lo_eq : forall a, a < 4294967295 -> (a + 1) mod 4294967296 = a + 1.
Proof. intros a Ha. apply N.mod_small. lia. Qed.

Lemma gap_hi_eq : forall b, 1 <= b -> b <= 4294967295 -> (b + 4294967295) mod 4294967296 = b - 1.
Proof.
  intros b Hb1 Hb2. symmetry.
  apply (N.mod_unique (b + 4294967295) 4294967296 1 (b - 1)); lia.
Qed.

Lemma negate_tail_cont : forall rest x d r,
  sorted_disjoint (x :: rest) -> Forall iv_ok (x :: rest) -> r <= max_rune ->
  cont (negate_gaps (x :: rest) ++ back_of (snd (last (x :: rest) d))) r =
  ((fst x <=? r) && negb (in_ivs (x :: rest) r)).
Proof.
  induction rest as [| y rest' IH]; intros x d r Hsd Hok Hr.
  - inversion Hok as [| x0 l0 Hx _]. subst x0 l0.
    destruct Hx as [_ [Hx1 Hx2]]. rewrite max_rune_eq in *.
    rewrite negate_gaps_one. cbn [last app].
    rewrite in_ivs_cons, in_ivs_nil, in_iv_eq.
    unfold back_of. rewrite max_rune_eq.
    destruct (N.ltb_spec (snd x) 4294967295) as [Hlt | Hge].
    + rewrite cont_cons, cont_nil. cbn [fst snd].
      destruct (N.ltb_spec 4294967295 r) as [Hbig | Hsmall]; lia.
    + rewrite cont_nil. lia.
  - inversion Hok as [| x0 l0 Hx Hok']. subst x0 l0.
    inversion Hok' as [| y0 l0 Hy _]. subst y0 l0.
    pose proof Hsd as Hsd0.
    cbn [sorted_disjoint] in Hsd. destruct Hsd as [Hxy Hsd'].
    rewrite negate_gaps_cons2, last_cons2. rewrite <- app_comm_cons.
    rewrite cont_cons. cbn [fst snd].
    destruct Hx as [Hx0 [Hx1 Hx2]]. destruct Hy as [Hy0 [Hy1 Hy2]].
    rewrite ascii_limit_eq, max_rune_eq in *.
    rewrite gap_lo_eq by lia. rewrite gap_hi_eq by lia.
    rewrite (in_ivs_cons x), in_iv_eq.
    destruct (N.ltb_spec (fst y - 1) r) as [Hlt | Hge].
    + rewrite (IH y d r Hsd' Hok') by exact Hr. lia.
    + rewrite (sd_below_head rest' y r Hsd' Hok') by lia. lia.
Qed.

Lemma C16_negate_proof : stmt_C16_negate.
Proof.
  intros s r [Hok Hasc] Hsd Hr.
  rewrite (C16_contains_sorted_proof s r (conj Hok Hasc) Hsd).
  rewrite contains_cont. unfold denotes.
  destruct (N.ltb_spec r ascii_limit) as [Hlow | Hhigh].
  - unfold negate. destruct (ivs s) as [| first l]; cbn [ascii];
      rewrite N.lxor_spec;
      rewrite N.ones_spec_low by (rewrite ascii_limit_eq in Hlow; exact Hlow);
      apply xorb_true_r.
  - unfold negate. destruct (ivs s) as [| first l] eqn:Hivs; cbn [ivs].
    + rewrite cont_cons, cont_nil, in_ivs_nil. cbn [fst snd].
      rewrite ascii_limit_eq, max_rune_eq in *.
      destruct (N.ltb_spec 4294967295 r) as [Hbig | Hsmall]; lia.
    + fold (back_of (snd (last (first :: l) first))).
      pose proof (negate_tail_cont l first first r Hsd Hok Hr) as Htail.
      inversion Hok as [| x0 l0 Hf _]. subst x0 l0.
      destruct Hf as [Hf0 [Hf1 Hf2]].
      destruct (N.ltb_spec ascii_limit (fst first)) as [Hfr | Hfr].
      * rewrite <- app_comm_cons. cbn [app]. rewrite cont_cons. cbn [fst snd].
        destruct (N.ltb_spec (fst first - 1) r) as [Hlt | Hge].
        -- rewrite Htail. lia.
        -- rewrite (sd_below_head l first r Hsd Hok) by lia. lia.
      * cbn [app]. rewrite Htail. lia.
Qed.

Print Assumptions C16_push_range_proof.
Print Assumptions C16_push_range_reversed_proof.
Print Assumptions C16_push_rune_proof.
Print Assumptions C16_sort_optimize_proof.
Print Assumptions C16_contains_sorted_proof.
Print Assumptions C16_negate_proof.
