(* C15 -- case-insensitive matching accepts exactly the case-fold-equal texts.
   Statements about (1) the sets a caseless character range / single letter compiles to
   (push_casefolded_range, push_rune, sort_and_optimize, contains) and (2) the caseless literal
   instruction (casefold_compare with its per-offset cache).  The model functions are those of
   Ucd/RuneSet.v, Ucd/Lookup.v, Lang/Core.v (utf8_tocasefold) and VM/Machine.v.
   "fold-equal" always means: equal after the library's own simple case folding `tocasefold`. *)
From Coq Require Import NArith ZArith List Bool.
From Lug Require Import Gen.UcdTables Utf8.Utf8Model Utf8.Utf8Spec Ucd.Lookup Ucd.RuneSet Ucd.RuneSetSpec Ucd.UcdSpec
  Lang.Core VM.Machine.
Import ListNotations.
Local Open Scope N_scope.

(* ------------------------------------------------------------------ ranges and letters: sets *)

Definition in_rng (a b x : N) : Prop := a <= x /\ x <= b.

(* x is the case folding, the lower case or the upper case form of r *)
Definition case_image (t : ucd_table) (r x : N) : Prop :=
  tocasefold t r = Some x \/ tolower t r = Some x \/ toupper t r = Some x.

(* x and r are equal after simple case folding (both lookups succeed) *)
Definition fold_eq (t : ucd_table) (x r : N) : Prop :=
  exists f, tocasefold t x = Some f /\ tocasefold t r = Some f.

(* 1. what the set compiled for caseless[chr(a,b)] contains, for every table whatsoever: the range and
      the three images of each of its members.  (Mapped values need no hypothesis: add_delta wraps
      modulo 2^32, so every image is <= max_rune.) *)
Definition stmt_C15_range_members : Prop :=
  forall t a b s, b <= max_rune -> push_casefolded_range t rs_empty a b = RsOk s ->
    forall x, contains (sort_and_optimize s) x = true <->
              (in_rng a b x \/ exists r, in_rng a b r /\ case_image t r x).

Definition stmt_C15_range_reversed : Prop :=
  forall t s a b, b < a -> push_casefolded_range t s a b = RsBadRange.

(* the table-index failure is reported only if some lookup for a member of the range fails ... *)
Definition stmt_C15_range_index_only_if_lookup_fails : Prop :=
  forall t s a b, push_casefolded_range t s a b = RsIndex ->
    exists r, in_rng a b r /\ (tocasefold t r = None \/ tolower t r = None \/ toupper t r = None).

(* ... which never happens with the shipped tables *)
Definition stmt_C15_range_total_on_shipped_table : Prop :=
  forall t, decompress_table = Some t -> forall a b, a <= b ->
    exists s, push_casefolded_range t rs_empty a b = RsOk s.

(* 2. the set compiled for a single caseless ASCII letter b: exactly {b, tolower b, toupper b} *)
Definition letter_set (b l u : N) : rune_set :=
  sort_and_optimize (push_rune (push_rune (push_rune rs_empty b) l) u).

Definition stmt_C15_letter_members : Prop :=
  forall t b l u, b <= max_rune -> tolower t b = Some l -> toupper t b = Some u ->
    forall x, contains (letter_set b l u) x = true <-> (x = b \/ x = l \/ x = u).

(* 3. the property's "iff" for ranges: the set is exactly the fold-equivalence closure of the range.
      (x ranges over char32_t values: beyond 2^32 the model's add_delta wraps, which no rune can witness) *)
Definition range_exact (t : ucd_table) (a b : N) (s : rune_set) : Prop :=
  forall x, x <= max_rune ->
    (contains (sort_and_optimize s) x = true <-> exists r, in_rng a b r /\ fold_eq t x r).

Definition stmt_C15_range_exact : Prop :=
  forall t, decompress_table = Some t ->
  forall a b s, b <= max_rune -> push_casefolded_range t rs_empty a b = RsOk s -> range_exact t a b s.

(* the two facts about the case tables that make it true: the three mappings are consistent with
   folding on the range, and every code point folding into the range's folds is reachable from the range
   through one of the three mappings *)
Definition maps_consistent (t : ucd_table) (a b : N) : Prop :=
  forall r x, in_rng a b r -> case_image t r x -> fold_eq t x r.
Definition fold_preimages_reachable (t : ucd_table) (a b : N) : Prop :=
  forall x r, x <= max_rune -> in_rng a b r -> fold_eq t x r ->
    in_rng a b x \/ exists r', in_rng a b r' /\ case_image t r' x.

Definition stmt_C15_range_exact_partial : Prop :=
  forall t a b s, b <= max_rune -> push_casefolded_range t rs_empty a b = RsOk s ->
    maps_consistent t a b -> fold_preimages_reachable t a b -> range_exact t a b s.

(* the converse: with a consistent table the second hypothesis is also necessary, so the partial theorem
   characterises exactly when the property holds for a range *)
Definition stmt_C15_range_exact_needs_reachable : Prop :=
  forall t a b s, b <= max_rune -> push_casefolded_range t rs_empty a b = RsOk s ->
    range_exact t a b s -> fold_preimages_reachable t a b.

(* on the shipped table the unconditional statement is false: U+017F LATIN SMALL LETTER LONG S folds to
   's' but is not in the set compiled for caseless['a'-'z'] (the loop visits only members of the range and
   their images; 's' maps to 's','s','S') *)
Definition stmt_C15_range_refuted : Prop :=
  exists t s, decompress_table = Some t /\ push_casefolded_range t rs_empty 97 122 = RsOk s /\
    (in_rng 97 122 115 /\ fold_eq t 383 115) /\ contains (sort_and_optimize s) 383 = false.

(* the same for the single letter 's' *)
Definition stmt_C15_letter_refuted : Prop :=
  exists t l u, decompress_table = Some t /\ tolower t 115 = Some l /\ toupper t 115 = Some u /\
    fold_eq t 383 115 /\ contains (letter_set 115 l u) 383 = false.

Definition stmt_C15_range_exact_refuted : Prop := ~ stmt_C15_range_exact.

(* ------------------------------------------------------------------ 4. literals: the match_cf step *)

(* the UTF-8 text of a sequence of scalar values *)
Definition encode_all (rs : list N) : list N := concat (map (fun r => fst (encode_rune r)) rs).

(* r is a scalar value whose folding is a scalar value with an encoding of the same length *)
Definition fold_len_preserved (t : ucd_table) (r : N) : Prop :=
  is_scalar r = true /\ exists f, tocasefold t r = Some f /\ is_scalar f = true /\ utf8_len f = utf8_len r.

(* every entry (n, v) of the per-offset cache of casefold_compare is the folding of the n buffered bytes at
   its offset *)
Definition cache_sound (ucd : ucd_table) (s : mstate) : Prop :=
  forall i n v, cache_get (foldcache s) i = Some (n, v) ->
    i + n <= lenN (buf s) /\ utf8_tocasefold ucd (firstnN n (subject_from i s)) = Some v.

Definition stmt_C15_cache_sound_init : Prop :=
  forall ucd input chunks inter conds0 syms0, cache_sound ucd (init_state input chunks inter conds0 syms0).

(* casefold_compare keeps the cache sound (it is only called once `available` has seen n bytes at i) *)
Definition stmt_C15_cache_sound_preserved : Prop :=
  forall ucd i n str s r s', cache_sound ucd s -> i + n <= lenN (buf s) ->
    casefold_compare_at ucd i n str s = Some (r, s') ->
    cache_sound ucd s' /\ buf s' = buf s /\ sr s' = sr s.

(* reading more input keeps it sound as well *)
Definition stmt_C15_cache_sound_poll : Prop :=
  forall ucd s, cache_sound ucd s -> cache_sound ucd (poll s).

(* the outcome of the instruction `match_cf str` in state s *)
Definition lit_accepts (ucd : ucd_table) (str : list N) (s : mstate) (n : N) : Prop :=
  exists s', m_seq ucd true str s = inr (false, s') /\ sr s' = sr s + n /\ buf s' = buf s /\ cache_sound ucd s'.
Definition lit_rejects (ucd : ucd_table) (str : list N) (s : mstate) : Prop :=
  exists s', m_seq ucd true str s = inr (true, s') /\ sr s' = sr s /\ buf s' = buf s /\ cache_sound ucd s'.

(* The setting: the literal's text is the UTF-8 encoding of the scalars rs (str is the operand the
   compiler emits for it, i.e. its folding), the buffered input at sr starts with the encoding of the
   scalars rs'. *)
Definition literal_setting (ucd : ucd_table) (rs rs' : list N) (str : list N) (s : mstate) : Prop :=
  rs <> [] /\
  utf8_tocasefold ucd (encode_all rs) = Some str /\
  (exists rest, subject_from (sr s) s = encode_all rs' ++ rest) /\
  bytes_ok (buf s) /\
  cache_sound ucd s.

(* the property for literals, on the shipped table, for arbitrary texts: false (see the refutations) *)
Definition stmt_C15_literal : Prop :=
  forall ucd, decompress_table = Some ucd ->
  forall rs rs' str s, Forall (fun r => is_scalar r = true) rs -> Forall (fun r => is_scalar r = true) rs' ->
    literal_setting ucd rs rs' str s ->
    (lit_accepts ucd str s (lenN (encode_all rs')) <-> Forall2 (fold_eq ucd) rs rs').

(* what holds, for every table: if folding preserves the encoded length of every character involved and the
   input text has as many bytes as the literal's text, the step accepts (advancing over the input text) iff the
   two texts are fold-equal character by character; otherwise it rejects without moving.  Whatever the
   (sound) cache holds. *)
Definition stmt_C15_literal_partial : Prop :=
  forall ucd rs rs' str s,
    Forall (fold_len_preserved ucd) rs -> Forall (fold_len_preserved ucd) rs' ->
    literal_setting ucd rs rs' str s ->
    lenN (encode_all rs') = lenN (encode_all rs) ->
    (lit_accepts ucd str s (lenN (encode_all rs')) \/ lit_rejects ucd str s) /\
    (lit_accepts ucd str s (lenN (encode_all rs')) <-> Forall2 (fold_eq ucd) rs rs').

(* fold-equal texts of length-preserved characters have the same number of bytes, so the "if" direction
   needs no hypothesis on byte lengths *)
Definition stmt_C15_literal_accepts : Prop :=
  forall ucd rs rs' str s,
    Forall (fold_len_preserved ucd) rs -> Forall (fold_len_preserved ucd) rs' ->
    literal_setting ucd rs rs' str s ->
    Forall2 (fold_eq ucd) rs rs' ->
    lit_accepts ucd str s (lenN (encode_all rs')).

(* Refutations of stmt_C15_literal by evaluation on the shipped table (all caches empty):
   (a) literal "as" against input "a" ++ U+017F: fold-equal, rejected (the operand's length, 2 bytes, is
       cut out of the input before folding, which splits U+017F);
   (b) literal U+017F against the identical input U+017F: rejected (operand "s", 1 byte). *)
Definition stmt_C15_literal_refuted : Prop :=
  exists ucd, decompress_table = Some ucd /\
    (exists str, let s := init_state (encode_all [97; 383]) [] false [] [] in
       literal_setting ucd [97; 115] [97; 383] str s /\ Forall2 (fold_eq ucd) [97; 115] [97; 383] /\
       lit_rejects ucd str s) /\
    (exists str, let s := init_state (encode_all [383]) [] false [] [] in
       literal_setting ucd [383] [383] str s /\ Forall2 (fold_eq ucd) [383] [383] /\
       lit_rejects ucd str s).

Definition stmt_C15_literal_not_general : Prop := ~ stmt_C15_literal.

(* (c) with a length-changing folding the outcome depends on what the cache happens to hold, even though it
   is sound: input U+017F 's'.  In a fresh state `match_cf "s"` rejects; after a (failed) `match_cf "ss"` at
   the same offset it accepts and leaves sr in the middle of the two-byte character. *)
Definition stmt_C15_literal_cache_dependent : Prop :=
  exists ucd, decompress_table = Some ucd /\
    let s0 := init_state (encode_all [383; 115]) [] false [] [] in
    exists s1, m_seq ucd true [115; 115] s0 = inr (true, s1) /\
      sr s1 = sr s0 /\ buf s1 = buf s0 /\ cache_sound ucd s0 /\ cache_sound ucd s1 /\
      lit_rejects ucd [115] s0 /\ lit_accepts ucd [115] s1 1.
