(* C15 -- case-insensitive matching accepts exactly the case-fold-equal texts.
   Statements about (1) the sets a caseless character range / single letter compiles to
   (push_casefolded_range, push_rune, sort_and_optimize, contains) and (2) the caseless literal
   instruction (casefold_compare with its per-offset cache).  The model functions are those of
   Ucd/RuneSet.v, Ucd/Lookup.v, Lang/Core.v (utf8_tocasefold) and VM/Machine.v.
   "fold-equal" always means: equal after the library's own simple case folding `tocasefold`. *)
From Coq Require Import NArith ZArith List Bool.
From Lug Require Import Gen.UcdTables Utf8.Utf8Model Utf8.Utf8Spec Ucd.Lookup Ucd.RuneSet Ucd.RuneSetSpec Ucd.UcdSpec
  Lang.Core VM.Machine.
Import ListNotations.
Local Open Scope N_scope.

(* ------------------------------------------------------------------ ranges and letters: sets *)

Definition in_rng (a b x : N) : Prop := a <= x /\ x <= b.

(* x is the case folding, the lower case or the upper case form of r *)
Definition case_image (t : ucd_table) (r x : N) : Prop :=
  tocasefold t r = Some x \/ tolower t r = Some x \/ toupper t r = Some x.

(* x and r are equal after simple case folding (both lookups succeed) *)
Definition fold_eq (t : ucd_table) (x r : N) : Prop :=
  exists f, tocasefold t x = Some f /\ tocasefold t r = Some f.

(* 1. what the set compiled for caseless[chr(a,b)] contains, for every table whatsoever: the range and
      the three images of each of its members.  (Mapped values need no hypothesis: add_delta wraps
      modulo 2^32, so every image is <= max_rune.) *)
Definition stmt_C15_range_members : Prop :=
  forall t a b s, b <= max_rune -> push_casefolded_range t rs_empty a b = RsOk s ->
    forall x, contains (sort_and_optimize s) x = true <->
              (in_rng a b x \/ exists r, in_rng a b r /\ case_image t r x).

Definition stmt_C15_range_reversed : Prop :=
  forall t s a b, b < a -> push_casefolded_range t s a b = RsBadRange.

(* the table-index failure is reported only if some lookup for a member of the range fails ... *)
Definition stmt_C15_range_index_only_if_lookup_fails : Prop :=
  forall t s a b, push_casefolded_range t s a b = RsIndex ->
    exists r, in_rng a b r /\ (tocasefold t r = None \/ tolower t r = None \/ toupper t r = None).

(* ... which never happens with the shipped tables *)
Definition stmt_C15_range_total_on_shipped_table : Prop :=
  forall t, decompress_table = Some t -> forall a b, a <= b ->
    exists s, push_casefolded_range t rs_empty a b = RsOk s.

(* 2. the set compiled for a single caseless ASCII letter b: exactly {b, tolower b, toupper b} *)
Definition letter_set (b l u : N) : rune_set :=
  sort_and_optimize (push_rune (push_rune (push_rune rs_empty b) l) u).

Definition stmt_C15_letter_members : Prop :=
  forall t b l u, b <= max_rune -> tolower t b = Some l -> toupper t b = Some u ->
    forall x, contains (letter_set b l u) x = true <-> (x = b \/ x = l \/ x = u).

(* 3. the property's "iff" for ranges: the set is exactly the fold-equivalence closure of the range *)
Definition range_exact (t : ucd_table) (a b : N) (s : rune_set) : Prop :=
  forall x, contains (sort_and_optimize s) x = true <-> exists r, in_rng a b r /\ fold_eq t x r.

Definition stmt_C15_range_exact : Prop :=
  forall t, decompress_table = Some t ->
  forall a b s, b <= max_rune -> push_casefolded_range t rs_empty a b = RsOk s -> range_exact t a b s.

(* the two facts about the case tables that make it true: the three mappings are consistent with
   folding on the range, and every code point folding into the range's folds is reachable from the range
   through one of the three mappings *)
Definition maps_consistent (t : ucd_table) (a b : N) : Prop :=
  forall r x, in_rng a b r -> case_image t r x -> fold_eq t x r.
Definition fold_preimages_reachable (t : ucd_table) (a b : N) : Prop :=
  forall x r, in_rng a b r -> fold_eq t x r -> in_rng a b x \/ exists r', in_rng a b r' /\ case_image t r' x.

Definition stmt_C15_range_exact_partial : Prop :=
  forall t a b s, b <= max_rune -> push_casefolded_range t rs_empty a b = RsOk s ->
    maps_consistent t a b -> fold_preimages_reachable t a b -> range_exact t a b s.

(* the converse: with a consistent table the second hypothesis is also necessary, so the partial theorem
   characterises exactly when the property holds for a range *)
Definition stmt_C15_range_exact_needs_reachable : Prop :=
  forall t a b s, b <= max_rune -> push_casefolded_range t rs_empty a b = RsOk s ->
    range_exact t a b s -> fold_preimages_reachable t a b.

(* on the shipped table the unconditional statement is false: U+017F LATIN SMALL LETTER LONG S folds to
   's' but is not in the set compiled for caseless['a'-'z'] (the loop visits only members of the range and
   their images; 's' maps to 's','s','S') *)
Definition stmt_C15_range_refuted : Prop :=
  exists t s, decompress_table = Some t /\ push_casefolded_range t rs_empty 97 122 = RsOk s /\
    (in_rng 97 122 115 /\ fold_eq t 383 115) /\ contains (sort_and_optimize s) 383 = false.

(* the same for the single letter 's' *)
Definition stmt_C15_letter_refuted : Prop :=
  exists t l u, decompress_table = Some t /\ tolower t 115 = Some l /\ toupper t 115 = Some u /\
    fold_eq t 383 115 /\ contains (letter_set 115 l u) 383 = false.
