(* Lifting lemmas for the exhaustive sweeps of C14: a boolean sweep that evaluates to true under
   vm_compute yields the universally quantified statement over the whole (finite) domain. *)
From Coq Require Import NArith ZArith List Bool Lia.
From Lug Require Import Gen.UcdTables Ucd.Rle Ucd.Lookup Ucd.UcdSpec.
Local Open Scope N_scope.

Definition sweep_step (f : N -> bool) (st : N * bool) : N * bool := let '(i, acc) := st in (i + 1, acc && f i).

Lemma sweep_inv (f : N -> bool) (n : N) :
  fst (N.iter n (sweep_step f) (0, true)) = n /\
  (snd (N.iter n (sweep_step f) (0, true)) = true -> forall j, j < n -> f j = true).
Proof.
  induction n as [|n IH] using N.peano_ind.
  - cbn. split; [reflexivity|]. intros _ j Hj. lia.
  - rewrite N.iter_succ. destruct IH as [IH1 IH2].
    destruct (N.iter n (sweep_step f) (0, true)) as [i acc] eqn:E. cbn [fst snd] in *. subst i.
    unfold sweep_step. cbn [fst snd]. split; [lia|].
    intros H j Hj. apply andb_true_iff in H. destruct H as [Ha Hf].
    destruct (N.eq_dec j n) as [->|Hne]; [exact Hf|]. apply IH2; [exact Ha|lia].
Qed.

Lemma forall_upto_spec n f : forall_upto n f = true -> forall j, j < n -> f j = true.
Proof. unfold forall_upto. intros H. exact (proj2 (sweep_inv f n) H). Qed.

Lemma forall_cp_spec t P :
  forall_cp t P = true -> forall cp, cp < rune_limit -> exists r, query t cp = Some r /\ P cp r = true.
Proof.
  unfold forall_cp. intros H cp Hcp. pose proof (forall_upto_spec _ _ H cp Hcp) as Hq. cbv beta in Hq.
  destruct (query t cp) as [r|]; [exists r; split; [reflexivity|exact Hq]|discriminate].
Qed.

(* the sweep as a function of the decoded table, so that one vm_compute decodes and sweeps *)
Definition sweep (P : ucd_table -> N -> raw_record -> bool) : bool :=
  match decompress_table with Some t => forall_cp t (P t) | None => false end.

Lemma sweep_spec P :
  sweep P = true -> forall t, decompress_table = Some t ->
  forall cp, cp < rune_limit -> exists r, query t cp = Some r /\ P t cp r = true.
Proof.
  unfold sweep. intros H t Ht. rewrite Ht in H. exact (forall_cp_spec t (P t) H).
Qed.
