(* C14: what is decided about the Unicode tables shipped in unicode.hpp, for every code point.
   The UCD 16.0 data files themselves are not available offline; the statements below are the parts of
   the property that are fixed by the standard's own derivation rules and constants (UTS #18 Annex C,
   DerivedCoreProperties, PropList invariants) and by the internal structure of the tables. *)
From Coq Require Import NArith ZArith List Bool.
From Lug Require Import Gen.UcdTables Ucd.Rle Ucd.Lookup.
Import ListNotations.
Local Open Scope N_scope.

(* ---- iteration over all code points ---- *)
Definition forall_upto (n : N) (f : N -> bool) : bool :=
  snd (N.iter n (fun st => let '(i, acc) := st in (i + 1, acc && f i)) (0, true)).

Definition forall_cp (t : ucd_table) (P : N -> raw_record -> bool) : bool :=
  forall_upto rune_limit (fun cp => match query t cp with Some r => P cp r | None => false end).

Definition p (r : raw_record) (bit : N) : bool := has (pflags_ r) bit.
Definition c (r : raw_record) (bit : N) : bool := has (cflags_ r) bit.
Definition gcin (r : raw_record) (mask : N) : bool := has (rec_gc r) mask.

(* ---- UTS #18 Annex C: POSIX compatibility classes (standard recommendation) ---- *)
Definition annexC (cp : N) (r : raw_record) : N :=
  let alpha := p r ptype_Alphabetic in
  let lower := p r ptype_Lowercase in
  let upper := p r ptype_Uppercase in
  let punct := gcin r gctype_P in
  let digit := gcin r gctype_Nd in
  let xdigit := digit || p r ptype_Hex_Digit in
  let alnum := alpha || digit in
  let space := p r ptype_White_Space in
  let blank := gcin r gctype_Zs || (cp =? 9) in
  let cntrl := gcin r gctype_Cc in
  let graph := negb space && negb (gcin r (N.lor gctype_Cc (N.lor gctype_Cs gctype_Cn))) in
  let print := (graph || blank) && negb cntrl in
  let word := alpha || gcin r gctype_M || digit || gcin r gctype_Pc || p r ptype_Join_Control in
  let b (v : bool) (bit : N) := if v then bit else 0 in
  b alpha ctype_alpha + b lower ctype_lower + b upper ctype_upper + b punct ctype_punct + b digit ctype_digit +
  b xdigit ctype_xdigit + b alnum ctype_alnum + b space ctype_space + b blank ctype_blank + b cntrl ctype_cntrl +
  b graph ctype_graph + b print ctype_print + b word ctype_word.

Definition chk_annexC (cp : N) (r : raw_record) : bool := cflags_ r =? annexC cp r.

(* ---- DerivedCoreProperties.txt derivations that are closed over fields the tables store ---- *)
Definition chk_derived (cp : N) (r : raw_record) : bool :=
  Bool.eqb (p r ptype_Lowercase) (gcin r gctype_Ll || p r ptype_Other_Lowercase) &&
  Bool.eqb (p r ptype_Uppercase) (gcin r gctype_Lu || p r ptype_Other_Uppercase) &&
  Bool.eqb (p r ptype_Cased) (p r ptype_Lowercase || p r ptype_Uppercase || gcin r gctype_Lt) &&
  Bool.eqb (p r ptype_Alphabetic)
           (p r ptype_Lowercase || p r ptype_Uppercase || gcin r (gctype_Lt + gctype_Lm + gctype_Lo + gctype_Nl) || p r ptype_Other_Alphabetic) &&
  Bool.eqb (p r ptype_Math) (gcin r gctype_Sm || p r ptype_Other_Math) &&
  Bool.eqb (p r ptype_ID_Start)
           ((gcin r (gctype_L + gctype_Nl) || p r ptype_Other_ID_Start) && negb (p r ptype_Pattern_Syntax) && negb (p r ptype_Pattern_White_Space)) &&
  Bool.eqb (p r ptype_ID_Continue)
           ((p r ptype_ID_Start || gcin r (gctype_Mn + gctype_Mc + gctype_Nd + gctype_Pc) || p r ptype_Other_ID_Continue)
            && negb (p r ptype_Pattern_Syntax) && negb (p r ptype_Pattern_White_Space)) &&
  Bool.eqb (p r ptype_Grapheme_Extend) (gcin r (gctype_Me + gctype_Mn) || p r ptype_Other_Grapheme_Extend) &&
  Bool.eqb (p r ptype_Grapheme_Base)
           (negb (gcin r (gctype_Cc + gctype_Cf + gctype_Cs + gctype_Co + gctype_Cn + gctype_Zl + gctype_Zp)) && negb (p r ptype_Grapheme_Extend)) &&
  Bool.eqb (p r ptype_Default_Ignorable_Code_Point)
           ((p r ptype_Other_Default_Ignorable_Code_Point || gcin r gctype_Cf || p r ptype_Variation_Selector)
            && negb (p r ptype_White_Space) && negb ((65529 <=? cp) && (cp <=? 65531)) && negb ((78896 <=? cp) && (cp <=? 78912))
            && negb (p r ptype_Prepended_Concatenation_Mark)) &&
  Bool.eqb (p r ptype_Assigned) (negb (gcin r gctype_Cn)).

(* ---- facts fixed by the standard itself ---- *)
Definition is_line_ending (cp : N) : bool :=
  (cp =? 10) || (cp =? 11) || (cp =? 12) || (cp =? 13) || (cp =? 133) || (cp =? 8232) || (cp =? 8233).
Definition is_nonchar (cp : N) : bool := ((64976 <=? cp) && (cp <=? 65007)) || (N.land cp 65534 =? 65534).
Definition is_private_use (cp : N) : bool :=
  ((57344 <=? cp) && (cp <=? 63743)) || ((983040 <=? cp) && (cp <=? 1048573)) || ((1048576 <=? cp) && (cp <=? 1114109)).

Definition chk_constants (cp : N) (r : raw_record) : bool :=
  p r ptype_Any &&
  Bool.eqb (p r ptype_Ascii) (cp <? 128) &&
  Bool.eqb (p r ptype_Noncharacter_Code_Point) (is_nonchar cp) &&
  Bool.eqb (p r ptype_Line_Ending) (is_line_ending cp) &&
  Bool.eqb (gcin r gctype_Cs) ((55296 <=? cp) && (cp <=? 57343)) &&
  Bool.eqb (gcin r gctype_Co) (is_private_use cp) &&
  (* exactly one general category *)
  (N.land (rec_gc r) (rec_gc r - 1) =? 0) && negb (rec_gc r =? 0).

(* blocks are allocated in multiples of 16 code points *)
Definition chk_block_aligned (t : ucd_table) (cp : N) (r : raw_record) : bool :=
  match query t (cp - cp mod 16) with Some r0 => rec_block r0 =? rec_block r | None => false end.

(* every table index stays inside its table, for every 32-bit argument *)
Definition chk_indices (t : ucd_table) (cp : N) (r : raw_record) : bool :=
  match tocasefold t cp, tolower t cp, toupper t cp with Some _, Some _, Some _ => true | _, _, _ => false end.

Definition decoded_length (w : N) (l : list N) : option N :=
  match rle_decode w l with Some d => Some (N.of_nat (length d)) | None => None end.

(* ---- statements ---- *)
Definition stmt_C14_tables_decode : Prop := exists t, decompress_table = Some t.

Definition stmt_C14_indices_in_range : Prop :=
  forall t, decompress_table = Some t ->
    forall cp, exists r, query t cp = Some r /\ tocasefold t cp <> None /\ tolower t cp <> None /\ toupper t cp <> None.

Definition stmt_C14_annexC : Prop :=
  forall t, decompress_table = Some t -> forall cp, cp < rune_limit -> exists r, query t cp = Some r /\ cflags_ r = annexC cp r.

Definition stmt_C14_derived_core : Prop :=
  forall t, decompress_table = Some t -> forall cp, cp < rune_limit -> exists r, query t cp = Some r /\ chk_derived cp r = true.

Definition stmt_C14_standard_constants : Prop :=
  forall t, decompress_table = Some t -> forall cp, cp < rune_limit -> exists r, query t cp = Some r /\ chk_constants cp r = true.

Definition stmt_C14_blocks_aligned : Prop :=
  forall t, decompress_table = Some t -> forall cp, cp < rune_limit -> exists r, query t cp = Some r /\ chk_block_aligned t cp r = true.

Definition stmt_C14_out_of_range_invalid : Prop :=
  forall t, decompress_table = Some t -> forall cp, rune_limit <= cp -> query_index t cp = Some invalid_record_index.

(* the stage tables and four of the field arrays decode to exactly their declared sizes *)
Definition stmt_C14_decode_lengths_partial : Prop :=
  decoded_length rlestage1_width rlestage1 = Some stage1_size /\
  decoded_length rlestage2_width rlestage2 = Some stage2_size /\
  decoded_length rlepflagindices_width rlepflagindices = Some records_size /\
  decoded_length rlecflagindices_width rlecflagindices = Some records_size /\
  decoded_length rleabfields_width rleabfields = Some records_size /\
  decoded_length rlegcindices_width rlegcindices = Some records_size.

(* the full statement: every field array decodes to one entry per record ... *)
Definition stmt_C14_decode_lengths : Prop :=
  stmt_C14_decode_lengths_partial /\
  decoded_length rlescindices_width rlescindices = Some records_size /\
  decoded_length rlewfields_width rlewfields = Some records_size /\
  decoded_length rlecfindices_width rlecfindices = Some records_size /\
  decoded_length rleclindices_width rleclindices = Some records_size /\
  decoded_length rlecuindices_width rlecuindices = Some records_size.

(* ... which the shipped tables violate (the generator's run-length encoder drops run tails) *)
Definition stmt_C14_decode_lengths_refuted : Prop := ~ stmt_C14_decode_lengths.

(* simple case conversions are consistent with each other: the property's last clause, refuted *)
Definition stmt_C14_casefold_idempotent : Prop :=
  forall t, decompress_table = Some t -> forall cp, cp < rune_limit ->
    match tocasefold t cp with Some f => tocasefold t f = Some f | None => False end.
Definition stmt_C14_casefold_idempotent_refuted : Prop := ~ stmt_C14_casefold_idempotent.

Definition stmt_C14_fold_lower : Prop :=
  forall t, decompress_table = Some t -> forall cp, cp < rune_limit ->
    match tolower t cp with Some l => tocasefold t l = tocasefold t cp | None => False end.
Definition stmt_C14_fold_lower_refuted : Prop := ~ stmt_C14_fold_lower.

Definition stmt_C14_fold_upper : Prop :=
  forall t, decompress_table = Some t -> forall cp, cp < rune_limit ->
    match toupper t cp with Some u => tocasefold t u = tocasefold t cp | None => False end.
Definition stmt_C14_fold_upper_refuted : Prop := ~ stmt_C14_fold_upper.

(* every case mapping of a code point is a code point: refuted as well (deltas read from shifted records) *)
Definition stmt_C14_maps_in_range : Prop :=
  forall t, decompress_table = Some t -> forall cp, cp < rune_limit ->
    match tolower t cp with Some l => l < rune_limit | None => False end.
Definition stmt_C14_maps_in_range_refuted : Prop := ~ stmt_C14_maps_in_range.

(* a few facts that no version of the UCD can change (blocks are never moved, U+4E00 is the first CJK
   unified ideograph, the Kelvin sign folds to k): the shipped tables get them wrong *)
Definition chk_spot (t : ucd_table) : bool :=
  match query t 65, query t 19968, tocasefold t 8490 with
  | Some ra, Some rh, Some fk =>
      (rec_block ra =? blktype_Basic_Latin) && (rec_script rh =? sctype_Han) && (rec_eaw rh =? eawtype_W) &&
      (Z.eqb (rec_cwidth rh) 2) && (fk =? 107)
  | _, _, _ => false
  end.
Definition stmt_C14_spot_facts : Prop := forall t, decompress_table = Some t -> chk_spot t = true.
Definition stmt_C14_spot_facts_refuted : Prop := ~ stmt_C14_spot_facts.
