(* Boolean checkers for the two table hypotheses of stmt_C15_range_exact_partial (Ucd/CaselessSpec.v) and
   their lifting lemmas; the evaluations themselves are in Ucd/CaselessSweep_reach.v and Ucd/CaselessWitness.v. *)
From Coq Require Import NArith ZArith List Bool Lia ZifyBool ZifyN.
From Lug Require Import Gen.UcdTables Ucd.Lookup Ucd.RuneSet Ucd.RuneSetSpec Ucd.RuneSetProofs
  Ucd.UcdSpec Ucd.UcdSweep Ucd.UcdProofs Ucd.CaselessSpec Ucd.CaselessProofs.
Import ListNotations.
Local Open Scope N_scope.

Strategy opaque [decompress_table].
(* forall_upto over a numeral must never be unfolded by unification or the kernel (it would run the sweep symbolically) *)
Strategy opaque [forall_upto].

Fixpoint rng_list (n : nat) (a : N) : list N :=
  match n with O => [] | S n' => a :: rng_list n' (a + 1) end.
Definition rng (a b : N) : list N := rng_list (N.to_nat (b + 1 - a)) a.

Lemma rng_list_In : forall n a r, In r (rng_list n a) <-> (a <= r /\ r < a + N.of_nat n).
Proof.
  induction n as [| n IH]; intros a r.
  - cbn [rng_list In]. lia.
  - cbn [rng_list In]. rewrite (IH (a + 1) r). lia.
Qed.

Lemma rng_In : forall a b r, In r (rng a b) <-> in_rng a b r.
Proof.
  intros a b r. unfold rng, in_rng. rewrite rng_list_In. lia.
Qed.

Definition memN (x : N) (l : list N) : bool := existsb (N.eqb x) l.
Definition olist (o : option N) : list N := match o with Some x => [x] | None => [] end.
Definition opt_eqb (a b : option N) : bool := match a, b with Some x, Some y => x =? y | _, _ => false end.

Lemma memN_In : forall x l, memN x l = true <-> In x l.
Proof.
  intros x l. unfold memN. rewrite existsb_exists. split.
  - intros [y [Hy He]]. apply N.eqb_eq in He. subst y. exact Hy.
  - intro H. exists x. split; [exact H | apply N.eqb_refl].
Qed.

Lemma olist_In : forall o x, In x (olist o) <-> o = Some x.
Proof.
  intros o x. destruct o as [y |]; cbn [olist In].
  - split; [intros [-> | []]; reflexivity | intro H; injection H as ->; left; reflexivity].
  - split; [intros [] | intro H; discriminate H].
Qed.

Definition images (t : ucd_table) (r : N) : list N :=
  olist (tocasefold t r) ++ olist (tolower t r) ++ olist (toupper t r).

Lemma images_spec : forall t r x, In x (images t r) <-> case_image t r x.
Proof.
  intros t r x. unfold images, case_image. rewrite !in_app_iff, !olist_In. tauto.
Qed.

(* every code point whose folding is the folding of a member of [a,b] is in [a,b] or an image of a member *)
Definition reach_chk (a b : N) (t : ucd_table) (fs ims : list N) (x : N) : bool :=
  match tocasefold t x with
  | Some f => if memN f fs then ((a <=? x) && (x <=? b)) || memN x ims else true
  | None => true
  end.
Definition range_folds (t : ucd_table) (a b : N) : list N := flat_map (fun r => olist (tocasefold t r)) (rng a b).
Definition range_images (t : ucd_table) (a b : N) : list N := flat_map (images t) (rng a b).
Definition reach_ok (a b : N) (t : ucd_table) : bool :=
  forall_upto rune_limit (reach_chk a b t (range_folds t a b) (range_images t a b)).

(* the record of everything beyond U+10FFFF folds to itself *)
Definition invalid_fold_zero (t : ucd_table) : bool :=
  match record_at t invalid_record_index with
  | Some q => match case_mapping (cfindex q) with Some d => Z.eqb d 0 | None => false end
  | None => false
  end.

Lemma fold_beyond : forall t x, invalid_fold_zero t = true -> rune_limit <= x -> x <= max_rune ->
  tocasefold t x = Some x.
Proof.
  intros t x Hz Hx Hm. unfold tocasefold. rewrite (query_out_of_range t x Hx).
  unfold invalid_fold_zero in Hz.
  destruct (record_at t invalid_record_index) as [q |]; [| discriminate Hz].
  destruct (case_mapping (cfindex q)) as [d |]; [| discriminate Hz].
  apply Z.eqb_eq in Hz. subst d. f_equal. unfold add_delta. rewrite max_rune_eq in Hm.
  rewrite Z.add_0_r. rewrite Z.mod_small by lia. lia.
Qed.

Lemma reach_ok_at : forall a b t x, reach_ok a b t = true -> x < rune_limit ->
  reach_chk a b t (range_folds t a b) (range_images t a b) x = true.
Proof.
  intros a b t x H Hx. unfold reach_ok in H.
  exact (forall_upto_spec rune_limit (reach_chk a b t (range_folds t a b) (range_images t a b)) H x Hx).
Qed.

Lemma reach_ok_spec : forall a b t, reach_ok a b t = true -> invalid_fold_zero t = true ->
  fold_preimages_reachable t a b.
Proof.
  intros a b t Hr Hz x r Hx Hin [f [Hfx Hfr]].
  destruct (N.lt_ge_cases x rune_limit) as [Hlt | Hge].
  - pose proof (reach_ok_at a b t x Hr Hlt) as Hc. unfold reach_chk in Hc. rewrite Hfx in Hc.
    assert (Hmem : memN f (range_folds t a b) = true).
    { apply memN_In. unfold range_folds. apply in_flat_map. exists r. split; [apply rng_In; exact Hin | apply olist_In; exact Hfr]. }
    rewrite Hmem in Hc. apply orb_true_iff in Hc. destruct Hc as [Hc | Hc].
    + left. unfold in_rng. lia.
    + right. apply memN_In in Hc. unfold range_images in Hc. apply in_flat_map in Hc. destruct Hc as [r' [Hr' Hi]].
      exists r'. split; [apply rng_In; exact Hr' | apply images_spec; exact Hi].
  - right. exists r. split; [exact Hin |].
    rewrite (fold_beyond t x Hz Hge Hx) in Hfx. injection Hfx as <-.
    left. exact Hfr.
Qed.

(* the three mappings of every member of [a,b] fold to the member's folding *)
Definition cons_ok (a b : N) (t : ucd_table) : bool :=
  forallb (fun r => match tocasefold t r with
                    | Some f => forallb (fun x => opt_eqb (tocasefold t x) (Some f)) (images t r)
                    | None => false
                    end) (rng a b).

Lemma cons_ok_spec : forall a b t, cons_ok a b t = true -> maps_consistent t a b.
Proof.
  intros a b t Hc r x Hin Hi. unfold cons_ok in Hc. rewrite forallb_forall in Hc.
  pose proof (Hc r (proj2 (rng_In a b r) Hin)) as H. cbv beta in H.
  destruct (tocasefold t r) as [f |] eqn:Hf; [| discriminate H].
  rewrite forallb_forall in H. pose proof (H x (proj2 (images_spec t r x) Hi)) as Hx.
  unfold opt_eqb in Hx. destruct (tocasefold t x) as [g |] eqn:Hg; [| discriminate Hx].
  apply N.eqb_eq in Hx. subst g. exists f. split; [exact Hg | exact Hf].
Qed.
