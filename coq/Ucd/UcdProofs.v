(* Proofs of the C14 obligations: exhaustive sweeps (Ucd/UcdSweep_*.v, one vm_compute each over all
   1,114,112 code points) lifted by Ucd/UcdSweep.v, plus point evaluations for the refuted statements. *)
From Coq Require Import NArith ZArith List Bool Lia.
From Lug Require Import Gen.UcdTables Ucd.Rle Ucd.Lookup Ucd.UcdSpec Ucd.UcdSweep
  Ucd.UcdSweep_annexC Ucd.UcdSweep_derived Ucd.UcdSweep_constants Ucd.UcdSweep_blocks Ucd.UcdSweep_indices.
Import ListNotations.
Local Open Scope N_scope.

(* keep the kernel from ever unfolding the table while converting types: every evaluation below is an
   explicit vm_compute *)
Strategy opaque [decompress_table].

Definition with_table (f : ucd_table -> bool) : bool :=
  match decompress_table with Some t => f t | None => false end.

Lemma with_table_spec f t : decompress_table = Some t -> with_table f = f t.
Proof. unfold with_table. intros ->. reflexivity. Qed.

Lemma table_exists : with_table (fun _ => true) = true.
Proof. vm_compute. reflexivity. Qed.

Lemma with_table_some f : with_table f = true -> exists t, decompress_table = Some t.
Proof.
  unfold with_table. destruct decompress_table as [t|].
  - intros _. exists t. reflexivity.
  - intros H. discriminate H.
Qed.

Lemma C14_tables_decode_proof : stmt_C14_tables_decode.
Proof. exact (with_table_some _ table_exists). Qed.

(* the record every out-of-range argument maps to exists and its case-mapping indices are valid *)
Definition chk_invalid (t : ucd_table) : bool :=
  match record_at t invalid_record_index with
  | Some x => match case_mapping (cfindex x), case_mapping (clindex x), case_mapping (cuindex x) with
              | Some _, Some _, Some _ => true | _, _, _ => false end
  | None => false
  end.
Lemma invalid_ok : with_table chk_invalid = true.
Proof. vm_compute. reflexivity. Qed.

Lemma query_out_of_range t cp : rune_limit <= cp -> query t cp = record_at t invalid_record_index.
Proof.
  intros H. unfold query, query_index. destruct (N.ltb_spec cp rune_limit) as [Hlt|_]; [lia|reflexivity].
Qed.

Lemma some_ne_none {A} (x : A) : Some x <> None. Proof. intros H; inversion H. Qed.

(* NB: never run a bare `discriminate`/`easy` with `decompress_table = Some t` in the context: the tactic
   would try to head-normalise the table. *)
Lemma C14_indices_in_range_proof : stmt_C14_indices_in_range.
Proof.
  intros t Ht cp. destruct (N.lt_ge_cases cp rune_limit) as [Hlt|Hge].
  - destruct (sweep_spec _ sweep_indices t Ht cp Hlt) as [r [Hq Hc]]. clear Ht. exists r. split; [exact Hq|].
    unfold chk_indices in Hc.
    destruct (tocasefold t cp) as [a|]; [|discriminate Hc].
    destruct (tolower t cp) as [b|]; [|discriminate Hc].
    destruct (toupper t cp) as [c'|]; [|discriminate Hc].
    repeat split; apply some_ne_none.
  - pose proof invalid_ok as Hi. rewrite (with_table_spec _ t Ht) in Hi. clear Ht. unfold chk_invalid in Hi.
    pose proof (query_out_of_range t cp Hge) as Hq.
    destruct (record_at t invalid_record_index) as [x|] eqn:Ex; [|discriminate Hi].
    exists x. split; [exact Hq|].
    unfold tocasefold, tolower, toupper. rewrite Hq.
    destruct (case_mapping (cfindex x)) as [a|]; [|discriminate Hi].
    destruct (case_mapping (clindex x)) as [b|]; [|discriminate Hi].
    destruct (case_mapping (cuindex x)) as [c'|]; [|discriminate Hi].
    repeat split; apply some_ne_none.
Qed.

Lemma C14_annexC_proof : stmt_C14_annexC.
Proof.
  intros t Ht cp Hlt. destruct (sweep_spec _ sweep_annexC t Ht cp Hlt) as [r [Hq Hc]].
  exists r. split; [exact Hq|]. unfold chk_annexC in Hc. apply N.eqb_eq in Hc. exact Hc.
Qed.

Lemma C14_derived_core_proof : stmt_C14_derived_core.
Proof. intros t Ht cp Hlt. exact (sweep_spec _ sweep_derived t Ht cp Hlt). Qed.

Lemma C14_standard_constants_proof : stmt_C14_standard_constants.
Proof. intros t Ht cp Hlt. exact (sweep_spec _ sweep_constants t Ht cp Hlt). Qed.

Lemma C14_blocks_aligned_proof : stmt_C14_blocks_aligned.
Proof. intros t Ht cp Hlt. exact (sweep_spec _ sweep_blocks t Ht cp Hlt). Qed.

Lemma C14_out_of_range_invalid_proof : stmt_C14_out_of_range_invalid.
Proof.
  intros t _ cp H. unfold query_index. destruct (N.ltb_spec cp rune_limit) as [Hlt|_]; [lia|reflexivity].
Qed.

Lemma C14_decode_lengths_partial_proof : stmt_C14_decode_lengths_partial.
Proof. unfold stmt_C14_decode_lengths_partial. repeat split; vm_compute; reflexivity. Qed.

Lemma scindices_short : decoded_length rlescindices_width rlescindices <> Some records_size.
Proof. vm_compute. intros H; inversion H. Qed.

Lemma C14_decode_lengths_refuted_proof : stmt_C14_decode_lengths_refuted.
Proof. intros [_ [H _]]. exact (scindices_short H). Qed.

(* witnesses of the case-mapping inconsistencies (values read off the shipped tables) *)
Definition w_fold_idem (t : ucd_table) : bool :=
  match tocasefold t 5032 with Some f => match tocasefold t f with Some f' => negb (f' =? f) | None => true end | None => true end.
Lemma w_fold_idem_ok : with_table w_fold_idem = true. Proof. vm_compute. reflexivity. Qed.

Lemma C14_casefold_idempotent_refuted_proof : stmt_C14_casefold_idempotent_refuted.
Proof.
  intros H. destruct C14_tables_decode_proof as [t Ht]. specialize (H t Ht 5032).
  pose proof w_fold_idem_ok as W. rewrite (with_table_spec _ t Ht) in W. unfold w_fold_idem in W.
  assert (Hlt : 5032 < rune_limit) by (vm_compute; reflexivity). specialize (H Hlt).
  clear Ht. destruct (tocasefold t 5032) as [f|]; [|exact H]. rewrite H in W. rewrite N.eqb_refl in W. discriminate W.
Qed.

Definition w_fold_lower (t : ucd_table) : bool :=
  match tolower t 4962 with
  | Some l => match tocasefold t l, tocasefold t 4962 with Some a, Some b => negb (a =? b) | _, _ => true end
  | None => true end.
Lemma w_fold_lower_ok : with_table w_fold_lower = true. Proof. vm_compute. reflexivity. Qed.

Lemma C14_fold_lower_refuted_proof : stmt_C14_fold_lower_refuted.
Proof.
  intros H. destruct C14_tables_decode_proof as [t Ht]. specialize (H t Ht 4962).
  pose proof w_fold_lower_ok as W. rewrite (with_table_spec _ t Ht) in W. unfold w_fold_lower in W.
  assert (Hlt : 4962 < rune_limit) by (vm_compute; reflexivity). specialize (H Hlt).
  destruct (C14_indices_in_range_proof t Ht 4962) as [r [_ [Hcf _]]]. clear Ht.
  destruct (tolower t 4962) as [l|]; [|exact H]. rewrite H in W.
  destruct (tocasefold t 4962) as [b|]; [rewrite N.eqb_refl in W; discriminate W|].
  exact (Hcf eq_refl).
Qed.

Definition w_fold_upper (t : ucd_table) : bool :=
  match toupper t 223 with
  | Some u => match tocasefold t u, tocasefold t 223 with Some a, Some b => negb (a =? b) | _, _ => true end
  | None => true end.
Lemma w_fold_upper_ok : with_table w_fold_upper = true. Proof. vm_compute. reflexivity. Qed.

Lemma C14_fold_upper_refuted_proof : stmt_C14_fold_upper_refuted.
Proof.
  intros H. destruct C14_tables_decode_proof as [t Ht]. specialize (H t Ht 223).
  pose proof w_fold_upper_ok as W. rewrite (with_table_spec _ t Ht) in W. unfold w_fold_upper in W.
  assert (Hlt : 223 < rune_limit) by (vm_compute; reflexivity). specialize (H Hlt).
  destruct (C14_indices_in_range_proof t Ht 223) as [r [_ [Hcf _]]]. clear Ht.
  destruct (toupper t 223) as [u|]; [|exact H]. rewrite H in W.
  destruct (tocasefold t 223) as [b|]; [rewrite N.eqb_refl in W; discriminate W|].
  exact (Hcf eq_refl).
Qed.

Definition w_maps_range (t : ucd_table) : bool :=
  match tolower t 7360 with Some l => rune_limit <=? l | None => true end.
Lemma w_maps_range_ok : with_table w_maps_range = true. Proof. vm_compute. reflexivity. Qed.

Lemma C14_maps_in_range_refuted_proof : stmt_C14_maps_in_range_refuted.
Proof.
  intros H. destruct C14_tables_decode_proof as [t Ht]. specialize (H t Ht 7360).
  pose proof w_maps_range_ok as W. rewrite (with_table_spec _ t Ht) in W. unfold w_maps_range in W.
  assert (Hlt : 7360 < rune_limit) by (vm_compute; reflexivity). specialize (H Hlt).
  clear Ht. destruct (tolower t 7360) as [l|]; [|exact H]. apply N.leb_le in W. lia.
Qed.

Lemma w_spot_ok : with_table (fun t => negb (chk_spot t)) = true. Proof. vm_compute. reflexivity. Qed.
Lemma C14_spot_facts_refuted_proof : stmt_C14_spot_facts_refuted.
Proof.
  intros H. destruct C14_tables_decode_proof as [t Ht]. specialize (H t Ht).
  pose proof w_spot_ok as W. rewrite (with_table_spec _ t Ht) in W. clear Ht. rewrite H in W. discriminate W.
Qed.
