(* one exhaustive sweep over all 1,114,112 code points: nothing outside U+00E0..U+00FE and its upper-case
   images folds onto the folding of a member of that range (shipped tables) *)
From Coq Require Import NArith Bool.
From Lug Require Import Gen.UcdTables Ucd.Lookup Ucd.UcdSpec Ucd.UcdProofs Ucd.CaselessSweep.
Lemma sweep_reach_latin1 : with_table (reach_ok 224 254) = true.
Proof. vm_compute. reflexivity. Qed.
