(* Model of unicode::rune_set (unicode.hpp): ASCII bitmap + interval list, push_range,
   push_casefolded_range, sort_and_optimize, negate, contains.
   std::push_heap / std::sort_heap are modelled by their specification: the un-optimised interval
   vector is "some permutation of what was pushed" (kept here in push order) and sort_heap yields
   the ascending lexicographic order, which is unique.  std::lower_bound is a linear search for the
   first element that does not compare less (same result on any vector, sorted or not, that is
   partitioned; on sorted vectors it is the binary search). *)
From Coq Require Import NArith ZArith List Bool.
From Lug Require Import Gen.UcdTables Ucd.Lookup.
Import ListNotations.
Local Open Scope N_scope.

Record rune_set := mkset { ivs : list (N * N); ascii : N (* bit i set <-> i in set, i < 128 *) }.
Definition rs_empty : rune_set := mkset [] 0.
Definition rs_is_empty (s : rune_set) : bool := match ivs s with [] => ascii s =? 0 | _ => false end.

Definition max_rune : N := 4294967295.

(* bits lo..hi (inclusive), lo <= hi *)
Definition bit_range (lo hi : N) : N := N.shiftl (N.ones (hi - lo + 1)) lo.

Inductive rs_result := RsOk (s : rune_set) | RsBadRange | RsIndex.

Definition push_range (s : rune_set) (start end_ : N) : rs_result :=
  if end_ <? start then RsBadRange
  else
    let a := if start <? ascii_limit
             then N.lor (ascii s) (bit_range start (N.min end_ (ascii_limit - 1)))
             else ascii s in
    let iv := if ascii_limit <=? end_ then ivs s ++ [(N.max start ascii_limit, end_)] else ivs s in
    RsOk (mkset iv a).

Definition push_rune (s : rune_set) (r : N) : rune_set :=
  if r <? ascii_limit then mkset (ivs s) (N.lor (ascii s) (N.shiftl 1 r))
  else mkset (ivs s ++ [(r, r)]) (ascii s).

Definition rs_bind (r : rs_result) (f : rune_set -> rs_result) : rs_result :=
  match r with RsOk s => f s | e => e end.

(* push_casefolded_range: the range itself, then for every rune of it its case folding, lower case and
   upper case forms when they fall outside the range *)
Definition push_outside (start end_ : N) (s : rune_set) (m : N) : rune_set :=
  if (m <? start) || (end_ <? m) then push_rune s m else s.

Definition pcr_one (t : ucd_table) (start end_ : N) (s : rune_set) (rn : N) : option rune_set :=
  match tocasefold t rn, tolower t rn, toupper t rn with
  | Some f, Some l, Some u => Some (push_outside start end_ (push_outside start end_ (push_outside start end_ s f) l) u)
  | _, _, _ => None
  end.

(* runes start, start+1, ..., start+n-1 *)
Fixpoint pcr_loop (t : ucd_table) (start end_ : N) (n : nat) (rn : N) (s : rune_set) : option rune_set :=
  match n with
  | O => Some s
  | S n' => match pcr_one t start end_ s rn with
            | Some s' => pcr_loop t start end_ n' (rn + 1) s'
            | None => None
            end
  end.

Definition push_casefolded_range (t : ucd_table) (s : rune_set) (start end_ : N) : rs_result :=
  rs_bind (push_range s start end_) (fun s1 =>
    match pcr_loop t start end_ (N.to_nat (end_ - start + 1)) start s1 with
    | Some s2 => RsOk s2
    | None => RsIndex
    end).

(* ---- sort_and_optimize ---- *)
Definition iv_ltb (x y : N * N) : bool := (fst x <? fst y) || ((fst x =? fst y) && (snd x <? snd y)).

Fixpoint iv_insert (x : N * N) (l : list (N * N)) : list (N * N) :=
  match l with
  | [] => [x]
  | y :: r => if iv_ltb y x then y :: iv_insert x r else x :: l
  end.
Definition iv_sort (l : list (N * N)) : list (N * N) := fold_right iv_insert [] l.

(* the merge loop; [acc] is the optimised vector in reverse (head = `out`) *)
Fixpoint optimize_loop (sorted : list (N * N)) (acc : list (N * N)) : list (N * N) :=
  match sorted with
  | [] => rev acc
  | r :: rest =>
      match acc with
      | [] => optimize_loop rest [r]
      | out :: acc' =>
          if (fst r <? fst out) || (snd out <? fst r)
          then optimize_loop rest (r :: acc)
          else optimize_loop rest ((fst out, if snd out <? snd r then snd r else snd out) :: acc')
      end
  end.

Definition sort_and_optimize (s : rune_set) : rune_set :=
  match ivs s with
  | [] => s
  | _ => mkset (optimize_loop (iv_sort (ivs s)) []) (ascii s)
  end.

(* ---- negate ---- *)
Fixpoint negate_gaps (l : list (N * N)) : list (N * N) :=
  match l with
  | lft :: ((rgt :: _) as tl) => ((snd lft + 1) mod 4294967296, (fst rgt + 4294967295) mod 4294967296) :: negate_gaps tl
  | _ => []
  end.

Definition negate (s : rune_set) : rune_set :=
  let a := N.lxor (ascii s) (N.ones 128) in
  match ivs s with
  | [] => mkset [(ascii_limit, max_rune)] a
  | first :: _ =>
      let front := if ascii_limit <? fst first then [(ascii_limit, fst first - 1)] else [] in
      let back := let b := snd (last (ivs s) first) in if b <? max_rune then [(b + 1, max_rune)] else [] in
      mkset (front ++ negate_gaps (ivs s) ++ back) a
  end.

(* ---- contains ---- *)
Fixpoint lower_bound_snd (l : list (N * N)) (r : N) : option (N * N) :=
  match l with
  | [] => None
  | x :: rest => if snd x <? r then lower_bound_snd rest r else Some x
  end.

Definition contains (s : rune_set) (r : N) : bool :=
  if r <? ascii_limit then N.testbit (ascii s) r
  else match lower_bound_snd (ivs s) r with
       | Some iv => (fst iv <=? r) && (r <=? snd iv)
       | None => false
       end.
