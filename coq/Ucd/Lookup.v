(* Model of unicode.hpp: record::decompress_table, query, the record accessors, case mappings and
   widths.  All numbers come from Gen/UcdTables.v.  Tables are held in PositiveMaps (index + 1 -> value)
   so that the model can be swept over all 1,114,112 code points and extracted to efficient OCaml. *)
From Coq Require Import NArith ZArith List Bool FMapPositive.
From Lug Require Import Gen.UcdTables Ucd.Rle.
Import ListNotations.
Local Open Scope N_scope.

Definition tbl := PositiveMap.t N.

Fixpoint tbl_of_list_from (i : positive) (l : list N) (m : tbl) : tbl :=
  match l with
  | [] => m
  | x :: r => tbl_of_list_from (Pos.succ i) r (PositiveMap.add i x m)
  end.
Definition tbl_of_list (l : list N) : tbl := tbl_of_list_from 1%positive l (PositiveMap.empty N).
Definition tget (m : tbl) (i : N) : option N := PositiveMap.find (N.succ_pos i) m.

(* A destination array of [n] value-initialised (zero) elements overwritten from the front by the
   decoded sequence.  Decoding more than [n] elements would write past the end of the array
   (undefined behaviour): reported as None. *)
Definition fill_array (n : N) (decoded : option (list N)) : option (list N) :=
  match decoded with
  | None => None
  | Some l => if (N.of_nat (length l) <=? n)
              then Some (l ++ repeat 0 (N.to_nat n - length l))
              else None
  end.

Definition dec_stage1 := fill_array stage1_size (rle_decode rlestage1_width rlestage1).
Definition dec_stage2 := fill_array stage2_size (rle_decode rlestage2_width rlestage2).
Definition dec_pfi := fill_array records_size (rle_decode rlepflagindices_width rlepflagindices).
Definition dec_cfi := fill_array records_size (rle_decode rlecflagindices_width rlecflagindices).
Definition dec_ab := fill_array records_size (rle_decode rleabfields_width rleabfields).
Definition dec_gc := fill_array records_size (rle_decode rlegcindices_width rlegcindices).
Definition dec_sc := fill_array records_size (rle_decode rlescindices_width rlescindices).
Definition dec_w := fill_array records_size (rle_decode rlewfields_width rlewfields).
Definition dec_cf := fill_array records_size (rle_decode rlecfindices_width rlecfindices).
Definition dec_cl := fill_array records_size (rle_decode rleclindices_width rleclindices).
Definition dec_cu := fill_array records_size (rle_decode rlecuindices_width rlecuindices).

Record raw_record := mkrec { pflags_ : N; cflags_ : N; abfields : N; gcindex : N; scindex : N; wfields : N;
                             cfindex : N; clindex : N; cuindex : N }.

Definition opt_nth (l : list N) (i : N) : option N := nth_error l (N.to_nat i).

Record ucd_table := { t_stage1 : tbl; t_stage2 : tbl; t_records : PositiveMap.t raw_record; t_nrecords : N }.

Fixpoint zip_records (pf cf ab gc sc w cfo cl cu : list N) : option (list raw_record) :=
  match pf, cf, ab, gc, sc, w, cfo, cl, cu with
  | [], [], [], [], [], [], [], [], [] => Some []
  | a :: pf', b :: cf', c :: ab', d :: gc', e :: sc', f :: w', g :: cfo', h :: cl', i :: cu' =>
      match opt_nth pflags a, opt_nth cflags b, zip_records pf' cf' ab' gc' sc' w' cfo' cl' cu' with
      | Some p, Some q, Some rest => Some (mkrec p q c d e f g h i :: rest)
      | _, _, _ => None
      end
  | _, _, _, _, _, _, _, _, _ => None
  end.

Fixpoint rtbl_of_list_from (i : positive) (l : list raw_record) (m : PositiveMap.t raw_record) :=
  match l with
  | [] => m
  | x :: r => rtbl_of_list_from (Pos.succ i) r (PositiveMap.add i x m)
  end.

Definition records_list : option (list raw_record) :=
  match dec_pfi, dec_cfi, dec_ab, dec_gc, dec_sc, dec_w, dec_cf, dec_cl, dec_cu with
  | Some a, Some b, Some c, Some d, Some e, Some f, Some g, Some h, Some i => zip_records a b c d e f g h i
  | _, _, _, _, _, _, _, _, _ => None
  end.

Definition decompress_table : option ucd_table :=
  match dec_stage1, dec_stage2, records_list with
  | Some s1, Some s2, Some rs =>
      Some {| t_stage1 := tbl_of_list s1; t_stage2 := tbl_of_list s2;
              t_records := rtbl_of_list_from 1%positive rs (PositiveMap.empty raw_record);
              t_nrecords := N.of_nat (length rs) |}
  | _, _, _ => None
  end.

(* query(r): the record index, then the record.  None = an index left its array (cannot happen on
   the shipped tables: C14_indices_in_range). *)
Definition query_index (t : ucd_table) (r : N) : option N :=
  if r <? rune_limit then
    match tget (t_stage1 t) (N.shiftr r stage1_shift) with
    | Some i => tget (t_stage2 t) (N.lor (N.shiftl i stage2_shift) (N.land r stage2_mask))
    | None => None
    end
  else Some invalid_record_index.

Definition record_at (t : ucd_table) (i : N) : option raw_record := PositiveMap.find (N.succ_pos i) (t_records t).

Definition query (t : ucd_table) (r : N) : option raw_record :=
  match query_index t r with Some i => record_at t i | None => None end.

(* accessors *)
Definition rec_compat (x : raw_record) : N := cflags_ x.
Definition rec_props (x : raw_record) : N := pflags_ x.
Definition rec_gc (x : raw_record) : N := N.shiftl 1 (gcindex x).        (* gctype bit *)
Definition rec_script (x : raw_record) : N := scindex x.
Definition rec_block (x : raw_record) : N := N.land (abfields x) block_mask.
Definition rec_age (x : raw_record) : N := N.shiftr (abfields x) age_shift.
Definition rec_eaw (x : raw_record) : N := N.land (wfields x) eaw_mask.
Definition rec_cwidth (x : raw_record) : Z := (Z.of_N (N.shiftr (wfields x) cw_shift) - 1)%Z.
Definition case_mapping (i : N) : option Z := nth_error casemappings (N.to_nat i).

Definition has (flags bit : N) : bool := negb (N.land flags bit =? 0).

(* static_cast<char32_t>(static_cast<int32>(r) + delta): wraps modulo 2^32 *)
Definition add_delta (r : N) (d : Z) : N := Z.to_N ((Z.of_N r + d) mod 4294967296)%Z.

Definition tocasefold (t : ucd_table) (r : N) : option N :=
  match query t r with Some x => match case_mapping (cfindex x) with Some d => Some (add_delta r d) | None => None end | None => None end.
Definition tolower (t : ucd_table) (r : N) : option N :=
  match query t r with Some x => match case_mapping (clindex x) with Some d => Some (add_delta r d) | None => None end | None => None end.
Definition toupper (t : ucd_table) (r : N) : option N :=
  match query t r with Some x => match case_mapping (cuindex x) with Some d => Some (add_delta r d) | None => None end | None => None end.
Definition cwidth (t : ucd_table) (r : N) : option Z :=
  match query t r with Some x => Some (rec_cwidth x) | None => None end.
Definition ucwidth (t : ucd_table) (r : N) : option N :=
  match cwidth t r with Some w => Some (Z.abs_N w) | None => None end.

(* property matchers: all_of / any_of / none_of for the property_enum kinds *)
Definition prop_field (x : raw_record) (penum : N) : option N :=
  if penum =? property_enum_ctype then Some (rec_compat x)
  else if penum =? property_enum_ptype then Some (rec_props x)
  else if penum =? property_enum_gctype then Some (rec_gc x)
  else None.
Definition prop_scalar (x : raw_record) (penum : N) : option N :=
  if penum =? property_enum_sctype then Some (rec_script x)
  else if penum =? property_enum_blktype then Some (rec_block x)
  else if penum =? property_enum_agetype then Some (rec_age x)
  else if penum =? property_enum_eawtype then Some (rec_eaw x)
  else None.

Definition rec_all_of (x : raw_record) (penum mask : N) : bool :=
  match prop_field x penum with
  | Some f => N.land f mask =? mask
  | None => match prop_scalar x penum with Some v => v =? mask | None => false end
  end.
Definition rec_any_of (x : raw_record) (penum mask : N) : bool :=
  match prop_field x penum with
  | Some f => negb (N.land f mask =? 0)
  | None => match prop_scalar x penum with Some v => v =? mask | None => false end
  end.
Definition rec_none_of (x : raw_record) (penum mask : N) : bool :=
  match prop_field x penum with
  | Some f => N.land f mask =? 0
  | None => match prop_scalar x penum with Some v => negb (v =? mask) | None => false end
  end.
