(* Model of unicode.hpp detail::run_length_decode.  Input: the RLE array as a list of N, all < 2^w.
   Reading past the end of the input (undefined behaviour in the C++) is reported as None. *)
From Coq Require Import NArith List.
Import ListNotations.
Local Open Scope N_scope.

Definition ilseqcode (w : N) : N := 2 ^ w - 1.
Definition seqmask (w : N) : N := N.shiftl 3 (w - 2).
Definition is_run (w x : N) : bool := N.land x (seqmask w) =? seqmask w.
Definition run_len (w x : N) : N := x mod 2 ^ (w - 2) + 1.     (* (x & ~seqmask) + 1 *)

Definition repeatN {A} (n : N) (x : A) : list A := repeat x (N.to_nat n).

Fixpoint concat_rep {A} (n : nat) (l : list A) : list A :=
  match n with O => [] | S m => l ++ concat_rep m l end.

(* fuel = length of the input; every iteration consumes at least one element *)
Fixpoint rle_decode_fuel (fuel : nat) (w : N) (l : list N) : option (list N) :=
  match l with
  | [] => Some []
  | lead :: r =>
    match fuel with
    | O => None
    | S f =>
      if lead =? ilseqcode w then
        match r with
        | count :: head :: tail :: r' =>
            let unit_ := if is_run w head then repeatN (run_len w head) tail else [head; tail] in
            match rle_decode_fuel f w r' with
            | Some rest => Some (concat_rep (N.to_nat count) unit_ ++ rest)
            | None => None
            end
        | _ => None
        end
      else if is_run w lead then
        match r with
        | v :: r' => match rle_decode_fuel f w r' with
                     | Some rest => Some (repeatN (run_len w lead) v ++ rest)
                     | None => None
                     end
        | [] => None
        end
      else match rle_decode_fuel f w r with
           | Some rest => Some (lead :: rest)
           | None => None
           end
    end
  end.

Definition rle_decode (w : N) (l : list N) : option (list N) := rle_decode_fuel (length l) w l.
