(* Set-theoretic meaning of rune_set values and the statements of the C16 set-algebra obligations. *)
From Coq Require Import NArith List Bool Sorted.
From Lug Require Import Gen.UcdTables Ucd.Lookup Ucd.RuneSet.
Import ListNotations.
Local Open Scope N_scope.

Definition in_iv (iv : N * N) (r : N) : bool := (fst iv <=? r) && (r <=? snd iv).
Definition in_ivs (l : list (N * N)) (r : N) : bool := existsb (fun iv => in_iv iv r) l.

(* the set a rune_set value stands for: a point below 128 is in the bitmap, others in some interval *)
Definition denotes (s : rune_set) (r : N) : bool :=
  if r <? ascii_limit then N.testbit (ascii s) r else in_ivs (ivs s) r.

(* what push_range/push_rune can put into the interval vector *)
Definition iv_ok (iv : N * N) : Prop := ascii_limit <= fst iv /\ fst iv <= snd iv /\ snd iv <= max_rune.
Definition set_ok (s : rune_set) : Prop := Forall iv_ok (ivs s) /\ ascii s < 2 ^ 128.

(* sorted and pairwise disjoint (adjacent intervals allowed: sort_and_optimize does not join them) *)
Fixpoint sorted_disjoint (l : list (N * N)) : Prop :=
  match l with
  | [] => True
  | x :: rest => match rest with
                 | [] => True
                 | y :: _ => snd x < fst y
                 end /\ sorted_disjoint rest
  end.

Definition stmt_C16_push_range : Prop :=
  forall s a b s', set_ok s -> b <= max_rune -> push_range s a b = RsOk s' ->
    a <= b /\ set_ok s' /\ forall r, denotes s' r = denotes s r || ((a <=? r) && (r <=? b)).

Definition stmt_C16_push_range_reversed : Prop :=
  forall s a b, b < a -> push_range s a b = RsBadRange.

Definition stmt_C16_push_rune : Prop :=
  forall s x, set_ok s -> x <= max_rune ->
    set_ok (push_rune s x) /\ forall r, denotes (push_rune s x) r = denotes s r || (r =? x).

(* sorting and merging never adds or drops a code point, and what comes out is what `contains` needs *)
Definition stmt_C16_sort_optimize : Prop :=
  forall s, set_ok s ->
    set_ok (sort_and_optimize s) /\ sorted_disjoint (ivs (sort_and_optimize s)) /\
    forall r, contains (sort_and_optimize s) r = denotes s r.

Definition stmt_C16_contains_sorted : Prop :=
  forall s r, set_ok s -> sorted_disjoint (ivs s) -> contains s r = denotes s r.

(* negation is exact on every 32-bit value, including the degenerate reversed intervals negate()
   emits between adjacent intervals *)
Definition stmt_C16_negate : Prop :=
  forall s r, set_ok s -> sorted_disjoint (ivs s) -> r <= max_rune ->
    contains (negate s) r = negb (contains s r).
