(* Point evaluations on the shipped tables for C15 (sets): the refuting witnesses and the instances showing
   that the hypotheses of the theorems of Ucd/CaselessProofs.v are satisfiable. *)
From Coq Require Import NArith ZArith List Bool Lia ZifyBool ZifyN FMapPositive.
From Lug Require Import Gen.UcdTables Ucd.Lookup Ucd.RuneSet Ucd.RuneSetSpec Ucd.RuneSetProofs
  Ucd.UcdSpec Ucd.UcdProofs Ucd.CaselessSpec Ucd.CaselessProofs Ucd.CaselessSweep Ucd.CaselessSweep_reach.
Import ListNotations.
Local Open Scope N_scope.

Strategy opaque [decompress_table].
Strategy opaque [forall_upto].

Lemma opt_eqb_fold_eq : forall t x r, opt_eqb (tocasefold t x) (tocasefold t r) = true -> fold_eq t x r.
Proof.
  intros t x r H. unfold opt_eqb in H.
  destruct (tocasefold t x) as [f |] eqn:Hx; [| discriminate H].
  destruct (tocasefold t r) as [g |] eqn:Hr; [| discriminate H].
  apply N.eqb_eq in H. subst g. exists f. split; [exact Hx | exact Hr].
Qed.

Lemma with_table_use : forall f t, decompress_table = Some t -> with_table f = true -> f t = true.
Proof. intros f t Ht H. exact (eq_trans (eq_sym (with_table_spec f t Ht)) H). Qed.

Lemma in_rng_dec : forall a b x, ((a <=? x) && (x <=? b)) = true -> in_rng a b x.
Proof. intros a b x H. unfold in_rng. lia. Qed.

(* ---------------------------------------------------------------- refuted: caseless['a'-'z'] and U+017F *)

Definition w_range (t : ucd_table) : bool :=
  match push_casefolded_range t rs_empty 97 122 with
  | RsOk s => opt_eqb (tocasefold t 383) (tocasefold t 115) && negb (contains (sort_and_optimize s) 383)
  | _ => false
  end.
Lemma w_range_ok : with_table w_range = true.
Proof. vm_compute. reflexivity. Qed.

Lemma C15_range_refuted_proof : stmt_C15_range_refuted.
Proof.
  assert (Hin : in_rng 97 122 115) by (apply in_rng_dec; reflexivity).
  destruct C14_tables_decode_proof as [t Ht].
  pose proof (with_table_use _ t Ht w_range_ok) as W. unfold w_range in W.
  destruct (push_casefolded_range t rs_empty 97 122) as [s | |] eqn:Hs; [| discriminate W | discriminate W].
  apply andb_true_iff in W. destruct W as [W1 W2].
  exists t, s. split; [exact Ht |]. split; [exact Hs |].
  split; [split; [exact Hin | exact (opt_eqb_fold_eq t 383 115 W1)] |].
  apply negb_true_iff. exact W2.
Qed.

Lemma C15_range_exact_refuted_proof : stmt_C15_range_exact_refuted.
Proof.
  intro Hall. destruct C15_range_refuted_proof as [t [s [Ht [Hs [[Hin Hfe] Hc]]]]].
  assert (Hb : 122 <= max_rune) by (rewrite max_rune_eq; lia).
  assert (Hx : 383 <= max_rune) by (rewrite max_rune_eq; lia).
  pose proof (Hall t Ht 97 122 s Hb Hs 383 Hx) as [_ Hback]. clear Ht.
  rewrite Hback in Hc; [discriminate Hc |].
  exists 115. split; [exact Hin | exact Hfe].
Qed.

Definition w_letter (t : ucd_table) : bool :=
  match tolower t 115, toupper t 115 with
  | Some l, Some u => opt_eqb (tocasefold t 383) (tocasefold t 115) && negb (contains (letter_set 115 l u) 383)
  | _, _ => false
  end.
Lemma w_letter_ok : with_table w_letter = true.
Proof. vm_compute. reflexivity. Qed.

Lemma C15_letter_refuted_proof : stmt_C15_letter_refuted.
Proof.
  destruct C14_tables_decode_proof as [t Ht].
  pose proof (with_table_use _ t Ht w_letter_ok) as W. unfold w_letter in W.
  destruct (tolower t 115) as [l |] eqn:Hl; [| discriminate W].
  destruct (toupper t 115) as [u |] eqn:Hu; [| discriminate W].
  apply andb_true_iff in W. destruct W as [W1 W2].
  exists t, l, u. split; [exact Ht |]. split; [exact Hl |]. split; [exact Hu |].
  split; [exact (opt_eqb_fold_eq t 383 115 W1) |].
  apply negb_true_iff. exact W2.
Qed.

(* ---------------------------------------------------------------- satisfiable instances *)

(* stmt_C15_range_members: caseless[U+00E0-U+00FE] on the shipped table; the set holds the upper-case
   letter U+00C0 (an image) and not the multiplication sign U+00D7 *)
Definition w_members (t : ucd_table) : bool :=
  match push_casefolded_range t rs_empty 224 254 with
  | RsOk s => contains (sort_and_optimize s) 192 && negb (contains (sort_and_optimize s) 215)
  | _ => false
  end.
Lemma w_members_ok : with_table w_members = true.
Proof. vm_compute. reflexivity. Qed.

Example C15_range_members_example :
  exists t s, decompress_table = Some t /\ 254 <= max_rune /\ push_casefolded_range t rs_empty 224 254 = RsOk s /\
    contains (sort_and_optimize s) 192 = true /\ contains (sort_and_optimize s) 215 = false.
Proof.
  assert (Hb : 254 <= max_rune) by (rewrite max_rune_eq; lia).
  destruct C14_tables_decode_proof as [t Ht].
  pose proof (with_table_use _ t Ht w_members_ok) as W. unfold w_members in W.
  destruct (push_casefolded_range t rs_empty 224 254) as [s | |] eqn:Hs; [| discriminate W | discriminate W].
  apply andb_true_iff in W. destruct W as [W1 W2]. apply negb_true_iff in W2.
  exists t, s. split; [exact Ht |]. split; [exact Hb |]. split; [exact Hs |]. split; [exact W1 | exact W2].
Qed.

(* stmt_C15_range_exact_partial: both table hypotheses hold for U+00E0..U+00FE on the shipped table
   (the second by the exhaustive sweep of Ucd/CaselessSweep_reach.v) *)
Lemma w_cons_latin1 : with_table (cons_ok 224 254) = true.
Proof. vm_compute. reflexivity. Qed.
Lemma w_invalid_fold_zero : with_table invalid_fold_zero = true.
Proof. vm_compute. reflexivity. Qed.

Example C15_range_exact_example :
  exists t s, decompress_table = Some t /\ 254 <= max_rune /\ push_casefolded_range t rs_empty 224 254 = RsOk s /\
    maps_consistent t 224 254 /\ fold_preimages_reachable t 224 254 /\ range_exact t 224 254 s.
Proof.
  destruct C15_range_members_example as [t [s [Ht [Hb [Hs _]]]]].
  pose proof (with_table_use _ t Ht w_cons_latin1) as W1.
  pose proof (with_table_use _ t Ht w_invalid_fold_zero) as W2.
  pose proof (with_table_use _ t Ht sweep_reach_latin1) as W3.
  pose proof (cons_ok_spec _ _ _ W1) as Hcons.
  pose proof (reach_ok_spec _ _ _ W3 W2) as Hreach.
  exists t, s. split; [exact Ht |]. split; [exact Hb |]. split; [exact Hs |].
  split; [exact Hcons |]. split; [exact Hreach |].
  exact (C15_range_exact_partial_proof t 224 254 s Hb Hs Hcons Hreach).
Qed.

(* stmt_C15_letter_members: caseless['k'] is {k, K} on the shipped table (not the Kelvin sign U+212A) *)
Definition w_letter_k (t : ucd_table) : bool :=
  match tolower t 107, toupper t 107 with
  | Some l, Some u => (l =? 107) && (u =? 75) && contains (letter_set 107 l u) 75 && negb (contains (letter_set 107 l u) 8490)
  | _, _ => false
  end.
Lemma w_letter_k_ok : with_table w_letter_k = true.
Proof. vm_compute. reflexivity. Qed.

Example C15_letter_members_example :
  exists t, decompress_table = Some t /\ 107 <= max_rune /\ tolower t 107 = Some 107 /\ toupper t 107 = Some 75 /\
    contains (letter_set 107 107 75) 75 = true /\ contains (letter_set 107 107 75) 8490 = false.
Proof.
  assert (Hb : 107 <= max_rune) by (rewrite max_rune_eq; lia).
  destruct C14_tables_decode_proof as [t Ht].
  pose proof (with_table_use _ t Ht w_letter_k_ok) as W. unfold w_letter_k in W.
  destruct (tolower t 107) as [l |] eqn:Hl; [| discriminate W].
  destruct (toupper t 107) as [u |] eqn:Hu; [| discriminate W].
  apply andb_true_iff in W. destruct W as [W W4]. apply andb_true_iff in W. destruct W as [W W3].
  apply andb_true_iff in W. destruct W as [W1 W2].
  apply N.eqb_eq in W1. apply N.eqb_eq in W2. subst l u. apply negb_true_iff in W4.
  exists t. split; [exact Ht |]. split; [exact Hb |]. split; [exact Hl |]. split; [exact Hu |]. split; [exact W3 | exact W4].
Qed.

(* stmt_C15_range_index_only_if_lookup_fails: RsIndex does occur, e.g. with a table whose stage tables are
   empty (every lookup fails) *)
Definition empty_table : ucd_table :=
  {| t_stage1 := PositiveMap.empty N; t_stage2 := PositiveMap.empty N;
     t_records := PositiveMap.empty raw_record; t_nrecords := 0 |}.
Example C15_range_index_example :
  push_casefolded_range empty_table rs_empty 97 98 = RsIndex /\ in_rng 97 98 97 /\ tocasefold empty_table 97 = None.
Proof. split; [vm_compute; reflexivity |]. split; [apply in_rng_dec; reflexivity | vm_compute; reflexivity]. Qed.

(* stmt_C15_range_reversed *)
Example C15_range_reversed_example : 98 < 99 /\ push_casefolded_range empty_table rs_empty 99 98 = RsBadRange.
Proof. split; [lia | vm_compute; reflexivity]. Qed.
