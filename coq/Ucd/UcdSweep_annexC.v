(* one exhaustive sweep over all 1,114,112 code points (kept in its own file so that the sweeps build in parallel) *)
From Coq Require Import NArith Bool.
From Lug Require Import Gen.UcdTables Ucd.Rle Ucd.Lookup Ucd.UcdSpec Ucd.UcdSweep.
Lemma sweep_annexC : sweep (fun _ => chk_annexC) = true.
Proof. vm_compute. reflexivity. Qed.
