(* C09 -- the outcome of a parse does not depend on how the input bytes are delivered (statements only; partial) *)
From Lug Require Import Proofs.MachineStmt Proofs.MachineProofs.

(* asking the source for more never loses, duplicates or reorders input and touches nothing else *)
Theorem C09_available_preserves_input : stmt_C09_available_preserves_input. Proof. exact C09_available_preserves_input_proof. Qed.
Print Assumptions C09_available_preserves_input.
(* whether n bytes are available at an offset depends only on the total input, not on its division into deliveries *)
Theorem C09_available_total : stmt_C09_available_total. Proof. exact C09_available_total_proof. Qed.
Print Assumptions C09_available_total.
