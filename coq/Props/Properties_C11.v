(* C11 -- line and column reports are a pure function of the text seen so far (see Pos/PosSpec.v). *)
From Lug Require Import Pos.PosSpec Pos.PosProofs.

Theorem C11_cache_sorted : stmt_C11_cache_sorted. Proof. exact C11_cache_sorted_proof. Qed.
Print Assumptions C11_cache_sorted.
Theorem C11_cache_hit : stmt_C11_cache_hit. Proof. exact C11_cache_hit_proof. Qed.
Print Assumptions C11_cache_hit.
(* the property itself: every text (CR LF pairs included), every tab setting, every history *)
Theorem C11_history_independent : stmt_C11_history_independent. Proof. exact C11_history_independent_proof. Qed.
Print Assumptions C11_history_independent.
(* special cases (the statements that failed before commit 7850d1f of the library) *)
Theorem C11_single_query : stmt_C11_single_query. Proof. exact C11_single_query_proof. Qed.
Print Assumptions C11_single_query.
Theorem C11_query_order_independent : stmt_C11_query_order_independent. Proof. exact C11_query_order_independent_proof. Qed.
Print Assumptions C11_query_order_independent.
(* the hypotheses are satisfiable: a history that splits CR LF pairs by a drain and by queries *)
Theorem C11_example : stmt_C11_example. Proof. exact C11_example_proof. Qed.
Print Assumptions C11_example.
