(* C11 -- line and column reports are a pure function of the text seen so far (see Pos/PosSpec.v). *)
From Lug Require Import Pos.PosSpec Pos.PosProofs.

Theorem C11_cache_sorted : stmt_C11_cache_sorted. Proof. exact C11_cache_sorted_proof. Qed.
Print Assumptions C11_cache_sorted.
Theorem C11_cache_hit : stmt_C11_cache_hit. Proof. exact C11_cache_hit_proof. Qed.
Print Assumptions C11_cache_hit.
Theorem C11_history_independent_partial : stmt_C11_history_independent_partial. Proof. exact C11_history_independent_partial_proof. Qed.
Print Assumptions C11_history_independent_partial.
(* open findings: the full statements are refuted on the shipped tables *)
Theorem C11_crlf_column_refuted : stmt_C11_crlf_column_refuted. Proof. exact C11_crlf_column_refuted_proof. Qed.
Print Assumptions C11_crlf_column_refuted.
Theorem C11_crlf_history_refuted : stmt_C11_crlf_history_refuted. Proof. exact C11_crlf_history_refuted_proof. Qed.
Print Assumptions C11_crlf_history_refuted.
Theorem C11_full_refuted : stmt_C11_full_refuted. Proof. exact C11_full_refuted_proof. Qed.
Print Assumptions C11_full_refuted.
