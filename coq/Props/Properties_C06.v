(* C06 -- symbol tables and conditions are scoped and restored on every exit path (statements only). *)
From Lug Require Import Proofs.BlockEnvDefs Proofs.EnvProofs.

(* the machine simulates the semantics with environment (Spec/PegEnv.v): in every outcome, success or failure,
   the condition set is the one at entry (on/off blocks are undone on both exits) and the symbol table is the
   one the semantics prescribes; all expressions of the fragment, all inputs *)
Theorem C06_block_env : stmt_block_env. Proof. exact block_env_proof. Qed.
Print Assumptions C06_block_env.
(* block[] / local[] / local(S)[] hand back the table they were entered with, on success and on failure *)
Theorem C06_scope_restores : stmt_scope_restores. Proof. exact scope_restores_proof. Qed.
Print Assumptions C06_scope_restores.
(* without a definition outside a scope block every exit of every expression leaves the table unchanged *)
Theorem C06_table_unchanged_partial : stmt_table_unchanged_partial. Proof. exact table_unchanged_partial_proof. Qed.
Print Assumptions C06_table_unchanged_partial.
(* open finding: a definition made inside a failing expression survives the failure *)
Theorem C06_failure_leaves_table_refuted : stmt_failure_leaves_table_refuted. Proof. exact failure_leaves_table_refuted_proof. Qed.
Print Assumptions C06_failure_leaves_table_refuted.
(* the oracle of the conformance search is sound for the relation *)
Theorem C06_oracle_sound : stmt_pegE_eval_sound. Proof. exact pegE_eval_sound_proof. Qed.
Print Assumptions C06_oracle_sound.
