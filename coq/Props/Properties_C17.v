(* C17 -- no grammar or input can drive the parsing machine into an unsafe state (statements only; partial:
   memory safety and other undefined behaviour of the C++ itself are observed under ASan/UBSan, not proved) *)
From Lug Require Import Proofs.StaticStmt Proofs.StaticProofs Proofs.TopStmt Proofs.TopProofs Proofs.BlockEnvDefs Proofs.EnvProofs
  Proofs.MachineStmt Proofs.MachineProofs Ucd.UcdSpec Ucd.UcdProofs.

(* every jump, choice, commit, call and recover target of the code of an expression stays inside its block ... *)
Theorem C17_code_closed : stmt_cg_closed. Proof. exact cg_closed_proof. Qed.
Print Assumptions C17_code_closed.
(* ... the encoder only builds such expressions ... *)
Theorem C17_elab_simple : stmt_elab_simple. Proof. exact elab_simple_proof. Qed.
Print Assumptions C17_elab_simple.
(* ... and every control transfer of a compiled grammar stays inside the program *)
Theorem C17_program_closed : stmt_link_closed. Proof. exact link_closed_proof. Qed.
Print Assumptions C17_program_closed.
(* every string and resource reference of the numeric program is in range: decoding it gives back the instructions *)
Theorem C17_references_in_range : stmt_unlower_lower. Proof. exact unlower_lower_proof. Qed.
Print Assumptions C17_references_in_range.
(* for the PEG fragment the machine never gets stuck: whenever the semantics gives a verdict, parse() ends with it
   (no bad_stack, no bad_opcode, frame stack empty at the end) *)
Theorem C17_terminates_success : stmt_top_success. Proof. exact top_success_proof. Qed.
Print Assumptions C17_terminates_success.
Theorem C17_terminates_failure : stmt_top_failure. Proof. exact top_failure_proof. Qed.
Print Assumptions C17_terminates_failure.
(* table lookups never leave their arrays, for every 32-bit argument *)
Theorem C17_table_indices : stmt_C14_indices_in_range. Proof. exact C14_indices_in_range_proof. Qed.
Print Assumptions C17_table_indices.
(* the frame-balance bookkeeping of cut/accept *)
Theorem C17_ci_counts : stmt_C08_ci_counts_partial. Proof. exact C08_ci_counts_partial_proof. Qed.
Print Assumptions C17_ci_counts.
