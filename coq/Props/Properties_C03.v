(* C03 -- left-recursive rules parse by bounded left recursion with precedence climbing (statements only;
   partial: machine-level laws of the memo frame for ALL programs; the simulation of a bounded-left-recursion
   reference semantics is exercised by the conformance search, see DESIGN.md 5.3) *)
From Lug Require Import Proofs.MachineStmt Proofs.MachineProofs.

(* a recursive call below the level of the invocation being grown fails and pushes nothing *)
Theorem C03_prec_filter : stmt_C03_prec_filter. Proof. exact C03_prec_filter_proof. Qed.
Print Assumptions C03_prec_filter.
(* at or above that level it takes the memoised answer without re-entering the rule *)
Theorem C03_memo_answer : stmt_C03_memo_answer. Proof. exact C03_memo_answer_proof. Qed.
Print Assumptions C03_memo_answer.
(* `ret` re-arms the memo only with a strictly larger answer (so growth terminates: answers are bounded by the
   input); otherwise it delivers the longest answer -- stated for no pending cut, see C03_growth_strict_false *)
Theorem C03_growth_strict_partial : stmt_C03_growth_strict_partial. Proof. exact C03_growth_strict_partial_proof. Qed.
Print Assumptions C03_growth_strict_partial.
(* with a cut pending the finishing `ret` also drains, so the unconditional statement is false *)
Theorem C03_growth_strict_with_cut_refuted : ~ stmt_C03_growth_strict. Proof. exact C03_growth_strict_false. Qed.
Print Assumptions C03_growth_strict_with_cut_refuted.
