(* C05 -- labelled failures reach the handler once, in place; responses are obeyed (statements only;
   partial: machine-level template laws for ALL programs; handler dispatch is exercised by the conformance search) *)
From Lug Require Import Proofs.MachineStmt Proofs.MachineProofs.

(* inside a syntactic predicate a raise unwinds to the predicate's frame and starts an ordinary failure:
   no raise frame, no handler event, no change to success or to the scheduled responses *)
Theorem C05_inhibited_raise : stmt_C05_inhibited_raise. Proof. exact C05_inhibited_raise_proof. Qed.
Print Assumptions C05_inhibited_raise.
(* outside predicates it pushes a raise frame (postponing cut/accept) and enters the recovery rule, or fails
   into its own frame at once when there is none *)
Theorem C05_raise_pushes : stmt_C05_raise_pushes. Proof. exact C05_raise_pushes_proof. Qed.
Print Assumptions C05_raise_pushes.
