(* C01 -- compiled grammars recognise exactly what PEG semantics prescribes (statements only). *)
From Lug Require Import Proofs.BlockDefs Proofs.Blocks Proofs.LinkStmt Proofs.LinkProofs.

(* the machine running the code of an expression simulates its PEG derivation (all expressions of the
   fragment, all inputs, all surrounding machine states) *)
Theorem C01_block : stmt_block. Proof. exact block_proof. Qed.
Print Assumptions C01_block.
(* start() lays every reachable rule out at its address and resolves calls to those addresses *)
Theorem C01_link_layout : stmt_link_layout. Proof. exact link_layout_proof. Qed.
Print Assumptions C01_link_layout.
