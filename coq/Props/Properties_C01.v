(* C01 -- compiled grammars recognise exactly what PEG semantics prescribes (statements only). *)
From Lug Require Import Proofs.BlockDefs Proofs.Blocks Proofs.LinkStmt Proofs.LinkProofs Proofs.TopStmt Proofs.TopProofs
  Spec.PegEval Proofs.PegEvalProofs.

(* the machine running the code of an expression simulates its PEG derivation (all expressions of the
   fragment, all inputs, all surrounding machine states) *)
Theorem C01_block : stmt_block. Proof. exact block_proof. Qed.
Print Assumptions C01_block.
(* start() lays every reachable rule out at its address and resolves calls to those addresses *)
Theorem C01_link_layout : stmt_link_layout. Proof. exact link_layout_proof. Qed.
Print Assumptions C01_link_layout.
(* end to end: the semantics accepts a prefix => parse() terminates, returns true, has consumed exactly it *)
Theorem C01_sound : stmt_top_success. Proof. exact top_success_proof. Qed.
Print Assumptions C01_sound.
(* the semantics rejects => parse() terminates and returns false *)
Theorem C01_reject : stmt_top_failure. Proof. exact top_failure_proof. Qed.
Print Assumptions C01_reject.
(* the semantics is a function, so "exactly when" *)
Theorem C01_deterministic : stmt_peg_deterministic. Proof. exact peg_deterministic_proof. Qed.
Print Assumptions C01_deterministic.
Theorem C01_choice_commits : stmt_choice_commits. Proof. exact choice_commits_proof. Qed.
Print Assumptions C01_choice_commits.
Theorem C01_star_never_fails : stmt_star_never_fails. Proof. exact star_never_fails_proof. Qed.
Print Assumptions C01_star_never_fails.
Theorem C01_star_greedy : stmt_star_greedy. Proof. exact star_greedy_proof. Qed.
Print Assumptions C01_star_greedy.
Theorem C01_predicates_consume_nothing : stmt_predicates_consume_nothing. Proof. exact predicates_consume_nothing_proof. Qed.
Print Assumptions C01_predicates_consume_nothing.
Theorem C01_never_gives_input_back : stmt_peg_monotone. Proof. exact peg_monotone_proof. Qed.
Print Assumptions C01_never_gives_input_back.
(* the executable oracle used by the conformance search is the relation *)
Theorem C01_oracle_sound : stmt_peg_eval_sound. Proof. exact peg_eval_sound_proof. Qed.
Print Assumptions C01_oracle_sound.
Theorem C01_oracle_complete : stmt_peg_eval_complete. Proof. exact peg_eval_complete_proof. Qed.
Print Assumptions C01_oracle_complete.
