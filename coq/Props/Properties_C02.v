(* C02 -- actions and captures run once, in order, only for the surviving derivation (statements only). *)
From Lug Require Import Proofs.BlockDefs Proofs.Blocks Proofs.TopStmt Proofs.TopProofs.

(* block level: on success the responses are extended by exactly the trace of the derivation; on failure
   nothing of what the failed branch scheduled survives (the failing state's responses are cut back by
   whatever backtrack frame takes over) *)
Theorem C02_block_trace : stmt_block. Proof. exact block_proof. Qed.
Print Assumptions C02_block_trace.
(* end to end: the callbacks executed by a successful parse are exactly the trace, in order, once each *)
Theorem C02_trace : stmt_top_success. Proof. exact top_success_proof. Qed.
Print Assumptions C02_trace.
(* a failed parse runs nothing *)
Theorem C02_failed_parse_runs_nothing : stmt_top_failure. Proof. exact top_failure_proof. Qed.
Print Assumptions C02_failed_parse_runs_nothing.
(* outside positive predicates every capture lies within what its expression consumed ... *)
Theorem C02_captures_within : stmt_caps_within. Proof. exact caps_within_proof. Qed.
Print Assumptions C02_captures_within.
(* ... and is then delivered with exactly the bytes matched *)
Theorem C02_capture_text_exact : stmt_capture_text_exact. Proof. exact capture_text_exact_proof. Qed.
Print Assumptions C02_capture_text_exact.
(* open finding: a capture inside a positive predicate is delivered clipped to the consumed prefix *)
Theorem C02_capture_in_lookahead_refuted : stmt_capture_in_lookahead_refuted. Proof. exact capture_in_lookahead_refuted_proof. Qed.
Print Assumptions C02_capture_in_lookahead_refuted.
