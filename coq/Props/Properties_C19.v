(* C19 -- a const grammar can be parsed from many threads at once (statements only; partial: data races of the
   compiled C++ are a fact about the C++ memory model that an executable model cannot exhibit) *)
From Lug Require Import Proofs.Interleave.

(* under every schedule each thread goes through exactly the states of its solo run *)
Theorem C19_interleave : forall ucd cb prog, stmt_C19_interleave ucd cb prog. Proof. exact C19_interleave_proof. Qed.
Print Assumptions C19_interleave.
(* every object with static or thread storage duration in the headers is constexpr, const and initialised once,
   or thread_local *)
Theorem C19_statics : stmt_C19_statics. Proof. exact C19_statics_proof. Qed.
Print Assumptions C19_statics.
