(* C20 -- interactive sources are consumed one statement at a time, never read ahead (statements only; partial) *)
From Lug Require Import Proofs.MachineStmt Proofs.MachineProofs.

(* an interactive source is never asked for more while unread input remains *)
Theorem C20_no_poll_while_unread : stmt_C20_no_poll_while_unread. Proof. exact C20_no_poll_while_unread_proof. Qed.
Print Assumptions C20_no_poll_while_unread.
(* what is left unread after a parse is the beginning of the next one *)
Theorem C20_leftover : stmt_C18_reset_total. Proof. exact C18_reset_total_proof. Qed.
Print Assumptions C20_leftover.
Theorem C20_polls_preserve_input : stmt_C09_available_preserves_input. Proof. exact C09_available_preserves_input_proof. Qed.
Print Assumptions C20_polls_preserve_input.
