(* C12 -- max_subject_index is the farthest offset at which a match attempt failed (statements only). *)
From Lug Require Import Proofs.BlockDefs Proofs.Blocks Proofs.TopStmt Proofs.TopProofs.

(* block level: mr is raised to the farthest failure offset of the derivation, abandoned branches included *)
Theorem C12_block_far : stmt_block. Proof. exact block_proof. Qed.
Print Assumptions C12_block_far.
(* successful parse: max_subject_index = max (farthest failure) (final offset) *)
Theorem C12_far_success : stmt_top_success. Proof. exact top_success_proof. Qed.
Print Assumptions C12_far_success.
(* failed parse: max_subject_index = farthest failure *)
Theorem C12_far_failure : stmt_top_failure. Proof. exact top_failure_proof. Qed.
Print Assumptions C12_far_failure.
