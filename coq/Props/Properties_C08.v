(* C08 -- cut and accept commit work done so far without reordering or losing it (statements only; partial) *)
From Lug Require Import Proofs.MachineStmt Proofs.MachineProofs.

(* the inhibit counter is exactly the number of open captures, left-recursive calls and recoveries, for every
   program whose commits pop backtrack frames (all compiled programs) and that never answers `rethrow` from a
   recovery expression *)
Theorem C08_ci_counts_partial : stmt_C08_ci_counts_partial. Proof. exact C08_ci_counts_partial_proof. Qed.
Print Assumptions C08_ci_counts_partial.
(* while one of them is open, cut/accept only set their flag ... *)
Theorem C08_deferred : stmt_C08_deferred. Proof. exact C08_deferred_proof. Qed.
Print Assumptions C08_deferred.
(* ... with none open, a cut runs exactly the pending responses in order, then releases the consumed input,
   re-bases the registers and kills older backtrack points; an accept runs them and keeps the input *)
Theorem C08_commit_when_zero : stmt_C08_commit_when_zero. Proof. exact C08_commit_when_zero_proof. Qed.
Print Assumptions C08_commit_when_zero.
Theorem C08_accept_when_zero : stmt_C08_accept_when_zero. Proof. exact C08_accept_when_zero_proof. Qed.
Print Assumptions C08_accept_when_zero.
(* a later failure cannot resume an alternative that started before the cut *)
Theorem C08_tombstone_skipped : stmt_C08_tombstone_skipped. Proof. exact C08_tombstone_skipped_proof. Qed.
Print Assumptions C08_tombstone_skipped.
