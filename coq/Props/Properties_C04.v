(* C04 -- implicit whitespace is skipped between tokens and never inside lexeme/noskip (statements only). *)
From Lug Require Import Proofs.ElabStmt Proofs.ElabProofs.

(* noskip[e]: no whitespace block is emitted for e, not even in front of it (all expressions, all nestings) *)
Theorem C04_noskip_no_skip : stmt_C04_noskip_no_skip. Proof. exact C04_noskip_no_skip_proof. Qed.
Print Assumptions C04_noskip_no_skip.
(* lexeme[e]: whitespace blocks only in front of rule references; holds for every whitespace function that
   leaves the rest of the mode stack alone, which the encoder's own does (real_space_keeps_tail) *)
Theorem C04_lexeme_skips_only_before_rules_partial : stmt_C04_lexeme_skips_only_before_rules_partial.
Proof. exact C04_lexeme_skips_only_before_rules_partial. Qed.
Print Assumptions C04_lexeme_skips_only_before_rules_partial.
(* the whitespace block of a capture is emitted in front of capture_start *)
Theorem C04_capture_skip_outside : stmt_C04_capture_skip_outside. Proof. exact C04_capture_skip_outside_proof. Qed.
Print Assumptions C04_capture_skip_outside.
(* on input without anything the whitespace rule matches, a grammar behaves as with skipping removed *)
Theorem C04_no_whitespace_input : stmt_C04_no_whitespace_input. Proof. exact C04_no_whitespace_input_proof. Qed.
Print Assumptions C04_no_whitespace_input.
