(* C15 -- case-insensitive matching accepts exactly the case-fold-equal texts (statements only; partial) *)
From Lug Require Import Ucd.UcdSpec Ucd.UcdProofs Ucd.RuneSetSpec Ucd.RuneSetProofs.

(* every case-folding lookup stays inside the tables, for every 32-bit argument *)
Theorem C15_fold_total : stmt_C14_indices_in_range. Proof. exact C14_indices_in_range_proof. Qed.
Print Assumptions C15_fold_total.
(* the set a caseless character or range compiles to is used through an exact membership test *)
Theorem C15_set_membership_exact : stmt_C16_sort_optimize. Proof. exact C16_sort_optimize_proof. Qed.
Print Assumptions C15_set_membership_exact.
