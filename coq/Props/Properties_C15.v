(* C15 -- case-insensitive matching accepts exactly the case-fold-equal texts (statements only; partial) *)
From Lug Require Import Ucd.UcdSpec Ucd.UcdProofs Ucd.RuneSetSpec Ucd.RuneSetProofs.

(* every case-folding lookup stays inside the tables, for every 32-bit argument *)
Theorem C15_fold_total : stmt_C14_indices_in_range. Proof. exact C14_indices_in_range_proof. Qed.
Print Assumptions C15_fold_total.
(* the set a caseless character or range compiles to is used through an exact membership test *)
Theorem C15_set_membership_exact : stmt_C16_sort_optimize. Proof. exact C16_sort_optimize_proof. Qed.
Print Assumptions C15_set_membership_exact.

From Lug Require Import Ucd.CaselessSpec Ucd.CaselessProofs Ucd.CaselessWitness Proofs.CaselessMachine Proofs.CaselessMachineWitness.

(* caseless ranges: what the compiled set contains, for every table *)
Theorem C15_range_members : stmt_C15_range_members. Proof. exact C15_range_members_proof. Qed.
Print Assumptions C15_range_members.
Theorem C15_range_reversed : stmt_C15_range_reversed. Proof. exact C15_range_reversed_proof. Qed.
Print Assumptions C15_range_reversed.
Theorem C15_range_index_only_if_lookup_fails : stmt_C15_range_index_only_if_lookup_fails. Proof. exact C15_range_index_only_if_lookup_fails_proof. Qed.
Print Assumptions C15_range_index_only_if_lookup_fails.
Theorem C15_range_total_on_shipped_table : stmt_C15_range_total_on_shipped_table. Proof. exact C15_range_total_on_shipped_table_proof. Qed.
Print Assumptions C15_range_total_on_shipped_table.
(* caseless single letters *)
Theorem C15_letter_members : stmt_C15_letter_members. Proof. exact C15_letter_members_proof. Qed.
Print Assumptions C15_letter_members.
(* the property's iff for ranges: under two explicit table hypotheses; necessity of the second; refutation on the shipped table *)
Theorem C15_range_exact_partial : stmt_C15_range_exact_partial. Proof. exact C15_range_exact_partial_proof. Qed.
Print Assumptions C15_range_exact_partial.
Theorem C15_range_exact_needs_reachable : stmt_C15_range_exact_needs_reachable. Proof. exact C15_range_exact_needs_reachable_proof. Qed.
Print Assumptions C15_range_exact_needs_reachable.
Theorem C15_range_refuted : stmt_C15_range_refuted. Proof. exact C15_range_refuted_proof. Qed.
Print Assumptions C15_range_refuted.
Theorem C15_range_exact_refuted : stmt_C15_range_exact_refuted. Proof. exact C15_range_exact_refuted_proof. Qed.
Print Assumptions C15_range_exact_refuted.
Theorem C15_letter_refuted : stmt_C15_letter_refuted. Proof. exact C15_letter_refuted_proof. Qed.
Print Assumptions C15_letter_refuted.
(* caseless literals: the fold cache invariant, exactness under length-preserving folding, refutations *)
Theorem C15_cache_sound_init : stmt_C15_cache_sound_init. Proof. exact C15_cache_sound_init_proof. Qed.
Print Assumptions C15_cache_sound_init.
Theorem C15_cache_sound_preserved : stmt_C15_cache_sound_preserved. Proof. exact C15_cache_sound_preserved_proof. Qed.
Print Assumptions C15_cache_sound_preserved.
Theorem C15_cache_sound_poll : stmt_C15_cache_sound_poll. Proof. exact C15_cache_sound_poll_proof. Qed.
Print Assumptions C15_cache_sound_poll.
Theorem C15_literal_partial : stmt_C15_literal_partial. Proof. exact C15_literal_partial_proof. Qed.
Print Assumptions C15_literal_partial.
Theorem C15_literal_accepts : stmt_C15_literal_accepts. Proof. exact C15_literal_accepts_proof. Qed.
Print Assumptions C15_literal_accepts.
Theorem C15_literal_refuted : stmt_C15_literal_refuted. Proof. exact C15_literal_refuted_proof. Qed.
Print Assumptions C15_literal_refuted.
Theorem C15_literal_not_general : stmt_C15_literal_not_general. Proof. exact C15_literal_not_general_proof. Qed.
Print Assumptions C15_literal_not_general.
Theorem C15_literal_cache_dependent : stmt_C15_literal_cache_dependent. Proof. exact C15_literal_cache_dependent_proof. Qed.
Print Assumptions C15_literal_cache_dependent.
