(* C16 -- character sets and bracket expressions denote exactly their set of characters.
   Only theorem statements closed with `exact`; proofs live in Ucd/RuneSetProofs.v. *)
From Lug Require Import Ucd.RuneSetSpec Ucd.RuneSetProofs.

Theorem C16_push_range : stmt_C16_push_range. Proof. exact C16_push_range_proof. Qed.
Print Assumptions C16_push_range.
Theorem C16_push_range_reversed : stmt_C16_push_range_reversed. Proof. exact C16_push_range_reversed_proof. Qed.
Print Assumptions C16_push_range_reversed.
Theorem C16_push_rune : stmt_C16_push_rune. Proof. exact C16_push_rune_proof. Qed.
Print Assumptions C16_push_rune.
Theorem C16_sort_optimize : stmt_C16_sort_optimize. Proof. exact C16_sort_optimize_proof. Qed.
Print Assumptions C16_sort_optimize.
Theorem C16_contains_sorted : stmt_C16_contains_sorted. Proof. exact C16_contains_sorted_proof. Qed.
Print Assumptions C16_contains_sorted.
Theorem C16_negate : stmt_C16_negate. Proof. exact C16_negate_proof. Qed.
Print Assumptions C16_negate.
