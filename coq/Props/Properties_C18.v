(* C18 -- a parser and environment can be reused: each parse depends only on its own input (statements only) *)
From Lug Require Import Proofs.MachineStmt Proofs.MachineProofs.

(* whatever state the previous parse ended in -- success, failure, stopped at a cut, abandoned in the middle of
   an instruction or of a failure -- the next parse starts from the state a fresh parser would start from, given
   the unread input, the sources, and the user-managed conditions and symbols: every other component is overwritten *)
Theorem C18_reset_total : stmt_C18_reset_total. Proof. exact C18_reset_total_proof. Qed.
Print Assumptions C18_reset_total.
Theorem C18_reset_agree : stmt_C18_reset_agree. Proof. exact C18_reset_agree_proof. Qed.
Print Assumptions C18_reset_agree.
