(* C07 -- Attribute variables behave like locals of each rule invocation.
   This file contains nothing but the property theorems; each is closed with `exact` so that the
   statement (Attr/AttrSpec.v) cannot be weakened silently, and followed by Print Assumptions.

   Model: Attr/AttrModel.v (the attribute actions the encoder emits, executed on the frame / result /
   collection stacks of class environment).  The action sequences ops* of the four grammars are tied to
   the real encoder and VM on every run by tools/props/C07.py (cpp/attrdrv.cpp vs ocaml/attr_driver.ml). *)
From Lug Require Import Attr.AttrModel Attr.AttrSpec Attr.AttrProofs.

(* (a) push V; balanced body; pop V restores every variable of V and the frame stack, whatever the body did *)
Theorem C07_frame_locality : stmt_C07_frame_locality. Proof. exact C07_frame_locality_proof. Qed.
Print Assumptions C07_frame_locality.
Theorem C07_frame_bracket_total : stmt_C07_frame_bracket_total. Proof. exact C07_frame_bracket_total_proof. Qed.
Print Assumptions C07_frame_bracket_total.
Theorem C07_balanced_preserves_frames : stmt_C07_balanced_preserves_frames. Proof. exact C07_balanced_preserves_frames_proof. Qed.
Print Assumptions C07_balanced_preserves_frames.

(* (b) the result stack afterwards = the values pushed and not consumed, on top of the stack before minus
   what was consumed; values below are not even looked at *)
Theorem C07_stack_exact : stmt_C07_stack_exact. Proof. exact C07_stack_exact_proof. Qed.
Print Assumptions C07_stack_exact.
Theorem C07_stack_base_untouched : stmt_C07_stack_base_untouched. Proof. exact C07_stack_base_untouched_proof. Qed.
Print Assumptions C07_stack_base_untouched.

(* (c) four attribute grammars compute the plain recursive evaluation of every parse tree and leave exactly
   that one value on the stack (frames and collection marks as before) *)
Theorem C07_calc : stmt_C07_calc. Proof. exact C07_calc_proof. Qed.
Print Assumptions C07_calc.
Theorem C07_list : stmt_C07_list. Proof. exact C07_list_proof. Qed.
Print Assumptions C07_list.
Theorem C07_list_seq : stmt_C07_list_seq. Proof. exact C07_list_seq_proof. Qed.
Print Assumptions C07_list_seq.
Theorem C07_mirror : stmt_C07_mirror. Proof. exact C07_mirror_proof. Qed.
Print Assumptions C07_mirror.
Theorem C07_chain : stmt_C07_chain. Proof. exact C07_chain_proof. Qed.
Print Assumptions C07_chain.

(* without the frame actions the same sequences compute something else *)
Theorem C07_frames_needed : stmt_C07_frames_needed. Proof. exact C07_frames_needed_proof. Qed.
Print Assumptions C07_frames_needed.

(* the observation stream printed by the model driver is a by-product of exec *)
Theorem C07_exec_obs_exec : stmt_exec_obs_exec. Proof. exact exec_obs_exec_proof. Qed.
Print Assumptions C07_exec_obs_exec.
