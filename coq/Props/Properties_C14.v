(* C14 -- character property lookups: what is decided for every code point (see Ucd/UcdSpec.v). *)
From Lug Require Import Ucd.UcdSpec Ucd.UcdProofs.

Theorem C14_tables_decode : stmt_C14_tables_decode. Proof. exact C14_tables_decode_proof. Qed.
Print Assumptions C14_tables_decode.
Theorem C14_indices_in_range : stmt_C14_indices_in_range. Proof. exact C14_indices_in_range_proof. Qed.
Print Assumptions C14_indices_in_range.
Theorem C14_annexC : stmt_C14_annexC. Proof. exact C14_annexC_proof. Qed.
Print Assumptions C14_annexC.
Theorem C14_derived_core : stmt_C14_derived_core. Proof. exact C14_derived_core_proof. Qed.
Print Assumptions C14_derived_core.
Theorem C14_standard_constants : stmt_C14_standard_constants. Proof. exact C14_standard_constants_proof. Qed.
Print Assumptions C14_standard_constants.
Theorem C14_blocks_aligned : stmt_C14_blocks_aligned. Proof. exact C14_blocks_aligned_proof. Qed.
Print Assumptions C14_blocks_aligned.
Theorem C14_out_of_range_invalid : stmt_C14_out_of_range_invalid. Proof. exact C14_out_of_range_invalid_proof. Qed.
Print Assumptions C14_out_of_range_invalid.
Theorem C14_decode_lengths_partial : stmt_C14_decode_lengths_partial. Proof. exact C14_decode_lengths_partial_proof. Qed.
Print Assumptions C14_decode_lengths_partial.
(* open findings: the full statements are refuted on the shipped tables *)
Theorem C14_decode_lengths_refuted : stmt_C14_decode_lengths_refuted. Proof. exact C14_decode_lengths_refuted_proof. Qed.
Print Assumptions C14_decode_lengths_refuted.
Theorem C14_casefold_idempotent_refuted : stmt_C14_casefold_idempotent_refuted. Proof. exact C14_casefold_idempotent_refuted_proof. Qed.
Print Assumptions C14_casefold_idempotent_refuted.
Theorem C14_fold_lower_refuted : stmt_C14_fold_lower_refuted. Proof. exact C14_fold_lower_refuted_proof. Qed.
Print Assumptions C14_fold_lower_refuted.
Theorem C14_fold_upper_refuted : stmt_C14_fold_upper_refuted. Proof. exact C14_fold_upper_refuted_proof. Qed.
Print Assumptions C14_fold_upper_refuted.
Theorem C14_maps_in_range_refuted : stmt_C14_maps_in_range_refuted. Proof. exact C14_maps_in_range_refuted_proof. Qed.
Print Assumptions C14_maps_in_range_refuted.
Theorem C14_spot_facts_refuted : stmt_C14_spot_facts_refuted. Proof. exact C14_spot_facts_refuted_proof. Qed.
Print Assumptions C14_spot_facts_refuted.
