(* C10 -- naming a sub-expression as a rule, or copying a rule, never changes behaviour (statements only). *)
From Lug Require Import Proofs.BlockDefs Proofs.Blocks Proofs.LinkStmt Proofs.LinkProofs Proofs.StaticStmt Proofs.StaticProofs Proofs.FactorLaws.

(* whether a rule is inlined or called (or tail-called) is invisible to the reference semantics ... *)
Theorem C10_call_inline_equiv : stmt_call_inline_equiv. Proof. exact call_inline_equiv_proof. Qed.
Print Assumptions C10_call_inline_equiv.
(* ... and the machine simulates that semantics for inlined code, `call` and the `jump` of a tail call alike *)
Theorem C10_call_transparent : stmt_block. Proof. exact block_proof. Qed.
Print Assumptions C10_call_transparent.
(* start(): every call / recover_push of the linked program targets the entry of its callee's block *)
Theorem C10_link_targets : stmt_link_layout. Proof. exact link_layout_proof. Qed.
Print Assumptions C10_link_targets.
(* concatenation re-bases string offsets and resource indices consistently: lowering loses nothing ... *)
Theorem C10_unlower_lower : stmt_unlower_lower. Proof. exact unlower_lower_proof. Qed.
Print Assumptions C10_unlower_lower.
(* ... and appending code never disturbs what is already laid out *)
Theorem C10_concat_rebase : stmt_lower_app_code. Proof. exact lower_app_code_proof. Qed.
Print Assumptions C10_concat_rebase.
