(* C13 -- UTF-8 decoding and encoding are exact, total and always make progress.
   This file contains nothing but the property theorems; each is closed with `exact` so that the
   statement (Utf8/Utf8Stmts.v) cannot be weakened silently, and followed by Print Assumptions. *)
From Lug Require Import Utf8.Utf8Stmts Utf8.Utf8Proofs.

Theorem C13_decode_wellformed : stmt_C13_decode_wellformed. Proof. exact C13_decode_wellformed_proof. Qed.
Print Assumptions C13_decode_wellformed.
Theorem C13_decode_illformed : stmt_C13_decode_illformed. Proof. exact C13_decode_illformed_proof. Qed.
Print Assumptions C13_decode_illformed.
Theorem C13_progress : stmt_C13_progress. Proof. exact C13_progress_proof. Qed.
Print Assumptions C13_progress.
Theorem C13_ascii : stmt_C13_ascii. Proof. exact C13_ascii_proof. Qed.
Print Assumptions C13_ascii.
Theorem C13_wf_scalar : stmt_C13_wf_scalar. Proof. exact C13_wf_scalar_proof. Qed.
Print Assumptions C13_wf_scalar.
Theorem C13_encode_scalar : stmt_C13_encode_scalar. Proof. exact C13_encode_scalar_proof. Qed.
Print Assumptions C13_encode_scalar.
Theorem C13_encode_unique : stmt_C13_encode_unique. Proof. exact C13_encode_unique_proof. Qed.
Print Assumptions C13_encode_unique.
Theorem C13_encode_nonscalar : stmt_C13_encode_nonscalar. Proof. exact C13_encode_nonscalar_proof. Qed.
Print Assumptions C13_encode_nonscalar.
Theorem C13_roundtrip : stmt_C13_roundtrip. Proof. exact C13_roundtrip_proof. Qed.
Print Assumptions C13_roundtrip.
Theorem C13_count_runes_total : stmt_C13_count_runes_total. Proof. exact C13_count_runes_total_proof. Qed.
Print Assumptions C13_count_runes_total.
