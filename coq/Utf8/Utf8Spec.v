(* Specification of UTF-8 (Unicode Standard, Table 3-7 "Well-Formed UTF-8 Byte Sequences"), written
   from the standard and not from the code.  [wf_prefix s] is the length and scalar value of the
   well-formed sequence at the head of [s], if there is one. *)
From Coq Require Import NArith List Bool.
Import ListNotations.
Local Open Scope N_scope.

Definition in_range (b lo hi : N) : bool := (lo <=? b) && (b <=? hi).
Definition is_cont (b : N) : bool := in_range b 128 191.

Definition is_scalar (r : N) : bool := (r <? 55296) || ((57343 <? r) && (r <? 1114112)).

(* second-byte range for a given lead byte (rows of Table 3-7) *)
Definition lo2 (b1 : N) : N := if b1 =? 224 then 160 else if b1 =? 240 then 144 else 128.
Definition hi2 (b1 : N) : N := if b1 =? 237 then 159 else if b1 =? 244 then 143 else 191.

Definition wf_prefix (s : list N) : option (nat * N) :=
  match s with
  | [] => None
  | b1 :: t =>
    if b1 <? 128 then Some (1%nat, b1)
    else if in_range b1 194 223 then
      match t with
      | b2 :: _ => if is_cont b2 then Some (2%nat, (b1 - 192) * 64 + (b2 - 128)) else None
      | _ => None
      end
    else if in_range b1 224 239 then
      match t with
      | b2 :: b3 :: _ =>
          if in_range b2 (lo2 b1) (hi2 b1) && is_cont b3
          then Some (3%nat, (b1 - 224) * 4096 + (b2 - 128) * 64 + (b3 - 128)) else None
      | _ => None
      end
    else if in_range b1 240 244 then
      match t with
      | b2 :: b3 :: b4 :: _ =>
          if in_range b2 (lo2 b1) (hi2 b1) && is_cont b3 && is_cont b4
          then Some (4%nat, (b1 - 240) * 262144 + (b2 - 128) * 4096 + (b3 - 128) * 64 + (b4 - 128)) else None
      | _ => None
      end
    else None
  end.

Definition bytes_ok (s : list N) : Prop := Forall (fun b => b < 256) s.

(* the shortest-form length of a scalar value *)
Definition utf8_len (r : N) : nat :=
  if r <? 128 then 1 else if r <? 2048 then 2 else if r <? 65536 then 3 else 4.

(* Executable form of the decoding clauses of the property, used as the oracle of the conformance
   search: does the answer (n, r) given for input s satisfy C13? *)
Definition dec_conforms (s : list N) (n : nat) (r : N) : bool :=
  match wf_prefix s with
  | Some (n', r') => Nat.eqb n n' && (r =? r')
  | None =>
      match s with
      | [] => Nat.eqb n 0 && (r =? 65533)
      | _ => (r =? 65533) && Nat.leb 1 n && Nat.leb n (length s) &&
             forallb (fun j => match wf_prefix (skipn j s) with None => true | Some _ => false end) (seq 1 (n - 1))
      end
  end.

Definition enc_conforms (r : N) (bs : list N) (ok : bool) : bool :=
  if is_scalar r
  then ok && Nat.eqb (length bs) (utf8_len r) &&
       match wf_prefix bs with Some (n, r') => Nat.eqb n (length bs) && (r' =? r) | None => false end
  else negb ok && match bs with [a; b; c] => (a =? 239) && (b =? 191) && (c =? 189) | _ => false end.
