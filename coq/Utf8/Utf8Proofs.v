(* Proofs of the C13 obligations (Utf8Stmts.v) about the model of include/lug/utf8.hpp.
   Finite facts about the DFA tables are established by exhaustive boolean sweeps (vm_compute);
   the unbounded parts (the tail of the input, the rune accumulator) are handled by ordinary proofs. *)
From Coq Require Import NArith List Bool Lia ZifyBool ZifyN PeanoNat.
From Lug Require Import Gen.Utf8Tables Utf8.Utf8Model Utf8.Utf8Spec Utf8.Utf8Stmts.
Import ListNotations.
Local Open Scope N_scope.

(* ------------------------------------------------------------------------------------------------ *)
(* Sweep infrastructure                                                                              *)
(* ------------------------------------------------------------------------------------------------ *)

(* [range_check f d base] checks f on the 2^d values base .. base + 2^d - 1 (recursion depth d) *)
Fixpoint range_check (f : N -> bool) (d : nat) (base : N) : bool :=
  match d with
  | O => f base
  | S d' => range_check f d' base && range_check f d' (base + 2 ^ N.of_nat d')
  end.

Lemma range_check_sound f d : forall base, range_check f d base = true ->
  forall x, base <= x < base + 2 ^ N.of_nat d -> f x = true.
Proof.
  induction d as [|d IH]; intros base H x Hx.
  - cbn in H. change (2 ^ N.of_nat 0) with 1 in Hx. assert (x = base) by lia. subst x. exact H.
  - cbn [range_check] in H. apply andb_true_iff in H. destruct H as [H1 H2].
    assert (E : 2 ^ N.of_nat (S d) = 2 ^ N.of_nat d + 2 ^ N.of_nat d).
    { rewrite Nat2N.inj_succ, N.pow_succ_r'. lia. }
    rewrite E in Hx.
    destruct (N.lt_ge_cases x (base + 2 ^ N.of_nat d)) as [Hlt|Hge].
    + apply (IH base H1). lia.
    + apply (IH _ H2). lia.
Qed.

Lemma sweep_bytes (f : N -> bool) :
  range_check f 8 0 = true -> forall b, b < 256 -> f b = true.
Proof.
  intros H b Hb. apply (range_check_sound f 8 0 H). change (2 ^ N.of_nat 8) with 256. lia.
Qed.

Lemma sweep_bytes2 (f : N -> N -> bool) :
  range_check (fun a => range_check (f a) 8 0) 8 0 = true ->
  forall a b, a < 256 -> b < 256 -> f a b = true.
Proof.
  intros H a b Ha Hb. apply sweep_bytes; [|exact Hb].
  apply (sweep_bytes (fun a => range_check (f a) 8 0) H a Ha).
Qed.

(* ------------------------------------------------------------------------------------------------ *)
(* The DFA                                                                                           *)
(* ------------------------------------------------------------------------------------------------ *)

Definition cls (b : N) : N := nthN dfa_class_table b 0.
Definition nxt (st b : N) : N := nthN dfa_transition_table (st + cls b) st_reject.
Definition rune0 (b : N) : N := N.land b (N.shiftr 255 (cls b)).
Definition runeK (rune b : N) : N := (N.lor (N.land b 63) (N.shiftl rune 6)) mod two32.

Lemma dro_eq rune b st :
  decode_rune_octet rune b st = (nxt st b, if st =? 0 then rune0 b else runeK rune b).
Proof. reflexivity. Qed.

Lemma loop_nil rune st c : decode_loop [] rune st c = (c, 65533).
Proof. reflexivity. Qed.

Lemma loop_cons b r rune st c :
  decode_loop (b :: r) rune st c =
    if nxt st b =? 0 then (S c, if st =? 0 then rune0 b else runeK rune b)
    else if nxt st b =? 12 then
      if st =? 0 then ((S c + skip_trail r)%nat, 65533) else ((c + skip_trail (b :: r))%nat, 65533)
    else decode_loop r (if st =? 0 then rune0 b else runeK rune b) (nxt st b) (S c).
Proof. reflexivity. Qed.

(* non-accepting, non-rejecting states *)
Definition na (st : N) : bool := existsb (N.eqb st) [24; 36; 48; 60; 72; 84; 96].

(* first byte *)
Definition first_chk (b : N) : bool :=
  if b <? 128 then (nxt 0 b =? 0) && (rune0 b =? b)
  else if in_range b 194 223 then (nxt 0 b =? 24) && (rune0 b =? b - 192)
  else if in_range b 224 239 then na (nxt 0 b) && negb (nxt 0 b =? 24) && (rune0 b =? b - 224)
  else if in_range b 240 244 then na (nxt 0 b) && negb (nxt 0 b =? 24) && (rune0 b =? b - 240)
  else nxt 0 b =? 12.

Lemma first_ok b : b < 256 -> first_chk b = true.
Proof. apply sweep_bytes. vm_compute. reflexivity. Qed.

(* second byte after a 3- or 4-byte lead *)
Definition second_chk (b1 b2 : N) : bool :=
  if in_range b1 224 239
  then nxt (nxt 0 b1) b2 =? (if in_range b2 (lo2 b1) (hi2 b1) then 24 else 12)
  else if in_range b1 240 244
  then nxt (nxt 0 b1) b2 =? (if in_range b2 (lo2 b1) (hi2 b1) then 36 else 12)
  else true.

Lemma second_ok b1 b2 : b1 < 256 -> b2 < 256 -> second_chk b1 b2 = true.
Proof. apply sweep_bytes2. vm_compute. reflexivity. Qed.

(* states 24 and 36, and the general shape of the non-accepting states *)
Definition cont_chk (b : N) : bool :=
  (nxt 24 b =? (if is_cont b then 0 else 12)) &&
  (nxt 36 b =? (if is_cont b then 24 else 12)) &&
  Bool.eqb (is_lead_or_ascii b) (negb (is_cont b)) &&
  (if is_cont b then N.land b 63 =? b - 128 else true) &&
  forallb (fun st => (nxt st b =? 0) || (nxt st b =? 12) || na (nxt st b))
          [24; 36; 48; 60; 72; 84; 96] &&
  forallb (fun st => (nxt st b =? 12) || is_cont b) [24; 36; 48; 60; 72; 84; 96].

Lemma cont_ok b : b < 256 -> cont_chk b = true.
Proof. apply sweep_bytes. vm_compute. reflexivity. Qed.

(* consequences of the sweeps, in usable form *)
Lemma na_cases st : na st = true ->
  st = 24 \/ st = 36 \/ st = 48 \/ st = 60 \/ st = 72 \/ st = 84 \/ st = 96.
Proof. unfold na. cbn [existsb]. lia. Qed.

Lemma na_not0 st : na st = true -> (st =? 0) = false.
Proof. intros H. apply na_cases in H. lia. Qed.

Lemma na_not12 st : na st = true -> (st =? 12) = false.
Proof. intros H. apply na_cases in H. lia. Qed.

Lemma cont_facts b : b < 256 ->
  nxt 24 b = (if is_cont b then 0 else 12) /\
  nxt 36 b = (if is_cont b then 24 else 12) /\
  is_lead_or_ascii b = negb (is_cont b) /\
  (is_cont b = true -> N.land b 63 = b - 128) /\
  (forall st, na st = true -> nxt st b = 0 \/ nxt st b = 12 \/ na (nxt st b) = true) /\
  (forall st, na st = true -> nxt st b <> 12 -> is_cont b = true).
Proof.
  intros Hb. pose proof (cont_ok b Hb) as H. unfold cont_chk in H.
  apply andb_true_iff in H. destruct H as [H H6].
  apply andb_true_iff in H. destruct H as [H H5].
  apply andb_true_iff in H. destruct H as [H H4].
  apply andb_true_iff in H. destruct H as [H H3].
  apply andb_true_iff in H. destruct H as [H1 H2].
  apply N.eqb_eq in H1. apply N.eqb_eq in H2. apply Bool.eqb_prop in H3.
  rewrite forallb_forall in H5, H6.
  repeat split.
  - exact H1.
  - exact H2.
  - exact H3.
  - intros Hc. rewrite Hc in H4. apply N.eqb_eq in H4. exact H4.
  - intros st Hst. assert (Hin : In st [24; 36; 48; 60; 72; 84; 96]).
    { apply na_cases in Hst. cbn [In]. intuition auto. }
    specialize (H5 st Hin). cbv beta in H5.
    apply orb_true_iff in H5. destruct H5 as [H5|H5]; [|right; right; exact H5].
    apply orb_true_iff in H5. destruct H5 as [H5|H5]; apply N.eqb_eq in H5; auto.
  - intros st Hst Hn. assert (Hin : In st [24; 36; 48; 60; 72; 84; 96]).
    { apply na_cases in Hst. cbn [In]. intuition auto. }
    specialize (H6 st Hin). cbv beta in H6.
    apply orb_true_iff in H6. destruct H6 as [H6|H6]; [|exact H6].
    apply N.eqb_eq in H6. contradiction.
Qed.

Lemma nxt24 b : b < 256 -> nxt 24 b = if is_cont b then 0 else 12.
Proof. intros Hb. apply (cont_facts b Hb). Qed.

Lemma nxt36 b : b < 256 -> nxt 36 b = if is_cont b then 24 else 12.
Proof. intros Hb. apply (cont_facts b Hb). Qed.

Lemma range2_cont b1 b2 : in_range b2 (lo2 b1) (hi2 b1) = true -> is_cont b2 = true.
Proof.
  unfold is_cont, in_range, lo2, hi2.
  destruct (b1 =? 224); destruct (b1 =? 240); destruct (b1 =? 237); destruct (b1 =? 244); lia.
Qed.

(* rune arithmetic *)
Lemma lor_low x r : x < 64 -> N.lor x (N.shiftl r 6) = r * 64 + x.
Proof.
  intros Hx.
  assert (Hd : N.land x (N.shiftl r 6) = 0).
  { rewrite <- (N.mod_small x (2 ^ 6)) by (change (2 ^ 6) with 64; lia).
    rewrite <- N.land_ones, <- N.land_assoc, (N.land_comm (N.ones 6)), N.land_ones.
    rewrite N.shiftl_mul_pow2, N.mod_mul by (change (2 ^ 6) with 64; lia).
    apply N.land_0_r. }
  rewrite <- N.lxor_lor by exact Hd.
  rewrite <- N.add_nocarry_lxor by exact Hd.
  rewrite N.shiftl_mul_pow2. change (2 ^ 6) with 64. lia.
Qed.

Lemma runeK_cont rune b : b < 256 -> is_cont b = true -> rune < 67108864 ->
  runeK rune b = rune * 64 + (b - 128).
Proof.
  intros Hb Hc Hr. unfold runeK.
  destruct (cont_facts b Hb) as (_ & _ & _ & H & _). rewrite (H Hc).
  unfold is_cont, in_range in Hc.
  rewrite lor_low by lia. apply N.mod_small. unfold two32. lia.
Qed.

(* one step of the loop, by kind of step *)
Lemma loop_acc0 b r rune c : nxt 0 b = 0 -> decode_loop (b :: r) rune 0 c = (S c, rune0 b).
Proof. intros H. rewrite loop_cons, H. reflexivity. Qed.

Lemma loop_accK b r rune st c : na st = true -> nxt st b = 0 ->
  decode_loop (b :: r) rune st c = (S c, runeK rune b).
Proof. intros Hs H. rewrite loop_cons, H, (na_not0 st Hs). reflexivity. Qed.

Lemma loop_rej0 b r rune c : nxt 0 b = 12 ->
  decode_loop (b :: r) rune 0 c = ((S c + skip_trail r)%nat, 65533).
Proof. intros H. rewrite loop_cons, H. reflexivity. Qed.

Lemma loop_rejK b r rune st c : na st = true -> nxt st b = 12 ->
  decode_loop (b :: r) rune st c = ((c + skip_trail (b :: r))%nat, 65533).
Proof. intros Hs H. rewrite loop_cons, H, (na_not0 st Hs). reflexivity. Qed.

Lemma loop_cont0 b r rune c : na (nxt 0 b) = true ->
  decode_loop (b :: r) rune 0 c = decode_loop r (rune0 b) (nxt 0 b) (S c).
Proof. intros H. rewrite loop_cons, (na_not0 _ H), (na_not12 _ H). reflexivity. Qed.

Lemma loop_contK b r rune st c : na st = true -> na (nxt st b) = true ->
  decode_loop (b :: r) rune st c = decode_loop r (runeK rune b) (nxt st b) (S c).
Proof. intros Hs H. rewrite loop_cons, (na_not0 _ H), (na_not12 _ H), (na_not0 st Hs). reflexivity. Qed.

Lemma na24 : na 24 = true. Proof. reflexivity. Qed.
Lemma na36 : na 36 = true. Proof. reflexivity. Qed.

(* the last one or two continuation bytes of a sequence *)
Lemma tail1 t rune c : bytes_ok t -> rune < 67108864 ->
  match t with
  | b :: _ => if is_cont b then decode_loop t rune 24 c = (S c, rune * 64 + (b - 128))
              else snd (decode_loop t rune 24 c) = 65533
  | [] => snd (decode_loop t rune 24 c) = 65533
  end.
Proof.
  intros Hok Hr. destruct t as [|b t]; [reflexivity|].
  inversion Hok as [|? ? Hb Ht]; subst.
  pose proof (nxt24 b Hb) as H. destruct (is_cont b) eqn:Ec.
  - rewrite (loop_accK _ _ _ _ _ na24 H). rewrite runeK_cont by assumption. reflexivity.
  - rewrite (loop_rejK _ _ _ _ _ na24 H). reflexivity.
Qed.

Lemma tail2 t rune c : bytes_ok t -> rune < 1048576 ->
  match t with
  | b :: b' :: _ =>
      if is_cont b && is_cont b'
      then decode_loop t rune 36 c = (S (S c), (rune * 64 + (b - 128)) * 64 + (b' - 128))
      else snd (decode_loop t rune 36 c) = 65533
  | _ => snd (decode_loop t rune 36 c) = 65533
  end.
Proof.
  intros Hok Hr. destruct t as [|b t]; [reflexivity|].
  inversion Hok as [|? ? Hb Ht]; subst.
  pose proof (nxt36 b Hb) as H. destruct (is_cont b) eqn:Ec.
  - assert (Hr' : rune * 64 + (b - 128) < 67108864) by (unfold is_cont, in_range in Ec; lia).
    pose proof (tail1 t (rune * 64 + (b - 128)) (S c) Ht Hr') as T.
    assert (Hna : na (nxt 36 b) = true) by (rewrite H; reflexivity).
    rewrite (loop_contK _ _ _ _ _ na36 Hna), H, runeK_cont by (assumption || lia).
    destruct t as [|b' t']; [exact T|]. cbn [andb]. exact T.
  - rewrite (loop_rejK _ _ _ _ _ na36 H). destruct t as [|b' t']; reflexivity.
Qed.

(* ------------------------------------------------------------------------------------------------ *)
(* Characterisation of decode_rune against the specification                                         *)
(* ------------------------------------------------------------------------------------------------ *)

Lemma decode_char s : bytes_ok s ->
  match wf_prefix s with
  | Some (n, r) => decode_rune s = (n, r)
  | None => snd (decode_rune s) = 65533
  end.
Proof.
  intros Hok. destruct s as [|b1 t]; [reflexivity|].
  inversion Hok as [|? ? Hb1 Ht]; subst.
  pose proof (first_ok b1 Hb1) as F. unfold first_chk in F.
  unfold decode_rune, wf_prefix. change st_accept with 0.
  destruct (b1 <? 128) eqn:E1.
  { apply andb_true_iff in F. destruct F as [F1 F2]. apply N.eqb_eq in F1, F2.
    rewrite (loop_acc0 _ _ _ _ F1), F2. reflexivity. }
  destruct (in_range b1 194 223) eqn:E2.
  { apply andb_true_iff in F. destruct F as [F1 F2]. apply N.eqb_eq in F1, F2.
    assert (Hna : na (nxt 0 b1) = true) by (rewrite F1; reflexivity).
    rewrite (loop_cont0 _ _ _ _ Hna), F1, F2.
    assert (Hr : b1 - 192 < 67108864) by lia.
    pose proof (tail1 t (b1 - 192) 1 Ht Hr) as T.
    destruct t as [|b2 t2]; [exact T|].
    destruct (is_cont b2); exact T. }
  destruct (in_range b1 224 239) eqn:E3.
  { apply andb_true_iff in F. destruct F as [F F2]. apply andb_true_iff in F. destruct F as [Hna F1].
    apply N.eqb_eq in F2.
    rewrite (loop_cont0 _ _ _ _ Hna), F2.
    destruct t as [|b2 t2]; [reflexivity|].
    inversion Ht as [|? ? Hb2 Ht2]; subst.
    pose proof (second_ok b1 b2 Hb1 Hb2) as S2. unfold second_chk in S2. rewrite E3 in S2.
    apply N.eqb_eq in S2.
    destruct (in_range b2 (lo2 b1) (hi2 b1)) eqn:E4.
    - assert (Hna2 : na (nxt (nxt 0 b1) b2) = true) by (rewrite S2; reflexivity).
      pose proof (range2_cont _ _ E4) as Hc2.
      rewrite (loop_contK _ _ _ _ _ Hna Hna2), S2, runeK_cont by (assumption || lia).
      assert (Hr : (b1 - 224) * 64 + (b2 - 128) < 67108864) by lia.
      pose proof (tail1 t2 _ 2 Ht2 Hr) as T.
      destruct t2 as [|b3 t3]; [exact T|]. cbn [andb].
      destruct (is_cont b3); [|exact T]. rewrite T. f_equal. lia.
    - rewrite (loop_rejK _ _ _ _ _ Hna S2).
      destruct t2 as [|b3 t3]; reflexivity. }
  destruct (in_range b1 240 244) eqn:E5.
  { apply andb_true_iff in F. destruct F as [F F2]. apply andb_true_iff in F. destruct F as [Hna F1].
    apply N.eqb_eq in F2.
    rewrite (loop_cont0 _ _ _ _ Hna), F2.
    destruct t as [|b2 t2]; [reflexivity|].
    inversion Ht as [|? ? Hb2 Ht2]; subst.
    pose proof (second_ok b1 b2 Hb1 Hb2) as S2. unfold second_chk in S2. rewrite E3, E5 in S2.
    apply N.eqb_eq in S2.
    destruct (in_range b2 (lo2 b1) (hi2 b1)) eqn:E4.
    - assert (Hna2 : na (nxt (nxt 0 b1) b2) = true) by (rewrite S2; reflexivity).
      pose proof (range2_cont _ _ E4) as Hc2.
      rewrite (loop_contK _ _ _ _ _ Hna Hna2), S2, runeK_cont by (assumption || lia).
      assert (Hr : (b1 - 240) * 64 + (b2 - 128) < 1048576) by lia.
      pose proof (tail2 t2 _ 2 Ht2 Hr) as T.
      destruct t2 as [|b3 [|b4 t4]]; [exact T|exact T|]. cbn [andb].
      destruct (is_cont b3 && is_cont b4); [|exact T]. rewrite T. f_equal. lia.
    - rewrite (loop_rejK _ _ _ _ _ Hna S2).
      destruct t2 as [|b3 [|b4 t4]]; reflexivity. }
  apply N.eqb_eq in F. rewrite (loop_rej0 _ _ _ _ F). reflexivity.
Qed.

Lemma C13_decode_wellformed_proof : stmt_C13_decode_wellformed.
Proof.
  intros s n r Hok Hwf. pose proof (decode_char s Hok) as H. rewrite Hwf in H. exact H.
Qed.

Lemma C13_ascii_proof : stmt_C13_ascii.
Proof.
  intros b rest Hb. assert (Hb' : b < 256) by lia.
  pose proof (first_ok b Hb') as F. unfold first_chk in F.
  assert (E : (b <? 128) = true) by lia. rewrite E in F.
  apply andb_true_iff in F. destruct F as [F1 F2]. apply N.eqb_eq in F1, F2.
  unfold decode_rune. change st_accept with 0. rewrite (loop_acc0 _ _ _ _ F1), F2. reflexivity.
Qed.

(* ------------------------------------------------------------------------------------------------ *)
(* Progress, and what an ill-formed sequence swallows                                                *)
(* ------------------------------------------------------------------------------------------------ *)

Lemma skip_trail_inv l : bytes_ok l ->
  (skip_trail l <= length l)%nat /\
  forall j, (j < skip_trail l)%nat -> is_cont (nth j l 0) = true.
Proof.
  induction l as [|b r IH]; intros Hok.
  - split; [apply Nat.le_refl|]. intros j Hj. cbn in Hj. lia.
  - inversion Hok as [|? ? Hb Hr]; subst. destruct (IH Hr) as [IH1 IH2].
    cbn [skip_trail length]. destruct (cont_facts b Hb) as (_ & _ & E & _). rewrite E.
    destruct (is_cont b) eqn:Ec; cbn [negb].
    + split; [lia|]. intros j Hj. destruct j as [|j]; [exact Ec|]. cbn [nth]. apply IH2. lia.
    + split; [lia|]. intros j Hj. lia.
Qed.

Lemma loop_inv l : forall rune st c, bytes_ok l -> na st = true ->
  (c <= fst (decode_loop l rune st c) <= c + length l)%nat /\
  forall j, (j < fst (decode_loop l rune st c) - c)%nat -> is_cont (nth j l 0) = true.
Proof.
  induction l as [|b r IH]; intros rune st c Hok Hst.
  - rewrite loop_nil. cbn [fst length]. split; [lia|]. intros j Hj. lia.
  - inversion Hok as [|? ? Hb Hr]; subst.
    destruct (cont_facts b Hb) as (_ & _ & _ & _ & Htri & Hcont).
    specialize (Htri st Hst). specialize (Hcont st Hst).
    destruct Htri as [H0|[H12|Hna]].
    + rewrite (loop_accK _ _ _ _ _ Hst H0). cbn [fst length]. split; [lia|].
      intros j Hj. assert (j = O) by lia. subst j. cbn [nth]. apply Hcont. lia.
    + rewrite (loop_rejK _ _ _ _ _ Hst H12). cbn [fst].
      destruct (skip_trail_inv (b :: r) Hok) as [S1 S2]. split; [lia|].
      intros j Hj. apply S2. lia.
    + rewrite (loop_contK _ _ _ _ _ Hst Hna).
      destruct (IH (runeK rune b) (nxt st b) (S c) Hr Hna) as [I1 I2].
      cbn [length]. split; [lia|].
      intros j Hj. destruct j as [|j].
      * cbn [nth]. apply Hcont. pose proof (na_not12 _ Hna). lia.
      * cbn [nth]. apply I2. lia.
Qed.

Lemma first_tri b : b < 256 -> nxt 0 b = 0 \/ nxt 0 b = 12 \/ na (nxt 0 b) = true.
Proof.
  intros Hb. pose proof (first_ok b Hb) as F. unfold first_chk in F.
  destruct (b <? 128).
  { apply andb_true_iff in F. destruct F as [F _]. apply N.eqb_eq in F. auto. }
  destruct (in_range b 194 223).
  { apply andb_true_iff in F. destruct F as [F _]. apply N.eqb_eq in F.
    right; right. rewrite F. reflexivity. }
  destruct (in_range b 224 239).
  { apply andb_true_iff in F. destruct F as [F _]. apply andb_true_iff in F. destruct F as [F _]. auto. }
  destruct (in_range b 240 244).
  { apply andb_true_iff in F. destruct F as [F _]. apply andb_true_iff in F. destruct F as [F _]. auto. }
  apply N.eqb_eq in F. auto.
Qed.

Lemma decode_rune_inv s : bytes_ok s -> s <> [] ->
  (1 <= fst (decode_rune s) <= length s)%nat /\
  forall j, (1 <= j < fst (decode_rune s))%nat -> is_cont (nth j s 0) = true.
Proof.
  intros Hok Hne. destruct s as [|b t]; [contradiction|].
  inversion Hok as [|? ? Hb Ht]; subst.
  unfold decode_rune. change st_accept with 0. cbn [length].
  destruct (first_tri b Hb) as [H0|[H12|Hna]].
  - rewrite (loop_acc0 _ _ _ _ H0). cbn [fst]. split; [lia|]. intros j Hj. lia.
  - rewrite (loop_rej0 _ _ _ _ H12). cbn [fst].
    destruct (skip_trail_inv t Ht) as [S1 S2]. split; [lia|].
    intros j Hj. destruct j as [|j]; [lia|]. cbn [nth]. apply S2. lia.
  - rewrite (loop_cont0 _ _ _ _ Hna).
    destruct (loop_inv t (rune0 b) (nxt 0 b) 1 Ht Hna) as [I1 I2]. split; [lia|].
    intros j Hj. destruct j as [|j]; [lia|]. cbn [nth]. apply I2. lia.
Qed.

Lemma C13_progress_proof : stmt_C13_progress.
Proof. intros s Hok Hne. apply (decode_rune_inv s Hok Hne). Qed.

Lemma skipn_nth (s : list N) : forall j, (j < length s)%nat ->
  skipn j s = nth j s 0 :: skipn (S j) s.
Proof.
  induction s as [|b r IH]; intros j Hj.
  - cbn in Hj. lia.
  - destruct j as [|j]; [reflexivity|]. cbn [length] in Hj.
    change (skipn (S j) (b :: r)) with (skipn j r). change (nth (S j) (b :: r) 0) with (nth j r 0).
    rewrite (IH j) by lia. reflexivity.
Qed.

Lemma wf_prefix_cont x l : is_cont x = true -> wf_prefix (x :: l) = None.
Proof.
  intros Hc. unfold is_cont, in_range in Hc. unfold wf_prefix, in_range.
  assert (E1 : (x <? 128) = false) by lia. rewrite E1.
  assert (E2 : ((194 <=? x) && (x <=? 223)) = false) by lia. rewrite E2.
  assert (E3 : ((224 <=? x) && (x <=? 239)) = false) by lia. rewrite E3.
  assert (E4 : ((240 <=? x) && (x <=? 244)) = false) by lia. rewrite E4.
  reflexivity.
Qed.

Lemma C13_decode_illformed_proof : stmt_C13_decode_illformed.
Proof.
  intros s Hok Hne Hwf.
  pose proof (decode_char s Hok) as Hc. rewrite Hwf in Hc.
  destruct (decode_rune_inv s Hok Hne) as [I1 I2].
  split; [exact Hc|]. split; [exact I1|].
  intros j Hj. rewrite skipn_nth by lia. apply wf_prefix_cont. apply I2. exact Hj.
Qed.

(* ------------------------------------------------------------------------------------------------ *)
(* The specification on its own: shape, scalar values, injectivity                                   *)
(* ------------------------------------------------------------------------------------------------ *)

Lemma wf_shape s n r : wf_prefix s = Some (n, r) ->
  (exists b1 t, s = b1 :: t /\ n = 1%nat /\ b1 < 128 /\ r = b1) \/
  (exists b1 b2 t, s = b1 :: b2 :: t /\ n = 2%nat /\ 194 <= b1 <= 223 /\ 128 <= b2 <= 191 /\
     r = (b1 - 192) * 64 + (b2 - 128)) \/
  (exists b1 b2 b3 t, s = b1 :: b2 :: b3 :: t /\ n = 3%nat /\ 224 <= b1 <= 239 /\
     lo2 b1 <= b2 <= hi2 b1 /\ 128 <= b3 <= 191 /\
     r = (b1 - 224) * 4096 + (b2 - 128) * 64 + (b3 - 128)) \/
  (exists b1 b2 b3 b4 t, s = b1 :: b2 :: b3 :: b4 :: t /\ n = 4%nat /\ 240 <= b1 <= 244 /\
     lo2 b1 <= b2 <= hi2 b1 /\ 128 <= b3 <= 191 /\ 128 <= b4 <= 191 /\
     r = (b1 - 240) * 262144 + (b2 - 128) * 4096 + (b3 - 128) * 64 + (b4 - 128)).
Proof.
  intros H. destruct s as [|b1 t]; [discriminate|].
  unfold wf_prefix, is_cont, in_range in H.
  destruct (b1 <? 128) eqn:E1.
  { inversion H; subst. left. exists r, t. repeat split. lia. }
  destruct ((194 <=? b1) && (b1 <=? 223)) eqn:E2.
  { destruct t as [|b2 t2]; [discriminate|].
    destruct ((128 <=? b2) && (b2 <=? 191)) eqn:E3; [|discriminate].
    inversion H; subst. right; left. exists b1, b2, t2. repeat split; lia. }
  destruct ((224 <=? b1) && (b1 <=? 239)) eqn:E3.
  { destruct t as [|b2 [|b3 t3]]; [discriminate|discriminate|].
    destruct ((lo2 b1 <=? b2) && (b2 <=? hi2 b1) && ((128 <=? b3) && (b3 <=? 191))) eqn:E4; [|discriminate].
    inversion H; subst. right; right; left. exists b1, b2, b3, t3. repeat split; lia. }
  destruct ((240 <=? b1) && (b1 <=? 244)) eqn:E4; [|discriminate].
  destruct t as [|b2 [|b3 [|b4 t4]]]; [discriminate|discriminate|discriminate|].
  destruct ((lo2 b1 <=? b2) && (b2 <=? hi2 b1) && ((128 <=? b3) && (b3 <=? 191)) &&
            ((128 <=? b4) && (b4 <=? 191))) eqn:E5; [|discriminate].
  inversion H; subst. right; right; right. exists b1, b2, b3, b4, t4. repeat split; lia.
Qed.

Lemma lo2_cases b : (b = 224 /\ lo2 b = 160) \/ (b = 240 /\ lo2 b = 144) \/
                    (b <> 224 /\ b <> 240 /\ lo2 b = 128).
Proof. unfold lo2. destruct (b =? 224) eqn:E1; [lia|]. destruct (b =? 240) eqn:E2; lia. Qed.

Lemma hi2_cases b : (b = 237 /\ hi2 b = 159) \/ (b = 244 /\ hi2 b = 143) \/
                    (b <> 237 /\ b <> 244 /\ hi2 b = 191).
Proof. unfold hi2. destruct (b =? 237) eqn:E1; [lia|]. destruct (b =? 244) eqn:E2; lia. Qed.

Lemma utf8_len_cases r :
  (r < 128 /\ utf8_len r = 1%nat) \/ (128 <= r < 2048 /\ utf8_len r = 2%nat) \/
  (2048 <= r < 65536 /\ utf8_len r = 3%nat) \/ (65536 <= r /\ utf8_len r = 4%nat).
Proof.
  unfold utf8_len. destruct (r <? 128) eqn:E1; [lia|]. destruct (r <? 2048) eqn:E2; [lia|].
  destruct (r <? 65536) eqn:E3; lia.
Qed.

Lemma C13_wf_scalar_proof : stmt_C13_wf_scalar.
Proof.
  intros s n r _ H. unfold is_scalar. pose proof (utf8_len_cases r) as L.
  destruct (wf_shape s n r H) as [(b1 & t & -> & -> & Hb & ->)
    |[(b1 & b2 & t & -> & -> & H1 & H2 & ->)
    |[(b1 & b2 & b3 & t & -> & -> & H1 & H2 & H3 & ->)
    |(b1 & b2 & b3 & b4 & t & -> & -> & H1 & H2 & H3 & H4 & ->)]]]; cbn [length].
  - lia.
  - lia.
  - pose proof (lo2_cases b1). pose proof (hi2_cases b1). lia.
  - pose proof (lo2_cases b1). pose proof (hi2_cases b1). lia.
Qed.

Lemma lo2_ge b : 128 <= lo2 b.
Proof. destruct (lo2_cases b) as [H|[H|H]]; lia. Qed.

Lemma hi2_le b : hi2 b <= 191.
Proof. destruct (hi2_cases b) as [H|[H|H]]; lia. Qed.

Lemma wf_inj s s' n r : wf_prefix s = Some (n, r) -> wf_prefix s' = Some (n, r) ->
  firstn n s = firstn n s'.
Proof.
  intros H H'.
  destruct (wf_shape s n r H) as [(b1 & t & -> & -> & Hb & ->)
    |[(b1 & b2 & t & -> & -> & H1 & H2 & ->)
    |[(b1 & b2 & b3 & t & -> & -> & H1 & H2 & H3 & ->)
    |(b1 & b2 & b3 & b4 & t & -> & -> & H1 & H2 & H3 & H4 & ->)]]];
  destruct (wf_shape s' _ _ H') as [(c1 & u & -> & Hn & Hc & Hr)
    |[(c1 & c2 & u & -> & Hn & G1 & G2 & Hr)
    |[(c1 & c2 & c3 & u & -> & Hn & G1 & G2 & G3 & Hr)
    |(c1 & c2 & c3 & c4 & u & -> & Hn & G1 & G2 & G3 & G4 & Hr)]]]; try discriminate Hn;
  cbn [firstn]; clear H H' Hn.
  - subst. reflexivity.
  - assert (b1 = c1) by lia. assert (b2 = c2) by lia. subst. reflexivity.
  - pose proof (lo2_ge b1). pose proof (hi2_le b1). pose proof (lo2_ge c1). pose proof (hi2_le c1).
    assert (H2' : 128 <= b2 <= 191) by lia. assert (G2' : 128 <= c2 <= 191) by lia.
    clear H2 G2.
    assert (b1 = c1) by lia. assert (b2 = c2) by lia. assert (b3 = c3) by lia. subst. reflexivity.
  - pose proof (lo2_ge b1). pose proof (hi2_le b1). pose proof (lo2_ge c1). pose proof (hi2_le c1).
    assert (H2' : 128 <= b2 <= 191) by lia. assert (G2' : 128 <= c2 <= 191) by lia.
    clear H2 G2.
    assert (b1 = c1) by lia. assert (b2 = c2) by lia. assert (b3 = c3) by lia.
    assert (b4 = c4) by lia. subst. reflexivity.
Qed.

(* ------------------------------------------------------------------------------------------------ *)
(* The encoder                                                                                       *)
(* ------------------------------------------------------------------------------------------------ *)

Definition octv (r k c : N) : N := (N.lor (N.land (N.shiftr r k) 63) c) mod 256.

Lemma encode_rune_unfold r :
  encode_rune r =
    if r <? 128 then ([r], true)
    else if (1114112 <=? r) || (N.land r 4294965248 =? 55296) then ([239; 191; 189], false)
    else if r <? 2048 then ([octv r 6 192; octv r 0 128], true)
    else if r <? 65536 then ([octv r 12 224; octv r 6 128; octv r 0 128], true)
    else ([octv r 18 240; octv r 12 128; octv r 6 128; octv r 0 128], true).
Proof.
  unfold encode_rune, non_ascii_rune_length.
  destruct (r <? 128); [reflexivity|].
  destruct ((1114112 <=? r) || (N.land r 4294965248 =? 55296)); [reflexivity|].
  destruct (r <? 2048); [reflexivity|].
  destruct (r <? 65536); reflexivity.
Qed.

Lemma land_high r : N.land r 4294965248 = ((r / 2048) mod 2097152) * 2048.
Proof.
  change 4294965248 with (N.shiftl (N.ones 21) 11).
  change 2048 with (2 ^ 11). change 2097152 with (2 ^ 21).
  rewrite <- N.shiftr_div_pow2, <- N.land_ones, <- N.shiftl_mul_pow2.
  apply N.bits_inj. intros n. rewrite N.land_spec.
  destruct (N.lt_ge_cases n 11) as [Hn|Hn].
  - rewrite !N.shiftl_spec_low by exact Hn. apply andb_false_r.
  - rewrite !N.shiftl_spec_high' by exact Hn. rewrite N.land_spec, N.shiftr_spec'.
    replace (n - 11 + 11) with n by lia. reflexivity.
Qed.

Definition lor_chk (y : N) : bool :=
  (N.lor y 128 =? 128 + y) && (N.lor y 192 =? 192 + y) &&
  (if y <? 32 then N.lor y 224 =? 224 + y else true) &&
  (if y <? 16 then N.lor y 240 =? 240 + y else true).

Lemma lor_ok y : y < 64 -> lor_chk y = true.
Proof.
  intros Hy. apply (range_check_sound lor_chk 6 0); [vm_compute; reflexivity|].
  change (2 ^ N.of_nat 6) with 64. lia.
Qed.

Lemma octv_low r k : N.land (N.shiftr r k) 63 = (r / 2 ^ k) mod 64.
Proof. rewrite N.shiftr_div_pow2. change 63 with (N.ones 6). rewrite N.land_ones. reflexivity. Qed.

Lemma octv_128 r k : octv r k 128 = 128 + (r / 2 ^ k) mod 64.
Proof.
  unfold octv. rewrite octv_low.
  assert (Hy : (r / 2 ^ k) mod 64 < 64) by (apply N.mod_lt; lia).
  pose proof (lor_ok _ Hy) as H. unfold lor_chk in H.
  apply andb_true_iff in H. destruct H as [H _]. apply andb_true_iff in H. destruct H as [H _].
  apply andb_true_iff in H. destruct H as [H _]. apply N.eqb_eq in H. rewrite H.
  apply N.mod_small. lia.
Qed.

Lemma octv_192 r k : r / 2 ^ k < 64 -> octv r k 192 = 192 + r / 2 ^ k.
Proof.
  intros Hy. unfold octv. rewrite octv_low, (N.mod_small _ 64) by exact Hy.
  pose proof (lor_ok _ Hy) as H. unfold lor_chk in H.
  apply andb_true_iff in H. destruct H as [H _]. apply andb_true_iff in H. destruct H as [H _].
  apply andb_true_iff in H. destruct H as [_ H]. apply N.eqb_eq in H. rewrite H.
  apply N.mod_small. lia.
Qed.

Lemma octv_224 r k : r / 2 ^ k < 32 -> octv r k 224 = 224 + r / 2 ^ k.
Proof.
  intros Hy. assert (Hy' : r / 2 ^ k < 64) by lia.
  unfold octv. rewrite octv_low, (N.mod_small _ 64) by exact Hy'.
  pose proof (lor_ok _ Hy') as H. unfold lor_chk in H.
  apply andb_true_iff in H. destruct H as [H _]. apply andb_true_iff in H. destruct H as [_ H].
  assert (E : (r / 2 ^ k <? 32) = true) by lia. rewrite E in H.
  apply N.eqb_eq in H. rewrite H. apply N.mod_small. lia.
Qed.

Lemma octv_240 r k : r / 2 ^ k < 16 -> octv r k 240 = 240 + r / 2 ^ k.
Proof.
  intros Hy. assert (Hy' : r / 2 ^ k < 64) by lia.
  unfold octv. rewrite octv_low, (N.mod_small _ 64) by exact Hy'.
  pose proof (lor_ok _ Hy') as H. unfold lor_chk in H.
  apply andb_true_iff in H. destruct H as [_ H].
  assert (E : (r / 2 ^ k <? 16) = true) by lia. rewrite E in H.
  apply N.eqb_eq in H. rewrite H. apply N.mod_small. lia.
Qed.

Lemma C13_encode_nonscalar_proof : stmt_C13_encode_nonscalar.
Proof.
  intros r H. unfold is_scalar in H. rewrite encode_rune_unfold.
  assert (E1 : (r <? 128) = false) by lia. rewrite E1.
  destruct (1114112 <=? r) eqn:E2; [reflexivity|]. cbn [orb].
  rewrite land_high.
  pose proof (N.div_mod' r 2048) as D. pose proof (N.mod_lt r 2048 ltac:(lia)) as M.
  assert (Hq : r / 2048 = 27) by lia.
  rewrite Hq. reflexivity.
Qed.

(* the four forms of the encoding of a scalar value *)
Lemma enc_not_repl r : is_scalar r = true ->
  ((1114112 <=? r) || (N.land r 4294965248 =? 55296)) = false.
Proof.
  intros H. unfold is_scalar in H. rewrite land_high.
  pose proof (N.div_mod' r 2048) as D. pose proof (N.mod_lt r 2048 ltac:(lia)) as M.
  assert (Hq : r / 2048 < 2097152) by lia.
  rewrite (N.mod_small _ _ Hq).
  assert (r / 2048 <> 27) by lia. lia.
Qed.

Lemma enc1 r : r < 128 -> encode_rune r = ([r], true).
Proof. intros H. rewrite encode_rune_unfold. assert (E : (r <? 128) = true) by lia. rewrite E. reflexivity. Qed.

Lemma enc2 r : 128 <= r < 2048 ->
  encode_rune r = ([192 + r / 64; 128 + r mod 64], true).
Proof.
  intros H. rewrite encode_rune_unfold.
  assert (E1 : (r <? 128) = false) by lia. rewrite E1.
  rewrite enc_not_repl by (unfold is_scalar; lia).
  assert (E2 : (r <? 2048) = true) by lia. rewrite E2.
  pose proof (N.div_mod' r 64) as D. pose proof (N.mod_lt r 64 ltac:(lia)) as M.
  rewrite octv_128, octv_192 by (change (2 ^ 6) with 64; lia).
  change (2 ^ 6) with 64. change (2 ^ 0) with 1. rewrite N.div_1_r. reflexivity.
Qed.

Lemma enc3 r : 2048 <= r < 65536 -> is_scalar r = true ->
  encode_rune r = ([224 + r / 4096; 128 + (r / 64) mod 64; 128 + r mod 64], true).
Proof.
  intros H Hs. rewrite encode_rune_unfold.
  assert (E1 : (r <? 128) = false) by lia. rewrite E1.
  rewrite enc_not_repl by exact Hs.
  assert (E2 : (r <? 2048) = false) by lia. rewrite E2.
  assert (E3 : (r <? 65536) = true) by lia. rewrite E3.
  pose proof (N.div_mod' r 4096) as D. pose proof (N.mod_lt r 4096 ltac:(lia)) as M.
  rewrite !octv_128, octv_224 by (change (2 ^ 12) with 4096; lia).
  change (2 ^ 12) with 4096. change (2 ^ 6) with 64. change (2 ^ 0) with 1. rewrite N.div_1_r.
  reflexivity.
Qed.

Lemma enc4 r : 65536 <= r < 1114112 ->
  encode_rune r =
    ([240 + r / 262144; 128 + (r / 4096) mod 64; 128 + (r / 64) mod 64; 128 + r mod 64], true).
Proof.
  intros H. rewrite encode_rune_unfold.
  assert (E1 : (r <? 128) = false) by lia. rewrite E1.
  rewrite enc_not_repl by (unfold is_scalar; lia).
  assert (E2 : (r <? 2048) = false) by lia. rewrite E2.
  assert (E3 : (r <? 65536) = false) by lia. rewrite E3.
  pose proof (N.div_mod' r 262144) as D. pose proof (N.mod_lt r 262144 ltac:(lia)) as M.
  rewrite !octv_128, octv_240 by (change (2 ^ 18) with 262144; lia).
  change (2 ^ 18) with 262144. change (2 ^ 12) with 4096. change (2 ^ 6) with 64.
  change (2 ^ 0) with 1. rewrite N.div_1_r. reflexivity.
Qed.

(* wf_prefix, read from right to left *)
Lemma wf1 b1 t : b1 < 128 -> wf_prefix (b1 :: t) = Some (1%nat, b1).
Proof. intros H. unfold wf_prefix. assert (E : (b1 <? 128) = true) by lia. rewrite E. reflexivity. Qed.

Lemma wf2 b1 b2 t : 194 <= b1 <= 223 -> 128 <= b2 <= 191 ->
  wf_prefix (b1 :: b2 :: t) = Some (2%nat, (b1 - 192) * 64 + (b2 - 128)).
Proof.
  intros H1 H2. unfold wf_prefix, is_cont, in_range.
  assert (E1 : (b1 <? 128) = false) by lia. rewrite E1.
  assert (E2 : ((194 <=? b1) && (b1 <=? 223)) = true) by lia. rewrite E2.
  assert (E3 : ((128 <=? b2) && (b2 <=? 191)) = true) by lia. rewrite E3. reflexivity.
Qed.

Lemma wf3 b1 b2 b3 t : 224 <= b1 <= 239 -> lo2 b1 <= b2 <= hi2 b1 -> 128 <= b3 <= 191 ->
  wf_prefix (b1 :: b2 :: b3 :: t) =
    Some (3%nat, (b1 - 224) * 4096 + (b2 - 128) * 64 + (b3 - 128)).
Proof.
  intros H1 H2 H3. unfold wf_prefix, is_cont, in_range.
  assert (E1 : (b1 <? 128) = false) by lia. rewrite E1.
  assert (E2 : ((194 <=? b1) && (b1 <=? 223)) = false) by lia. rewrite E2.
  assert (E3 : ((224 <=? b1) && (b1 <=? 239)) = true) by lia. rewrite E3.
  assert (E4 : ((lo2 b1 <=? b2) && (b2 <=? hi2 b1)) = true) by lia. rewrite E4.
  assert (E5 : ((128 <=? b3) && (b3 <=? 191)) = true) by lia. rewrite E5. reflexivity.
Qed.

Lemma wf4 b1 b2 b3 b4 t : 240 <= b1 <= 244 -> lo2 b1 <= b2 <= hi2 b1 ->
  128 <= b3 <= 191 -> 128 <= b4 <= 191 ->
  wf_prefix (b1 :: b2 :: b3 :: b4 :: t) =
    Some (4%nat, (b1 - 240) * 262144 + (b2 - 128) * 4096 + (b3 - 128) * 64 + (b4 - 128)).
Proof.
  intros H1 H2 H3 H4. unfold wf_prefix, is_cont, in_range.
  assert (E1 : (b1 <? 128) = false) by lia. rewrite E1.
  assert (E2 : ((194 <=? b1) && (b1 <=? 223)) = false) by lia. rewrite E2.
  assert (E3 : ((224 <=? b1) && (b1 <=? 239)) = false) by lia. rewrite E3.
  assert (E3' : ((240 <=? b1) && (b1 <=? 244)) = true) by lia. rewrite E3'.
  assert (E4 : ((lo2 b1 <=? b2) && (b2 <=? hi2 b1)) = true) by lia. rewrite E4.
  assert (E5 : ((128 <=? b3) && (b3 <=? 191)) = true) by lia. rewrite E5.
  assert (E6 : ((128 <=? b4) && (b4 <=? 191)) = true) by lia. rewrite E6. reflexivity.
Qed.

Lemma split3 r : r = 4096 * (r / 4096) + 64 * ((r / 64) mod 64) + r mod 64.
Proof.
  pose proof (N.div_mod' r 64) as D1. pose proof (N.div_mod' (r / 64) 64) as D2.
  rewrite N.div_div in D2 by lia. change (64 * 64) with 4096 in D2. lia.
Qed.

Lemma split4 r :
  r = 262144 * (r / 262144) + 4096 * ((r / 4096) mod 64) + 64 * ((r / 64) mod 64) + r mod 64.
Proof.
  pose proof (split3 r) as D1. pose proof (N.div_mod' (r / 4096) 64) as D2.
  rewrite N.div_div in D2 by lia. change (4096 * 64) with 262144 in D2. lia.
Qed.

Lemma C13_encode_scalar_proof : stmt_C13_encode_scalar.
Proof.
  intros r rest Hs. pose proof Hs as Hs'. unfold is_scalar in Hs'.
  destruct (utf8_len_cases r) as [[L1 L2]|[[L1 L2]|[[L1 L2]|[L1 L2]]]]; rewrite L2.
  - rewrite (enc1 r L1). cbn [fst snd length app].
    split; [reflexivity|]. split; [reflexivity|]. split.
    + constructor; [lia|constructor].
    + apply wf1. exact L1.
  - rewrite (enc2 r L1). cbn [fst snd length app].
    pose proof (N.div_mod' r 64) as D. pose proof (N.mod_lt r 64 ltac:(lia)) as M.
    set (q := r / 64) in *. set (m := r mod 64) in *.
    split; [reflexivity|]. split; [reflexivity|]. split.
    + constructor; [lia|]. constructor; [lia|constructor].
    + rewrite wf2 by lia. f_equal. f_equal. lia.
  - rewrite (enc3 r L1 Hs). cbn [fst snd length app].
    pose proof (split3 r) as D. pose proof (N.mod_lt r 64 ltac:(lia)) as M1.
    pose proof (N.mod_lt (r / 64) 64 ltac:(lia)) as M2.
    set (a := r / 4096) in *. set (b := (r / 64) mod 64) in *. set (c := r mod 64) in *.
    split; [reflexivity|]. split; [reflexivity|]. split.
    + constructor; [lia|]. constructor; [lia|]. constructor; [lia|constructor].
    + pose proof (lo2_cases (224 + a)) as Hlo. pose proof (hi2_cases (224 + a)) as Hhi.
      rewrite wf3 by lia. f_equal. f_equal. lia.
  - assert (L1' : 65536 <= r < 1114112) by lia.
    rewrite (enc4 r L1'). cbn [fst snd length app].
    pose proof (split4 r) as D. pose proof (N.mod_lt r 64 ltac:(lia)) as M1.
    pose proof (N.mod_lt (r / 64) 64 ltac:(lia)) as M2.
    pose proof (N.mod_lt (r / 4096) 64 ltac:(lia)) as M3.
    set (a := r / 262144) in *. set (b := (r / 4096) mod 64) in *.
    set (c := (r / 64) mod 64) in *. set (d := r mod 64) in *.
    split; [reflexivity|]. split; [reflexivity|]. split.
    + constructor; [lia|]. constructor; [lia|]. constructor; [lia|]. constructor; [lia|constructor].
    + pose proof (lo2_cases (240 + a)) as Hlo. pose proof (hi2_cases (240 + a)) as Hhi.
      rewrite wf4 by lia. f_equal. f_equal. lia.
Qed.

Lemma C13_encode_unique_proof : stmt_C13_encode_unique.
Proof.
  intros s n r Hok Hwf.
  destruct (C13_wf_scalar_proof s n r Hok Hwf) as (Hs & Hl & _).
  destruct (C13_encode_scalar_proof r [] Hs) as (_ & Hlen & _ & Henc).
  rewrite app_nil_r, Hl in Henc. rewrite Hl in Hlen.
  rewrite (wf_inj _ _ _ _ Hwf Henc). rewrite <- Hlen. apply firstn_all.
Qed.

Lemma C13_roundtrip_proof : stmt_C13_roundtrip.
Proof.
  intros r rest Hs Hrest.
  destruct (C13_encode_scalar_proof r rest Hs) as (_ & _ & Hok & Henc).
  apply C13_decode_wellformed_proof; [|exact Henc].
  unfold bytes_ok in *. apply Forall_app. split; assumption.
Qed.

(* ------------------------------------------------------------------------------------------------ *)
(* count_runes                                                                                       *)
(* ------------------------------------------------------------------------------------------------ *)

Lemma bytes_ok_skipn k : forall s, bytes_ok s -> bytes_ok (skipn k s).
Proof.
  induction k as [|k IH]; intros s H; [exact H|].
  destruct s as [|b t]; [exact H|]. inversion H; subst. cbn [skipn]. apply IH. assumption.
Qed.

Lemma count_runes_fuel_total fuel : forall l, bytes_ok l -> (length l <= fuel)%nat ->
  exists n, count_runes_fuel fuel l = Some n /\ (n <= length l)%nat.
Proof.
  induction fuel as [|f IH]; intros l Hok Hlen.
  - destruct l as [|b t]; [|cbn [length] in Hlen; lia]. exists O. split; [reflexivity|apply Nat.le_refl].
  - destruct l as [|b t]; [exists O; split; [reflexivity|apply Nat.le_0_l]|].
    assert (Hne : b :: t <> []) by discriminate.
    pose proof (C13_progress_proof (b :: t) Hok Hne) as Hp.
    cbn [count_runes_fuel]. unfold next_rune.
    set (k := fst (decode_rune (b :: t))) in *.
    assert (Hl : length (skipn k (b :: t)) = (length (b :: t) - k)%nat) by apply skipn_length.
    destruct (IH (skipn k (b :: t)) (bytes_ok_skipn k _ Hok)) as (n & Hn & Hle); [lia|].
    rewrite Hn. exists (S n). split; [reflexivity|lia].
Qed.

Lemma C13_count_runes_total_proof : stmt_C13_count_runes_total.
Proof.
  intros s Hok. unfold count_runes. apply count_runes_fuel_total; [exact Hok|apply Nat.le_refl].
Qed.

Print Assumptions C13_decode_wellformed_proof.
Print Assumptions C13_decode_illformed_proof.
Print Assumptions C13_progress_proof.
Print Assumptions C13_ascii_proof.
Print Assumptions C13_wf_scalar_proof.
Print Assumptions C13_encode_scalar_proof.
Print Assumptions C13_encode_unique_proof.
Print Assumptions C13_encode_nonscalar_proof.
Print Assumptions C13_roundtrip_proof.
Print Assumptions C13_count_runes_total_proof.
