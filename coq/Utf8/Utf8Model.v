(* Model of include/lug/utf8.hpp: decode_rune_octet, decode_rune, next_rune, count_runes, encode_rune.
   Tables come from Gen/Utf8Tables.v (regenerated from the header on every run).  No proofs here. *)
From Coq Require Import NArith List Bool.
From Lug Require Import Gen.Utf8Tables.
Import ListNotations.
Local Open Scope N_scope.

Definition byte := N.

Definition nthN (l : list N) (i : N) (d : N) : N := nth (N.to_nat i) l d.

Definition two32 : N := 4294967296.

(* detail::decode_rune_octet: returns (new state, new rune).  An index outside a table cannot happen
   for octets < 256 and the nine states; the default is the reject state so that such a case is
   visible rather than silently accepted. *)
Definition decode_rune_octet (rune octet state : N) : N * N :=
  let symbol := octet in
  let dfa_class := nthN dfa_class_table symbol 0 in
  let rune' := if state =? st_accept
               then N.land symbol (N.shiftr 255 dfa_class)
               else (N.lor (N.land symbol 63) (N.shiftl rune 6)) mod two32 in
  (nthN dfa_transition_table (state + dfa_class) st_reject, rune').

Definition is_ascii (b : N) : bool := N.land b 128 =? 0.
Definition is_lead (b : N) : bool := N.land b 192 =? 192.
Definition is_lead_or_ascii (b : N) : bool := negb (N.land b 192 =? 128).

(* std::find_if(first, last, is_lead_or_ascii): number of elements skipped *)
Fixpoint skip_trail (l : list N) : nat :=
  match l with
  | [] => O
  | b :: r => if is_lead_or_ascii b then O else S (skip_trail r)
  end.

(* the parsing machine looks at no more than max_rune_units = 4 bytes per character (rune_range in lug.hpp) *)
Definition rune_window (l : list N) : list N := firstn 4 l.
Definition skip_trail_w (r : list N) : nat := skip_trail (firstn 3 r).

(* utf8::decode_rune.  Result: (number of bytes consumed, rune).
   The loop feeds one octet at a time; on accept it returns; on reject it stops *without* consuming
   the rejecting octet unless that octet was the first of the sequence, then skips trailing
   continuation octets; running out of input in the middle of a sequence also yields U+FFFD. *)
Fixpoint decode_loop (l : list N) (rune state : N) (consumed : nat) : nat * N :=
  match l with
  | [] => (consumed, utf32_replacement)
  | b :: r =>
      let '(st', rune') := decode_rune_octet rune b state in
      if st' =? st_accept then (S consumed, rune')
      else if st' =? st_reject then
        if state =? st_accept
        then (S consumed + skip_trail r, utf32_replacement)%nat
        else (consumed + skip_trail l, utf32_replacement)%nat
      else decode_loop r rune' st' (S consumed)
  end.

Definition decode_rune (l : list N) : nat * N := decode_loop l 0 st_accept O.
(* what the parsing machine decodes: one rune from the window *)
Definition decode_rune_w (l : list N) : nat * N := decode_rune (rune_window l).

Definition next_rune (l : list N) : list N := skipn (fst (decode_rune l)) l.

(* count_runes: `for (; first != last; ++count) first = next_rune(first, last)`.  Fuel = length of the
   input; C13_progress shows this is always enough (each step consumes at least one byte). *)
Fixpoint count_runes_fuel (fuel : nat) (l : list N) : option nat :=
  match l with
  | [] => Some O
  | _ => match fuel with
         | O => None
         | S f => match count_runes_fuel f (next_rune l) with
                  | Some n => Some (S n)
                  | None => None
                  end
         end
  end.
Definition count_runes (l : list N) : option nat := count_runes_fuel (length l) l.

Definition non_ascii_rune_length (rune : N) : N :=
  if rune <? 2048 then 2 else if rune <? 65536 then 3 else 4.

(* encode_rune: (bytes, ok) *)
Definition encode_rune (rune : N) : list N * bool :=
  if rune <? 128 then ([rune], true)
  else if (1114112 <=? rune) || (N.land rune 4294965248 =? 55296)
  then (utf8_replacement_sequence, false)
  else
    let n := non_ascii_rune_length rune in
    let c0 := N.land (N.shiftl 240 (4 - n)) 240 in
    let oct (i : N) (c : N) := (N.lor (N.land (N.shiftr rune (6 * (n - i - 1))) 63) c) mod 256 in
    (map (fun i => oct i (if i =? 0 then c0 else 128)) (firstn (N.to_nat n) [0;1;2;3]), true).

(* decode a whole string, rune by rune (used by tocasefold and friends); fuelled like count_runes *)
Fixpoint decode_all_fuel (fuel : nat) (l : list N) : list N :=
  match l with
  | [] => []
  | _ => match fuel with
         | O => []
         | S f => let '(n, r) := decode_rune l in r :: decode_all_fuel f (skipn (Nat.max n 1) l)
         end
  end.
Definition decode_all (l : list N) : list N := decode_all_fuel (length l) l.
