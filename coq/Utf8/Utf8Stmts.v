(* Statements of the C13 obligations (kept apart from their proofs so that they cannot be weakened
   silently: Props/Properties_C13.v closes each with `exact`). *)
From Coq Require Import NArith List Bool.
From Lug Require Import Gen.Utf8Tables Utf8.Utf8Model Utf8.Utf8Spec.
Import ListNotations.
Local Open Scope N_scope.

(* every well-formed sequence decodes to its scalar value and exact length, whatever follows *)
Definition stmt_C13_decode_wellformed : Prop :=
  forall s n r, bytes_ok s -> wf_prefix s = Some (n, r) -> decode_rune s = (n, r).

(* everything else decodes to U+FFFD, consumes at least one byte, never reads past the end and never
   swallows a byte at which a well-formed character starts *)
Definition stmt_C13_decode_illformed : Prop :=
  forall s, bytes_ok s -> s <> [] -> wf_prefix s = None ->
    snd (decode_rune s) = 65533 /\
    (1 <= fst (decode_rune s) <= length s)%nat /\
    forall j, (1 <= j < fst (decode_rune s))%nat -> wf_prefix (skipn j s) = None.

Definition stmt_C13_progress : Prop :=
  forall s, bytes_ok s -> s <> [] -> (1 <= fst (decode_rune s) <= length s)%nat.

Definition stmt_C13_ascii : Prop :=
  forall b rest, b < 128 -> decode_rune (b :: rest) = (1%nat, b).

(* the spec itself only admits scalar values in shortest form (no overlongs, no surrogates, nothing
   above U+10FFFF) *)
Definition stmt_C13_wf_scalar : Prop :=
  forall s n r, bytes_ok s -> wf_prefix s = Some (n, r) ->
    is_scalar r = true /\ utf8_len r = n /\ (n <= length s)%nat.

Definition stmt_C13_encode_scalar : Prop :=
  forall r rest, is_scalar r = true ->
    snd (encode_rune r) = true /\
    length (fst (encode_rune r)) = utf8_len r /\
    bytes_ok (fst (encode_rune r)) /\
    wf_prefix (fst (encode_rune r) ++ rest) = Some (utf8_len r, r).

(* uniqueness: the well-formed sequence for a scalar value is the one encode_rune produces *)
Definition stmt_C13_encode_unique : Prop :=
  forall s n r, bytes_ok s -> wf_prefix s = Some (n, r) -> firstn n s = fst (encode_rune r).

Definition stmt_C13_encode_nonscalar : Prop :=
  forall r, is_scalar r = false -> encode_rune r = ([239; 191; 189], false).

Definition stmt_C13_roundtrip : Prop :=
  forall r rest, is_scalar r = true -> bytes_ok rest ->
    decode_rune (fst (encode_rune r) ++ rest) = (utf8_len r, r).

Definition stmt_C13_count_runes_total : Prop :=
  forall s, bytes_ok s -> exists n, count_runes s = Some n /\ (n <= length s)%nat.
