(* Model of lug's encoder, part 3: rule definitions (in execution order) and start(): program layout,
   left-recursion detection, call fix-ups, tail calls. *)
From Coq Require Import NArith ZArith List Bool.
From Lug Require Import Gen.Consts Gen.UcdTables Ucd.Lookup VM.Instr Lang.Expr Lang.Elab Lang.Codegen.
Import ListNotations.

(* ---- the rule table while the grammar is being constructed ---- *)
Definition rtable := list (nat * rinfo).
Fixpoint rt_get (t : rtable) (r : nat) : rinfo :=
  match t with
  | [] => rinfo_empty
  | (k, v) :: rest => if Nat.eqb k r then v else rt_get rest r
  end.
Definition rt_set (t : rtable) (r : nat) (v : rinfo) : rtable := (r, v) :: t.

Definition default_space_expr : expr := desugar (EStar (EClass CkAny property_enum_ctype ctype_space)).

Section Compile.
Variable ucd : ucd_table.
Variable space : expr.        (* the implicit whitespace expression, already desugared *)

Definition spacefn_for (rt : rtable) (self : option nat) : spacefn :=
  fun st => elab ucd (rt_get rt) self no_space space st.

Definition final_entry (st : est) : N := N.lor (nand (entry st) E) (top st).

(* rule R = e;  -- encoder{rule}: mode stack [eps] *)
Definition compile_rule (rt : rtable) (r : nat) (d : ruledef) : err rinfo :=
  let st0 := {| modes := [E]; entry := 0 |} in
  match d with
  | RExpr e =>
      do (body, st) <- elab ucd (rt_get rt) (Some r) (spacefn_for rt (Some r)) (desugar e) st0;
      OK (rinfo_of body (final_entry st))
  | RCopy src =>
      (* rule(rule const&): rule_encoder.call(r, 1) -- never inlined because prec = 1 *)
      do (body, st) <- elab_call (rt_get rt) (Some r) (spacefn_for rt (Some r)) src 1 st0;
      OK (rinfo_of body (final_entry st))
  end.

Fixpoint compile_defs (rt : rtable) (defs : list (nat * ruledef)) : err rtable :=
  match defs with
  | [] => OK rt
  | (r, d) :: rest => match compile_rule rt r d with
                      | OK ri => compile_defs (rt_set rt r ri) rest
                      | Err w => Err w
                      end
  end.

(* ---- start() ---- *)
Local Open Scope Z_scope.

(* callees of a rule's code: (callee rule, offset of the instruction, mode & eps) in code order *)
Fixpoint callees_of (code : list tinstr) (a : Z) : list (nat * Z * bool) :=
  match code with
  | [] => []
  | TCall r _ m :: rest => (r, a, negb (N.eqb (N.land m E) 0)) :: callees_of rest (a + 1)
  | TRecRule r m :: rest => (r, a, negb (N.eqb (N.land m E) 0)) :: callees_of rest (a + 1)
  | _ :: rest => callees_of rest (a + 1)
  end.

(* walk the call stack from the innermost caller outwards through eps-links *)
Fixpoint lr_found (callee : nat) (stack_rev : list (nat * bool)) : bool :=
  match stack_rev with
  | [] => false
  | (caller, flag) :: rest => if Nat.eqb caller callee then true else if flag then lr_found callee rest else false
  end.

Record lstate := { l_code : list tinstr;                 (* programs laid out so far, with their terminators *)
                   l_addrs : list (nat * Z);
                   l_lrec : list nat;
                   l_halt : option Z;
                   l_work : list (list (nat * bool) * nat) }.   (* stack of (call stack innermost-first, rule) *)

Fixpoint assoc_find (l : list (nat * Z)) (r : nat) : option Z :=
  match l with [] => None | (k, v) :: rest => if Nat.eqb k r then Some v else assoc_find rest r end.

(* the grammar program starts with: [whitespace block;] call start_rule; jump END -- the jump is a marker
   TI (IJump 0) at address l_halt, patched once the layout is known *)
Definition expand_callees (cs : list (nat * Z * bool)) (callstack : list (nat * bool)) (lrec : list nat)
  : list nat * list (list (nat * bool) * nat) :=
  (* returns (new left-recursive set, work items to push in order) *)
  fold_left (fun acc c =>
               let '(callee, _, eps) := c in
               let '(lr, work) := acc in
               if eps && lr_found callee callstack
               then (callee :: lr, work)
               else (lr, work ++ [((callee, eps) :: callstack, callee)]))
            cs (lrec, []).

Definition link_step (rt : rtable) (s : lstate) : lstate :=
  match rev (l_work s) with          (* pop_back: the work list is a stack whose top is its last element *)
  | [] => s
  | (callstack, r) :: rest_rev =>
      let work' := rev rest_rev in
      match assoc_find (l_addrs s) r with
      | Some _ => {| l_code := l_code s; l_addrs := l_addrs s; l_lrec := l_lrec s; l_halt := l_halt s; l_work := work' |}
      | None =>
          let address := len (l_code s) in
          let code := cg (r_body (rt_get rt r)) in
          let '(lr, pushes) := expand_callees (callees_of code 0) callstack (l_lrec s) in
          {| l_code := l_code s ++ code ++ [TI IRet]; l_addrs := (r, address) :: l_addrs s; l_lrec := lr; l_halt := l_halt s;
             l_work := work' ++ pushes |}
      end
  end.

Fixpoint link_loop (fuel : nat) (rt : rtable) (s : lstate) : option lstate :=
  match l_work s with
  | [] => Some s
  | _ => match fuel with O => None | S f => link_loop f rt (link_step rt s) end
  end.

Definition is_ret (t : option tinstr) : bool := match t with Some (TI IRet) => true | _ => false end.

Fixpoint resolve_code (s : lstate) (code : list tinstr) (a : Z) (end_ : Z) : err (list sinstr) :=
  match code with
  | [] => OK []
  | t :: rest =>
      let this :=
        match t with
        | TI (IJump 0) => if match l_halt s with Some h => Z.eqb h a | None => false end
                          then OK (IJump (end_ - a - 1)) else OK (IJump 0)
        | TI i => OK i
        | TCall r prec _ =>
            match assoc_find (l_addrs s) r with
            | None => Err e_limit
            | Some target =>
                let prec' := if existsb (Nat.eqb r) (l_lrec s) then N.max prec 1 else 0%N in
                let off := target - (a + 1) in
                if N.eqb prec' 0 && is_ret (hd_error rest) then OK (IJump off) else OK (ICall off prec')
            end
        | TRecRule r _ =>
            match assoc_find (l_addrs s) r with
            | None => Err e_limit
            | Some target => OK (IRecoverPush (target - (a + 1)))
            end
        end in
      match this, resolve_code s rest (a + 1) end_ with
      | OK i, OK is_ => OK (i :: is_)
      | Err w, _ => Err w
      | _, Err w => Err w
      end
  end.

Definition total_callees (rt : rtable) : nat :=
  fold_left (fun n kv => (n + length (filter is_callee (cg (r_body (snd kv)))))%nat) rt 0%nat.

Definition start (rt : rtable) (start_rule : nat) : err (list sinstr) :=
  (* encoder{program, callees, eps | preskip}; skip(start_rule.entry_mode, noskip) *)
  let st0 := {| modes := [N.lor E P]; entry := 0 |} in
  do (sk, _st) <- skip (spacefn_for rt None) (r_entry (rt_get rt start_rule)) Nn st0;
  let pre := cg sk ++ [TCall start_rule 0 0; TI (IJump 0)] in
  let s0 := {| l_code := pre; l_addrs := []; l_lrec := []; l_halt := Some (len (cg sk) + 1); l_work := [([(start_rule, false)], start_rule)] |} in
  match link_loop (S (S (total_callees rt + length rt))) rt s0 with
  | None => Err e_limit
  | Some s => resolve_code s (l_code s) 0 (len (l_code s))
  end.

End Compile.

Definition compile (ucd : ucd_table) (g : grammar) : err (list sinstr) :=
  let space := match g_space g with Some e => desugar e | None => default_space_expr end in
  match compile_defs ucd space [] (g_defs g) with
  | OK rt => start ucd space rt (g_start g)
  | Err w => Err w
  end.
