(* Lowering of semantic instructions to lug's numeric encoding: (opcode, immediate8, immediate16,
   offset32) plus the data segment and the resource tables.  Strings are appended to the data
   segment and resources to their tables in code order, which is what the library's incremental
   encode/concatenate produces (validated by program equality on every run).
   One deliberate canonicalisation: a scope push without a name (block[] / local[]) carries no
   string; the library leaves in its offset32 whatever data offsets the enclosing concatenations
   added, a value nothing reads; both sides print 0 there. *)
From Coq Require Import NArith ZArith List Bool.
From Lug Require Import Gen.Consts Ucd.RuneSet VM.Instr.
Import ListNotations.

Record ninstr := { n_op : N; n_imm8 : N; n_imm16 : N; n_off : Z }.

Record program := { p_code : list ninstr; p_data : list N;
                    p_uniforms : list N; p_runesets : list rune_set;
                    p_handlers : list (N * N); p_predicates : list (N * N);
                    p_actions : list N; p_captures : list N }.

Definition empty_program : program :=
  {| p_code := []; p_data := []; p_uniforms := []; p_runesets := []; p_handlers := []; p_predicates := []; p_actions := []; p_captures := [] |}.

Definition lenN {A} (l : list A) : N := N.of_nat (length l).
Definition b2n (b : bool) : N := if b then 1%N else 0%N.

Definition emit (p : program) (i : ninstr) : program :=
  {| p_code := p_code p ++ [i]; p_data := p_data p; p_uniforms := p_uniforms p; p_runesets := p_runesets p;
     p_handlers := p_handlers p; p_predicates := p_predicates p; p_actions := p_actions p; p_captures := p_captures p |}.

Definition plain (p : program) (op imm8 imm16 : N) (off : Z) : program := emit p {| n_op := op; n_imm8 := imm8; n_imm16 := imm16; n_off := off |}.

Definition with_str (p : program) (op imm8 : N) (s : list N) : program :=
  let p' := emit p {| n_op := op; n_imm8 := imm8; n_imm16 := lenN s; n_off := Z.of_N (lenN (p_data p)) |} in
  {| p_code := p_code p'; p_data := p_data p ++ s; p_uniforms := p_uniforms p; p_runesets := p_runesets p;
     p_handlers := p_handlers p; p_predicates := p_predicates p; p_actions := p_actions p; p_captures := p_captures p |}.

Definition sym_op (k : symk) (cf : bool) : N :=
  match k, cf with
  | SkAll, false => op_symbol_all | SkAll, true => op_symbol_all_cf
  | SkAny, false => op_symbol_any | SkAny, true => op_symbol_any_cf
  | SkHead, false => op_symbol_head | SkHead, true => op_symbol_head_cf
  | SkTail, false => op_symbol_tail | SkTail, true => op_symbol_tail_cf
  end.

Definition lower_one (p : program) (i : sinstr) : program :=
  match i with
  | IJump off => plain p op_jump 0 0 off
  | IChoice off pred => plain p op_choice (b2n pred) 0 off
  | ICommit off => plain p op_commit 0 0 off
  | ICommitBack off => plain p op_commit_back 0 0 off
  | ICommitPartial off => plain p op_commit_partial 0 0 off
  | IAccept f => plain p op_accept f 0 0
  | ICall off prec => plain p op_call 0 prec off
  | IRet => plain p op_ret 0 0 0
  | IFail n => plain p op_fail n 0 0
  | IRecoverPush off => plain p op_recover_push 0 0 off
  | IRecoverPop => plain p op_recover_pop 0 0 0
  | IRecoverResp r => plain p op_recover_resp r 0 0
  | IReportPush h =>
      let p' := plain p op_report_push 0 (lenN (p_handlers p)) 0 in
      {| p_code := p_code p'; p_data := p_data p; p_uniforms := p_uniforms p; p_runesets := p_runesets p;
         p_handlers := p_handlers p ++ [h]; p_predicates := p_predicates p; p_actions := p_actions p; p_captures := p_captures p |}
  | IReportPop => plain p op_report_pop 0 0 0
  | IPredicate q =>
      let p' := plain p op_predicate 0 (lenN (p_predicates p)) 0 in
      {| p_code := p_code p'; p_data := p_data p; p_uniforms := p_uniforms p; p_runesets := p_runesets p;
         p_handlers := p_handlers p; p_predicates := p_predicates p ++ [q]; p_actions := p_actions p; p_captures := p_captures p |}
  | IAction a =>
      let p' := plain p op_action 0 (lenN (p_actions p)) 0 in
      {| p_code := p_code p'; p_data := p_data p; p_uniforms := p_uniforms p; p_runesets := p_runesets p;
         p_handlers := p_handlers p; p_predicates := p_predicates p; p_actions := p_actions p ++ [a]; p_captures := p_captures p |}
  | ICaptureStart => plain p op_capture_start 0 0 0
  | ICaptureEnd c =>
      let p' := plain p op_capture_end 0 (lenN (p_captures p)) 0 in
      {| p_code := p_code p'; p_data := p_data p; p_uniforms := p_uniforms p; p_runesets := p_runesets p;
         p_handlers := p_handlers p; p_predicates := p_predicates p; p_actions := p_actions p; p_captures := p_captures p ++ [c] |}
  | IConditionPop => plain p op_condition_pop 0 0 0
  | ISymbolEnd => plain p op_symbol_end 0 0 0
  | ISymbolPop => plain p op_symbol_pop 0 0 0
  | IMatchAny f => plain p op_match_any f 0 0
  | IMatchEol => plain p op_match_eol 0 0 0
  | IMatchOctet b => plain p op_match_octet b 0 0
  | IMatchSet s =>
      let p' := plain p op_match_set 0 (lenN (p_runesets p)) 0 in
      {| p_code := p_code p'; p_data := p_data p; p_uniforms := p_uniforms p; p_runesets := p_runesets p ++ [s];
         p_handlers := p_handlers p; p_predicates := p_predicates p; p_actions := p_actions p; p_captures := p_captures p |}
  | IMatchClass k penum mask =>
      let op := match k with CkAll => op_match_all_of | CkAny => op_match_any_of | CkNone => op_match_none_of end in
      let p' := plain p op penum (lenN (p_uniforms p)) 0 in
      {| p_code := p_code p'; p_data := p_data p; p_uniforms := p_uniforms p ++ [mask]; p_runesets := p_runesets p;
         p_handlers := p_handlers p; p_predicates := p_predicates p; p_actions := p_actions p; p_captures := p_captures p |}
  | IMatch s => with_str p op_match 0 s
  | IMatchCf s => with_str p op_match_cf 0 s
  | IConditionTest nm v => with_str p op_condition_test (b2n v) nm
  | IConditionPush nm v => with_str p op_condition_push (b2n v) nm
  | ISymbolExists nm v => with_str p op_symbol_exists (b2n v) nm
  | ISymbolMatch k cf nm idx => with_str p (sym_op k cf) idx nm
  | ISymbolStart nm => with_str p op_symbol_start 0 nm
  | ISymbolPush kind nm => if N.eqb kind 1 then with_str p op_symbol_push 1 nm else plain p op_symbol_push kind 0 0
  | IRaise l f => with_str p op_raise (b2n f) l
  end.

Definition lower (code : list sinstr) : program :=
  let p := fold_left lower_one code empty_program in
  {| p_code := p_code p; p_data := p_data p ++ [0%N];          (* start() appends a NUL to the data segment *)
     p_uniforms := p_uniforms p; p_runesets := p_runesets p; p_handlers := p_handlers p;
     p_predicates := p_predicates p; p_actions := p_actions p; p_captures := p_captures p |}.

(* The encoder's checked_cast guards (resource_limit_error): a string operand longer than 65535 bytes, a data
   segment beyond 2^31-1 bytes, or more than 65536 entries in a resource table cannot be encoded. *)
Definition str_len_ok (i : sinstr) : bool :=
  let ok (s : list N) := N.leb (lenN s) 65535 in
  match i with
  | ISymbolMatch _ _ s idx => ok s && N.leb idx 255          (* match_front/match_back offsets are 8-bit immediates *)
  | IMatch s | IMatchCf s | IConditionTest s _ | IConditionPush s _ | ISymbolExists s _ | ISymbolStart s | IRaise s _ => ok s
  | ISymbolPush _ s => ok s
  | _ => true
  end.
Definition limits_ok (code : list sinstr) : bool :=
  let p := lower code in
  forallb str_len_ok code &&
  N.leb (lenN (p_data p)) 2147483647 &&
  N.leb (lenN (p_uniforms p)) 65536 && N.leb (lenN (p_runesets p)) 65536 && N.leb (lenN (p_handlers p)) 65536 &&
  N.leb (lenN (p_predicates p)) 65536 && N.leb (lenN (p_actions p)) 65536 && N.leb (lenN (p_captures p)) 65536.
