(* The DSL surface as an inductive type, and the construction-time rewriting lug's operators perform
   (desugaring of + ~ >> -- ^, wrapping in internal directives, merging of nested directives). *)
From Coq Require Import NArith ZArith List Bool.
From Lug Require Import Gen.Consts VM.Instr.
Import ListNotations.
Local Open Scope N_scope.

Inductive expr :=
| EStr (s : list N)                         (* str("..") / chr(c) / chr(char32) as UTF-8 bytes *)
| EAny | EEps | ENop | EEoi | EEol | ECut | EAccept
| EClass (k : class_kind) (penum mask : N)  (* any(p) / all(p) / none(p) / alpha, digit, ... *)
| ERange (a b : N)                          (* chr(a, b) *)
| ERef (r : nat)                            (* a rule used as an expression *)
| EPrec (r : nat) (k : N)                   (* R[k] *)
| ESeq (a b : expr) | EAlt (a b : expr)
| EStar (a : expr) | EPlus (a : expr) | EOpt (a : expr) | EList (a b : expr)
| ENot (a : expr) | EAnd (a : expr)
| ERep (n m : N) (a : expr)
| EDir (en dis relay : N) (a : expr)        (* directive_expression with explicit masks *)
| ECased (a : expr) | ECaseless (a : expr) | ELexeme (a : expr) | ENoskip (a : expr) | ESkip (a : expr)
| EAct (id : N) (a : expr) | ECap (id : N) (a : expr)
| ESym (nm : name) (a : expr)
| EBlock (a : expr) | ELocal (a : expr) | ELocalTo (nm : name) (a : expr)
| ECond (v : bool) (nm : name) (a : expr)   (* on(c)[e] / off(c)[e] *)
| EWhen (v : bool) (nm : name)              (* when(c) / unless(c) *)
| EExists (v : bool) (nm : name)            (* exists(s) / missing(s) *)
| EMatchSym (k : symk) (nm : name) (idx : N)
| ECutBefore (a : expr) | ECutAfter (a : expr)
| EExpect (a : expr) (label : name)
| EExpectRule (a : expr) (label : name) (r : nat)
| EExpectExpr (a : expr) (label : name) (rec : expr)
| ERaise (label : name)
| ERaiseRule (label : name) (r : nat)
| ERaiseExpr (label : name) (rec : expr)
| ERecRule (r : nat) (a : expr)             (* e[recover_with{rule}] *)
| ERecExpr (rec : expr) (a : expr)
| EReport (h : N * N) (a : expr)            (* e ^= handler *)
| ERespond (resp : N) (a : expr)            (* e ^ response *)
| EResp (resp : N)                          (* recover_response_expression *)
| EPred (p : N * N)
| EBre (pattern : list N).                  (* bre("...") *)

Definition C := dir_caseless.
Definition E := dir_eps.
Definition L := dir_lexeme.
Definition Nn := dir_noskip.
Definition P := dir_preskip.
Definition Q := dir_postskip.

Definition nand (a b : N) : N := N.ldiff a b.   (* a & ~b *)

(* directive_modifier<en,dis,relay>::operator[]: merges with an operand that is itself a directive *)
Definition apply_dir (en dis relay : N) (x : expr) : expr :=
  match x with
  | EDir en' dis' _ inner => EDir (N.lor (nand en dis') en') (N.lor dis dis') relay inner
  | _ => EDir en dis relay x
  end.

Definition matches_eps := apply_dir 0 0 0.
Definition relays_eps := apply_dir 0 0 E.
Definition skip_after := apply_dir Q 0 E.
Definition skip_before := apply_dir P Q E.

(* Core expressions: what is left after the operators have done their construction-time work. *)
Fixpoint desugar (e : expr) : expr :=
  match e with
  | ESeq a b => ESeq (desugar a) (skip_before (desugar b))
  | EAlt a b => EAlt (relays_eps (desugar a)) (relays_eps (desugar b))
  | EStar a => EStar (matches_eps (skip_after (desugar a)))
  | EPlus a => let x := desugar a in ESeq x (skip_before (EStar (matches_eps (skip_after x))))
  | EOpt a => EAlt (relays_eps (desugar a)) (relays_eps EEps)
  | EList a b =>
      let x := desugar a in let y := desugar b in
      ESeq x (skip_before (EStar (matches_eps (skip_after (ESeq y (skip_before x))))))
  | ENot a => ENot (matches_eps (desugar a))
  | EAnd a => EAnd (matches_eps (desugar a))
  | ERep n m a => ERep n m (desugar a)
  | EDir en dis relay a => EDir en dis relay (desugar a)
  | ECased a => apply_dir 0 C E (desugar a)
  | ECaseless a => apply_dir C 0 E (desugar a)
  | ELexeme a => apply_dir L Nn E (desugar a)
  | ENoskip a => apply_dir (N.lor L Nn) 0 E (desugar a)
  | ESkip a => apply_dir 0 (N.lor L Nn) E (desugar a)
  | EAct id a => EAct id (desugar a)
  | ECap id a => ECap id (desugar a)
  | ESym nm a => ESym nm (desugar a)
  | EBlock a => EBlock (desugar a)
  | ELocal a => ELocal (desugar a)
  | ELocalTo nm a => ELocalTo nm (desugar a)
  | ECond v nm a => ECond v nm (desugar a)
  | ECutBefore a => ESeq ECut (skip_before (desugar a))
  | ECutAfter a => ESeq (desugar a) (skip_before ECut)
  | EExpect a l => EExpect (desugar a) l
  | EExpectRule a l r => EExpectRule (desugar a) l r
  | EExpectExpr a l rec => EExpectExpr (desugar a) l (desugar rec)
  | ERaiseExpr l rec => ERaiseExpr l (desugar rec)
  | ERecRule r a => ERecRule r (desugar a)
  | ERecExpr rec a => ERecExpr (desugar rec) (desugar a)
  | EReport h a => EReport h (desugar a)
  | ERespond resp a => ESeq (desugar a) (skip_before (EResp resp))
  | _ => e
  end.

(* a grammar: rule definitions in definition order, the start rule, the implicit whitespace rule *)
Inductive ruledef := RExpr (e : expr) | RCopy (r : nat).   (* rule R = expr;   rule R2 = R; (copy) *)

Record grammar := { g_nrules : nat;                  (* rules are numbered 0 .. g_nrules-1 *)
                    g_defs : list (nat * ruledef);   (* definitions in the order they are executed *)
                    g_start : nat;
                    g_space : option expr }.         (* None = the default `*space` *)
