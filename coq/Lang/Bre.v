(* Model of lug's basic_regular_expression: the pattern grammar of make_grammar() as a recursive
   descent parser producing the same generator calls in the same order, and the generator
   (bracket_range / bracket_class / bracket_commit / match / match_any / match_eps).
   The result is a core tree [pexp] compiled in mode (caller's caseless bit) | eps | lexeme, so no
   whitespace is ever skipped inside. *)
From Coq Require Import NArith ZArith List Bool.
From Lug Require Import Gen.Consts Gen.UcdTables Utf8.Utf8Model Ucd.Lookup Ucd.RuneSet VM.Instr Lang.Expr Lang.Core.
Import ListNotations.
Local Open Scope N_scope.

(* one `any`: a lead byte and the continuation bytes after it *)
Definition take_any (s : list N) : option (list N * list N) :=
  match s with
  | [] => None
  | b :: r => let n := skip_trail r in Some (b :: firstn n r, skipn n r)
  end.

Inductive belem :=
| BRange (text : list N)        (* `a-b`: the whole matched text, split at its first '-' by the generator *)
| BClass (name : list N)        (* [:name:] *)
| BSingle (c : list N).

Inductive bitem :=
| BDot
| BSeq (text : list N)
| BBracket (neg : bool) (elems : list belem).

Definition starts_with (p s : list N) : bool := bytes_eqb (firstn (length p) s) p.

(* +(!':' any) : at least one char that is not ':' ; returns (consumed text, rest) *)
Fixpoint class_name (fuel : nat) (s : list N) : list N * list N :=
  match fuel with
  | O => ([], s)
  | S f => match s with
           | 58 :: _ => ([], s)
           | _ => match take_any s with
                  | Some (c, r) => let '(n, r') := class_name f r in (c ++ n, r')
                  | None => ([], s)
                  end
           end
  end.

(* Element = any '-' !']' any | "[:" +(!':' any) ":]" | any *)
Definition parse_element (s : list N) : option (belem * list N) :=
  let alt1 :=
    match take_any s with
    | Some (c1, 45 :: r1) =>
        match r1 with
        | 93 :: _ => None
        | _ => match take_any r1 with Some (c2, r2) => Some (BRange (c1 ++ 45 :: c2), r2) | None => None end
        end
    | _ => None
    end in
  match alt1 with
  | Some x => Some x
  | None =>
    let alt2 :=
      if starts_with [91; 58] s then
        let '(nm, r) := class_name (length s) (skipn 2 s) in
        match nm with
        | [] => None
        | _ => if starts_with [58; 93] r then Some (BClass nm, skipn 2 r) else None
        end
      else None in
    match alt2 with
    | Some x => Some x
    | None => match take_any s with Some (c, r) => Some (BSingle c, r) | None => None end
    end
  end.

(* *( !']' Element ) *)
Fixpoint more_elements (fuel : nat) (s : list N) : list belem * list N :=
  match fuel with
  | O => ([], s)
  | S f => match s with
           | 93 :: _ => ([], s)
           | _ => match parse_element s with
                  | Some (e, r) => let '(es, r') := more_elements f r in (e :: es, r')
                  | None => ([], s)
                  end
           end
  end.

(* Bracket = '[' ~'^' Element *( !']' Element ) ']' *)
Definition parse_bracket (s : list N) : option (bitem * list N) :=
  match s with
  | 91 :: r0 =>
      let '(neg, r1) := match r0 with 94 :: r => (true, r) | _ => (false, r0) end in
      match parse_element r1 with
      | Some (e, r2) =>
          let '(es, r3) := more_elements (length r2) r2 in
          match r3 with
          | 93 :: r4 => Some (BBracket neg (e :: es), r4)
          | _ => None
          end
      | None => None
      end
  | _ => None
  end.

(* Sequence = +( !('.' | '[') any ) *)
Fixpoint seq_chars (fuel : nat) (s : list N) : list N * list N :=
  match fuel with
  | O => ([], s)
  | S f => match s with
           | 46 :: _ | 91 :: _ => ([], s)
           | _ => match take_any s with
                  | Some (c, r) => let '(t, r') := seq_chars f r in (c ++ t, r')
                  | None => ([], s)
                  end
           end
  end.

Fixpoint parse_items (fuel : nat) (s : list N) : list bitem * list N :=
  match fuel with
  | O => ([], s)
  | S f =>
      match s with
      | 46 :: r => let '(is_, r') := parse_items f r in (BDot :: is_, r')
      | _ =>
        match parse_bracket s with
        | Some (b, r) => let '(is_, r') := parse_items f r in (b :: is_, r')
        | None =>
            match seq_chars (length s) s with
            | ([], _) => ([], s)
            | (t, r) => let '(is_, r') := parse_items f r in (BSeq t :: is_, r')
            end
        end
      end
  end.

(* (+(Dot | Bracket | Sequence) | Empty) > eoi ; None = bad_string_expression *)
Definition parse_bre (s : list N) : option (list bitem) :=
  match parse_items (S (length s)) s with
  | (items, []) => Some items          (* no item at all = Empty followed by eoi *)
  | (_, _ :: _) => None
  end.

(* ---- the generator ---- *)
Definition ascii_tolower (b : N) : N := if (65 <=? b) && (b <=? 90) then b + 32 else b.
Definition normalize_label (s : list N) : list N :=
  map ascii_tolower (filter (fun c => negb ((c =? 32) || (c =? 9) || (c =? 95) || (c =? 45) || (c =? 46) || (c =? 59))) s).

Definition str_of (l : list N) : list N := l.
Definition ctype_labels : list (list N * N) :=
  [ (str_of [97;108;110;117;109], ctype_alnum); (str_of [97;108;112;104;97], ctype_alpha); (str_of [98;108;97;110;107], ctype_blank);
    (str_of [99;110;116;114;108], ctype_cntrl); (str_of [100;105;103;105;116], ctype_digit); (str_of [103;114;97;112;104], ctype_graph);
    (str_of [108;111;119;101;114], ctype_lower); (str_of [112;114;105;110;116], ctype_print); (str_of [112;117;110;99;116], ctype_punct);
    (str_of [115;112;97;99;101], ctype_space); (str_of [117;112;112;101;114], ctype_upper); (str_of [119;111;114;100], ctype_word);
    (str_of [120;100;105;103;105;116], ctype_xdigit) ].
Fixpoint assoc_label (l : list (list N * N)) (k : list N) : option N :=
  match l with [] => None | (n, v) :: r => if bytes_eqb n k then Some v else assoc_label r k end.
Definition stoctype (s : list N) : option N := assoc_label ctype_labels (normalize_label s).

Fixpoint split_dash_from (s : list N) : list N * list N :=
  match s with
  | [] => ([], [])
  | 45 :: r => ([], r)
  | c :: r => let '(a, b) := split_dash_from r in (c :: a, b)
  end.
(* s.find('-', 1): the separator is searched after the first byte *)
Definition split_dash (s : list N) : list N * list N :=
  match s with
  | [] => ([], [])
  | c :: r => let '(a, b) := split_dash_from r in (c :: a, b)
  end.

Record bstate := { b_runes : rune_set; b_classes : N }.

Section Gen.
Variable ucd : ucd_table.
Variable caseless : bool.

Definition add_rune_range (rs : rune_set) (a b : N) : err rune_set :=
  if b <? a then Err e_bad_range else
  match (if caseless then push_casefolded_range ucd rs a b else push_range rs a b) with
  | RsOk s => OK s
  | RsBadRange => Err e_bad_range
  | RsIndex => Err e_table
  end.

Definition bracket_range2 (st : bstate) (a b : list N) : err bstate :=
  match add_rune_range (b_runes st) (snd (decode_rune a)) (snd (decode_rune b)) with
  | OK rs => OK {| b_runes := rs; b_classes := b_classes st |}
  | Err w => Err w
  end.

Definition apply_elem (st : bstate) (e : belem) : err bstate :=
  match e with
  | BRange text => let '(a, b) := split_dash text in bracket_range2 st a b
  | BClass nm => match stoctype nm with
                 | Some c => OK {| b_runes := b_runes st; b_classes := N.lor (b_classes st) c |}
                 | None => Err e_bad_class
                 end
  | BSingle c => bracket_range2 st c c
  end.

Fixpoint apply_elems (st : bstate) (es : list belem) : err bstate :=
  match es with
  | [] => OK st
  | e :: r => match apply_elem st e with OK st' => apply_elems st' r | Err w => Err w end
  end.

(* literal text through encoder::match in lexeme mode (no skip is ever emitted) *)
Definition gen_match (s : list N) : err pexp :=
  if caseless then
    match s with
    | [b] =>
        match query ucd b with
        | None => Err e_table
        | Some rec =>
          if has (rec_props rec) ptype_Ascii then
            if has (rec_props rec) ptype_Alphabetic then
              match tolower ucd b, toupper ucd b with
              | Some l, Some u => OK (PInstr (IMatchSet (sort_and_optimize (push_rune (push_rune (push_rune rs_empty b) l) u))))
              | _, _ => Err e_table
              end
            else OK (PInstr (IMatchOctet b))
          else match utf8_tocasefold ucd s with Some f => OK (PInstr (IMatchCf f)) | None => Err e_table end
        end
    | _ => match utf8_tocasefold ucd s with Some f => OK (PInstr (IMatchCf f)) | None => Err e_table end
    end
  else match s with
       | [b] => OK (PInstr (IMatchOctet b))
       | _ => OK (PInstr (IMatch s))
       end.

(* bracket_commit *)
Definition bracket_commit (neg : bool) (st : bstate) : pexp :=
  let runes := sort_and_optimize (b_runes st) in
  let classes := b_classes st in
  let has_runes := negb (rs_is_empty runes) in
  let has_classes := negb (classes =? 0) in
  if has_runes && negb has_classes then
    PInstr (IMatchSet (if neg then negate runes else runes))
  else
    let body :=
      if has_runes && has_classes
      then PAlt (PInstr (IMatchSet runes)) (PInstr (IMatchClass CkAny property_enum_ctype classes))   (* choice 2; set; commit 1; class *)
      else seqp (if has_runes then PInstr (IMatchSet runes) else PEmpty)
                (if has_classes then PInstr (IMatchClass CkAny property_enum_ctype classes) else PEmpty) in
    if neg then
      (* choice L; body; commit 0; fail 1; L: match_any   -- the commit's offset is 0, so a match of
         the body falls into `fail 1` and the alternative is taken when the body fails *)
      PNegSet body
    else body.

End Gen.

Section Compile.
Variable ucd : ucd_table.
Variable caseless : bool.

Definition gen_item (it : bitem) : err pexp :=
  match it with
  | BDot => OK (PInstr (IMatchAny 0))
  | BSeq t => gen_match ucd caseless t
  | BBracket neg es =>
      match apply_elems ucd caseless {| b_runes := rs_empty; b_classes := 0 |} es with
      | OK st => OK (bracket_commit neg st)
      | Err w => Err w
      end
  end.

Fixpoint gen_items (its : list bitem) : err pexp :=
  match its with
  | [] => OK PEmpty
  | it :: r => match gen_item it, gen_items r with
               | OK a, OK b => OK (seqp a b)
               | Err w, _ => Err w
               | _, Err w => Err w
               end
  end.

(* the compiled pattern and whether it surely consumes input (its entry_mode has eps cleared) *)
Definition bre_consumes (its : list bitem) : bool := match its with [] => false | _ => true end.

Definition compile_bre (pattern : list N) : err (pexp * bool) :=
  match parse_bre pattern with
  | None => Err e_bad_string
  | Some [] => OK (PInstr (IMatch []), false)            (* Empty: match_eps *)
  | Some its => match gen_items its with OK p => OK (p, true) | Err w => Err w end
  end.

End Compile.
