(* Core definitions shared by the encoder model (Lang/Elab.v) and the bre compiler (Lang/Bre.v).
   Model of lug's encoder, part 1: the directive mode machine (skip / dpsh / dpop / do_skip / call
   with the inlining decision) threaded through an expression, yielding a core tree [pexp] in which
   every emitted whitespace block, every inlined rule and every call is explicit.  Code generation
   from [pexp] is compositional (Lang/Codegen.v). *)
From Coq Require Import NArith ZArith List Bool.
From Lug Require Import Gen.Consts Gen.UcdTables Utf8.Utf8Model Ucd.Lookup Ucd.RuneSet VM.Instr Lang.Expr.
Import ListNotations.
Local Open Scope N_scope.

Inductive pexp :=
| PEmpty
| PInstr (i : sinstr)                       (* one self-contained instruction *)
| PSeq (a b : pexp)
| PAlt (a b : pexp)                         (* choice L1; a; commit L2; L1: b; L2: *)
| PStar (a : pexp)                          (* choice L; a; commit_partial back; L: *)
| PNot (a : pexp)                           (* choice(pred) L; a; fail 2; L: *)
| PAnd (a : pexp)                           (* choice(pred) L; a; commit_back 1; L: fail 1 *)
| PEoi                                      (* choice 2; match_any(1); fail 2 *)
| PRep (n m : N) (a : pexp)                 (* jump over; S: a; ret; n x call S; (m-n) x (choice; call S; commit) *)
| PCall (r : nat) (prec mode : N)
| PInline (r : nat) (body : pexp)
| PSkip (sp : pexp)                         (* an emitted implicit-whitespace block *)
| PWrap (pre : sinstr) (a : pexp) (post : sinstr)
| PRecRule (r : nat) (mode : N) (a : pexp)  (* recover_push -> rule; a; recover_pop *)
| PRecExpr (rec a : pexp)                   (* recover_push L; a; recover_pop; jump F; L: rec; ret; F: *)
| PRaiseRule (label : name) (r : nat) (mode : N)     (* recover_push -> rule; raise label 1 *)
| PRaiseExpr (label : name) (rec : pexp)    (* recover_push L; raise label 1; jump F; L: rec; ret; F: *)
| PNegSet (body : pexp).                    (* bre "[^...]" with classes: choice L; body; commit 0; fail 1; L: match_any *)

Inductive err (A : Type) := OK (x : A) | Err (why : N).
Arguments OK {A}. Arguments Err {A}.
Definition e_bad_range : N := 1.      (* bad_character_range *)
Definition e_nested_space : N := 2.   (* the whitespace rule itself asked for a skip: unbounded recursion in lug *)
Definition e_table : N := 3.          (* a Unicode table index left its array *)
Definition e_limit : N := 4.          (* program_limit_error / resource_limit_error *)
Definition e_bad_string : N := 5.     (* bad_string_expression family (bre) *)
Definition e_bad_class : N := 6.

Definition bind {A B} (x : err A) (f : A -> err B) : err B := match x with OK a => f a | Err w => Err w end.
Definition bind2 {A B C} (x : err (A * B)) (f : A -> B -> err C) : err C := match x with OK (a, b) => f a b | Err w => Err w end.
Notation "'do' ( x , y ) <- e1 ; e2" := (bind2 e1 (fun x y => e2)) (at level 200, x name, y name, e1 at level 100, e2 at level 200).

Record est := { modes : list N; entry : N }.
Definition top (st : est) : N := hd 0 (modes st).
Definition set_top (m : N) (st : est) : est := {| modes := m :: tl (modes st); entry := entry st |}.
Definition push_mode (m : N) (st : est) : est := {| modes := m :: modes st; entry := entry st |}.
Definition pop_mode (st : est) : est := {| modes := tl (modes st); entry := entry st |}.

Definition spacefn := est -> err (pexp * est).

Definition do_skip (dosp : spacefn) (st : est) : err (pexp * est) :=
  let t := top st in
  dosp (set_top (N.lor (nand t (N.lor P Q)) (N.lor L Nn)) st).

Definition skip (dosp : spacefn) (cm cs : N) (st : est) : err (pexp * est) :=
  let t := top st in
  let next := nand t (N.land cm E) in
  let st1 := if entry st =? 0
             then {| modes := modes st; entry := N.lor (N.land t (N.lor C (N.lor L Nn))) E |} else st in
  if N.land (N.lor t cm) (N.lor cs P) =? P
  then do (sp, st2) <- do_skip dosp st1; OK (PSkip sp, set_top next st2)
  else OK (PEmpty, set_top next st1).

Definition dpsh (en dis : N) (st : est) : est := push_mode (N.lor (nand (top st) dis) en) st.

Definition dpop (dosp : spacefn) (relay : N) (st : est) : err (pexp * est) :=
  let prev := top st in
  let st1 := pop_mode st in
  let anc := top st1 in
  let next := N.lor (nand anc relay) (N.land prev relay) in
  if (N.land next Q =? 0) && (N.land prev (N.lor L (N.lor Nn Q)) =? Q)
  then do (sp, st2) <- do_skip dosp st1; OK (PSkip sp, set_top next st2)
  else OK (PEmpty, set_top next st1).

(* what the encoder knows about a rule when it is referenced *)
Record rinfo := { r_body : pexp; r_len : N; r_objects : N; r_has_callees : bool; r_entry : N; r_defined : bool }.
Definition rinfo_empty : rinfo := {| r_body := PEmpty; r_len := 0; r_objects := 0; r_has_callees := false; r_entry := E; r_defined := false |}.

Definition can_inline (ri : rinfo) (prec : N) (encoding : bool) : bool :=
  (prec =? 0) && negb encoding && negb (r_has_callees ri) &&
  (1 <=? r_len ri) && (r_len ri <=? inline_max_instructions) && (r_objects ri <=? inline_max_objects).

Definition seqp (a b : pexp) : pexp :=
  match a, b with PEmpty, _ => b | _, PEmpty => a | _, _ => PSeq a b end.

(* utf8::tocasefold on a byte string *)
Fixpoint map_opt {A B} (f : A -> option B) (l : list A) : option (list B) :=
  match l with
  | [] => Some []
  | x :: r => match f x, map_opt f r with Some y, Some ys => Some (y :: ys) | _, _ => None end
  end.
Definition utf8_tocasefold (t : ucd_table) (s : list N) : option (list N) :=
  match map_opt (tocasefold t) (decode_all s) with
  | Some rs => Some (concat (map (fun r => fst (encode_rune r)) rs))
  | None => None
  end.


Fixpoint bytes_eqb (a b : list N) : bool :=
  match a, b with [], [] => true | x :: a', y :: b' => (x =? y) && bytes_eqb a' b' | _, _ => false end.
