(* Model of lug's encoder, part 1: the directive mode machine (skip / dpsh / dpop / do_skip / call
   with the inlining decision) threaded through an expression, yielding a core tree [pexp] in which
   every emitted whitespace block, every inlined rule and every call is explicit.  Code generation
   from [pexp] is compositional (Lang/Codegen.v). *)
From Coq Require Import NArith ZArith List Bool.
From Lug Require Import Gen.Consts Gen.UcdTables Utf8.Utf8Model Ucd.Lookup Ucd.RuneSet VM.Instr Lang.Expr.
Import ListNotations.
Local Open Scope N_scope.

Inductive pexp :=
| PEmpty
| PInstr (i : sinstr)                       (* one self-contained instruction *)
| PSeq (a b : pexp)
| PAlt (a b : pexp)                         (* choice L1; a; commit L2; L1: b; L2: *)
| PStar (a : pexp)                          (* choice L; a; commit_partial back; L: *)
| PNot (a : pexp)                           (* choice(pred) L; a; fail 2; L: *)
| PAnd (a : pexp)                           (* choice(pred) L; a; commit_back 1; L: fail 1 *)
| PEoi                                      (* choice 2; match_any(1); fail 2 *)
| PRep (n m : N) (a : pexp)                 (* jump over; S: a; ret; n x call S; (m-n) x (choice; call S; commit) *)
| PCall (r : nat) (prec mode : N)
| PInline (r : nat) (body : pexp)
| PSkip (sp : pexp)                         (* an emitted implicit-whitespace block *)
| PWrap (pre : sinstr) (a : pexp) (post : sinstr)
| PRecRule (r : nat) (mode : N) (a : pexp)  (* recover_push -> rule; a; recover_pop *)
| PRecExpr (rec a : pexp)                   (* recover_push L; a; recover_pop; jump F; L: rec; ret; F: *)
| PRaiseRule (label : name) (r : nat) (mode : N)     (* recover_push -> rule; raise label 1 *)
| PRaiseExpr (label : name) (rec : pexp).   (* recover_push L; raise label 1; jump F; L: rec; ret; F: *)

Inductive err (A : Type) := OK (x : A) | Err (why : N).
Arguments OK {A}. Arguments Err {A}.
Definition e_bad_range : N := 1.      (* bad_character_range *)
Definition e_nested_space : N := 2.   (* the whitespace rule itself asked for a skip: unbounded recursion in lug *)
Definition e_table : N := 3.          (* a Unicode table index left its array *)
Definition e_limit : N := 4.          (* program_limit_error / resource_limit_error *)
Definition e_bad_string : N := 5.     (* bad_string_expression family (bre) *)
Definition e_bad_class : N := 6.

Definition bind {A B} (x : err A) (f : A -> err B) : err B := match x with OK a => f a | Err w => Err w end.
Definition bind2 {A B C} (x : err (A * B)) (f : A -> B -> err C) : err C := match x with OK (a, b) => f a b | Err w => Err w end.
Notation "'do' ( x , y ) <- e1 ; e2" := (bind2 e1 (fun x y => e2)) (at level 200, x name, y name, e1 at level 100, e2 at level 200).

Record est := { modes : list N; entry : N }.
Definition top (st : est) : N := hd 0 (modes st).
Definition set_top (m : N) (st : est) : est := {| modes := m :: tl (modes st); entry := entry st |}.
Definition push_mode (m : N) (st : est) : est := {| modes := m :: modes st; entry := entry st |}.
Definition pop_mode (st : est) : est := {| modes := tl (modes st); entry := entry st |}.

Definition spacefn := est -> err (pexp * est).

Definition do_skip (dosp : spacefn) (st : est) : err (pexp * est) :=
  let t := top st in
  dosp (set_top (N.lor (nand t (N.lor P Q)) (N.lor L Nn)) st).

Definition skip (dosp : spacefn) (cm cs : N) (st : est) : err (pexp * est) :=
  let t := top st in
  let next := nand t (N.land cm E) in
  let st1 := if entry st =? 0
             then {| modes := modes st; entry := N.lor (N.land t (N.lor C (N.lor L Nn))) E |} else st in
  if N.land (N.lor t cm) (N.lor cs P) =? P
  then do (sp, st2) <- do_skip dosp st1; OK (PSkip sp, set_top next st2)
  else OK (PEmpty, set_top next st1).

Definition dpsh (en dis : N) (st : est) : est := push_mode (N.lor (nand (top st) dis) en) st.

Definition dpop (dosp : spacefn) (relay : N) (st : est) : err (pexp * est) :=
  let prev := top st in
  let st1 := pop_mode st in
  let anc := top st1 in
  let next := N.lor (nand anc relay) (N.land prev relay) in
  if (N.land next Q =? 0) && (N.land prev (N.lor L (N.lor Nn Q)) =? Q)
  then do (sp, st2) <- do_skip dosp st1; OK (PSkip sp, set_top next st2)
  else OK (PEmpty, set_top next st1).

(* what the encoder knows about a rule when it is referenced *)
Record rinfo := { r_body : pexp; r_len : N; r_objects : N; r_has_callees : bool; r_entry : N; r_defined : bool }.
Definition rinfo_empty : rinfo := {| r_body := PEmpty; r_len := 0; r_objects := 0; r_has_callees := false; r_entry := E; r_defined := false |}.

Definition can_inline (ri : rinfo) (prec : N) (encoding : bool) : bool :=
  (prec =? 0) && negb encoding && negb (r_has_callees ri) &&
  (1 <=? r_len ri) && (r_len ri <=? inline_max_instructions) && (r_objects ri <=? inline_max_objects).

Definition seqp (a b : pexp) : pexp :=
  match a, b with PEmpty, _ => b | _, PEmpty => a | _, _ => PSeq a b end.

(* utf8::tocasefold on a byte string *)
Fixpoint map_opt {A B} (f : A -> option B) (l : list A) : option (list B) :=
  match l with
  | [] => Some []
  | x :: r => match f x, map_opt f r with Some y, Some ys => Some (y :: ys) | _, _ => None end
  end.
Definition utf8_tocasefold (t : ucd_table) (s : list N) : option (list N) :=
  match map_opt (tocasefold t) (decode_all s) with
  | Some rs => Some (concat (map (fun r => fst (encode_rune r)) rs))
  | None => None
  end.

Section Elab.
Variable ucd : ucd_table.
Variable rules : nat -> rinfo.          (* the rule table at this point of grammar construction *)
Variable self : option nat.             (* the rule currently being encoded, if any *)

Definition encoding (r : nat) : bool := match self with Some s => Nat.eqb s r | None => false end.

Definition elab_str (dosp : spacefn) (s : list N) (st : est) : err (pexp * est) :=
  do (sk, st1) <- skip dosp (match s with [] => 0 | _ => E end) L st;
  let m := top st1 in
  if negb (N.land m C =? 0) then
    match s with
    | [b] =>
        match query ucd b with
        | None => Err e_table
        | Some rec =>
          if has (rec_props rec) ptype_Ascii then
            if has (rec_props rec) ptype_Alphabetic then
              match tocasefold ucd b with
              | Some f => OK (seqp sk (PInstr (IMatchSet (sort_and_optimize (push_rune (push_rune rs_empty b) f)))), st1)
              | None => Err e_table
              end
            else OK (seqp sk (PInstr (IMatchOctet b)), st1)
          else match utf8_tocasefold ucd s with Some f => OK (seqp sk (PInstr (IMatchCf f)), st1) | None => Err e_table end
        end
    | _ => match utf8_tocasefold ucd s with Some f => OK (seqp sk (PInstr (IMatchCf f)), st1) | None => Err e_table end
    end
  else match s with
       | [b] => OK (seqp sk (PInstr (IMatchOctet b)), st1)
       | _ => OK (seqp sk (PInstr (IMatch s)), st1)
       end.

Definition elab_range (dosp : spacefn) (a b : N) (st : est) : err (pexp * est) :=
  if b <? a then Err e_bad_range else
  let r := if negb (N.land (top st) C =? 0) then push_casefolded_range ucd rs_empty a b else push_range rs_empty a b in
  match r with
  | RsOk s => do (sk, st1) <- skip dosp E L st; OK (seqp sk (PInstr (IMatchSet (sort_and_optimize s))), st1)
  | RsBadRange => Err e_bad_range
  | RsIndex => Err e_table
  end.

Definition elab_call (dosp : spacefn) (r : nat) (prec : N) (st : est) : err (pexp * est) :=
  let ri := rules r in
  if can_inline ri prec (encoding r)
  then do (sk, st1) <- skip dosp (r_entry ri) Nn st; OK (seqp sk (PInline r (r_body ri)), st1)
  else let callee_mode := top st in
       do (sk, st1) <- skip dosp (N.lxor (r_entry ri) E) Nn st; OK (seqp sk (PCall r prec callee_mode), st1).

Fixpoint elab (dosp : spacefn) (e : expr) (st : est) {struct e} : err (pexp * est) :=
  match e with
  | EStr s => elab_str dosp s st
  | EAny => do (sk, st1) <- skip dosp E L st; OK (seqp sk (PInstr (IMatchAny 0)), st1)
  | EEps => do (sk, st1) <- skip dosp L L st; OK (seqp sk (PInstr (IMatch [])), st1)
  | ENop => OK (PEmpty, st)
  | EEoi => OK (PEoi, st)
  | EEol => do (sk, st1) <- skip dosp L L st; OK (seqp sk (PInstr IMatchEol), st1)
  | ECut => OK (PInstr (IAccept 2), st)
  | EAccept => OK (PInstr (IAccept 1), st)
  | EClass k penum mask => do (sk, st1) <- skip dosp E L st; OK (seqp sk (PInstr (IMatchClass k penum mask)), st1)
  | ERange a b => elab_range dosp a b st
  | ERef r => elab_call dosp r 0 st
  | EPrec r k => elab_call dosp r k st
  | ESeq a b => do (pa, st1) <- elab dosp a st; do (pb, st2) <- elab dosp b st1; OK (seqp pa pb, st2)
  | EAlt a b => do (pa, st1) <- elab dosp a st; do (pb, st2) <- elab dosp b st1; OK (PAlt pa pb, st2)
  | EStar a => do (pa, st1) <- elab dosp a st; OK (PStar pa, st1)
  | ENot a => do (pa, st1) <- elab dosp a st; OK (PNot pa, st1)
  | EAnd a => do (pa, st1) <- elab dosp a st; OK (PAnd pa, st1)
  | ERep n m a => do (pa, st1) <- elab dosp a st; OK (PRep n m pa, st1)
  | EDir en dis relay a =>
      do (pa, st1) <- elab dosp a (dpsh en dis st);
      do (sk, st2) <- dpop dosp relay st1;
      OK (seqp pa sk, st2)
  | EAct id a => do (pa, st1) <- elab dosp a st; OK (seqp pa (PInstr (IAction id)), st1)
  | ECap id a =>
      do (sk, st1) <- skip dosp E L st; do (pa, st2) <- elab dosp a st1;
      OK (seqp sk (PWrap ICaptureStart pa (ICaptureEnd id)), st2)
  | ESym nm a =>
      do (sk, st1) <- skip dosp E L st; do (pa, st2) <- elab dosp a st1;
      OK (seqp sk (PWrap (ISymbolStart nm) pa ISymbolEnd), st2)
  | EBlock a =>
      do (sk, st1) <- skip dosp E L st; do (pa, st2) <- elab dosp a st1;
      OK (seqp sk (PWrap (ISymbolPush 0 []) pa ISymbolPop), st2)
  | ELocal a =>
      do (sk, st1) <- skip dosp E L st; do (pa, st2) <- elab dosp a st1;
      OK (seqp sk (PWrap (ISymbolPush 2 []) pa ISymbolPop), st2)
  | ELocalTo nm a =>
      do (sk, st1) <- skip dosp E L st; do (pa, st2) <- elab dosp a st1;
      OK (seqp sk (PWrap (ISymbolPush 1 nm) pa ISymbolPop), st2)
  | ECond v nm a => do (pa, st1) <- elab dosp a st; OK (PWrap (IConditionPush nm v) pa IConditionPop, st1)
  | EWhen v nm => OK (PInstr (IConditionTest nm v), st)
  | EExists v nm => OK (PInstr (ISymbolExists nm v), st)
  | EMatchSym k nm idx =>
      do (sk, st1) <- skip dosp E L st;
      OK (seqp sk (PInstr (ISymbolMatch k (negb (N.land (top st1) C =? 0)) nm idx)), st1)
  | EExpect a l => do (pa, st1) <- elab dosp a st; OK (PAlt pa (PInstr (IRaise l false)), st1)
  | EExpectRule a l r => do (pa, st1) <- elab dosp a st; OK (PAlt pa (PRaiseRule l r (top st1)), st1)
  | EExpectExpr a l rec =>
      do (pa, st1) <- elab dosp a st; do (pr, st2) <- elab dosp rec st1; OK (PAlt pa (PRaiseExpr l pr), st2)
  | ERaise l => OK (PInstr (IRaise l false), st)
  | ERaiseRule l r => OK (PRaiseRule l r (top st), st)
  | ERaiseExpr l rec => do (pr, st1) <- elab dosp rec st; OK (PRaiseExpr l pr, st1)
  | ERecRule r a => do (pa, st1) <- elab dosp a st; OK (PRecRule r (top st) pa, st1)
  | ERecExpr rec a => do (pa, st1) <- elab dosp a st; do (pr, st2) <- elab dosp rec st1; OK (PRecExpr pr pa, st2)
  | EReport h a => do (pa, st1) <- elab dosp a st; OK (PWrap (IReportPush h) pa IReportPop, st1)
  | EResp r => OK (PInstr (IRecoverResp r), st)
  | EPred p => OK (PInstr (IPredicate p), st)
  (* surface forms that [desugar] removes: elaborated through their expansion's shape, never reached on desugared input *)
  | EPlus _ | EOpt _ | EList _ _ | ECased _ | ECaseless _ | ELexeme _ | ENoskip _ | ESkip _
  | ECutBefore _ | ECutAfter _ | ERespond _ _ => Err e_bad_string
  end.

End Elab.

Definition no_space : spacefn := fun _ => Err e_nested_space.
