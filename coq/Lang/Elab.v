(* Model of lug's encoder, part 1 (continued): elaboration of expressions through the mode machine of
   Lang/Core.v into the core tree. *)
From Coq Require Import NArith ZArith List Bool.
From Lug Require Import Gen.Consts Gen.UcdTables Utf8.Utf8Model Ucd.Lookup Ucd.RuneSet VM.Instr Lang.Expr.
From Lug Require Export Lang.Core.
From Lug Require Import Lang.Bre.
Import ListNotations.
Local Open Scope N_scope.

Section Elab.
Variable ucd : ucd_table.
Variable rules : nat -> rinfo.          (* the rule table at this point of grammar construction *)
Variable self : option nat.             (* the rule currently being encoded, if any *)

Definition encoding (r : nat) : bool := match self with Some s => Nat.eqb s r | None => false end.

Definition elab_str (dosp : spacefn) (s : list N) (st : est) : err (pexp * est) :=
  do (sk, st1) <- skip dosp (match s with [] => 0 | _ => E end) L st;
  let m := top st1 in
  if negb (N.land m C =? 0) then
    match s with
    | [b] =>
        match query ucd b with
        | None => Err e_table
        | Some rec =>
          if has (rec_props rec) ptype_Ascii then
            if has (rec_props rec) ptype_Alphabetic then
              match tolower ucd b, toupper ucd b with
              | Some l, Some u => OK (seqp sk (PInstr (IMatchSet (sort_and_optimize (push_rune (push_rune (push_rune rs_empty b) l) u)))), st1)
              | _, _ => Err e_table
              end
            else OK (seqp sk (PInstr (IMatchOctet b)), st1)
          else match utf8_tocasefold ucd s with Some f => OK (seqp sk (PInstr (IMatchCf f)), st1) | None => Err e_table end
        end
    | _ => match utf8_tocasefold ucd s with Some f => OK (seqp sk (PInstr (IMatchCf f)), st1) | None => Err e_table end
    end
  else match s with
       | [b] => OK (seqp sk (PInstr (IMatchOctet b)), st1)
       | _ => OK (seqp sk (PInstr (IMatch s)), st1)
       end.

Definition elab_range (dosp : spacefn) (a b : N) (st : est) : err (pexp * est) :=
  if b <? a then Err e_bad_range else
  let r := if negb (N.land (top st) C =? 0) then push_casefolded_range ucd rs_empty a b else push_range rs_empty a b in
  match r with
  | RsOk s => do (sk, st1) <- skip dosp E L st; OK (seqp sk (PInstr (IMatchSet (sort_and_optimize s))), st1)
  | RsBadRange => Err e_bad_range
  | RsIndex => Err e_table
  end.

Definition elab_call (dosp : spacefn) (r : nat) (prec : N) (st : est) : err (pexp * est) :=
  let ri := rules r in
  if can_inline ri prec (encoding r)
  then do (sk, st1) <- skip dosp (r_entry ri) Nn st; OK (seqp sk (PInline r (r_body ri)), st1)
  else let callee_mode := top st in
       do (sk, st1) <- skip dosp (N.lxor (r_entry ri) E) Nn st; OK (seqp sk (PCall r prec callee_mode), st1).

Fixpoint elab (dosp : spacefn) (e : expr) (st : est) {struct e} : err (pexp * est) :=
  match e with
  | EStr s => elab_str dosp s st
  | EAny => do (sk, st1) <- skip dosp E L st; OK (seqp sk (PInstr (IMatchAny 0)), st1)
  | EEps => do (sk, st1) <- skip dosp L L st; OK (seqp sk (PInstr (IMatch [])), st1)
  | ENop => OK (PEmpty, st)
  | EEoi => OK (PEoi, st)
  | EEol => do (sk, st1) <- skip dosp L L st; OK (seqp sk (PInstr IMatchEol), st1)
  | ECut => OK (PInstr (IAccept 2), st)
  | EAccept => OK (PInstr (IAccept 1), st)
  | EClass k penum mask => do (sk, st1) <- skip dosp E L st; OK (seqp sk (PInstr (IMatchClass k penum mask)), st1)
  | ERange a b => elab_range dosp a b st
  | ERef r => elab_call dosp r 0 st
  | EPrec r k => elab_call dosp r k st
  | ESeq a b => do (pa, st1) <- elab dosp a st; do (pb, st2) <- elab dosp b st1; OK (seqp pa pb, st2)
  | EAlt a b => do (pa, st1) <- elab dosp a st; do (pb, st2) <- elab dosp b st1; OK (PAlt pa pb, st2)
  | EStar a => do (pa, st1) <- elab dosp a st; OK (PStar pa, st1)
  | ENot a => do (pa, st1) <- elab dosp a st; OK (PNot pa, st1)
  | EAnd a => do (pa, st1) <- elab dosp a st; OK (PAnd pa, st1)
  | ERep n m a => do (pa, st1) <- elab dosp a st; OK (PRep n m pa, st1)
  | EDir en dis relay a =>
      do (pa, st1) <- elab dosp a (dpsh en dis st);
      do (sk, st2) <- dpop dosp relay st1;
      OK (seqp pa sk, st2)
  | EAct id a => do (pa, st1) <- elab dosp a st; OK (seqp pa (PInstr (IAction id)), st1)
  | ECap id a =>
      do (sk, st1) <- skip dosp E L st; do (pa, st2) <- elab dosp a st1;
      OK (seqp sk (PWrap ICaptureStart pa (ICaptureEnd id)), st2)
  | ESym nm a =>
      do (sk, st1) <- skip dosp E L st; do (pa, st2) <- elab dosp a st1;
      OK (seqp sk (PWrap (ISymbolStart nm) pa ISymbolEnd), st2)
  | EBlock a =>
      do (sk, st1) <- skip dosp E L st; do (pa, st2) <- elab dosp a st1;
      OK (seqp sk (PWrap (ISymbolPush 0 []) pa ISymbolPop), st2)
  | ELocal a =>
      do (sk, st1) <- skip dosp E L st; do (pa, st2) <- elab dosp a st1;
      OK (seqp sk (PWrap (ISymbolPush 2 []) pa ISymbolPop), st2)
  | ELocalTo nm a =>
      do (sk, st1) <- skip dosp E L st; do (pa, st2) <- elab dosp a st1;
      OK (seqp sk (PWrap (ISymbolPush 1 nm) pa ISymbolPop), st2)
  | ECond v nm a => do (pa, st1) <- elab dosp a st; OK (PWrap (IConditionPush nm v) pa IConditionPop, st1)
  | EWhen v nm => OK (PInstr (IConditionTest nm v), st)
  | EExists v nm => OK (PInstr (ISymbolExists nm v), st)
  | EMatchSym k nm idx =>
      do (sk, st1) <- skip dosp E L st;
      OK (seqp sk (PInstr (ISymbolMatch k (negb (N.land (top st1) C =? 0)) nm idx)), st1)
  | EExpect a l => do (pa, st1) <- elab dosp a st; OK (PAlt pa (PInstr (IRaise l false)), st1)
  | EExpectRule a l r => do (pa, st1) <- elab dosp a st; OK (PAlt pa (PRaiseRule l r (top st1)), st1)
  | EExpectExpr a l rec =>
      do (pa, st1) <- elab dosp a st; do (pr, st2) <- elab dosp rec st1; OK (PAlt pa (PRaiseExpr l pr), st2)
  | ERaise l => OK (PInstr (IRaise l false), st)
  | ERaiseRule l r => OK (PRaiseRule l r (top st), st)
  | ERaiseExpr l rec => do (pr, st1) <- elab dosp rec st; OK (PRaiseExpr l pr, st1)
  | ERecRule r a => do (pa, st1) <- elab dosp a st; OK (PRecRule r (top st) pa, st1)
  | ERecExpr rec a => do (pa, st1) <- elab dosp a st; do (pr, st2) <- elab dosp rec st1; OK (PRecExpr pr pa, st2)
  | EReport h a => do (pa, st1) <- elab dosp a st; OK (PWrap (IReportPush h) pa IReportPop, st1)
  | EResp r => OK (PInstr (IRecoverResp r), st)
  | EPred p => OK (PInstr (IPredicate p), st)
  | EBre pattern =>
      (* compiled once, in mode (caller's caseless bit) | eps | lexeme, then appended like an inlined program *)
      match compile_bre ucd (negb (N.land (top st) C =? 0)) pattern with
      | Err w => Err w
      | OK (pb, consumes) => do (sk, st1) <- skip dosp (if consumes then E else 0) L st; OK (seqp sk pb, st1)
      end
  (* surface forms that [desugar] removes: elaborated through their expansion's shape, never reached on desugared input *)
  | EPlus _ | EOpt _ | EList _ _ | ECased _ | ECaseless _ | ELexeme _ | ENoskip _ | ESkip _
  | ECutBefore _ | ECutAfter _ | ERespond _ _ => Err e_bad_string
  end.

End Elab.

Definition no_space : spacefn := fun _ => Err e_nested_space.
