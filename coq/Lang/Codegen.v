(* Model of lug's encoder, part 2: code generation from the core tree.  lug's jumps are relative, so
   the code of an expression is position independent and [cg] is a plain structural recursion. *)
From Coq Require Import NArith ZArith List Bool.
From Lug Require Import VM.Instr Lang.Expr Lang.Elab.
Import ListNotations.
Local Open Scope Z_scope.

Fixpoint rep_calls (k : nat) (first_addr : Z) : list tinstr :=
  (* k calls to the subroutine at relative address 1, the first of them sitting at [first_addr] *)
  match k with
  | O => []
  | S k' => TI (ICall (- first_addr) 0) :: rep_calls k' (first_addr + 1)
  end.

Fixpoint rep_opts (k : nat) (addr end_ : Z) : list tinstr :=
  (* k times: choice -> end; call subroutine; commit +0 *)
  match k with
  | O => []
  | S k' => TI (IChoice (end_ - addr - 1) false) :: TI (ICall (- (addr + 1)) 0) :: TI (ICommit 0) :: rep_opts k' (addr + 3) end_
  end.

Fixpoint cg (p : pexp) : list tinstr :=
  match p with
  | PEmpty => []
  | PInstr i => [TI i]
  | PSeq a b => cg a ++ cg b
  | PAlt a b => TI (IChoice (len (cg a) + 1) false) :: cg a ++ TI (ICommit (len (cg b))) :: cg b
  | PStar a => TI (IChoice (len (cg a) + 1) false) :: cg a ++ [TI (ICommitPartial (- (len (cg a) + 1)))]
  | PNot a => TI (IChoice (len (cg a) + 1) true) :: cg a ++ [TI (IFail 2)]
  | PAnd a => TI (IChoice (len (cg a) + 1) true) :: cg a ++ [TI (ICommitBack 1); TI (IFail 1)]
  | PEoi => [TI (IChoice 2 false); TI (IMatchAny 1); TI (IFail 2)]
  | PRep n m a =>
      let la := len (cg a) in
      let nn := N.to_nat n in
      let k := (N.to_nat m - nn)%nat in
      let opt_start := la + 2 + Z.of_nat nn in
      TI (IJump (la + 1)) :: cg a ++ TI IRet :: rep_calls nn (la + 2) ++ rep_opts k opt_start (opt_start + 3 * Z.of_nat k)
  | PCall r prec mode => [TCall r prec mode]
  | PInline r body => cg body
  | PSkip sp => cg sp
  | PWrap pre a post => TI pre :: cg a ++ [TI post]
  | PRecRule r mode a => TRecRule r mode :: cg a ++ [TI IRecoverPop]
  | PRecExpr rec a =>
      TI (IRecoverPush (len (cg a) + 2)) :: cg a ++ TI IRecoverPop :: TI (IJump (len (cg rec) + 1)) :: cg rec ++ [TI IRet]
  | PRaiseRule l r mode => [TRecRule r mode; TI (IRaise l true)]
  | PRaiseExpr l rec =>
      TI (IRecoverPush 2) :: TI (IRaise l true) :: TI (IJump (len (cg rec) + 1)) :: cg rec ++ [TI IRet]
  | PNegSet body =>
      TI (IChoice (len (cg body) + 2) false) :: cg body ++ [TI (ICommit 0); TI (IFail 1); TI (IMatchAny 0)]
  end.

Definition is_object (t : tinstr) : bool :=
  match t with
  | TI (IMatchSet _) | TI (IAction _) | TI (ICaptureEnd _) | TI (IPredicate _) => true
  | _ => false
  end.
Definition is_callee (t : tinstr) : bool :=
  match t with TCall _ _ _ | TRecRule _ _ => true | _ => false end.

Definition rinfo_of (body : pexp) (entry_mode : N) : rinfo :=
  let code := cg body in
  {| r_body := body; r_len := N.of_nat (length code);
     r_objects := N.of_nat (length (filter is_object code));
     r_has_callees := existsb is_callee code;
     r_entry := entry_mode; r_defined := true |}.
