
val negb : bool -> bool

type nat =
| O
| S of nat

val fst : ('a1 * 'a2) -> 'a1

val snd : ('a1 * 'a2) -> 'a2

val length : 'a1 list -> nat

val app : 'a1 list -> 'a1 list -> 'a1 list

type comparison =
| Eq
| Lt
| Gt

val add : nat -> nat -> nat

val sub : nat -> nat -> nat

val max : nat -> nat -> nat

type positive =
| XI of positive
| XO of positive
| XH

type n =
| N0
| Npos of positive

type z =
| Z0
| Zpos of positive
| Zneg of positive

module Pos :
 sig
  type mask =
  | IsNul
  | IsPos of positive
  | IsNeg
 end

module Coq_Pos :
 sig
  val succ : positive -> positive

  val add : positive -> positive -> positive

  val add_carry : positive -> positive -> positive

  val pred_double : positive -> positive

  type mask = Pos.mask =
  | IsNul
  | IsPos of positive
  | IsNeg

  val succ_double_mask : mask -> mask

  val double_mask : mask -> mask

  val double_pred_mask : positive -> mask

  val sub_mask : positive -> positive -> mask

  val sub_mask_carry : positive -> positive -> mask

  val mul : positive -> positive -> positive

  val iter : ('a1 -> 'a1) -> 'a1 -> positive -> 'a1

  val pow : positive -> positive -> positive

  val compare_cont : comparison -> positive -> positive -> comparison

  val compare : positive -> positive -> comparison

  val eqb : positive -> positive -> bool

  val coq_Nsucc_double : n -> n

  val coq_Ndouble : n -> n

  val coq_lor : positive -> positive -> positive

  val coq_land : positive -> positive -> n

  val shiftl : positive -> n -> positive

  val iter_op : ('a1 -> 'a1 -> 'a1) -> positive -> 'a1 -> 'a1

  val to_nat : positive -> nat

  val of_succ_nat : nat -> positive
 end

module N :
 sig
  val succ_double : n -> n

  val double : n -> n

  val succ_pos : n -> positive

  val add : n -> n -> n

  val sub : n -> n -> n

  val compare : n -> n -> comparison

  val eqb : n -> n -> bool

  val leb : n -> n -> bool

  val ltb : n -> n -> bool

  val min : n -> n -> n

  val max : n -> n -> n

  val div2 : n -> n

  val pow : n -> n -> n

  val pos_div_eucl : positive -> n -> n * n

  val div_eucl : n -> n -> n * n

  val modulo : n -> n -> n

  val coq_lor : n -> n -> n

  val coq_land : n -> n -> n

  val shiftl : n -> n -> n

  val shiftr : n -> n -> n

  val to_nat : n -> nat

  val of_nat : nat -> n
 end

val nth : nat -> 'a1 list -> 'a1 -> 'a1

val nth_error : 'a1 list -> nat -> 'a1 option

val last : 'a1 list -> 'a1 -> 'a1

val existsb : ('a1 -> bool) -> 'a1 list -> bool

val firstn : nat -> 'a1 list -> 'a1 list

val skipn : nat -> 'a1 list -> 'a1 list

val repeat : 'a1 -> nat -> 'a1 list

module Z :
 sig
  val double : z -> z

  val succ_double : z -> z

  val pred_double : z -> z

  val pos_sub : positive -> positive -> z

  val add : z -> z -> z

  val opp : z -> z

  val sub : z -> z -> z

  val abs_N : z -> n

  val of_N : n -> z
 end

val dfa_class_table : n list

val dfa_transition_table : n list

val st_accept : n

val st_reject : n

val utf32_replacement : n

val nthN : n list -> n -> n -> n

val two32 : n

val decode_rune_octet : n -> n -> n -> n * n

val is_lead_or_ascii : n -> bool

val skip_trail : n list -> nat

val decode_loop : n list -> n -> n -> nat -> nat * n

val decode_rune : n list -> nat * n

val decode_all_fuel : nat -> n list -> n list

val decode_all : n list -> n list

module PositiveMap :
 sig
  type key = positive

  type 'a tree =
  | Leaf
  | Node of 'a tree * 'a option * 'a tree

  type 'a t = 'a tree

  val empty : 'a1 t

  val find : key -> 'a1 t -> 'a1 option

  val add : key -> 'a1 -> 'a1 t -> 'a1 t
 end

val rlestage1_width : n

val rlestage1 : n list

val rlestage2_width : n

val rlestage2 : n list

val rlepflagindices_width : n

val rlepflagindices : n list

val rlecflagindices_width : n

val rlecflagindices : n list

val rleabfields_width : n

val rleabfields : n list

val rlegcindices_width : n

val rlegcindices : n list

val rlescindices_width : n

val rlescindices : n list

val rlewfields_width : n

val rlewfields : n list

val rlecfindices_width : n

val rlecfindices : n list

val rleclindices_width : n

val rleclindices : n list

val rlecuindices_width : n

val rlecuindices : n list

val pflags : n list

val cflags : n list

val stage1_size : n

val stage2_size : n

val records_size : n

val invalid_record_index : n

val rune_limit : n

val stage1_shift : n

val stage2_shift : n

val stage2_mask : n

val cw_shift : n

val ptype_Line_Ending : n

val ilseqcode : n -> n

val seqmask : n -> n

val is_run : n -> n -> bool

val run_len : n -> n -> n

val repeatN : n -> 'a1 -> 'a1 list

val concat_rep : nat -> 'a1 list -> 'a1 list

val rle_decode_fuel : nat -> n -> n list -> n list option

val rle_decode : n -> n list -> n list option

type tbl = n PositiveMap.t

val tbl_of_list_from : positive -> n list -> tbl -> tbl

val tbl_of_list : n list -> tbl

val tget : tbl -> n -> n option

val fill_array : n -> n list option -> n list option

val dec_stage1 : n list option

val dec_stage2 : n list option

val dec_pfi : n list option

val dec_cfi : n list option

val dec_ab : n list option

val dec_gc : n list option

val dec_sc : n list option

val dec_w : n list option

val dec_cf : n list option

val dec_cl : n list option

val dec_cu : n list option

type raw_record = { pflags_ : n; cflags_ : n; abfields : n; gcindex : 
                    n; scindex : n; wfields : n; cfindex : n; clindex : 
                    n; cuindex : n }

val opt_nth : n list -> n -> n option

type ucd_table = { t_stage1 : tbl; t_stage2 : tbl;
                   t_records : raw_record PositiveMap.t; t_nrecords : 
                   n }

val zip_records :
  n list -> n list -> n list -> n list -> n list -> n list -> n list -> n
  list -> n list -> raw_record list option

val rtbl_of_list_from :
  positive -> raw_record list -> raw_record PositiveMap.t -> raw_record
  PositiveMap.t

val records_list : raw_record list option

val decompress_table : ucd_table option

val query_index : ucd_table -> n -> n option

val record_at : ucd_table -> n -> raw_record option

val query : ucd_table -> n -> raw_record option

val rec_props : raw_record -> n

val rec_cwidth : raw_record -> z

val has : n -> n -> bool

val cwidth : ucd_table -> n -> z option

val ucwidth : ucd_table -> n -> n option

val default_tab_width : n

val default_tab_alignment : n

type pos = { p_line : n; p_col : n }

type pstate = { ps_match : n list; ps_origin : pos;
                ps_cache : (n * pos) list; ps_tabw : n; ps_taba : n;
                ps_reset : bool }

val init_state : n -> n -> pstate

val default_state : pstate

val lower_bound : (n * pos) list -> n -> (n * pos) list * (n * pos) list

val scan_lines :
  ucd_table -> nat -> n list -> n -> pos -> n list -> (pos * n list) option

val tab_column : n -> n -> n -> n

val scan_cols : ucd_table -> n -> n -> nat -> n list -> n -> n option

val with_cache : pstate -> (n * pos) list -> pstate

val cache_lookup : (n * pos) list -> n -> pos option

val compute_position : ucd_table -> pstate -> (n * pos) -> n -> pos option

val position_at : ucd_table -> pstate -> n -> (pos * pstate) option

val set_match : pstate -> n list -> pstate

val with_origin : pstate -> pos -> pstate

val drain : ucd_table -> pstate -> pstate option

val reset : ucd_table -> pstate -> pstate option

val set_reset_flag : pstate -> bool -> pstate

type op =
| OText of n list
| OQuery of n
| ODrain
| OReset
| OFlag of bool

val step : ucd_table -> pstate -> op -> (pstate * pos list) option

val run : ucd_table -> pstate -> op list -> (pstate * pos list) option

val is_line_ending : n -> bool

val head_is_lf : n list -> bool

val count_line_endings : n list -> n

val has_line_ending : n list -> bool

val current_line : n list -> n list

val tab_stop : n -> n -> n -> n

val advance : ucd_table -> n -> n -> n -> n -> n option

val columns : ucd_table -> n -> n -> n list -> n -> n option

val spec_runes : ucd_table -> n -> n -> pos -> n list -> pos option

val spec_pos : ucd_table -> n -> n -> pos -> n list -> n -> pos option
