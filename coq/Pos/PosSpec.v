(* C11 -- "Line and column reports are a pure function of the text seen so far".
   The specification is written from the property text, not from the code:

     position_at and the position_* helpers return, for every character boundary of the text consumed
     since the environment was created, the line (counting each Unicode line ending, CR LF as one) and
     the column (display width of the preceding characters on that line, tabs advancing to the
     configured stop) of that offset.  The answer does not depend on which positions were queried
     before, in which order, on whether input was released by cut in between, or on how the text was
     split across successive parse() calls.

   [spec_pos] is a function of (tab settings, text, offset) only: it decodes the characters before the
   offset and reads line and column off that list.  The statements then say that the model of the
   library (Pos/PosModel.v), run over an arbitrary history of operations, answers [spec_pos] of all
   the text it has seen. *)
From Coq Require Import NArith List Bool.
From Lug Require Import Gen.UcdTables Utf8.Utf8Model Utf8.Utf8Spec Ucd.Lookup Ucd.UcdSpec Pos.PosModel.
Import ListNotations.
Local Open Scope N_scope.

(* ------------------------------------------------------------------------------------------------ *)
(* The specification                                                                                 *)
(* ------------------------------------------------------------------------------------------------ *)

(* Line endings are LF, VT, FF, CR, NEL (U+0085), LS (U+2028), PS (U+2029): [is_line_ending] of
   Ucd/UcdSpec.v.  CR immediately followed by LF is one line ending: the CR of such a pair does not
   count (the LF does). *)
Definition head_is_lf (rs : list N) : bool := match rs with r :: _ => r =? 10 | [] => false end.

Fixpoint count_line_endings (rs : list N) : N :=
  match rs with
  | [] => 0
  | r :: rest =>
      (if is_line_ending r && negb ((r =? 13) && head_is_lf rest) then 1 else 0) + count_line_endings rest
  end.

Definition has_line_ending (rs : list N) : bool := existsb is_line_ending rs.

(* the characters after the last line ending *)
Fixpoint current_line (rs : list N) : list N :=
  match rs with
  | [] => []
  | r :: rest => if has_line_ending rest then current_line rest
                 else if is_line_ending r then rest else r :: rest
  end.

(* a tab moves tab_width columns on and then back to the alignment grid (columns 1, 1+a, 1+2a, ...),
   but never backwards *)
Definition tab_stop (tw ta col : N) : N :=
  let n := col + tw in N.max col (n - (n - 1) mod ta).

Definition advance (t : ucd_table) (tw ta col r : N) : option N :=
  if r =? 9 then Some (tab_stop tw ta col)
  else match ucwidth t r with Some w => Some (col + w) | None => None end.

Fixpoint columns (t : ucd_table) (tw ta : N) (rs : list N) (col : N) : option N :=
  match rs with
  | [] => Some col
  | r :: rest => match advance t tw ta col r with
                 | Some c => columns t tw ta rest c
                 | None => None
                 end
  end.

(* position after the characters [rs], for a text that starts at [origin] *)
Definition spec_runes (t : ucd_table) (tw ta : N) (origin : pos) (rs : list N) : option pos :=
  match columns t tw ta (current_line rs) (if has_line_ending rs then 1 else p_col origin) with
  | Some c => Some (mkpos (p_line origin + count_line_endings rs) c)
  | None => None
  end.

(* position of byte offset [offset] (a character boundary) of [text].  None: offset beyond the text, or
   a table lookup failed (does not happen on the shipped tables). *)
Definition spec_pos (t : ucd_table) (tw ta : N) (origin : pos) (text : list N) (offset : N) : option pos :=
  if N.of_nat (length text) <? offset then None
  else spec_runes t tw ta origin (decode_all (firstn (N.to_nat offset) text)).

(* ------------------------------------------------------------------------------------------------ *)
(* Histories                                                                                         *)
(* ------------------------------------------------------------------------------------------------ *)

(* "all texts": lists of Unicode scalar values, in UTF-8 (encode_rune is proved by C13 to produce the
   unique well-formed encoding).  Character boundaries of a text are then the lengths of the
   encodings of its prefixes. *)
Definition enc (r : N) : list N := fst (encode_rune r).
Definition encs (rs : list N) : list N := flat_map enc rs.
Definition scalars (rs : list N) : Prop := Forall (fun r => is_scalar r = true) rs.
(* byte offset of the boundary after the first j characters of the segment *)
Definition boff (seg : list N) (j : nat) : N := N.of_nat (length (encs (firstn j seg))).

(* what can happen to an environment, at the level of characters *)
Inductive hop :=
| HText (rs : list N)     (* the parser consumed these characters (the segment's match grows) *)
| HQuery (j : nat)        (* position_at(the boundary after the first j characters of the current segment) *)
| HDrain                  (* input released by a cut *)
| HReset                  (* a new parse() call *)
| HFlag (b : bool).       (* should_reset_on_parse(b) *)

(* the same history as operations of the model; [seg] = characters of the current segment so far,
   [flag] = should_reset_on_parse *)
Fixpoint lower (seg : list N) (flag : bool) (h : list hop) : list op :=
  match h with
  | [] => []
  | HText rs :: h' => OText (encs rs) :: lower (seg ++ rs) flag h'
  | HQuery j :: h' => OQuery (boff seg j) :: lower seg flag h'
  | HDrain :: h' => ODrain :: lower [] flag h'
  | HReset :: h' => OReset :: lower (if flag then [] else seg) flag h'
  | HFlag b :: h' => OFlag b :: lower seg b h'
  end.

(* what the property demands of every query: the position, in the text seen since the environment
   was created ([done] = characters of the segments already released), of that offset *)
Fixpoint expected (t : ucd_table) (tw ta : N) (done seg : list N) (flag : bool) (h : list hop) : list (option pos) :=
  match h with
  | [] => []
  | HText rs :: h' => expected t tw ta done (seg ++ rs) flag h'
  | HQuery j :: h' =>
      spec_pos t tw ta (mkpos 1 1) (encs (done ++ seg)) (N.of_nat (length (encs done)) + boff seg j)
      :: expected t tw ta done seg flag h'
  | HDrain :: h' => expected t tw ta (done ++ seg) [] flag h'
  | HReset :: h' => if flag then expected t tw ta (done ++ seg) [] flag h' else expected t tw ta done seg flag h'
  | HFlag b :: h' => expected t tw ta done seg b h'
  end.

(* well-formed histories: texts are scalar values, queries stay inside the current segment *)
Fixpoint hvalid (seg : list N) (flag : bool) (h : list hop) : Prop :=
  match h with
  | [] => True
  | HText rs :: h' => scalars rs /\ hvalid (seg ++ rs) flag h'
  | HQuery j :: h' => (j <= length seg)%nat /\ hvalid seg flag h'
  | HDrain :: h' => hvalid [] flag h'
  | HReset :: h' => hvalid (if flag then [] else seg) flag h'
  | HFlag b :: h' => hvalid seg b h'
  end.

(* ------------------------------------------------------------------------------------------------ *)
(* Statements                                                                                        *)
(* ------------------------------------------------------------------------------------------------ *)

Fixpoint ssorted (l : list N) : Prop :=
  match l with
  | [] => True
  | a :: r => Forall (fun b => a < b) r /\ ssorted r
  end.
Definition cache_sorted (s : pstate) : Prop := ssorted (map fst (ps_cache s)).

(* (a) whatever is done to an environment (any operations, any bytes, any indices), its cache stays
   strictly sorted by index; a fresh environment has an empty cache.  This is what makes the linear
   [lower_bound] of the model equal to std::lower_bound. *)
Definition stmt_C11_cache_sorted : Prop :=
  forall t s ops s' ans, cache_sorted s -> run t s ops = Some (s', ans) -> cache_sorted s'.

(* (b) asking again gives the same answer and changes nothing *)
Definition stmt_C11_cache_hit : Prop :=
  forall t s i p s', position_at t s i = Some (p, s') -> position_at t s' i = Some (p, s').

(* (c) The property: after ANY history -- any texts (CR LF pairs included, wherever appends, queries, drains
   and resets split them), any mix of line endings, tabs, wide and zero-width characters, any query order,
   any placement of drains and resets and should_reset_on_parse toggles, any tab settings with alignment
   >= 1 -- every answer is [spec_pos] of all the text seen so far. *)
Definition stmt_C11_history_independent : Prop :=
  forall t, decompress_table = Some t ->
  forall tw ta h, 1 <= ta -> hvalid [] true h ->
    exists s ans, run t (init_state tw ta) (lower [] true h) = Some (s, ans) /\
                  map Some ans = expected t tw ta [] [] true h.

(* (d) two readable special cases.  First: no history is needed to get the right answer. *)
Definition stmt_C11_single_query : Prop :=
  forall t, decompress_table = Some t ->
  forall tw ta rs j, 1 <= ta -> scalars rs -> (j <= length rs)%nat ->
    exists s ans, run t (init_state tw ta) [OText (encs rs); OQuery (boff rs j)] = Some (s, ans) /\
                  map Some ans = [spec_pos t tw ta (mkpos 1 1) (encs rs) (boff rs j)].

(* Second: the answer to a query does not depend on which queries were made before. *)
Definition queries (rs : list N) (js : list nat) : list op := map (fun j => OQuery (boff rs j)) js.
Definition stmt_C11_query_order_independent : Prop :=
  forall t, decompress_table = Some t ->
  forall tw ta rs js1 js2 j, 1 <= ta -> scalars rs ->
    Forall (fun k => (k <= length rs)%nat) js1 -> Forall (fun k => (k <= length rs)%nat) js2 -> (j <= length rs)%nat ->
    forall s1 a1 s2 a2,
      run t (init_state tw ta) (OText (encs rs) :: queries rs js1 ++ [OQuery (boff rs j)]) = Some (s1, a1) ->
      run t (init_state tw ta) (OText (encs rs) :: queries rs js2 ++ [OQuery (boff rs j)]) = Some (s2, a2) ->
      last a1 (mkpos 0 0) = last a2 (mkpos 0 0).

(* (e) the hypotheses are satisfiable by histories that split CR LF pairs every way: the text
   "a CR LF b CR LF c" with a query and a drain between the first CR and its LF, then queries (in
   descending and ascending order) between the second CR and its LF, after it, and after the first pair.
   The answers the property demands are spelled out. *)
Definition example_history : list hop :=
  [HText [97; 13]; HQuery 2; HDrain; HText [10; 98; 13; 10; 99]; HQuery 4; HQuery 3; HQuery 5; HQuery 1].
Definition stmt_C11_example : Prop :=
  hvalid [] true example_history /\
  forall t, decompress_table = Some t ->
    expected t 8 8 [] [] true example_history =
      map Some [mkpos 2 1; mkpos 3 1; mkpos 3 1; mkpos 3 2; mkpos 2 1] /\
    exists s, run t (init_state 8 8) (lower [] true example_history) =
      Some (s, [mkpos 2 1; mkpos 3 1; mkpos 3 1; mkpos 3 2; mkpos 2 1]).
