(* Model of the position bookkeeping of lug::environment (include/lug/lug.hpp, class environment):
   positions_, match_, origin_, tab_width_, tab_alignment_, should_reset_on_parse_, position_at(),
   set_match_and_subject(), drain(), reset().  The parser is not needed: the environment only ever sees
   the text of the current segment (match_) grow, and is told to drop it (drain/reset).

   The model mirrors the code *as it is*: the sorted cache, the restart from the previous cache entry,
   the two loops of position_at (first: count line endings and remember where the last line starts,
   second: add up the display widths from there), `prevrune` starting as CR exactly when the byte before
   the starting point of the scan is CR (the byte match_[startindex - 1], or, at the beginning of the
   segment, the remembered origin_follows_cr_), and rebase_origin() which moves the origin to the end
   of the segment and remembers whether the segment ended in CR.  No proofs here.

   Conventions / limits of the model
   - numbers are N (the code uses std::size_t for line/column/index and uint_least32 for the tab
     settings); a column would have to exceed 2^64 to make a difference.
   - `% tab_alignment_` with tab_alignment_ = 0 is undefined behaviour in C++; the model is meaningful
     for alignment >= 1 only (N.modulo by 0 returns the dividend) and every statement about the
     library assumes 1 <= alignment.
   - position_at(index) with index > match_.size() forms an iterator past the end (undefined
     behaviour): the model answers None.
   - std::lower_bound on the cache is modelled by a linear scan for the first entry whose index is not
     below the argument; on a vector sorted by index (C11_cache_sorted) the two coincide.
   - None is also the answer when a table lookup leaves its array (cannot happen on the shipped
     tables: C14_indices_in_range) or when decode_rune would not advance (cannot happen: C13_progress);
     the loops are fuelled by the number of bytes to scan. *)
From Coq Require Import NArith List Bool.
From Lug Require Import Gen.UcdTables Gen.Consts Utf8.Utf8Model Ucd.Lookup.
Import ListNotations.
Local Open Scope N_scope.

(* syntax_position *)
Record pos := mkpos { p_line : N; p_col : N }.

Record pstate := mkps {
  ps_match : list N;              (* match_: the bytes consumed so far in the current segment *)
  ps_origin : pos;                (* origin_ *)
  ps_ofcr : bool;                 (* origin_follows_cr_ *)
  ps_cache : list (N * pos);      (* positions_ *)
  ps_tabw : N;                    (* tab_width_ *)
  ps_taba : N;                    (* tab_alignment_ *)
  ps_reset : bool                 (* should_reset_on_parse_ *)
}.

(* a freshly constructed environment: origin_{1, 1}, origin_follows_cr_{false}, nothing matched, empty cache *)
Definition init_state (tw ta : N) : pstate := mkps [] (mkpos 1 1) false [] tw ta true.
Definition default_state : pstate := init_state default_tab_width default_tab_alignment.

(* std::lower_bound(positions_, index, x.first < y): (entries before the result, entries from the result on) *)
Fixpoint lower_bound (c : list (N * pos)) (index : N) : list (N * pos) * list (N * pos) :=
  match c with
  | [] => ([], [])
  | e :: r => if fst e <? index
              then let '(b, a) := lower_bound r index in (e :: b, a)
              else ([], c)
  end.

(* first loop of position_at: result = (position, the part of the scanned range that starts at `first`) *)
Fixpoint scan_lines (t : ucd_table) (fuel : nat) (cur : list N) (prevrune : N) (p : pos) (first : list N)
  : option (pos * list N) :=
  match cur with
  | [] => Some (p, first)
  | _ :: _ =>
    match fuel with
    | O => None
    | S f =>
      let '(n, rune) := decode_rune cur in
      let next := skipn n cur in
      match query t rune with
      | None => None
      | Some r =>
        if has (rec_props r) ptype_Line_Ending
        then scan_lines t f next rune
               (mkpos (if negb ((prevrune =? 13) && (rune =? 10)) then p_line p + 1 else p_line p) 1) next
        else scan_lines t f next rune p first
      end
    end
  end.

(* the tab rule of the second loop *)
Definition tab_column (tw ta oldcolumn : N) : N :=
  let newcolumn := oldcolumn + tw in
  let alignedcolumn := newcolumn - ((newcolumn - 1) mod ta) in
  N.max (N.min newcolumn alignedcolumn) oldcolumn.

(* second loop of position_at *)
Fixpoint scan_cols (t : ucd_table) (tw ta : N) (fuel : nat) (cur : list N) (col : N) : option N :=
  match cur with
  | [] => Some col
  | _ :: _ =>
    match fuel with
    | O => None
    | S f =>
      let '(n, rune) := decode_rune cur in
      let next := skipn n cur in
      if rune =? 9 then scan_cols t tw ta f next (tab_column tw ta col)
      else match ucwidth t rune with
           | Some w => scan_cols t tw ta f next (col + w)
           | None => None
           end
    end
  end.

Definition with_cache (s : pstate) (c : list (N * pos)) : pstate :=
  mkps (ps_match s) (ps_origin s) (ps_ofcr s) c (ps_tabw s) (ps_taba s) (ps_reset s).

(* `if (pos != end && index == pos->first) return pos->second;` *)
Definition cache_lookup (after : list (N * pos)) (index : N) : option pos :=
  match after with
  | (i, p) :: _ => if i =? index then Some p else None
  | [] => None
  end.

(* initial value of prevrune: CR if (startindex > 0 ? the byte before `first` is CR : origin_follows_cr_), else 0 *)
Definition initial_prevrune (s : pstate) (startindex : N) : N :=
  if (if 0 <? startindex then nth (N.to_nat startindex - 1) (ps_match s) 0 =? 13 else ps_ofcr s) then 13 else 0.

(* the two loops of position_at, started at the cache entry (or origin) `start` = (startindex, position) *)
Definition compute_position (t : ucd_table) (s : pstate) (start : N * pos) (index : N) : option pos :=
  let '(startindex, position) := start in
  let sub := firstn (N.to_nat (index - startindex)) (skipn (N.to_nat startindex) (ps_match s)) in
  match scan_lines t (length sub) sub (initial_prevrune s startindex) position sub with
  | None => None
  | Some (position1, first) =>
    match scan_cols t (ps_tabw s) (ps_taba s) (length first) first (p_col position1) with
    | None => None
    | Some c => Some (mkpos (p_line position1) c)
    end
  end.

(* environment::position_at *)
Definition position_at (t : ucd_table) (s : pstate) (index : N) : option (pos * pstate) :=
  let '(before, after) := lower_bound (ps_cache s) index in
  match cache_lookup after index with
  | Some p => Some (p, s)
  | None =>
    if N.of_nat (length (ps_match s)) <? index then None
    else
      match compute_position t s (last before (0, ps_origin s)) index with
      | None => None
      | Some p => Some (p, with_cache s (before ++ (index, p) :: after))
      end
  end.

(* environment::set_match_and_subject (the subject plays no role for positions) *)
Definition set_match (s : pstate) (m : list N) : pstate :=
  mkps m (ps_origin s) (ps_ofcr s) [] (ps_tabw s) (ps_taba s) (ps_reset s).

Definition with_origin (s : pstate) (o : pos) (cr : bool) : pstate :=
  mkps (ps_match s) o cr (ps_cache s) (ps_tabw s) (ps_taba s) (ps_reset s).

(* environment::rebase_origin:
     origin_ = position_at(match_.size()); if (!match_.empty()) origin_follows_cr_ = (match_.back() == CR); *)
Definition rebase_origin (t : ucd_table) (s : pstate) : option pstate :=
  match position_at t s (N.of_nat (length (ps_match s))) with
  | Some (p, s') =>
      Some (with_origin s' p (match ps_match s' with [] => ps_ofcr s' | _ :: _ => last (ps_match s') 0 =? 13 end))
  | None => None
  end.

(* environment::drain: rebase_origin(); set_match_and_subject(sub.substr(0, 0), sub) *)
Definition drain (t : ucd_table) (s : pstate) : option pstate :=
  match rebase_origin t s with
  | Some s' => Some (set_match s' [])
  | None => None
  end.

(* environment::reset: the same, but only if should_reset_on_parse_ *)
Definition reset (t : ucd_table) (s : pstate) : option pstate :=
  if ps_reset s then drain t s else Some s.

Definition set_reset_flag (s : pstate) (b : bool) : pstate :=
  mkps (ps_match s) (ps_origin s) (ps_ofcr s) (ps_cache s) (ps_tabw s) (ps_taba s) b.

(* the operations the drivers (cpp/posdrv.cpp, ocaml/pos_driver.ml) replay *)
Inductive op :=
| OText (bs : list N)      (* the parser matched more of the segment: set_match_and_subject(match_ ++ bs, ..) *)
| OQuery (index : N)       (* position_at(index) *)
| ODrain
| OReset
| OFlag (b : bool).        (* should_reset_on_parse(b) *)

Definition step (t : ucd_table) (s : pstate) (o : op) : option (pstate * list pos) :=
  match o with
  | OText bs => Some (set_match s (ps_match s ++ bs), [])
  | OQuery i => match position_at t s i with Some (p, s') => Some (s', [p]) | None => None end
  | ODrain => match drain t s with Some s' => Some (s', []) | None => None end
  | OReset => match reset t s with Some s' => Some (s', []) | None => None end
  | OFlag b => Some (set_reset_flag s b, [])
  end.

(* a whole history: final state and the answers of the queries, in order *)
Fixpoint run (t : ucd_table) (s : pstate) (ops : list op) : option (pstate * list pos) :=
  match ops with
  | [] => Some (s, [])
  | o :: r =>
    match step t s o with
    | None => None
    | Some (s1, a1) =>
      match run t s1 r with
      | None => None
      | Some (s2, a2) => Some (s2, a1 ++ a2)
      end
    end
  end.
